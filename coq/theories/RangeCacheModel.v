(* RangeCacheModel.v -- C12's view of the range cache: which evaluations of `a..b` yield the SAME ObjRange box.
   Reuses the cache model of theories/RangeCache.v (owner: C16; vm.rs build_range, RANGE_CACHE_SIZE entries,
   first-in first-out replacement, a hit does not refresh the stamp).  Definitions only.

   `Value::ObjRange(a) == Value::ObjRange(b)` compares the addresses of the boxes, so two evaluations of the same
   range expression are `==` (and denote the same HashMap entry) exactly when the second evaluation still finds
   the first one's box in the cache, i.e. when fewer than RANGE_CACHE_SIZE DISTINCT other ranges were built in
   between (counting from the moment the box entered the cache).  Both evaluations hash equally in any case
   (the hash depends on the bounds only), so the map stays coherent; `==` itself is what depends on history. *)
From Coq Require Import List ZArith NArith Bool.
From YV Require Import RangeCache ValueEq.
Import ListNotations.

Definition eval_range (size : nat) (c : rcache) (b e : Z) : kv * rcache :=
  let '(id, c') := request size c b e in (KRange id b e, c').

(* evaluate a list of range expressions left to right *)
Fixpoint eval_ranges (size : nat) (c : rcache) (l : list (Z * Z)) : list kv * rcache :=
  match l with
  | [] => ([], c)
  | (b, e) :: r =>
      let '(k, c1) := eval_range size c b e in
      let '(ks, c2) := eval_ranges size c1 r in (k :: ks, c2)
  end.

(* `n` distinct filler ranges that collide with nothing else: (base+i) .. (base+i+1) *)
Fixpoint fillers (base : Z) (n : nat) : list (Z * Z) :=
  match n with
  | O => []
  | S k => (base, base + 1)%Z :: fillers (base + 1)%Z k
  end.

(* first and last value of:  a..b ; n fillers ; a..b *)
Definition twice_with_gap (size : nat) (a b : Z) (n : nat) : option (kv * kv) :=
  let l := fst (eval_ranges size rc_init ((a, b) :: fillers 1000 n ++ [(a, b)])) in
  match l with
  | x :: r => match rev r with y :: _ => Some (x, y) | [] => None end
  | [] => None
  end.
