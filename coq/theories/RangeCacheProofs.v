(* RangeCacheProofs.v -- C16: the range cache of Vm::build_range never holds more than RANGE_CACHE_SIZE
   rooted ranges, whatever is requested; a request for bounds whose entry is still cached returns that
   very box (and leaves the cache alone); different cached bounds have different boxes. *)
From Coq Require Import List ZArith NArith Bool Arith Lia.
From YV Require Import RangeCache.
Import ListNotations.

Definition key (x : rentry) : Z * Z := (e_begin x, e_end x).

Lemma key_eqb_true b e x : key_eqb b e x = true <-> key x = (b, e).
Proof.
  unfold key_eqb, key. rewrite andb_true_iff, !Z.eqb_eq. split.
  - intros [-> ->]. reflexivity.
  - intros H. inversion H. split; reflexivity.
Qed.

Lemma find_none_key b e l : find (key_eqb b e) l = None -> ~ In (b, e) (map key l).
Proof.
  intros H Hin. apply in_map_iff in Hin. destruct Hin as [x [Hk Hx]].
  pose proof (find_none _ _ H x Hx) as Hn. apply key_eqb_true in Hk. congruence.
Qed.

Lemma find_nodup_key l : NoDup (map key l) -> forall x, In x l ->
  find (key_eqb (e_begin x) (e_end x)) l = Some x.
Proof.
  induction l as [|y l IH]; intros Hnd x Hx; [destruct Hx|].
  simpl in Hnd. inversion Hnd as [|? ? Hny Hnd']; subst. simpl.
  destruct (key_eqb (e_begin x) (e_end x) y) eqn:Hk.
  - apply key_eqb_true in Hk. destruct Hx as [->|Hx]; [reflexivity|].
    exfalso. apply Hny. change (e_begin x, e_end x) with (key x) in Hk. rewrite Hk. now apply in_map.
  - destruct Hx as [->|Hx].
    + assert (key_eqb (e_begin x) (e_end x) x = true) by (apply key_eqb_true; reflexivity). congruence.
    + now apply IH.
Qed.

Lemma replace_nth_length {A} p (x : A) l : length (replace_nth p x l) = length l.
Proof. revert p. induction l as [|y l IH]; intros [|p]; simpl; auto. Qed.

Lemma replace_nth_in {A} p (x y : A) l : In y (replace_nth p x l) -> y = x \/ In y l.
Proof.
  revert p. induction l as [|z l IH]; intros [|p]; simpl; auto.
  - intros [->|H]; auto.
  - intros [->|H]; auto. destruct (IH _ H); auto.
Qed.

Lemma replace_nth_has {A} p (x : A) l : p < length l -> In x (replace_nth p x l).
Proof.
  revert p. induction l as [|z l IH]; intros [|p] H; simpl in *; try lia; auto.
  right. apply IH. lia.
Qed.

Lemma replace_nth_nodup {A B} (f : A -> B) p x l :
  NoDup (map f l) -> ~ In (f x) (map f l) -> NoDup (map f (replace_nth p x l)).
Proof.
  revert p. induction l as [|z l IH]; intros [|p] Hnd Hx; simpl in *; auto.
  - inversion Hnd as [|? ? Hz Hnd']; subst. constructor; [|assumption].
    intros Hin. apply Hx. right. exact Hin.
  - inversion Hnd as [|? ? Hz Hnd']; subst. constructor.
    + intros Hin. apply in_map_iff in Hin. destruct Hin as [w [Hw Hin]].
      apply replace_nth_in in Hin. destruct Hin as [->|Hin]; [apply Hx; left; symmetry; exact Hw|].
      apply Hz. rewrite <- Hw. now apply in_map.
    + apply IH; [assumption|]. intros Hin. apply Hx. right. exact Hin.
Qed.

Lemma NoDup_app_single {A} (l : list A) x : NoDup l -> ~ In x l -> NoDup (l ++ [x]).
Proof.
  induction l as [|y l IH]; intros Hnd Hx; simpl; [constructor; [intros []|constructor]|].
  inversion Hnd as [|? ? Hy Hnd']; subst. constructor.
  - intros Hin. apply in_app_or in Hin. destruct Hin as [Hin|[<-|[]]]; [tauto|]. apply Hx. left. reflexivity.
  - apply IH; [assumption|]. intros Hin. apply Hx. right. exact Hin.
Qed.

Lemma oldest_from_lt l : forall i best bs, best < i -> oldest_from l i best bs < i + length l.
Proof.
  induction l as [|x l IH]; intros i best bs H; simpl; [lia|].
  destruct (e_stamp x <=? bs)%N.
  - specialize (IH (S i) i (e_stamp x)). lia.
  - specialize (IH (S i) best bs). lia.
Qed.

Lemma oldest_pos_lt l p : oldest_pos l = Some p -> p < length l.
Proof.
  destruct l as [|x l]; simpl; [discriminate|]. intros H. inversion H; subst.
  pose proof (oldest_from_lt l 1 0 (e_stamp x)). lia.
Qed.

Lemma oldest_pos_some l : l <> [] -> exists p, oldest_pos l = Some p.
Proof. destruct l; [congruence|]. intros _. eexists. reflexivity. Qed.

Section RangeCacheProofs.
  Variable SIZE : nat.
  Notation request := (request SIZE).
  Notation run_reqs := (run_reqs SIZE).

  (* keys unique, boxes unique and older than the next one *)
  Definition Inv (c : rcache) : Prop :=
    NoDup (map key (entries c)) /\ NoDup (map e_id (entries c)) /\
    (forall x, In x (entries c) -> (e_id x < next_box c)%N).

  Lemma inv_init : Inv rc_init.
  Proof. repeat split; simpl; try constructor. intros x []. Qed.

  Lemma fresh_id c : Inv c -> ~ In (next_box c) (map e_id (entries c)).
  Proof.
    intros (_ & _ & Hlt) Hin. apply in_map_iff in Hin. destruct Hin as [x [Hid Hx]].
    specialize (Hlt x Hx). lia.
  Qed.

  Lemma request_inv c b e : Inv c -> Inv (snd (request c b e)).
  Proof.
    intros Hinv. pose proof (fresh_id c Hinv) as Hfresh. destruct Hinv as (Hk & Hi & Hlt).
    unfold RangeCache.request. destruct (rc_find c b e) eqn:Hf; [repeat split; assumption|].
    apply find_none_key in Hf.
    destruct (SIZE <=? length (entries c)).
    - destruct (oldest_pos (entries c)) as [p|]; unfold Inv; simpl.
      + repeat split.
        * apply replace_nth_nodup; assumption.
        * apply replace_nth_nodup; assumption.
        * intros x Hx. apply replace_nth_in in Hx. destruct Hx as [->|Hx]; simpl; [lia|].
          specialize (Hlt x Hx). lia.
      + repeat split; try assumption. intros x Hx. simpl in *. specialize (Hlt x Hx). lia.
    - unfold Inv; simpl. repeat split.
      + rewrite map_app. simpl. apply NoDup_app_single; assumption.
      + rewrite map_app. simpl. apply NoDup_app_single; assumption.
      + intros x Hx. apply in_app_or in Hx. destruct Hx as [Hx|[<-|[]]]; simpl; [|lia].
        specialize (Hlt x Hx). lia.
  Qed.

  Lemma run_reqs_inv reqs : forall c, Inv c -> Inv (snd (run_reqs reqs c)).
  Proof.
    induction reqs as [|[b e] reqs IH]; intros c Hc; simpl; [assumption|].
    pose proof (request_inv c b e Hc) as H1. destruct (request c b e) as [id c1]. simpl in H1.
    specialize (IH c1 H1). destruct (run_reqs reqs c1) as [ids c2]. exact IH.
  Qed.

  (* ---- at most SIZE rooted ranges ---- *)
  Lemma request_bounded c b e :
    length (entries c) <= SIZE -> length (entries (snd (request c b e))) <= SIZE.
  Proof.
    intros H. unfold RangeCache.request. destruct (rc_find c b e); [assumption|].
    destruct (Nat.leb_spec SIZE (length (entries c))) as [Hfull|Hroom].
    - destruct (oldest_pos (entries c)); simpl; [rewrite replace_nth_length|]; assumption.
    - simpl. rewrite app_length. simpl. lia.
  Qed.

  Theorem range_cache_bounded_from : forall reqs c,
    length (entries c) <= SIZE -> length (entries (snd (run_reqs reqs c))) <= SIZE.
  Proof.
    induction reqs as [|[b e] reqs IH]; intros c Hc; simpl; [assumption|].
    pose proof (request_bounded c b e Hc) as H1. destruct (request c b e) as [id c1]. simpl in H1.
    specialize (IH c1 H1). destruct (run_reqs reqs c1) as [ids c2]. exact IH.
  Qed.

  Theorem range_cache_bounded : forall reqs,
    length (entries (snd (run_reqs reqs rc_init))) <= SIZE.
  Proof. intros reqs. apply range_cache_bounded_from. simpl. lia. Qed.

  (* ---- a cached entry answers requests for its bounds with its own box, cache untouched ---- *)
  Theorem range_cache_hit : forall c x, Inv c -> In x (entries c) ->
    request c (e_begin x) (e_end x) = (e_id x, c).
  Proof.
    intros c x (Hk & _) Hx. unfold RangeCache.request, rc_find.
    rewrite (find_nodup_key _ Hk x Hx). reflexivity.
  Qed.

  (* what a request returns is cached afterwards (needs room for one entry) *)
  Theorem range_cache_request_cached : forall c b e, 1 <= SIZE ->
    exists x, In x (entries (snd (request c b e))) /\ key x = (b, e) /\ e_id x = fst (request c b e).
  Proof.
    intros c b e Hs. unfold RangeCache.request. destruct (rc_find c b e) as [x|] eqn:Hf.
    - exists x. simpl. unfold rc_find in Hf. split; [exact (proj1 (find_some _ _ Hf))|].
      split; [apply key_eqb_true; exact (proj2 (find_some _ _ Hf)) | reflexivity].
    - destruct (Nat.leb_spec SIZE (length (entries c))) as [Hfull|Hroom].
      + destruct (oldest_pos_some (entries c)) as [p Hp]; [destruct (entries c); simpl in *; [lia|congruence]|].
        rewrite Hp. simpl. eexists. split; [apply replace_nth_has; now apply oldest_pos_lt|]. split; reflexivity.
      + simpl. eexists. split; [apply in_or_app; right; left; reflexivity|]. split; reflexivity.
  Qed.

  (* the property asked for: two requests for the same bounds, with any requests in between, return the
     same identity as long as the entry created/found by the first one is still in the cache *)
  Theorem range_cache_hit_identity : forall c b e, 1 <= SIZE -> Inv c ->
    exists x, In x (entries (snd (request c b e))) /\ e_id x = fst (request c b e) /\
      forall reqs, let c2 := snd (run_reqs reqs (snd (request c b e))) in
        In x (entries c2) -> request c2 b e = (fst (request c b e), c2).
  Proof.
    intros c b e Hs Hinv. destruct (range_cache_request_cached c b e Hs) as [x (Hx & Hk & Hid)].
    exists x. split; [exact Hx|]. split; [exact Hid|]. intros reqs c2 Hin.
    pose proof (run_reqs_inv reqs _ (request_inv c b e Hinv)) as Hinv2. fold c2 in Hinv2.
    pose proof (range_cache_hit c2 x Hinv2 Hin) as Hhit. unfold key in Hk. inversion Hk; subst.
    rewrite <- Hid. exact Hhit.
  Qed.

  (* the same, for every cache state the Vm can be in *)
  Corollary range_cache_hit_identity_run : forall reqs0 b e, 1 <= SIZE ->
    let c := snd (run_reqs reqs0 rc_init) in
    exists x, In x (entries (snd (request c b e))) /\ e_id x = fst (request c b e) /\
      forall reqs, let c2 := snd (run_reqs reqs (snd (request c b e))) in
        In x (entries c2) -> request c2 b e = (fst (request c b e), c2).
  Proof.
    intros reqs0 b e Hs c. apply range_cache_hit_identity; [exact Hs|].
    apply run_reqs_inv. apply inv_init.
  Qed.

  (* different cached entries are different boxes *)
  Theorem range_cache_ids_distinct : forall reqs x y,
    let c := snd (run_reqs reqs rc_init) in
    In x (entries c) -> In y (entries c) -> e_id x = e_id y -> x = y.
  Proof.
    intros reqs x y c Hx Hy Hid. destruct (run_reqs_inv reqs rc_init inv_init) as (_ & Hi & _). fold c in Hi.
    revert Hi Hx Hy Hid. generalize (entries c). induction l as [|z l IH]; intros Hnd Hx Hy Hid; [destruct Hx|].
    simpl in Hnd. inversion Hnd as [|? ? Hz Hnd']; subst.
    destruct Hx as [->|Hx], Hy as [->|Hy]; auto.
    - exfalso. apply Hz. rewrite Hid. now apply in_map.
    - exfalso. apply Hz. rewrite <- Hid. now apply in_map.
  Qed.

  (* `.expect(..)` never fires when the cache has room for one entry *)
  Theorem range_cache_no_panic : forall reqs, 1 <= SIZE ->
    panicked (snd (run_reqs reqs rc_init)) = false.
  Proof.
    intros reqs Hs. assert (G : forall reqs c, panicked c = false -> panicked (snd (run_reqs reqs c)) = false).
    { induction reqs0 as [|[b e] reqs0 IH]; intros c Hc; simpl; [assumption|].
      assert (H1 : panicked (snd (request c b e)) = false).
      { unfold RangeCache.request. destruct (rc_find c b e); [assumption|].
        destruct (Nat.leb_spec SIZE (length (entries c))) as [Hfull|Hroom]; [|assumption].
        destruct (oldest_pos_some (entries c)) as [p Hp]; [destruct (entries c); simpl in *; [lia|congruence]|].
        rewrite Hp. assumption. }
      destruct (request c b e) as [id c1]. simpl in H1. specialize (IH c1 H1).
      destruct (run_reqs reqs0 c1) as [ids c2]. exact IH. }
    apply G. reflexivity.
  Qed.
End RangeCacheProofs.

(* eviction is first-in first-out, a hit does not refresh: with 2 slots, 1..2 3..4 1..2(hit) 5..6 evicts 1..2 *)
Example ex_range_fifo :
  fst (run_reqs 2 [(1, 2); (3, 4); (1, 2); (5, 6); (1, 2); (3, 4)]%Z rc_init) = [0; 1; 0; 2; 3; 4]%N.
Proof. vm_compute. reflexivity. Qed.

Example ex_range_hit : exists x, In x (entries (snd (run_reqs 8 [(1, 2); (3, 4)]%Z rc_init))) /\
  request 8 (snd (run_reqs 8 [(1, 2); (3, 4)]%Z rc_init)) 1 2 = (e_id x, snd (run_reqs 8 [(1, 2); (3, 4)]%Z rc_init)).
Proof. eexists. split; [left; reflexivity|]. vm_compute. reflexivity. Qed.

Print Assumptions range_cache_bounded.
Print Assumptions range_cache_hit_identity.
Print Assumptions range_cache_ids_distinct.
Print Assumptions range_cache_no_panic.
