(* C15 - mini-language of REPL histories: syntax, rendering to yarel source text, wire decoding.
   A history is a list of snippets fed to ONE interpreter.  DEFINITIONS ONLY.

   names:   g0 g1 (number globals), f0 f1 (functions reading a global when CALLED), C0 C1 (classes),
            c (a closure over a local), fw (a fiber), mg mb mm ms mn (aliases of the five modules)
   modules: good = `var v = 10; print("load good");`      bad  = `var v = 5; print("load bad"); throw 9;`
            syn  = `var = ;`   nest = `import "bad" as b; var v = 1;`   missing = not served by the loader *)
From Coq Require Import List Bool Arith ZArith NArith String Ascii.
From YV Require Import Show Wire.
Import ListNotations.
Local Open Scope string_scope.

Inductive modk := MGood | MThrow | MMissing | MSyntax | MNest.

(* where an uncaught error is raised *)
Inductive idx := I0 | I1.
Definition idx_nat (i : idx) : nat := match i with I0 => 0 | I1 => 1 end.

Inductive depth := D1 | D2 | D3.
Definition depth_nat (d : depth) : nat := match d with D1 => 1 | D2 => 2 | D3 => 3 end.

Inductive where_ :=
| WTop                 (* throw 1; *)
| WNested (d : depth)  (* 1..3 nested lambda calls, innermost throws *)
| WFiber               (* inside a fiber *)
| WTryFinally          (* try { throw 1; } finally { print("fin"); } *)
| WCatch               (* try { throw 1; } catch e { throw 2; } *)
| WFinally             (* try { print("t"); } finally { throw 3; } *)
| WFinallyRet          (* return pending while the finally throws *)
| WClassDef            (* between DeclareClass and DefineClass, top level *)
| WClassDefNested      (* the same inside a call *)
| WCapture             (* a closure over a local of the failing frame was stored in global c *)
| WBuiltin             (* built-in error (nil.foo) inside try/finally *)
| WCaptureFiber        (* like WCapture, but the error is raised in a fiber CALLED by the capturing frame *)
| WFiberWait           (* global fw = a fiber that is waiting for the fiber whose uncaught error ends the run *)
| WSetGlobal           (* total = 41;  assignment to an undeclared global: SetGlobal inserts provisionally, then fails *)
| WSetGlobalNested     (* the same inside a call *)
| WSetGlobalFiber.     (* the same inside a fiber *)

Inductive snip :=
| SnVar (g : idx) (z : Z)
| SnPrint (g : idx)
| SnFn (f g : idx)
| SnCall (f : idx)
| SnClass (c : idx) (z : Z)
| SnUse (c : idx)
| SnSyntax (pre : bool)
| SnThrow (w : where_) (d : option (idx * Z))   (* optional `var g = z;` completed before the failure *)
| SnTryFin
| SnTryCatch
| SnFiberOk
| SnCaptureOk
| SnRange (k : depth)
| SnUseLeak
| SnUseFiber                                   (* print(fw.has_finished()); *)
| SnProbeTotal                                 (* print(total);  `total` is never declared by any snippet *)
| SnSwallowOk                                  (* a run that ends SUCCESSFULLY with the exception flag still set: a finally-only
                                                  try entered by a throw whose finally block returns *)
| SnParkFin                                    (* the same through a fiber that parks itself (Fiber.yield) inside the finally
                                                  block it entered by a throw and is never resumed *)
| SnImport (m : modk)
| SnUseMod (m : modk)
| SnReset.

Definition history := list snip.

(* ---------- names ---------- *)
Definition gname_s (g : idx) : string := "g" ++ show_nat (idx_nat g).
Definition fname_s (f : idx) : string := "f" ++ show_nat (idx_nat f).
Definition cname_s (c : idx) : string := "C" ++ show_nat (idx_nat c).
(* how a class and the type of its instances print *)
Definition class_s (c : idx) : string := "<class " ++ cname_s c ++ ">".
Definition mod_path (m : modk) : string :=
  match m with MGood => "good" | MThrow => "bad" | MMissing => "missing" | MSyntax => "syn" | MNest => "nest" end.
Definition mod_alias (m : modk) : string :=
  match m with MGood => "mg" | MThrow => "mb" | MMissing => "mm" | MSyntax => "ms" | MNest => "mn" end.
Definition mod_source (m : modk) : option string :=
  match m with
  | MGood => Some "var v = 10; print(""load good"");"
  | MThrow => Some "var v = 5; print(""load bad""); throw 9;"
  | MMissing => None
  | MSyntax => Some "var = ;"
  | MNest => Some "import ""bad"" as b; var v = 1;"
  end.
Definition all_mods : list modk := [MGood; MThrow; MMissing; MSyntax; MNest].

(* ---------- rendering ---------- *)
Fixpoint nest_open (d : nat) : string := match d with O => "" | S n => "(|| { " ++ nest_open n end.
Fixpoint nest_close (d : nat) : string := match d with O => "" | S n => " })();" ++ nest_close n end.

Definition render_where (w : where_) : string :=
  match w with
  | WTop => "throw 1;"
  | WNested d => nest_open (depth_nat d) ++ "throw 1;" ++ nest_close (depth_nat d)
  | WFiber => "Fiber.new(|| { throw 1; }).call();"
  | WTryFinally => "try { throw 1; } finally { print(""fin""); }"
  | WCatch => "try { throw 1; } catch e { throw 2; }"
  | WFinally => "try { print(""t""); } finally { throw 3; }"
  | WFinallyRet => "(|| { try { return 1; } finally { throw 4; } })();"
  | WClassDef => "#[derive(print)] class D {}"
  | WClassDefNested => "(|| { #[derive(print)] class D {} })();"
  | WCapture => "var c = nil; (|| { var x = 41; c = || x; throw 1; })();"
  | WBuiltin => "try { nil.foo; } finally { print(""nf""); }"
  | WCaptureFiber => "var c = nil; (|| { var x = 41; c = || x; Fiber.new(|| { throw 1; }).call(); })();"
  | WFiberWait => "var fw = Fiber.new(|| { Fiber.new(|| { throw 1; }).call(); }); fw.call();"
  | WSetGlobal => "total = 41;"
  | WSetGlobalNested => "(|| { total = 41; })();"
  | WSetGlobalFiber => "Fiber.new(|| { total = 41; }).call();"
  end.

Definition render (s : snip) : string :=
  match s with
  | SnVar g z => "var " ++ gname_s g ++ " = " ++ show_Z z ++ ";"
  | SnPrint g => "print(" ++ gname_s g ++ ");"
  | SnFn f g => "fn " ++ fname_s f ++ "() { return " ++ gname_s g ++ " + 1; }"
  | SnCall f => "print(" ++ fname_s f ++ "());"
  | SnClass c z => "#[constructor(new)] class " ++ cname_s c ++ " { fn m(self) { return " ++ show_Z z ++ "; } }"
  | SnUse c => "print(" ++ cname_s c ++ "); print(" ++ cname_s c ++ ".new().m()); print(type(" ++ cname_s c ++ ".new()));"
  | SnSyntax pre => (if pre then "fn h() { return 0; } " else "") ++ "var = ;"
  | SnThrow w d =>
      match d with Some (g, z) => "var " ++ gname_s g ++ " = " ++ show_Z z ++ "; " | None => "" end ++ render_where w
  | SnTryFin => "try { print(""t""); } finally { print(""f""); } print(""after"");"
  | SnTryCatch => "try { throw 7; } catch e { print(e); } print(""after"");"
  | SnFiberOk => "print(Fiber.new(|| { return 5; }).call());"
  | SnCaptureOk => "var c = nil; (|| { var x = 42; c = || x; })();"
  | SnRange k => "for i in 0.." ++ show_nat (depth_nat k) ++ " { print(i); }"
  | SnUseLeak => "print(c());"
  | SnUseFiber => "print(fw.has_finished());"
  | SnProbeTotal => "print(total);"
  | SnSwallowOk => "print((|| { try { throw 1; } finally { return 8; } })());"
  | SnParkFin => "print(Fiber.new(|| { try { throw 1; } finally { Fiber.yield(3); } }).call());"
  | SnImport m => "import """ ++ mod_path m ++ """ as " ++ mod_alias m ++ "; print(" ++ mod_alias m ++ ".v);"
  | SnUseMod m => "print(" ++ mod_alias m ++ ".v);"
  | SnReset => "RESET"
  end.

Definition hex_of_string (s : string) : string := hex_of_bytes (list_byte_of_string s).

(* what the harness gets: hex of the source, or the word RESET *)
Definition render_item (s : snip) : string :=
  match s with SnReset => "RESET" | _ => hex_of_string (render s) end.
Definition render_history (h : history) : string := show_sep " " render_item h.

(* module map items `hexname=hexsrc` *)
Definition render_mods : string :=
  show_sep " " (fun m => match mod_source m with
                         | Some src => hex_of_string (mod_path m) ++ "=" ++ hex_of_string src
                         | None => "" end)
           [MGood; MThrow; MSyntax; MNest].

(* ---------- wire decoding: groups of numerals (YV.Wire.parse_nss) ---------- *)
Definition modk_of_N (n : N) : modk :=
  match n with 0%N => MGood | 1%N => MThrow | 2%N => MMissing | 3%N => MSyntax | _ => MNest end.
Definition where_of_N (n : N) : where_ :=
  match n with
  | 0%N => WTop | 1%N => WNested D1 | 2%N => WNested D2 | 3%N => WNested D3 | 4%N => WFiber | 5%N => WTryFinally
  | 6%N => WCatch | 7%N => WFinally | 8%N => WFinallyRet | 9%N => WClassDef | 10%N => WClassDefNested
  | 11%N => WCapture | 12%N => WBuiltin | 13%N => WCaptureFiber | 14%N => WFiberWait | 15%N => WSetGlobal | 16%N => WSetGlobalNested | _ => WSetGlobalFiber
  end.
Definition z_of_wire (n : N) : Z := (Z.of_N n - 100)%Z.
Definition idx_of_N (n : N) : idx := match n with 0%N => I0 | _ => I1 end.

Definition snip_of_group (g : list N) : snip :=
  match g with
  | [0%N; a; z] => SnVar (idx_of_N a) (z_of_wire z)
  | [1%N; a] => SnPrint (idx_of_N a)
  | [2%N; f; a] => SnFn (idx_of_N f) (idx_of_N a)
  | [3%N; f] => SnCall (idx_of_N f)
  | [4%N; c; z] => SnClass (idx_of_N c) (z_of_wire z)
  | [5%N; c] => SnUse (idx_of_N c)
  | [6%N; p] => SnSyntax (negb (N.eqb p 0))
  | [7%N; w] => SnThrow (where_of_N w) None
  | [7%N; w; a; z] => SnThrow (where_of_N w) (Some (idx_of_N a, z_of_wire z))
  | [8%N] => SnTryFin
  | [9%N] => SnTryCatch
  | [10%N] => SnFiberOk
  | [11%N] => SnCaptureOk
  | [12%N; k] => SnRange (match k with 1%N => D1 | 2%N => D2 | _ => D3 end)
  | [13%N] => SnUseLeak
  | [17%N] => SnUseFiber
  | [18%N] => SnProbeTotal
  | [19%N] => SnSwallowOk
  | [20%N] => SnParkFin
  | [14%N; m] => SnImport (modk_of_N m)
  | [15%N; m] => SnUseMod (modk_of_N m)
  | _ => SnReset
  end.

Definition history_of_wire (s : string) : history := map snip_of_group (parse_nss s).
