(* C15 - Mechanism (M): the state of `struct Vm` (yarel/src/vm.rs) that outlives a call of interpret()/execute(),
   and what compile / execute / run / runtime_error / reset_stack / reset / declare_class / define_class /
   start_import / finish_import do to it.  Faithful to the code, oddities included:
     - `handling_exception` is cleared at the START of execute (commit 8f090ae), so it is stale BETWEEN runs;
     - execute drops the old fiber and creates a new one; runtime_error -> reset_stack closes the upvalues and clears
       `stack` and `frames` of the active fiber and of every fiber waiting for it (fef17f0, 309b782, 6d7d827), leaving
       exc_handlers / return_ip / error_ip of the dead fibers;
     - `working_class_def` is set by DeclareClass and taken by DefineClass; an error in between leaves it set;
     - a module is registered in `modules` BEFORE its body runs and gets `imported = true` only by FinishImport; a failed
       import leaves the entry behind (H5 `modules` counts it) until the next import of that path replaces it (367eb72);
       start_import answers "Circular dependency" only for a module whose body is executing in the running fiber chain;
     - reset(): reset_stack, chunks := core_chunks, modules retain "main", main's attributes re-seeded; it touches
       neither handling_exception, working_class_def nor range_cache.
   DEFINITIONS ONLY (proofs: ReuseProofs.v). *)
From Coq Require Import List Bool Arith ZArith NArith String.
From YV Require Import Show ReplLang.
Import ListNotations.
Local Open Scope string_scope.

(* ====================================================================================== *)
(* 1. struct Vm: every field with its role across runs.  Compared with YVGen.VmFields in props/C15.v. *)

Inductive role :=
| RPerRun        (* re-assigned by execute (directly, or by load_fiber / load_frame it calls) before the first instruction *)
| RDefinitions   (* completed definitions: compiled chunks, modules (and their attributes) *)
| RCore          (* built once by Vm::new, never re-assigned *)
| RConfig        (* host configuration *)
| RCache         (* cache of immutable objects; content never changes what a program computes *)
| RTransient.    (* meaningful only between DeclareClass and DefineClass of one class statement *)

Definition vm_field_roles : list (string * role) :=
  [("ip", RPerRun); ("active_module", RPerRun); ("active_chunk", RPerRun); ("fiber", RPerRun);
   ("unsafe_fiber", RPerRun); ("next_string", RCore); ("class_store", RCore); ("chunks", RDefinitions);
   ("modules", RDefinitions); ("core_chunks", RCore); ("string_class", RCore); ("string_store", RCache);
   ("range_cache", RCache); ("working_class_def", RTransient); ("module_loader", RConfig); ("printer", RConfig);
   ("handling_exception", RPerRun)].
Definition vm_fields : list string := map fst vm_field_roles.

Definition execute_assigns : list string := ["ip"; "fiber"; "handling_exception"].
Definition load_fiber_assigns : list string := ["unsafe_fiber"; "fiber"].
Definition load_frame_assigns : list string := ["active_chunk"; "active_module"; "ip"].
Definition reset_assigns : list string := ["chunks"; "active_module"].
Definition reset_calls : list string := ["reset_stack"; "module"; "init_built_in_globals"].
Definition reset_field_calls : list string := ["core_chunks.clone"; "modules.retain"; "active_module.borrow_mut"].
Definition reset_stack_clears : list string := ["stack"; "frames"].
Definition fiber_fields : list string :=
  ["class"; "caller"; "stack"; "frames"; "native_arity"; "open_upvalues"; "call_arity"; "return_value";
   "exc_handlers"; "return_ip"; "error_ip"].

Fixpoint list_string_eqb (a b : list string) : bool :=
  match a, b with
  | [], [] => true
  | x :: a', y :: b' => String.eqb x y && list_string_eqb a' b'
  | _, _ => false
  end.
Definition mem_string (x : string) (l : list string) : bool := existsb (String.eqb x) l.
Definition subset_string (a b : list string) : bool := forallb (fun x => mem_string x b) a.

(* every per-run field is assigned on the way from execute's entry to the first instruction *)
Definition per_run_fields : list string :=
  map fst (filter (fun fr => match snd fr with RPerRun => true | _ => false end) vm_field_roles).
Definition per_run_covered (ex lf lfr : list string) : bool :=
  forallb (fun f => mem_string f ex || mem_string f lf || mem_string f lfr) per_run_fields.

(* ====================================================================================== *)
(* 2. carried state *)

Inductive gname := GVar (i : idx) | GFun (i : idx) | GCls (i : idx) | GLeak | GFib | GMod (m : modk).
Inductive gval :=
| VNum (z : Z)
| VFn (g : idx)                      (* fn f() { return g<g> + 1; } *)
| VClass (z : Z)                     (* class with method m returning z *)
| VClosure (z : Z)                   (* || x with x = z *)
| VFiber                             (* a fiber that is not running *)
| VMod (m : modk).

Definition modk_eqb (a b : modk) : bool :=
  match a, b with
  | MGood, MGood | MThrow, MThrow | MMissing, MMissing | MSyntax, MSyntax | MNest, MNest => true
  | _, _ => false
  end.

(* finite maps as records: one field per name of the mini-language *)
Record globals := mkG { g_v0 : option gval; g_v1 : option gval; g_f0 : option gval; g_f1 : option gval; g_c0 : option gval; g_c1 : option gval; g_leak : option gval; g_fib : option gval; g_mg : option gval; g_mb : option gval; g_mm : option gval; g_ms : option gval; g_mn : option gval }.
Record modreg := mkR { r_good : option bool; r_bad : option bool; r_missing : option bool; r_syn : option bool; r_nest : option bool }.      (* None: not registered; Some b: registered, imported = b *)

Definition gget (k : gname) (g : globals) : option gval :=
  match k with
  | GVar I0 => g_v0 g
  | GVar I1 => g_v1 g
  | GFun I0 => g_f0 g
  | GFun I1 => g_f1 g
  | GCls I0 => g_c0 g
  | GCls I1 => g_c1 g
  | GLeak => g_leak g
  | GFib => g_fib g
  | GMod MGood => g_mg g
  | GMod MThrow => g_mb g
  | GMod MMissing => g_mm g
  | GMod MSyntax => g_ms g
  | GMod MNest => g_mn g
  end.
Definition gset (k : gname) (v : gval) (g : globals) : globals :=
  match k with
  | GVar I0 => mkG (Some v) (g_v1 g) (g_f0 g) (g_f1 g) (g_c0 g) (g_c1 g) (g_leak g) (g_fib g) (g_mg g) (g_mb g) (g_mm g) (g_ms g) (g_mn g)
  | GVar I1 => mkG (g_v0 g) (Some v) (g_f0 g) (g_f1 g) (g_c0 g) (g_c1 g) (g_leak g) (g_fib g) (g_mg g) (g_mb g) (g_mm g) (g_ms g) (g_mn g)
  | GFun I0 => mkG (g_v0 g) (g_v1 g) (Some v) (g_f1 g) (g_c0 g) (g_c1 g) (g_leak g) (g_fib g) (g_mg g) (g_mb g) (g_mm g) (g_ms g) (g_mn g)
  | GFun I1 => mkG (g_v0 g) (g_v1 g) (g_f0 g) (Some v) (g_c0 g) (g_c1 g) (g_leak g) (g_fib g) (g_mg g) (g_mb g) (g_mm g) (g_ms g) (g_mn g)
  | GCls I0 => mkG (g_v0 g) (g_v1 g) (g_f0 g) (g_f1 g) (Some v) (g_c1 g) (g_leak g) (g_fib g) (g_mg g) (g_mb g) (g_mm g) (g_ms g) (g_mn g)
  | GCls I1 => mkG (g_v0 g) (g_v1 g) (g_f0 g) (g_f1 g) (g_c0 g) (Some v) (g_leak g) (g_fib g) (g_mg g) (g_mb g) (g_mm g) (g_ms g) (g_mn g)
  | GLeak => mkG (g_v0 g) (g_v1 g) (g_f0 g) (g_f1 g) (g_c0 g) (g_c1 g) (Some v) (g_fib g) (g_mg g) (g_mb g) (g_mm g) (g_ms g) (g_mn g)
  | GFib => mkG (g_v0 g) (g_v1 g) (g_f0 g) (g_f1 g) (g_c0 g) (g_c1 g) (g_leak g) (Some v) (g_mg g) (g_mb g) (g_mm g) (g_ms g) (g_mn g)
  | GMod MGood => mkG (g_v0 g) (g_v1 g) (g_f0 g) (g_f1 g) (g_c0 g) (g_c1 g) (g_leak g) (g_fib g) (Some v) (g_mb g) (g_mm g) (g_ms g) (g_mn g)
  | GMod MThrow => mkG (g_v0 g) (g_v1 g) (g_f0 g) (g_f1 g) (g_c0 g) (g_c1 g) (g_leak g) (g_fib g) (g_mg g) (Some v) (g_mm g) (g_ms g) (g_mn g)
  | GMod MMissing => mkG (g_v0 g) (g_v1 g) (g_f0 g) (g_f1 g) (g_c0 g) (g_c1 g) (g_leak g) (g_fib g) (g_mg g) (g_mb g) (Some v) (g_ms g) (g_mn g)
  | GMod MSyntax => mkG (g_v0 g) (g_v1 g) (g_f0 g) (g_f1 g) (g_c0 g) (g_c1 g) (g_leak g) (g_fib g) (g_mg g) (g_mb g) (g_mm g) (Some v) (g_mn g)
  | GMod MNest => mkG (g_v0 g) (g_v1 g) (g_f0 g) (g_f1 g) (g_c0 g) (g_c1 g) (g_leak g) (g_fib g) (g_mg g) (g_mb g) (g_mm g) (g_ms g) (Some v)
  end.
Definition mget (k : modk) (r : modreg) : option bool :=
  match k with
  | MGood => r_good r
  | MThrow => r_bad r
  | MMissing => r_missing r
  | MSyntax => r_syn r
  | MNest => r_nest r
  end.
Definition mset (k : modk) (b : bool) (r : modreg) : modreg :=
  match k with
  | MGood => mkR (Some b) (r_bad r) (r_missing r) (r_syn r) (r_nest r)
  | MThrow => mkR (r_good r) (Some b) (r_missing r) (r_syn r) (r_nest r)
  | MMissing => mkR (r_good r) (r_bad r) (Some b) (r_syn r) (r_nest r)
  | MSyntax => mkR (r_good r) (r_bad r) (r_missing r) (Some b) (r_nest r)
  | MNest => mkR (r_good r) (r_bad r) (r_missing r) (r_syn r) (Some b)
  end.
Definition mdel (k : modk) (r : modreg) : modreg :=
  match k with
  | MGood => mkR None (r_bad r) (r_missing r) (r_syn r) (r_nest r)
  | MThrow => mkR (r_good r) None (r_missing r) (r_syn r) (r_nest r)
  | MMissing => mkR (r_good r) (r_bad r) None (r_syn r) (r_nest r)
  | MSyntax => mkR (r_good r) (r_bad r) (r_missing r) None (r_nest r)
  | MNest => mkR (r_good r) (r_bad r) (r_missing r) (r_syn r) None
  end.
Definition gempty : globals := mkG None None None None None None None None None None None None None.
Definition mempty : modreg := mkR None None None None None.
Record handler := mkH { h_catch : bool; h_frames : nat }.
Record fiber := mkFiber {
  fb_frames : nat;
  fb_stack : nat;               (* abstracted: 0 = cleared, > 0 = something on it *)
  fb_handlers : list handler;   (* innermost first *)
  fb_retpend : bool;            (* return_ip.is_some() *)
  fb_errip : bool;              (* error_ip.is_some() *)
  fb_open_upv : bool            (* an open upvalue points into this fiber's stack *)
}.
(* ObjFiber::new + load_fiber of a new fiber: one frame, the closure on the stack *)
Definition fresh_fiber : fiber := mkFiber 1 1 [] false false false.

Record carried := mkC {
  c_he : bool;                  (* handling_exception *)
  c_fibers : list fiber;        (* vm.fiber followed by its caller chain; [] = None *)
  c_classdef : bool;            (* working_class_def.is_some() *)
  c_mods : modreg;              (* modules other than "main" *)
  c_chunks : nat;               (* chunks.len() - core_chunks.len() *)
  c_ranges : list nat;          (* range_cache: the k of each cached 0..k *)
  c_globals : globals           (* attributes of module main beyond the built-ins *)
}.

(* Vm::with_built_ins(): Vm::new has run the core library (core.yl) through execute, so a finished fiber is present *)
Definition init_carried : carried := mkC false [mkFiber 0 0 [] false false false] false mempty 0 [] gempty.

Definition range_cache_size : nat := 8.

(* ---------- H5 ---------- *)
Definition count_mods (r : modreg) : nat :=
  List.length (filter (fun m => match mget m r with Some _ => true | None => false end) all_mods).
Definition show_b01 (b : bool) : string := if b then "1" else "0".
Definition show_h5 (core : nat) (c : carried) : string :=
  let f := match c_fibers c with f :: _ => f | [] => mkFiber 0 0 [] false false false end in
  "he=" ++ show_b01 (c_he c) ++
  " fiber=" ++ show_b01 (match c_fibers c with [] => false | _ => true end) ++
  " frames=" ++ show_nat (fb_frames f) ++
  " stack=" ++ show_nat (fb_stack f) ++
  " handlers=" ++ show_nat (List.length (fb_handlers f)) ++
  " retpend=" ++ show_b01 (fb_retpend f) ++
  " errip=" ++ show_b01 (fb_errip f) ++
  " classdef=" ++ show_b01 (c_classdef c) ++
  " modules=" ++ show_nat (S (count_mods (c_mods c))) ++
  " chunks=" ++ show_nat (core + c_chunks c) ++
  " core_chunks=" ++ show_nat core ++
  " range_cache=" ++ show_nat (List.length (c_ranges c)).

(* ====================================================================================== *)
(* 3. the operations of vm.rs on the carried state *)

Definition with_he (b : bool) (c : carried) : carried :=
  mkC b (c_fibers c) (c_classdef c) (c_mods c) (c_chunks c) (c_ranges c) (c_globals c).
Definition with_fibers (l : list fiber) (c : carried) : carried :=
  mkC (c_he c) l (c_classdef c) (c_mods c) (c_chunks c) (c_ranges c) (c_globals c).
Definition with_classdef (b : bool) (c : carried) : carried :=
  mkC (c_he c) (c_fibers c) b (c_mods c) (c_chunks c) (c_ranges c) (c_globals c).
Definition with_mods (r : modreg) (c : carried) : carried :=
  mkC (c_he c) (c_fibers c) (c_classdef c) r (c_chunks c) (c_ranges c) (c_globals c).
Definition with_chunks (n : nat) (c : carried) : carried :=
  mkC (c_he c) (c_fibers c) (c_classdef c) (c_mods c) n (c_ranges c) (c_globals c).
Definition with_ranges (l : list nat) (c : carried) : carried :=
  mkC (c_he c) (c_fibers c) (c_classdef c) (c_mods c) (c_chunks c) l (c_globals c).
Definition with_globals (g : globals) (c : carried) : carried :=
  mkC (c_he c) (c_fibers c) (c_classdef c) (c_mods c) (c_chunks c) (c_ranges c) g.

(* the active fiber; with_active replaces it *)
Definition active (c : carried) : fiber :=
  match c_fibers c with f :: _ => f | [] => mkFiber 0 0 [] false false false end.
Definition with_active (f : fiber) (c : carried) : carried :=
  with_fibers (f :: tl (c_fibers c)) c.

(* compiler: add_chunk per finished function *)
Definition m_add_chunks (n : nat) (c : carried) : carried := with_chunks (c_chunks c + n) c.

(* execute, up to the first instruction: ip := null; fiber := None; handling_exception := false;
   new closure, new fiber, load_fiber (caller of the new fiber := the old self.fiber = None) *)
Definition m_execute_start (c : carried) : carried := with_fibers [fresh_fiber] (with_he false c).

(* reset_stack: the active fiber and every fiber waiting for it (caller chain, commits 309b782 / 6d7d827) get
   close_upvalues(0), stack.clear(), frames.clear(); the `caller` links are taken *)
Definition clear_fiber (f : fiber) : fiber :=
  mkFiber 0 0 (fb_handlers f) (fb_retpend f) (fb_errip f) false.
Definition m_reset_stack (c : carried) : carried :=
  match c_fibers c with
  | [] => c
  | f :: r => with_fibers (clear_fiber f :: map clear_fiber r) c
  end.

(* runtime_error: store_error_ip_or, trace, reset_stack *)
Definition m_runtime_error (c : carried) : carried := m_reset_stack c.

(* the final Return of the script: its frame is popped, its slot truncated *)
Definition m_run_ok (c : carried) : carried :=
  match c_fibers c with
  | [] => c
  | f :: r => with_fibers (mkFiber 0 0 (fb_handlers f) (fb_retpend f) (fb_errip f) false :: r) c
  end.

(* reset() *)
Definition m_reset (c : carried) : carried :=
  with_globals gempty (with_mods mempty (with_chunks 0 (m_reset_stack c))).

(* build_range: hit -> nothing; miss -> push, or replace one entry when the cache is full *)
Definition range_full (l : list nat) : bool := Nat.leb range_cache_size (List.length l).
Definition range_hit (k : nat) (l : list nat) : bool := existsb (Nat.eqb k) l.
Definition m_build_range (k : nat) (c : carried) : carried :=
  if range_hit k (c_ranges c) then c
  else if range_full (c_ranges c) then with_ranges (k :: tl (c_ranges c)) c
  else with_ranges (c_ranges c ++ [k])%list c.

(* ====================================================================================== *)
(* 4. instructions: the part of the bytecode that matters for the carried state *)

Inductive kind := KCompile | KRuntime | KName | KImport | KAttr.
Definition kind_s (k : kind) : string :=
  match k with KCompile => "CompileError" | KRuntime => "RuntimeError" | KName => "NameError"
             | KImport => "ImportError" | KAttr => "AttributeError" end.

Inductive instr :=
| IDefG (k : gname) (v : gval)          (* DefineGlobal with a value built by the snippet *)
| IPrintNum (g : idx)                   (* print(g<g>) *)
| IPrintCall (f : idx)                  (* print(f<f>()) *)
| IDeclClass                            (* DeclareClass (+ DefineGlobal name := nil) *)
| IInheritBad                           (* Inherit with a superclass that is not a class *)
| IDefClass (c : idx) (z : Z)           (* methods, DefineClass, the global now holds the class *)
| IUseClass (c : idx)                   (* print(C<c>); print(C<c>.new().m()); print(type(C<c>.new())) *)
| IPush (catch : bool)                  (* PushExcHandler *)
| IPop                                  (* PopExcHandler *)
| IThrow (z : Z)                        (* throw z *)
| IBuiltinErr (k : kind) (msg : string) (* an instruction fails: try_handle_error *)
| IEndFinally (expect_exc : bool)       (* EndFinally; expect_exc: does the source path arrive here with an exception in flight *)
| IOut (s : string)                     (* print of a literal *)
| ICall | IRet                          (* closure call / return *)
| IRetPending                           (* return inside try-with-finally: handler popped, return data saved *)
| IFiberEnter | IFiberLeave             (* load_fiber of a new fiber / the fiber's function returns *)
| ICapture (z : Z)                      (* var x = z; c = || x;  (open upvalue in the active fiber) *)
| ICloseUpv                             (* return closes the upvalues of the frame *)
| IUseLeak                              (* print(c()) *)
| IUseFiber                             (* print(fw.has_finished()) *)
| IRange (k : nat)                      (* 0..k : build_range *)
| IStartImport (m : modk)
| IFinishImport (m : modk) (bind : bool)(* FinishImport (+ DefineGlobal alias in module main when bind) *)
| IUseMod (m : modk).                   (* print(alias.v) *)

Inductive status :=
| Running
| Uncaught (k : kind) (msg : string)    (* run() returned Err: execute calls runtime_error *)
| Panicked (msg : string)               (* the Rust code panics *)
| Diverged (why : string).              (* the code takes another path than the source-level one *)

Record mstate := mkMS {
  ms_c : carried;
  ms_out : list string;                 (* printed lines, in order *)
  ms_loads : list modk;                 (* calls of the host module loader, in order *)
  ms_exc : kind * string;               (* the exception object last raised: kind and message if it ends the run *)
  ms_st : status
}.

Definition ms_with_c (c : carried) (s : mstate) : mstate := mkMS c (ms_out s) (ms_loads s) (ms_exc s) (ms_st s).
Definition ms_with_st (st : status) (s : mstate) : mstate := mkMS (ms_c s) (ms_out s) (ms_loads s) (ms_exc s) st.
Definition ms_print (l : string) (s : mstate) : mstate := mkMS (ms_c s) (ms_out s ++ [l])%list (ms_loads s) (ms_exc s) (ms_st s).

(* unwind_stack: pop the innermost handler of the ACTIVE fiber, or fail *)
Definition m_unwind (k : kind) (msg : string) (s : mstate) : mstate :=
  let c := ms_c s in
  let f := active c in
  let s := mkMS (ms_c s) (ms_out s) (ms_loads s) (k, msg) (ms_st s) in
  match fb_handlers f with
  | [] => ms_with_st (Uncaught k msg) s
  | h :: hs =>
    let cross := Nat.ltb (h_frames h) (fb_frames f) in
    let f' := mkFiber (h_frames h) (fb_stack f) hs (fb_retpend f)
                      (if h_catch h then false else (fb_errip f || cross)) (fb_open_upv f) in
    (* handling_exception := handler.has_catch_block(), which is true when there is NO catch clause *)
    ms_with_c (with_he (negb (h_catch h)) (with_active f' c)) s
  end.

(* try_handle_error (and the failure arm of call_native): error_ip := Some(ip) (commit 3f29ec2), then unwind_stack *)
Definition m_raise (k : kind) (msg : string) (s : mstate) : mstate :=
  let c := ms_c s in
  let f := active c in
  m_unwind k msg (ms_with_c (with_active (mkFiber (fb_frames f) (fb_stack f) (fb_handlers f) (fb_retpend f) true (fb_open_upv f)) c) s).

Definition name_error (n : string) : string := "Unhandled NameError: Undefined variable '" ++ n ++ "'.".
Definition exc_msg (z : Z) : string := "Unhandled exception: " ++ show_Z z.
Definition circular_msg (m : modk) : string :=
  "Unhandled ImportError: Circular dependency encountered when importing module '" ++ mod_path m ++ "'.".
Definition missing_msg (m : modk) : string :=
  "Unhandled ImportError: Unable to read file '" ++ mod_path m ++ ".yl' (file not found).".
Definition modcompile_msg : string := "Unhandled ImportError: Error compiling module:".
Definition superclass_msg : string := "Unhandled RuntimeError: Superclass must be a class.".
Definition attr_msg : string := "Unhandled AttributeError: Undefined property 'foo'.".
Definition total_msg : string := "Unhandled NameError: Undefined variable 'total'.".
Definition syntax_msg : string := "[module ""main"", line 1] Error at '=': Expected variable name.".
Definition mod_v (m : modk) : string :=
  match m with MGood => "10" | MThrow => "5" | MNest => "1" | _ => "?" end.

Definition frames_add (d : nat) (f : fiber) : fiber :=
  mkFiber (fb_frames f + d) (fb_stack f) (fb_handlers f) (fb_retpend f) (fb_errip f) (fb_open_upv f).
Definition frames_pred (f : fiber) : fiber :=
  mkFiber (pred (fb_frames f)) (fb_stack f) (fb_handlers f) (fb_retpend f) (fb_errip f) (fb_open_upv f).

(* the code of a module body, as far as it matters here *)
Definition module_code (m : modk) : list instr :=
  match m with
  | MGood => [IOut "load good"]
  | MThrow => [IOut "load bad"; IThrow 9]
  | MNest => [IStartImport MThrow; IFinishImport MThrow false]
  | _ => []
  end.

(* is_loading_module: a frame of the module's body is in the running fiber chain.  In the mini-language no failing import
   is caught, so a registered, not yet imported module is executing exactly when its loader call was made in THIS run *)
Definition is_loading (m : modk) (s : mstate) : bool := existsb (modk_eqb m) (ms_loads s).

(* one instruction; returns the new state and the code to run BEFORE the rest (module bodies) *)
Definition step (i : instr) (s : mstate) : mstate * list instr :=
  let c := ms_c s in
  match i with
  | IDefG k v => (ms_with_c (with_globals (gset k v (c_globals c)) c) s, [])
  | IPrintNum g =>
      match gget (GVar g) (c_globals c) with
      | Some (VNum z) => (ms_print (show_Z z) s, [])
      | _ => (m_raise KName (name_error (gname_s g)) s, [])
      end
  | IPrintCall f =>
      match gget (GFun f) (c_globals c) with
      | Some (VFn g) =>
          match gget (GVar g) (c_globals c) with
          | Some (VNum z) => (ms_print (show_Z (z + 1)) s, [])
          | _ => (m_raise KName (name_error (gname_s g)) (ms_with_c (with_active (frames_add 1 (active c)) c) s), [])
          end
      | _ => (m_raise KName (name_error (fname_s f)) s, [])
      end
  | IDeclClass => (ms_with_c (with_classdef true c) s, [])
  | IInheritBad => (m_raise KRuntime superclass_msg s, [])
  | IDefClass cl z =>
      (* working_class_def.take().expect("Expected ClassDef.") *)
      if c_classdef c
      then (ms_with_c (with_globals (gset (GCls cl) (VClass z) (c_globals c)) (with_classdef false c)) s, [])
      else (ms_with_st (Panicked "Expected ClassDef.") s, [])
  | IUseClass cl =>
      match gget (GCls cl) (c_globals c) with
      (* the class object was built by DeclareClass from the name in the statement: it prints that name *)
      | Some (VClass z) => (ms_print (class_s cl) (ms_print (show_Z z) (ms_print (class_s cl) s)), [])
      | _ => (m_raise KName (name_error (cname_s cl)) s, [])
      end
  | IPush catch =>
      let f := active c in
      (ms_with_c (with_active (mkFiber (fb_frames f) (fb_stack f) (mkH catch (fb_frames f) :: fb_handlers f)
                                       (fb_retpend f) (fb_errip f) (fb_open_upv f)) c) s, [])
  | IPop =>
      let f := active c in
      (ms_with_c (with_active (mkFiber (fb_frames f) (fb_stack f) (tl (fb_handlers f))
                                       (fb_retpend f) (fb_errip f) (fb_open_upv f)) c) s, [])
  | IThrow z =>
      (* throw_impl: handling_exception := true; error_ip := Some(ip); unwind_stack *)
      (m_raise KRuntime (exc_msg z) (ms_with_c (with_he true c) s), [])
  | IBuiltinErr k msg => (m_raise k msg s, [])
  | IEndFinally expect =>
      (* end_finally_impl: if handling_exception { unwind_stack } ; take_return_data *)
      if c_he c then
        if expect then (m_unwind (fst (ms_exc s)) (snd (ms_exc s)) s, [])
        else (ms_with_st (Diverged "EndFinally re-raises although no exception is in flight (stale flag)") s, [])
      else
        if expect then (ms_with_st (Diverged "EndFinally swallows the exception in flight") s, [])
        else
          let f := active c in
          (ms_with_c (with_active (mkFiber (fb_frames f) (fb_stack f) (fb_handlers f) false (fb_errip f) (fb_open_upv f)) c) s, [])
  | IOut l => (ms_print l s, [])
  | ICall => (ms_with_c (with_active (frames_add 1 (active c)) c) s, [])
  | IRet => (ms_with_c (with_active (frames_pred (active c)) c) s, [])
  | IRetPending =>
      let f := active c in
      (ms_with_c (with_active (mkFiber (fb_frames f) (fb_stack f) (tl (fb_handlers f)) true (fb_errip f) (fb_open_upv f)) c) s, [])
  | IFiberEnter => (ms_with_c (with_fibers (fresh_fiber :: c_fibers c) c) s, [])
  | IFiberLeave => (ms_with_c (with_fibers (tl (c_fibers c)) c) s, [])
  | ICapture z =>
      let f := active c in
      (ms_with_c (with_globals (gset GLeak (VClosure z) (c_globals c))
                    (with_active (mkFiber (fb_frames f) (fb_stack f) (fb_handlers f) (fb_retpend f) (fb_errip f) true) c)) s, [])
  | ICloseUpv =>
      let f := active c in
      (ms_with_c (with_active (mkFiber (fb_frames f) (fb_stack f) (fb_handlers f) (fb_retpend f) (fb_errip f) false) c) s, [])
  | IUseLeak =>
      match gget GLeak (c_globals c) with
      | Some (VClosure z) => (ms_print (show_Z z) s, [])
      | _ => (m_raise KName (name_error "c") s, [])
      end
  | IUseFiber =>
      match gget GFib (c_globals c) with
      | Some VFiber => (ms_print "true" s, [])
      | _ => (m_raise KName (name_error "fw") s, [])
      end
  | IRange k => (ms_with_c (m_build_range k c) s, [])
  | IStartImport m =>
      (* load: the host loader is asked, the source compiled (one chunk), self.module(path) registers the module,
         its body is called *)
      let load (c0 : carried) :=
          let s1 := mkMS c0 (ms_out s) (ms_loads s ++ [m])%list (ms_exc s) (ms_st s) in
          match m with
          | MMissing => (m_raise KImport (missing_msg m) s1, [])
          | MSyntax => (m_raise KImport modcompile_msg s1, [])
          | _ =>
            let c1 := with_active (frames_add 1 (active c0)) (with_mods (mset m false (c_mods c0)) (m_add_chunks 1 c0)) in
            (ms_with_c c1 s1, (module_code m ++ [IRet])%list)
          end in
      match mget m (c_mods c) with
      | Some true => (s, [])                               (* already imported: push the module *)
      | Some false =>
          (* commit 367eb72: "Circular dependency" only while the module's body is executing in the running fiber
             chain (is_loading_module); otherwise the entry is the leftover of an import that failed before
             FinishImport: it is removed and the module loaded afresh *)
          if is_loading m s then (m_raise KImport (circular_msg m) s, [])
          else load (with_mods (mdel m (c_mods c)) c)
      | None => load c
      end
  | IFinishImport m bind =>
      let c1 := with_mods (mset m true (c_mods c)) c in
      (ms_with_c (if bind then with_globals (gset (GMod m) (VMod m) (c_globals c1)) c1 else c1) s, [])
  | IUseMod m =>
      match gget (GMod m) (c_globals c) with
      | Some (VMod m') => (ms_print (mod_v m') s, [])
      | _ => (m_raise KName (name_error (mod_alias m)) s, [])
      end
  end.

Fixpoint run_instrs (fuel : nat) (code : list instr) (s : mstate) : mstate :=
  match fuel with
  | O => ms_with_st (Diverged "fuel") s
  | S n =>
    match ms_st s with
    | Running =>
      match code with
      | [] => s
      | i :: rest => let '(s', pre) := step i s in run_instrs n (pre ++ rest)%list s'
      end
    | _ => s
    end
  end.

(* ====================================================================================== *)
(* 5. snippets: compile result and code *)

Fixpoint repeat_instr (i : instr) (n : nat) : list instr := match n with O => [] | S k => i :: repeat_instr i k end.

Definition code_where (w : where_) : list instr :=
  match w with
  | WTop => [IThrow 1]
  | WNested d => (repeat_instr ICall (depth_nat d) ++ [IThrow 1])%list
  | WFiber => [IFiberEnter; IThrow 1]
  | WTryFinally => [IPush false; IThrow 1; IOut "fin"; IEndFinally true]
  | WCatch => [IPush true; IThrow 1; IThrow 2]
  | WFinally => [IPush false; IOut "t"; IPop; IThrow 3]
  | WFinallyRet => [ICall; IPush false; IRetPending; IThrow 4]
  | WClassDef => [IDeclClass; IInheritBad]
  | WClassDefNested => [ICall; IDeclClass; IInheritBad]
  | WCapture => [ICall; ICapture 41; IThrow 1]
  | WBuiltin => [IPush false; IBuiltinErr KAttr attr_msg; IOut "nf"; IEndFinally true]
  | WCaptureFiber => [ICall; ICapture 41; IFiberEnter; IThrow 1]
  | WFiberWait => [IDefG GFib VFiber; IFiberEnter; IFiberEnter; IThrow 1]
  (* set_global_impl: attributes.insert(name, value); the name was absent: remove it again, then NameError.
     Net effect on the globals before the error is raised: none *)
  | WSetGlobal => [IBuiltinErr KName total_msg]
  | WSetGlobalNested => [ICall; IBuiltinErr KName total_msg]
  | WSetGlobalFiber => [IFiberEnter; IBuiltinErr KName total_msg]
  end.

Definition code_of (s : snip) : list instr :=
  match s with
  | SnVar g z => [IDefG (GVar g) (VNum z)]
  | SnPrint g => [IPrintNum g]
  | SnFn f g => [IDefG (GFun f) (VFn g)]
  | SnCall f => [IPrintCall f]
  | SnClass c z => [IDeclClass; IDefClass c z]
  | SnUse c => [IUseClass c]
  | SnSyntax _ => []
  | SnThrow w d =>
      (match d with Some (g, z) => [IDefG (GVar g) (VNum z)] | None => [] end ++ code_where w)%list
  | SnTryFin => [IPush false; IOut "t"; IPop; IOut "f"; IEndFinally false; IOut "after"]
  | SnTryCatch => [IPush true; IThrow 7; IOut "7"; IOut "after"]
  | SnFiberOk => [IFiberEnter; IFiberLeave; IOut "5"]
  | SnCaptureOk => [ICall; ICapture 42; ICloseUpv; IRet]
  | SnRange k => IRange (depth_nat k) :: map (fun i => IOut (show_nat i)) (seq 0 (depth_nat k))
  | SnUseLeak => [IUseLeak]
  | SnUseFiber => [IUseFiber]
  | SnProbeTotal => [IBuiltinErr KName total_msg]   (* GetGlobal of a name no snippet declares *)
  (* the finally block is entered by unwind_stack (flag := true, no catch clause); `return` leaves the frame without
     EndFinally, so nothing clears the flag: the run ends successfully with handling_exception = true *)
  | SnSwallowOk => [ICall; IPush false; IThrow 1; IRet; IOut "8"]
  (* Fiber.yield inside the finally block: the caller continues, the parked fiber is never resumed *)
  | SnParkFin => [IFiberEnter; IPush false; IThrow 1; IFiberLeave; IOut "3"]
  | SnImport m => [IStartImport m; IFinishImport m true; IUseMod m]
  | SnUseMod m => [IUseMod m]
  | SnReset => []
  end.

(* functions finished by the compiler (add_chunk each), script included *)
Definition chunks_where (w : where_) : nat :=
  match w with
  | WTop | WTryFinally | WCatch | WFinally | WClassDef | WBuiltin => 1
  | WNested d => S (depth_nat d)
  | WFiber | WFinallyRet | WClassDefNested => 2
  | WCapture => 3
  | WCaptureFiber => 4
  | WFiberWait => 3
  | WSetGlobal => 1
  | WSetGlobalNested | WSetGlobalFiber => 2
  end.
Definition chunks_of (s : snip) : nat :=
  match s with
  | SnFn _ _ => 2
  | SnClass _ _ => 3
  | SnSyntax pre => if pre then 1 else 0
  | SnThrow w _ => chunks_where w
  | SnFiberOk => 2
  | SnCaptureOk => 3
  | SnSwallowOk | SnParkFin => 2
  | SnReset => 0
  | _ => 1
  end.
Definition compiles (s : snip) : bool := match s with SnSyntax _ => false | _ => true end.

(* ====================================================================================== *)
(* 6. one snippet on the carried state; observation *)

Inductive outcome :=
| OOk
| OErr (k : kind) (msg : string)
| OPanic (msg : string)
| ODiverged (why : string)
| OReset.

Record obs := mkObs { o_out : list string; o_res : outcome; o_loads : list modk }.

Definition run_fuel : nat := 64.

Definition m_snippet (c : carried) (s : snip) : carried * obs :=
  match s with
  | SnReset => (m_reset c, mkObs [] OReset [])
  | _ =>
    let c0 := m_add_chunks (chunks_of s) c in
    if compiles s then
      let r := run_instrs run_fuel (code_of s) (mkMS (m_execute_start c0) [] [] (KRuntime, "") Running) in
      match ms_st r with
      | Running => (m_run_ok (ms_c r), mkObs (ms_out r) OOk (ms_loads r))
      | Uncaught k msg => (m_runtime_error (ms_c r), mkObs (ms_out r) (OErr k msg) (ms_loads r))
      | Panicked msg => (ms_c r, mkObs (ms_out r) (OPanic msg) (ms_loads r))
      | Diverged why => (ms_c r, mkObs (ms_out r) (ODiverged why) (ms_loads r))
      end
    else (c0, mkObs [] (OErr KCompile syntax_msg) [])
  end.

(* eval_mech: observation and carried state after every snippet *)
Fixpoint m_history (c : carried) (h : history) : list (obs * carried) :=
  match h with
  | [] => []
  | s :: r => let '(c', o) := m_snippet c s in (o, c') :: m_history c' r
  end.
Definition eval_mech (h : history) : list (obs * carried) := m_history init_carried h.

(* ---------- printable ---------- *)
Definition show_outcome (o : outcome) : string :=
  match o with
  | OOk => "ok"
  | OErr k msg => "err:" ++ kind_s k ++ ":" ++ hex_of_string msg
  | OPanic msg => "panic:" ++ hex_of_string msg
  | ODiverged why => "diverged:" ++ hex_of_string why
  | OReset => "reset"
  end.
Definition show_obs (o : obs) : string :=
  "out=" ++ show_sep "," hex_of_string (o_out o) ++ ";res=" ++ show_outcome (o_res o).
Definition show_loads (l : list modk) : string := show_sep "," mod_path l.
Definition show_mech (core : nat) (oc : obs * carried) : string :=
  show_obs (fst oc) ++ ";loads=" ++ show_loads (o_loads (fst oc)) ++ ";cs=" ++ show_h5 core (snd oc).
