(* C15 - the Mechanism as it was BEFORE commit 367eb72: start_import answered every registered, not yet imported module
   with the "Circular dependency" ImportError, so a module whose body had failed stayed poisoned until reset().
   Kept only to show that the repaired defect is a defect of the model too (C15_failed_import_refuted_old) and to
   select the variant by the boolean the translator reads from the registry-hit branch of start_import_impl.
   DEFINITIONS ONLY. *)
From Coq Require Import List Bool Arith ZArith String.
From YV Require Import Show ReplLang Reuse.
Import ListNotations.
Local Open Scope string_scope.

Definition step_old (i : instr) (s : mstate) : mstate * list instr :=
  match i with
  | IStartImport m =>
      match mget m (c_mods (ms_c s)) with
      | Some false => (m_raise KImport (circular_msg m) s, [])
      | _ => step i s
      end
  | _ => step i s
  end.

Fixpoint run_instrs_old (fuel : nat) (code : list instr) (s : mstate) : mstate :=
  match fuel with
  | O => ms_with_st (Diverged "fuel") s
  | S n =>
    match ms_st s with
    | Running =>
      match code with
      | [] => s
      | i :: rest => let '(s', pre) := step_old i s in run_instrs_old n (pre ++ rest)%list s'
      end
    | _ => s
    end
  end.

Definition m_snippet_old (c : carried) (s : snip) : carried * obs :=
  match s with
  | SnImport _ =>
    let c0 := m_add_chunks (chunks_of s) c in
    let r := run_instrs_old run_fuel (code_of s) (mkMS (m_execute_start c0) [] [] (KRuntime, "") Running) in
    match ms_st r with
    | Running => (m_run_ok (ms_c r), mkObs (ms_out r) OOk (ms_loads r))
    | Uncaught k msg => (m_runtime_error (ms_c r), mkObs (ms_out r) (OErr k msg) (ms_loads r))
    | Panicked msg => (ms_c r, mkObs (ms_out r) (OPanic msg) (ms_loads r))
    | Diverged why => (ms_c r, mkObs (ms_out r) (ODiverged why) (ms_loads r))
    end
  | _ => m_snippet c s
  end.

Fixpoint m_history_old (c : carried) (h : history) : list (obs * carried) :=
  match h with
  | [] => []
  | s :: r => let '(c', o) := m_snippet_old c s in (o, c') :: m_history_old c' r
  end.
Definition eval_mech_old (h : history) : list (obs * carried) := m_history_old init_carried h.

(* hard-wired: the code reloads a dead module entry; compared with the regenerated boolean in props/C15.v *)
Definition import_reloads_dead : bool := true.
Definition mech_variant (reloads : bool) (h : history) : list (obs * carried) :=
  if reloads then eval_mech h else eval_mech_old h.

(* ---------- a design that looks equivalent and is not: the flag cleared where a FAILED run ends ----------
   `handling_exception := false` in reset_stack (end of runtime_error, and reset()) instead of at the start of execute.
   Every history of uncaught errors behaves the same; a run that ends SUCCESSFULLY with the flag set (SnSwallowOk,
   SnParkFin) now hands the flag to the next run.  Kept to show that the Mechanism is sensitive to WHERE the flag is
   cleared (ReuseRefine.late_flag_reset_refuted). *)
Definition m_snippet_late (c : carried) (s : snip) : carried * obs :=
  match s with
  | SnReset => (with_he false (m_reset c), mkObs [] OReset [])
  | _ =>
    let c0 := m_add_chunks (chunks_of s) c in
    if compiles s then
      let r := run_instrs run_fuel (code_of s) (mkMS (with_fibers [fresh_fiber] c0) [] [] (KRuntime, "") Running) in
      match ms_st r with
      | Running => (m_run_ok (ms_c r), mkObs (ms_out r) OOk (ms_loads r))
      | Uncaught k msg => (with_he false (m_runtime_error (ms_c r)), mkObs (ms_out r) (OErr k msg) (ms_loads r))
      | Panicked msg => (ms_c r, mkObs (ms_out r) (OPanic msg) (ms_loads r))
      | Diverged why => (ms_c r, mkObs (ms_out r) (ODiverged why) (ms_loads r))
      end
    else (c0, mkObs [] (OErr KCompile syntax_msg) [])
  end.
Fixpoint m_history_late (c : carried) (h : history) : list (obs * carried) :=
  match h with
  | [] => []
  | s :: r => let '(c', o) := m_snippet_late c s in (o, c') :: m_history_late c' r
  end.
Definition eval_mech_late (h : history) : list (obs * carried) := m_history_late init_carried h.
