(* C15 - proofs about the Mechanism (Reuse.v) and its refinement of the Spec (ReuseSpec.v), for ALL histories of
   the mini-language (ReplLang.v), any length.

   stale_state_harmless        no snippet's observation depends on handling_exception, the old fiber (handlers,
                               return_ip, error_ip, frames, stack), working_class_def or the range cache left behind
   execute_starts_fresh        every run starts with the flag cleared, on a new fiber with an empty handler stack
   run_leaves_clean            after any snippet the active fiber has no frame and an empty stack
   failed_snippet_only_definitions   M = S (output, outcome, loader calls) at every snippet outside the named class
   failed_import_refuted       the named class is inhabited: M <> S on a concrete history
   reset_is_fresh              RESET then h  ==  a new interpreter then h  (observations) *)
From Coq Require Import List Bool Arith ZArith String Lia.
From YV Require Import Show ReplLang Reuse ReuseSpec.
Import ListNotations.

Arguments show_Z : simpl never.
Arguments show_nat : simpl never.
Arguments name_error : simpl never.
Arguments exc_msg : simpl never.
Arguments circular_msg : simpl never.
Arguments missing_msg : simpl never.
Arguments gname_s : simpl never.
Arguments fname_s : simpl never.
Arguments cname_s : simpl never.
Arguments mod_alias : simpl never.
Arguments mod_v : simpl never.
Arguments String.append : simpl never.
Arguments Z.add : simpl never.
Arguments range_full : simpl never.
Arguments range_hit : simpl never.
Arguments gget : simpl never.
Arguments mget : simpl never.
Arguments gset : simpl never.
Arguments mset : simpl never.

(* ====================================================================================== *)
(* A. what a run can depend on *)

(* equal except working_class_def and range_cache *)
Definition ceq (c c' : carried) : Prop :=
  c_he c = c_he c' /\ c_fibers c = c_fibers c' /\ c_mods c = c_mods c' /\ c_chunks c = c_chunks c' /\
  c_globals c = c_globals c'.
Definition meq (s s' : mstate) : Prop :=
  ceq (ms_c s) (ms_c s') /\ ms_out s = ms_out s' /\ ms_loads s = ms_loads s' /\ ms_exc s = ms_exc s' /\
  ms_st s = ms_st s'.
(* the logical content only *)
Definition leq (c c' : carried) : Prop :=
  c_mods c = c_mods c' /\ c_chunks c = c_chunks c' /\ c_globals c = c_globals c'.

Definition not_defclass (i : instr) : bool := match i with IDefClass _ _ => false | _ => true end.
Definition nodef (code : list instr) : bool := forallb not_defclass code.

Ltac destr_states :=
  repeat match goal with
  | s : mstate |- _ => destruct s as [[? ? ? ? ? ? ?] ? ? ? ?]
  | c : carried |- _ => destruct c as [? ? ? ? ? ? ?]
  end.

Lemma meq_refl_parts : forall he fibs cd cd' mods ch rg rg' gl out lo ex st,
  meq (mkMS (mkC he fibs cd mods ch rg gl) out lo ex st) (mkMS (mkC he fibs cd' mods ch rg' gl) out lo ex st).
Proof. intros; repeat split. Qed.

Lemma meq_inv : forall s s', meq s s' ->
  exists he fibs cd cd' mods ch rg rg' gl out lo ex st,
    s = mkMS (mkC he fibs cd mods ch rg gl) out lo ex st /\
    s' = mkMS (mkC he fibs cd' mods ch rg' gl) out lo ex st.
Proof.
  intros s s' H. destr_states. unfold meq, ceq in H; cbn in H.
  destruct H as [[? [? [? [? ?]]]] [? [? [? ?]]]]; subst.
  repeat eexists.
Qed.

Ltac lookups :=
  repeat match goal with
  | |- context [match gget ?k ?g with _ => _ end] => destruct (gget k g) as [[? | ? | ? | ? | | ?]|]
  | |- context [match mget ?k ?g with _ => _ end] => destruct (mget k g) as [[]|]
  | |- context [if range_hit ?p ?l then _ else _] => destruct (range_hit p l)
  | |- context [if range_full ?l then _ else _] => destruct (range_full l)
  | |- context [match ?l with [] => _ | _ :: _ => _ end] => is_var l; destruct l
  | |- context [if ?b then _ else _] => is_var b; destruct b
  end.

Lemma unwind_meq : forall k msg s s', meq s s' -> meq (m_unwind k msg s) (m_unwind k msg s').
Proof.
  intros k msg s s' H. apply meq_inv in H.
  destruct H as (he & fibs & cd & cd' & mods & ch & rg & rg' & gl & out & lo & ex & st & -> & ->).
  unfold m_unwind, active; cbn.
  destruct fibs as [|f r]; cbn.
  - apply meq_refl_parts.
  - destruct (fb_handlers f) as [|h hs]; cbn; apply meq_refl_parts.
Qed.

Lemma raise_meq : forall k msg s s', meq s s' -> meq (m_raise k msg s) (m_raise k msg s').
Proof.
  intros k msg s s' H. unfold m_raise. apply unwind_meq.
  apply meq_inv in H.
  destruct H as (he & fibs & cd & cd' & mods & ch & rg & rg' & gl & out & lo & ex & st & -> & ->).
  cbn. apply meq_refl_parts.
Qed.

Lemma step_meq : forall i s s', not_defclass i = true -> meq s s' ->
  meq (fst (step i s)) (fst (step i s')) /\ snd (step i s) = snd (step i s').
Proof.
  intros i s s' Hi H.
  destruct i; try discriminate Hi;
    try (apply meq_inv in H;
         destruct H as (he & fibs & cd & cd' & mods & ch & rg & rg' & gl & out & lo & ex & st & -> & ->);
         cbn; lookups; cbn; split; try reflexivity;
         first [ apply meq_refl_parts | apply raise_meq; apply meq_refl_parts
               | apply unwind_meq; apply meq_refl_parts ]).
  - (* IRange: only the cache changes *)
    apply meq_inv in H.
    destruct H as (he & fibs & cd & cd' & mods & ch & rg & rg' & gl & out & lo & ex & st & -> & ->).
    cbn. unfold m_build_range; cbn.
    destruct (range_hit k rg), (range_hit k rg'), (range_full rg), (range_full rg'); cbn;
      split; try reflexivity; apply meq_refl_parts.
  - (* IStartImport *)
    apply meq_inv in H.
    destruct H as (he & fibs & cd & cd' & mods & ch & rg & rg' & gl & out & lo & ex & st & -> & ->).
    cbn. destruct (mget m mods) as [[]|]; cbn.
    + split; [apply meq_refl_parts | reflexivity].
    + unfold is_loading; cbn. destruct (existsb (modk_eqb m) lo); cbn.
      * split; [apply raise_meq; apply meq_refl_parts | reflexivity].
      * destruct m; cbn; split; try reflexivity;
          first [ apply meq_refl_parts | apply raise_meq; apply meq_refl_parts ].
    + destruct m; cbn; split; try reflexivity;
        first [ apply meq_refl_parts | apply raise_meq; apply meq_refl_parts ].
Qed.

Lemma step_pre_nodef : forall i s, nodef (snd (step i s)) = true.
Proof.
  intros i s; destruct i; cbn; try reflexivity; destr_states; cbn; lookups; try reflexivity.
  all: unfold is_loading; cbn;
       try match goal with |- context [existsb ?p ?l] => destruct (existsb p l) end; try reflexivity.
  all: match goal with m : modk |- _ => destruct m; reflexivity end.
Qed.

Lemma nodef_app : forall a b, nodef a = true -> nodef b = true -> nodef (a ++ b) = true.
Proof. intros; unfold nodef; rewrite forallb_app; apply andb_true_intro; split; assumption. Qed.

Lemma meq_st : forall s s', meq s s' -> ms_st s = ms_st s'.
Proof. intros s s' H; apply H. Qed.

Lemma run_meq : forall n code s s', nodef code = true -> meq s s' ->
  meq (run_instrs n code s) (run_instrs n code s').
Proof.
  induction n as [|n IH]; intros code s s' Hc H; cbn.
  - apply meq_inv in H.
    destruct H as (he & fibs & cd & cd' & mods & ch & rg & rg' & gl & out & lo & ex & st & -> & ->).
    apply meq_refl_parts.
  - rewrite <- (meq_st _ _ H). destruct (ms_st s); try exact H.
    destruct code as [|i rest]; [exact H|].
    cbn in Hc. apply andb_prop in Hc. destruct Hc as [Hi Hr].
    destruct (step_meq i s s' Hi H) as [H1 H2].
    pose proof (step_pre_nodef i s) as Hp.
    destruct (step i s) as [t pre]; destruct (step i s') as [t' pre']; cbn in *; subst pre'.
    apply IH; [apply nodef_app; assumption | exact H1].
Qed.

(* --- snippets --- *)
Definition runs (s : snip) : bool := match s with SnReset | SnSyntax _ => false | _ => true end.

Lemma leq_refl_parts : forall he he' fibs fibs' cd cd' mods ch rg rg' gl,
  leq (mkC he fibs cd mods ch rg gl) (mkC he' fibs' cd' mods ch rg' gl).
Proof. intros; repeat split. Qed.

Lemma leq_inv : forall c c', leq c c' ->
  exists he he' fibs fibs' cd cd' mods ch rg rg' gl,
    c = mkC he fibs cd mods ch rg gl /\ c' = mkC he' fibs' cd' mods ch rg' gl.
Proof.
  intros c c' H; destr_states; unfold leq in H; cbn in H. destruct H as [? [? ?]]; subst. repeat eexists.
Qed.

Lemma ceq_finish : forall c c', ceq c c' ->
  leq (m_run_ok c) (m_run_ok c') /\ leq (m_runtime_error c) (m_runtime_error c') /\ leq c c' /\
  c_he (m_run_ok c) = c_he (m_run_ok c') /\ c_fibers (m_run_ok c) = c_fibers (m_run_ok c') /\
  c_he (m_runtime_error c) = c_he (m_runtime_error c') /\
  c_fibers (m_runtime_error c) = c_fibers (m_runtime_error c').
Proof.
  intros c c' H; destr_states; unfold ceq in H; cbn in H.
  destruct H as [? [? [? [? ?]]]]; subst.
  unfold m_run_ok, m_runtime_error, m_reset_stack; cbn.
  match goal with |- context [match ?l with [] => _ | _ :: _ => _ end] => destruct l end; cbn;
    repeat split; reflexivity.
Qed.

Lemma code_nodef : forall s, (forall c z, s <> SnClass c z) -> nodef (code_of s) = true.
Proof.
  intros s H; destruct s as [g z|g|f g|f|cl z|cl|pre|w d|  |  |  |  |k|  |  |  |  |  |m|m| ]; try reflexivity.
  - exfalso; eapply H; reflexivity.
  - destruct d as [[g z]|]; destruct w as [|[]| | | | | | | | | | | | | | ]; reflexivity.
  - destruct k; reflexivity.
Qed.

(* one snippet from two states with the same logical content: same observation, same logical content after;
   and when the snippet runs, the same flag and fiber after *)
Theorem snippet_leq : forall c c' s, leq c c' ->
  snd (m_snippet c s) = snd (m_snippet c' s) /\
  leq (fst (m_snippet c s)) (fst (m_snippet c' s)) /\
  (runs s = true -> c_he (fst (m_snippet c s)) = c_he (fst (m_snippet c' s)) /\
                    c_fibers (fst (m_snippet c s)) = c_fibers (fst (m_snippet c' s))).
Proof.
  intros c c' s H. apply leq_inv in H.
  destruct H as (he & he' & fibs & fibs' & cd & cd' & mods & ch & rg & rg' & gl & -> & ->).
  destruct s as [g z|g|f g|f|cl z|cl|pre|w d|  |  |  |  |k|  |  |  |  |  |m|m| ].
  5: { (* SnClass: DeclareClass sets the pending definition before DefineClass takes it *)
       cbn. repeat split. }
  6: { (* SnSyntax *) cbn. split; [reflexivity | split; [repeat split | intros Hf; discriminate Hf]]. }
  19: { (* SnReset *) cbn. unfold m_reset, m_reset_stack; cbn.
        destruct fibs, fibs'; cbn; (split; [reflexivity | split; [repeat split | intros Hf; discriminate Hf]]). }
  all: match goal with |- context [m_snippet _ ?s] =>
         assert (Hn : nodef (code_of s) = true) by (apply code_nodef; intros; discriminate);
         set (sn := s) in *
       end.
  all: assert (Hr : meq (run_instrs run_fuel (code_of sn)
                          (mkMS (m_execute_start (m_add_chunks (chunks_of sn) (mkC he fibs cd mods ch rg gl))) [] [] (KRuntime, ""%string) Running))
                        (run_instrs run_fuel (code_of sn)
                          (mkMS (m_execute_start (m_add_chunks (chunks_of sn) (mkC he' fibs' cd' mods ch rg' gl))) [] [] (KRuntime, ""%string) Running)))
         by (apply run_meq; [exact Hn | cbn; apply meq_refl_parts]).
  all: unfold m_snippet; subst sn; cbv beta iota delta [compiles];
       match goal with Hr : meq ?a ?b |- _ => set (ra := a) in *; set (rb := b) in * end;
       destruct Hr as [Hc [Ho [Hl [_ Hs]]]];
       rewrite <- Hs, <- Ho, <- Hl;
       destruct (ceq_finish _ _ Hc) as (F1 & F2 & F3 & F4 & F5 & F6 & F7);
       destruct Hc as [Hc1 [Hc2 _]];
       destruct (ms_st ra); cbn [fst snd];
       [ split; [reflexivity | split; [exact F1 | intros _; split; [exact F4 | exact F5]]]
       | split; [reflexivity | split; [exact F2 | intros _; split; [exact F6 | exact F7]]]
       | split; [reflexivity | split; [exact F3 | intros _; split; [exact Hc1 | exact Hc2]]]
       | split; [reflexivity | split; [exact F3 | intros _; split; [exact Hc1 | exact Hc2]]] ].
Qed.

Lemma history_leq : forall h c c', leq c c' -> map fst (m_history c h) = map fst (m_history c' h).
Proof.
  induction h as [|s r IH]; intros c c' H; [reflexivity|].
  cbn. destruct (snippet_leq c c' s H) as [Ho [Hl _]].
  destruct (m_snippet c s) as [c1 o1]; destruct (m_snippet c' s) as [c2 o2]; cbn in *.
  subst o2. f_equal. apply IH; exact Hl.
Qed.

(* T: nothing a snippet prints, its outcome, and the loader calls it makes depends on the flag, fiber, pending class
   definition or range cache left behind by earlier snippets *)
Theorem stale_state_harmless : forall h c he fibs cd rg,
  map fst (m_history (mkC he fibs cd (c_mods c) (c_chunks c) rg (c_globals c)) h) = map fst (m_history c h).
Proof. intros; apply history_leq; destruct c; repeat split. Qed.

(* T: every run starts with handling_exception = false on a new fiber whose handler stack is empty, whatever was left *)
Theorem execute_starts_fresh : forall c,
  c_he (m_execute_start c) = false /\ c_fibers (m_execute_start c) = [fresh_fiber] /\
  fb_handlers (active (m_execute_start c)) = [] /\ fb_retpend (active (m_execute_start c)) = false /\
  fb_errip (active (m_execute_start c)) = false /\ fb_open_upv (active (m_execute_start c)) = false.
Proof. intros c; repeat split. Qed.

Theorem snippet_runs_from_execute_start : forall c s, runs s = true ->
  exists r, r = run_instrs run_fuel (code_of s)
                  (mkMS (m_execute_start (m_add_chunks (chunks_of s) c)) [] [] (KRuntime, ""%string) Running) /\
            o_out (snd (m_snippet c s)) = ms_out r /\ o_loads (snd (m_snippet c s)) = ms_loads r.
Proof.
  intros c s H. eexists; split; [reflexivity|].
  destruct s; try discriminate H; unfold m_snippet; cbv beta iota delta [compiles];
    match goal with |- context [ms_st ?r] => destruct (ms_st r) end; split; reflexivity.
Qed.

(* T: RESET followed by any history == a newly created interpreter followed by that history *)
Theorem reset_is_fresh : forall c h,
  map fst (m_history (m_reset c) h) = map fst (eval_mech h).
Proof.
  intros c h. unfold eval_mech. apply history_leq.
  destruct c as [he fibs cd mods ch rg gl]. unfold m_reset, m_reset_stack; cbn.
  destruct fibs; repeat split.
Qed.

Corollary reset_is_fresh_history : forall (pre h : history),
  skipn (S (List.length pre)) (map fst (eval_mech (pre ++ SnReset :: h)%list)) = map fst (eval_mech h).
Proof.
  intros pre h. unfold eval_mech at 1.
  generalize init_carried at 1. induction pre as [|s r IH]; intros c.
  - cbn. apply reset_is_fresh.
  - cbn. destruct (m_snippet c s) as [c1 o1]. cbn. apply IH.
Qed.

(* ====================================================================================== *)
(* B. run_leaves_clean *)

Definition clean (c : carried) : Prop :=
  match c_fibers c with [] => True | f :: _ => fb_frames f = 0 /\ fb_stack f = 0 /\ fb_open_upv f = false end.
Definition settled (o : obs) : Prop :=
  match o_res o with OOk | OErr _ _ | OReset => True | _ => False end.

Lemma clean_run_ok : forall c, clean (m_run_ok c).
Proof. intros c; unfold clean, m_run_ok; destruct c as [? [|f r] ? ? ? ? ?]; cbn; auto. Qed.
Lemma clean_runtime_error : forall c, clean (m_runtime_error c).
Proof.
  intros c; unfold clean, m_runtime_error, m_reset_stack; destruct c as [? [|f r] ? ? ? ? ?]; cbn; auto.
Qed.
Lemma clean_reset : forall c, clean (m_reset c).
Proof. intros c; unfold clean, m_reset, m_reset_stack; destruct c as [? [|f r] ? ? ? ? ?]; cbn; auto. Qed.

Theorem snippet_leaves_clean : forall c s, clean c -> settled (snd (m_snippet c s)) -> clean (fst (m_snippet c s)).
Proof.
  intros c s Hc Hs.
  destruct s; try (cbn [m_snippet fst]; apply clean_reset);
    unfold m_snippet in *; cbv beta iota delta [compiles] in *;
    try match goal with |- context [ms_st ?r] => destruct (ms_st r) eqn:E end; cbn [fst snd] in *;
    try apply clean_run_ok; try apply clean_runtime_error; try (exfalso; exact Hs).
  (* SnSyntax: nothing runs *)
  destruct c as [? [|f r] ? ? ? ? ?]; cbn in *; auto.
Qed.

Theorem run_leaves_clean_from : forall h c, clean c ->
  Forall (fun oc => settled (fst oc)) (m_history c h) -> Forall (fun oc => clean (snd oc)) (m_history c h).
Proof.
  induction h as [|s r IH]; intros c Hc Hs; cbn in *; [constructor|].
  pose proof (snippet_leaves_clean c s Hc) as Hstep.
  destruct (m_snippet c s) as [c1 o1]; cbn in *.
  inversion Hs; subst. constructor; cbn; auto.
Qed.

Lemma clean_init : clean init_carried.
Proof. cbn; auto. Qed.

(* after an uncaught error: no frame, empty stack - while exc_handlers / return_ip / error_ip of the dead fiber stay *)
Theorem run_leaves_clean : forall h,
  Forall (fun oc => settled (fst oc)) (eval_mech h) -> Forall (fun oc => clean (snd oc)) (eval_mech h).
Proof. intros h; apply run_leaves_clean_from; exact clean_init. Qed.

(* the flag IS stale between runs, and the dead fiber keeps its return_ip: harmless by stale_state_harmless *)
Example flag_stale_between_runs :
  exists c, map snd (eval_mech [SnThrow WTop None]) = [c] /\ c_he c = true /\ fb_errip (active c) = true.
Proof. eexists; vm_compute; repeat split. Qed.
Example dead_fiber_keeps_return_ip :
  exists c, map snd (eval_mech [SnThrow WFinallyRet None]) = [c] /\ fb_retpend (active c) = true /\ clean c.
Proof. eexists; vm_compute; repeat split. Qed.
Example pending_class_def_survives :
  exists c, map snd (eval_mech [SnThrow WClassDef None; SnTryFin]) = [c; c] \/
            (exists c0, map snd (eval_mech [SnThrow WClassDef None; SnTryFin]) = [c0; c] /\ c_classdef c = true).
Proof. eexists; right; eexists; vm_compute; repeat split. Qed.

(* the flag is also left set by runs that end SUCCESSFULLY (a finally block entered by a throw that returns, or that parks
   its fiber for good): only the clearing at the START of execute protects the next run - see late_flag_reset_refuted *)
Example flag_set_after_successful_run :
  map (fun oc => (o_res (fst oc), c_he (snd oc))) (eval_mech [SnSwallowOk; SnParkFin; SnTryFin]) =
  [(OOk, true); (OOk, true); (OOk, false)].
Proof. vm_compute; reflexivity. Qed.

Print Assumptions stale_state_harmless.
Print Assumptions execute_starts_fresh.
Print Assumptions snippet_runs_from_execute_start.
Print Assumptions reset_is_fresh.
Print Assumptions reset_is_fresh_history.
Print Assumptions run_leaves_clean.
