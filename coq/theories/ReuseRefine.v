(* C15 - the Mechanism (Reuse.v) refines the Spec (ReuseSpec.v) at every snippet of every history outside the named
   classes; the classes are inhabited.  See ReuseProofs.v for the other theorems. *)
From Coq Require Import List Bool Arith ZArith String Lia.
From YV Require Import Show ReplLang Reuse ReuseSpec ReuseProofs.
Import ListNotations.
Set Default Timeout 120.

(* the Spec sees a fiber of a finished run as finished *)
Definition unmark (v : option gval) : option gval :=
  match v with Some (VFiber _) => Some (VFiber false) | _ => v end.

Record Rel (k : kstate) (s : sstate) (c : carried) : Prop := mkRel {
  r_glob : s_globals s = gmap unmark (c_globals c);
  r_wait : k_waiting k = false -> g_fib (c_globals c) <> Some (VFiber true);
  r_imp : forall m, s_imported s m = match mget m (c_mods c) with Some true => true | _ => false end;
  r_poison : forall m, mget m (c_mods c) = Some false -> k_poisoned k m = true;
  r_unreg : r_missing (c_mods c) = None /\ r_syn (c_mods c) = None;
  r_fail : r_bad (c_mods c) <> Some true /\ r_nest (c_mods c) <> Some true;
  r_goodm : r_good (c_mods c) <> Some false
}.

Lemma rel_init : Rel k_init s_init init_carried.
Proof.
  constructor; cbn; auto; try (split; discriminate); try discriminate.
  - intros m; destruct m; reflexivity.
  - intros m H; destruct m; discriminate H.
Qed.

Lemma rel_reset : forall c, Rel k_init s_init (m_reset c).
Proof.
  intros [he fibs cd mods ch rg gl]; unfold m_reset, m_reset_stack; destruct fibs; cbn;
    (constructor; cbn; auto; try (split; discriminate); try discriminate;
     [intros m; destruct m; reflexivity | intros m H; destruct m; discriminate H]).
Qed.

Definition step_goal (k : kstate) (s : sstate) (c : carried) (sn : snip) : Prop :=
  Rel (fst (scan_snippet k sn)) (fst (spec_snippet s sn)) (fst (m_snippet c sn)) /\
  settled (snd (m_snippet c sn)) /\
  (snd (scan_snippet k sn) = None -> snd (m_snippet c sn) = snd (spec_snippet s sn)).

Ltac nf := lazy -[show_Z show_nat Z.add String.append name_error exc_msg circular_msg missing_msg gname_s fname_s cname_s
                 mod_alias mod_v range_hit range_full].
Ltac dv x := destruct x as [[?|?|?|?|[]|?]|].

(* the registry, the poison set and the waiting flag are unchanged; globals changed the same way on both sides *)
Ltac fin_same Hw Hi Hp Hu Hf Hg :=
  split; [constructor; [reflexivity | exact Hw | exact Hi | exact Hp | exact Hu | exact Hf | exact Hg]
         | split; [exact I | intros _; reflexivity]].

Section Plain.
Variables (kp : modk -> bool) (kw : bool) (si : modk -> bool) (he : bool) (fibs : list fiber) (cd : bool)
          (mods : modreg) (ch : nat) (rg : list nat).
Variables a0 a1 a2 a3 a4 a5 a6 a7 a8 a9 a10 a11 a12 : option gval.
Let gl := mkG a0 a1 a2 a3 a4 a5 a6 a7 a8 a9 a10 a11 a12.
Let K := mkK kp kw.
Let S0 := mkS (gmap unmark gl) si.
Let C0 := mkC he fibs cd mods ch rg gl.
Hypothesis Hw : kw = false -> a7 <> Some (VFiber true).
Hypothesis Hi : forall m, si m = match mget m mods with Some true => true | _ => false end.
Hypothesis Hp : forall m, mget m mods = Some false -> kp m = true.
Hypothesis Hu : r_missing mods = None /\ r_syn mods = None.
Hypothesis Hf : r_bad mods <> Some true /\ r_nest mods <> Some true.
Hypothesis Hg : r_good mods <> Some false.

Lemma refine_var : forall g z, step_goal K S0 C0 (SnVar g z).
Proof. intros g z; unfold step_goal, K, S0, C0, gl; destruct g; nf; fin_same Hw Hi Hp Hu Hf Hg. Qed.

Lemma refine_print : forall g, step_goal K S0 C0 (SnPrint g).
Proof.
  intros g; unfold step_goal, K, S0, C0, gl; destruct g; [dv a0 | dv a1]; nf; fin_same Hw Hi Hp Hu Hf Hg.
Qed.

Ltac start := unfold step_goal, K, S0, C0, gl.
Ltac fin := fin_same Hw Hi Hp Hu Hf Hg.

Lemma refine_fn : forall f g, step_goal K S0 C0 (SnFn f g).
Proof. intros f g; start; destruct f; nf; fin. Qed.

Lemma refine_call : forall f, step_goal K S0 C0 (SnCall f).
Proof.
  intros f; start; destruct f.
  - destruct a2 as [[?|g|?|?|[]|?]|].
    2: { destruct g; [dv a0 | dv a1]; nf; fin. }
    all: nf; fin.
  - destruct a3 as [[?|g|?|?|[]|?]|].
    2: { destruct g; [dv a0 | dv a1]; nf; fin. }
    all: nf; fin.
Qed.

Lemma refine_class : forall c z, step_goal K S0 C0 (SnClass c z).
Proof. intros c z; start; destruct c; nf; fin. Qed.

Lemma refine_use : forall c, step_goal K S0 C0 (SnUse c).
Proof. intros c; start; destruct c; [dv a4 | dv a5]; nf; fin. Qed.

Lemma refine_syntax : forall pre, step_goal K S0 C0 (SnSyntax pre).
Proof. intros pre; start; destruct pre; nf; fin. Qed.

Lemma refine_tryfin : step_goal K S0 C0 SnTryFin.
Proof. start; nf; fin. Qed.
Lemma refine_trycatch : step_goal K S0 C0 SnTryCatch.
Proof. start; nf; fin. Qed.
Lemma refine_fiberok : step_goal K S0 C0 SnFiberOk.
Proof. start; nf; fin. Qed.
Lemma refine_captureok : step_goal K S0 C0 SnCaptureOk.
Proof. start; nf; fin. Qed.

Lemma refine_range : forall k, step_goal K S0 C0 (SnRange k).
Proof.
  intros k; start; destruct k; unfold m_snippet, m_add_chunks, m_execute_start; cbn [compiles code_of chunks_of depth_nat];
    unfold run_fuel; cbn [run_instrs ms_st step]; unfold m_build_range; cbn [c_ranges ms_c with_chunks with_fibers with_he];
    destruct (range_hit _ rg); try destruct (range_full rg); nf; fin.
Qed.

Lemma refine_useleak : step_goal K S0 C0 SnUseLeak.
Proof. start; dv a6; nf; fin. Qed.

Lemma refine_usemod : forall m, step_goal K S0 C0 (SnUseMod m).
Proof. intros m; start; destruct m; [dv a8 | dv a9 | dv a10 | dv a11 | dv a12]; nf; fin. Qed.

(* uncaught errors: the definitions completed before the failure persist on both sides, nothing else *)
Lemma refine_throw : forall w d, w <> WFiberWait -> step_goal K S0 C0 (SnThrow w d).
Proof.
  intros w d Hn; start.
  destruct d as [[[] z]|]; destruct w as [|[]| | | | | | | | | | | ]; try (exfalso; apply Hn; reflexivity); nf; fin.
Qed.

(* the waiting fiber: M leaves fw "called", the Spec sees a finished fiber; from here on the flag k_waiting is set *)
Lemma refine_fiberwait : forall d, step_goal K S0 C0 (SnThrow WFiberWait d).
Proof.
  intros d; start. destruct d as [[[] z]|]; nf;
    (split; [constructor; [ f_equal; try reflexivity;
                              match goal with |- context [match ?a with _ => _ end] => is_var a; destruct a as [[| | | |[]|]|] end;
                              reflexivity
                          | intros Hx; discriminate Hx | exact Hi | exact Hp | exact Hu | exact Hf | exact Hg]
            | split; [exact I | intros _; reflexivity]]).
Qed.

Lemma refine_usefiber : step_goal K S0 C0 SnUseFiber.
Proof.
  start. destruct a7 as [[?|?|?|?|[]|?]|]; nf; try fin.
  (* fw was left called: only inside the named class *)
  split; [constructor; [reflexivity | exact Hw | exact Hi | exact Hp | exact Hu | exact Hf | exact Hg]|].
  split; [exact I|].
  destruct kw; [intros Hx; discriminate Hx|]. exfalso; apply Hw; reflexivity.
Qed.
End Plain.
