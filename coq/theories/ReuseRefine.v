(* C15 - the Mechanism (Reuse.v) refines the Spec (ReuseSpec.v) at every snippet of every history outside the named
   classes; the class is inhabited.  See ReuseProofs.v for the other theorems. *)
From Coq Require Import List Bool Arith ZArith String Lia.
From YV Require Import Show ReplLang Reuse ReuseSpec ReuseProofs.
Import ListNotations.
Set Default Timeout 120.

Record Rel (k : kstate) (s : sstate) (c : carried) : Prop := mkRel {
  r_glob : s_globals s = c_globals c;
  r_imp : forall m, s_imported s m = match mget m (c_mods c) with Some true => true | _ => false end;
  r_poison : forall m, mget m (c_mods c) = Some false -> k_poisoned k m = true;
  r_conv : forall m, k_poisoned k m = true -> mget m (c_mods c) = Some false;
  r_unreg : r_missing (c_mods c) = None /\ r_syn (c_mods c) = None;
  r_fail : r_bad (c_mods c) <> Some true /\ r_nest (c_mods c) <> Some true;
  r_goodm : r_good (c_mods c) <> Some false
}.

Ltac rel_base :=
  constructor; cbn;
  first [ reflexivity | discriminate | split; discriminate | split; reflexivity
        | (let m := fresh in intros m; destruct m; reflexivity)
        | (let m := fresh in let H := fresh in intros m H; destruct m; discriminate H)
        | (let H := fresh in intros H; discriminate H) ].

Lemma rel_init : Rel k_init s_init init_carried.
Proof. rel_base. Qed.

Lemma rel_reset : forall c, Rel k_init s_init (m_reset c).
Proof.
  intros [he fibs cd mods ch rg gl]; unfold m_reset, m_reset_stack; destruct fibs; cbn; rel_base.
Qed.

Definition step_goal (k : kstate) (s : sstate) (c : carried) (sn : snip) : Prop :=
  Rel (fst (scan_snippet k sn)) (fst (spec_snippet s sn)) (fst (m_snippet c sn)) /\
  settled (snd (m_snippet c sn)) /\
  (snd (scan_snippet k sn) = None -> snd (m_snippet c sn) = snd (spec_snippet s sn)).

Ltac nf := lazy -[show_Z show_nat Z.add String.append name_error exc_msg circular_msg missing_msg gname_s fname_s cname_s
                 mod_alias mod_v range_hit range_full].
Ltac nf_in H := lazy -[show_Z show_nat Z.add String.append name_error exc_msg circular_msg missing_msg gname_s fname_s cname_s
                 mod_alias mod_v range_hit range_full] in H.
Ltac dv x := destruct x as [[?|?|?|?| |?]|].

(* the registry, the poison set and the waiting flag are unchanged; globals changed the same way on both sides *)
Ltac fin_same Hi Hp Hc Hu Hf Hg :=
  split; [constructor; [reflexivity | exact Hi | exact Hp | exact Hc | exact Hu | exact Hf | exact Hg]
         | split; [exact I | intros _; reflexivity]].

Section Plain.
Variables (kp : modk -> bool) (si : modk -> bool) (he : bool) (fibs : list fiber) (cd : bool)
          (mods : modreg) (ch : nat) (rg : list nat).
Variables a0 a1 a2 a3 a4 a5 a6 a7 a8 a9 a10 a11 a12 : option gval.
Let gl := mkG a0 a1 a2 a3 a4 a5 a6 a7 a8 a9 a10 a11 a12.
Let K := mkK kp.
Let S0 := mkS gl si.
Let C0 := mkC he fibs cd mods ch rg gl.
Hypothesis Hi : forall m, si m = match mget m mods with Some true => true | _ => false end.
Hypothesis Hp : forall m, mget m mods = Some false -> kp m = true.
Hypothesis Hc : forall m, kp m = true -> mget m mods = Some false.
Hypothesis Hu : r_missing mods = None /\ r_syn mods = None.
Hypothesis Hf : r_bad mods <> Some true /\ r_nest mods <> Some true.
Hypothesis Hg : r_good mods <> Some false.

Lemma refine_var : forall g z, step_goal K S0 C0 (SnVar g z).
Proof. intros g z; unfold step_goal, K, S0, C0, gl; destruct g; nf; fin_same Hi Hp Hc Hu Hf Hg. Qed.

Lemma refine_print : forall g, step_goal K S0 C0 (SnPrint g).
Proof.
  intros g; unfold step_goal, K, S0, C0, gl; destruct g; [dv a0 | dv a1]; nf; fin_same Hi Hp Hc Hu Hf Hg.
Qed.

Ltac start := unfold step_goal, K, S0, C0, gl.
Ltac fin := fin_same Hi Hp Hc Hu Hf Hg.

Lemma refine_fn : forall f g, step_goal K S0 C0 (SnFn f g).
Proof. intros f g; start; destruct f; nf; fin. Qed.

Lemma refine_call : forall f, step_goal K S0 C0 (SnCall f).
Proof.
  intros f; start; destruct f.
  - destruct a2 as [[?|g|?|?| |?]|].
    2: { destruct g; [dv a0 | dv a1]; nf; fin. }
    all: nf; fin.
  - destruct a3 as [[?|g|?|?| |?]|].
    2: { destruct g; [dv a0 | dv a1]; nf; fin. }
    all: nf; fin.
Qed.

Lemma refine_class : forall c z, step_goal K S0 C0 (SnClass c z).
Proof. intros c z; start; destruct c; nf; fin. Qed.

Lemma refine_use : forall c, step_goal K S0 C0 (SnUse c).
Proof. intros c; start; destruct c; [dv a4 | dv a5]; nf; fin. Qed.

Lemma refine_syntax : forall pre, step_goal K S0 C0 (SnSyntax pre).
Proof. intros pre; start; destruct pre; nf; fin. Qed.

Lemma refine_tryfin : step_goal K S0 C0 SnTryFin.
Proof. start; nf; fin. Qed.
Lemma refine_trycatch : step_goal K S0 C0 SnTryCatch.
Proof. start; nf; fin. Qed.
Lemma refine_fiberok : step_goal K S0 C0 SnFiberOk.
Proof. start; nf; fin. Qed.
Lemma refine_captureok : step_goal K S0 C0 SnCaptureOk.
Proof. start; nf; fin. Qed.

Lemma refine_range : forall k, step_goal K S0 C0 (SnRange k).
Proof.
  intros k; start; destruct k; unfold m_snippet, m_add_chunks, m_execute_start; cbn [compiles code_of chunks_of depth_nat];
    unfold run_fuel; cbn [run_instrs ms_st step]; unfold m_build_range; cbn [c_ranges ms_c with_chunks with_fibers with_he];
    destruct (range_hit _ rg); try destruct (range_full rg); nf; fin.
Qed.

Lemma refine_useleak : step_goal K S0 C0 SnUseLeak.
Proof. start; dv a6; nf; fin. Qed.

Lemma refine_usemod : forall m, step_goal K S0 C0 (SnUseMod m).
Proof. intros m; start; destruct m; [dv a8 | dv a9 | dv a10 | dv a11 | dv a12]; nf; fin. Qed.

(* uncaught errors: the definitions completed before the failure persist on both sides, nothing else *)
Lemma refine_throw : forall w d, step_goal K S0 C0 (SnThrow w d).
Proof.
  intros w d; start.
  destruct d as [[[] z]|]; destruct w as [|[]| | | | | | | | | | | ]; nf; fin.
Qed.

Lemma refine_usefiber : step_goal K S0 C0 SnUseFiber.
Proof. start; dv a7; nf; fin. Qed.
End Plain.

Section Imports.
Variables (kp : modk -> bool) (si : modk -> bool) (he : bool) (fibs : list fiber) (cd : bool)
          (mg mb mn : option bool) (ch : nat) (rg : list nat).
Variables a0 a1 a2 a3 a4 a5 a6 a7 a8 a9 a10 a11 a12 : option gval.
Let gl := mkG a0 a1 a2 a3 a4 a5 a6 a7 a8 a9 a10 a11 a12.
Let mods := mkR mg mb None None mn.
Let K := mkK kp.
Let S0 := mkS gl si.
Let C0 := mkC he fibs cd mods ch rg gl.
Hypothesis Hi : forall m, si m = match mget m mods with Some true => true | _ => false end.
Hypothesis Hp : forall m, mget m mods = Some false -> kp m = true.
Hypothesis Hc : forall m, kp m = true -> mget m mods = Some false.
Hypothesis Hf : mb <> Some true /\ mn <> Some true.
Hypothesis Hg : mg <> Some false.

Ltac start := unfold step_goal, K, S0, C0, gl, mods.
Ltac imp_tac := let m := fresh "m" in intros m; destruct m; nf;
  first [ reflexivity | exact (Hi MGood) | exact (Hi MThrow) | exact (Hi MMissing) | exact (Hi MSyntax) | exact (Hi MNest) ].
Ltac poison_tac := let m := fresh "m" in let H := fresh "H" in intros m; destruct m; nf; intros H;
  first [ discriminate H | reflexivity | assumption | exact (Hp MGood H) | exact (Hp MThrow H) | exact (Hp MNest H) ].
Ltac conv_tac := let m := fresh "m" in let H := fresh "H" in intros m; destruct m; nf; intros H;
  first [ reflexivity | discriminate H | exact (Hc MGood H) | exact (Hc MThrow H) | exact (Hc MMissing H) | exact (Hc MSyntax H)
        | exact (Hc MNest H) | discriminate (Hc MGood H) | discriminate (Hc MThrow H) | discriminate (Hc MNest H) ].
Ltac fin_rel :=
  constructor;
  [ nf; reflexivity | imp_tac | poison_tac | conv_tac | split; reflexivity
  | nf; split; first [ exact (proj1 Hf) | exact (proj2 Hf) | discriminate ]
  | nf; first [ exact Hg | discriminate ] ].
Ltac fin_eq := split; [fin_rel | split; [exact I | intros _; reflexivity]].
Ltac fin_cls := split; [fin_rel | split; [exact I | let Hx := fresh in intros Hx; discriminate Hx]].

Lemma refine_import_missing : step_goal K S0 C0 (SnImport MMissing).
Proof.
  start. pose proof (Hi MMissing) as E; nf_in E. nf. rewrite E. nf. fin_eq.
Qed.

Lemma refine_import_syntax : step_goal K S0 C0 (SnImport MSyntax).
Proof.
  start. pose proof (Hi MSyntax) as E; nf_in E. nf. rewrite E. nf. fin_eq.
Qed.

Lemma refine_import_good : step_goal K S0 C0 (SnImport MGood).
Proof.
  pose proof (Hi MGood) as E. revert E Hi Hp Hc Hg. unfold step_goal, K, S0, C0, gl, mods.
  destruct mg as [[]|]; intros E Hi Hp Hc Hg; nf_in E.
  - nf. rewrite E. nf. fin_eq.
  - exfalso; apply Hg; reflexivity.
  - nf. rewrite E. nf. fin_eq.
Qed.

Lemma refine_import_throw : step_goal K S0 C0 (SnImport MThrow).
Proof.
  pose proof (Hi MThrow) as E. pose proof (Hp MThrow) as P. pose proof (Hc MThrow) as Q. revert E P Q Hi Hp Hc Hf.
  unfold step_goal, K, S0, C0, gl, mods.
  destruct mb as [[]|]; intros E P Q Hi Hp Hc Hf; nf_in E; nf_in P; nf_in Q.
  - exfalso; apply (proj1 Hf); reflexivity.
  - (* registered by a failed import: poisoned *)
    nf. rewrite (P eq_refl), E. nf. fin_cls.
  - nf; rewrite E; destruct (kp MThrow) eqn:Ek; [discriminate (Q eq_refl)|]; nf; fin_eq.
Qed.

Lemma refine_import_nest : step_goal K S0 C0 (SnImport MNest).
Proof.
  pose proof (Hi MNest) as E. pose proof (Hp MNest) as P. pose proof (Hp MThrow) as P'.
  pose proof (Hc MNest) as Q. pose proof (Hc MThrow) as Q'.
  revert E P P' Q Q' Hi Hp Hc Hf. unfold step_goal, K, S0, C0, gl, mods.
  destruct mn as [[]|]; intros E P P' Q Q' Hi Hp Hc Hf; nf_in E; nf_in P; nf_in Q.
  - exfalso; apply (proj2 Hf); reflexivity.
  - (* nest itself is poisoned *)
    nf. rewrite (P eq_refl), E. nf. fin_cls.
  - (* nest is loaded; its import of bad decides *)
    revert E P P' Q Q' Hi Hp Hc Hf. destruct mb as [[]|]; intros E P P' Q Q' Hi Hp Hc Hf; nf_in P'; nf_in Q'.
    + exfalso; apply (proj1 Hf); reflexivity.
    + nf. rewrite (P' eq_refl), E. destruct (kp MNest) eqn:Ek1; [discriminate (Q eq_refl)|]. nf. fin_cls.
    + nf. rewrite E. destruct (kp MNest) eqn:Ek1; [discriminate (Q eq_refl)|].
      destruct (kp MThrow) eqn:Ek2; [discriminate (Q' eq_refl)|]. nf. fin_eq.
Qed.
End Imports.

(* ---------- every snippet ---------- *)
Theorem snippet_refines : forall k s c sn, Rel k s c -> step_goal k s c sn.
Proof.
  intros [kp] [sg si] [he fibs cd [mg mb mm ms mn] ch rg [a0 a1 a2 a3 a4 a5 a6 a7 a8 a9 a10 a11 a12]] sn
         [Hgl Hi Hp Hc [Hu1 Hu2] Hf Hg].
  cbn in Hgl, Hi, Hp, Hc, Hu1, Hu2, Hf, Hg. subst sg mm ms.
  destruct sn as [g z|g|f g|f|cl z|cl|pre|w d|  |  |  |  |k|  |  |m|m| ].
  - apply refine_var; auto.
  - apply refine_print; auto.
  - apply refine_fn; auto.
  - apply refine_call; auto.
  - apply refine_class; auto.
  - apply refine_use; auto.
  - apply refine_syntax; auto.
  - apply refine_throw; auto.
  - apply refine_tryfin; auto.
  - apply refine_trycatch; auto.
  - apply refine_fiberok; auto.
  - apply refine_captureok; auto.
  - apply refine_range; auto.
  - apply refine_useleak; auto.
  - apply refine_usefiber; auto.
  - destruct m.
    + apply refine_import_good; auto.
    + apply refine_import_throw; auto.
    + apply refine_import_missing; auto.
    + apply refine_import_syntax; auto.
    + apply refine_import_nest; auto.
  - apply refine_usemod; auto.
  - (* RESET *)
    unfold step_goal. split; [apply rel_reset | split; [exact I | intros _; reflexivity]].
Qed.

(* ---------- every history ---------- *)
Fixpoint agree (ks : list (option known_class)) (ms : list (obs * carried)) (ss : list obs) : Prop :=
  match ks, ms, ss with
  | [], [], [] => True
  | k :: ks', (o, _) :: ms', s :: ss' => (k = None -> o = s) /\ settled o /\ agree ks' ms' ss'
  | _, _, _ => False
  end.

Lemma history_refines : forall h k s c, Rel k s c ->
  agree (scan_history k h) (m_history c h) (s_history s h).
Proof.
  induction h as [|sn r IH]; intros k s c HR; cbn; [exact I|].
  destruct (snippet_refines k s c sn HR) as [HR' [Hs He]].
  destruct (scan_snippet k sn) as [k' cls]; destruct (spec_snippet s sn) as [s' so];
    destruct (m_snippet c sn) as [c' mo]; cbn in *.
  split; [exact He | split; [exact Hs | apply IH; exact HR']].
Qed.

(* T: at every snippet of every history that is not in a named class, the code prints what the Spec prints, ends
   the way the Spec ends and asks the module loader for the same modules; and no snippet of any history panics or
   takes a path the source does not have (settled) *)
Theorem failed_snippet_only_definitions : forall h,
  agree (known_classes h) (eval_mech h) (eval_spec h).
Proof. intros h; apply history_refines; exact rel_init. Qed.

Lemma agree_all : forall ks ms ss, agree ks ms ss ->
  existsb (fun o => match o with Some _ => true | None => false end) ks = false ->
  map fst ms = ss.
Proof.
  induction ks as [|k ks IH]; intros [|[o c] ms] [|s ss] H Hk; cbn in *; try contradiction; try reflexivity.
  destruct H as [He [_ Hr]]. destruct k; [discriminate Hk|]. cbn in Hk.
  rewrite (He eq_refl). f_equal. apply IH; assumption.
Qed.

Corollary outside_known_classes_mech_is_spec : forall h,
  in_known_class h = false -> map fst (eval_mech h) = eval_spec h.
Proof. intros h H; eapply agree_all; [apply failed_snippet_only_definitions | exact H]. Qed.

Lemma agree_settled : forall ks ms ss, agree ks ms ss -> Forall (fun oc => settled (fst oc)) ms.
Proof.
  induction ks as [|k ks IH]; intros [|[o c] ms] [|s ss] H; cbn in *; try contradiction; constructor.
  - apply H.
  - eapply IH; apply H.
Qed.

(* T: so every history leaves a clean fiber after every snippet (no condition left) *)
Theorem run_leaves_clean_always : forall h, Forall (fun oc => clean (snd oc)) (eval_mech h).
Proof.
  intros h; apply run_leaves_clean; eapply agree_settled; apply failed_snippet_only_definitions.
Qed.

(* the named class is inhabited: the faithful model does NOT refine the Spec there *)
Theorem failed_import_refuted :
  exists h, in_known_class h = true /\ map fst (eval_mech h) <> eval_spec h.
Proof. exists [SnImport MThrow; SnImport MThrow]; split; [reflexivity | vm_compute; discriminate]. Qed.

(* hypotheses are satisfiable by a non-trivial history: a failure of each family followed by the same construct *)
Example outside_example :
  in_known_class [SnVar I0 5%Z; SnImport MGood; SnThrow WTryFinally (Some (I1, 2%Z)); SnTryFin; SnThrow WClassDef None;
                  SnClass I0 7%Z; SnUse I0; SnImport MThrow; SnImport MGood; SnThrow WCaptureFiber None; SnUseLeak; SnThrow WFiberWait None; SnUseFiber;
                  SnReset; SnImport MThrow] = false.
Proof. reflexivity. Qed.

Print Assumptions failed_snippet_only_definitions.
Print Assumptions run_leaves_clean_always.
Print Assumptions failed_import_refuted.
