(* C15 - the Mechanism (Reuse.v) refines the Spec (ReuseSpec.v) at every snippet of every history outside the named
   class; the class is inhabited.  See ReuseProofs.v for the other theorems. *)
From Coq Require Import List Bool Arith ZArith String Lia.
From YV Require Import Show ReplLang Reuse ReuseSpec ReuseProofs.
Import ListNotations.

(* ====================================================================================== *)
(* C. the Mechanism refines the Spec outside the named class *)

Record Rel (k : kstate) (s : sstate) (c : carried) : Prop := mkRel {
  r_glob : s_globals s = c_globals c;
  r_imp : forall m, s_imported s m = match c_mods c m with Some true => true | _ => false end;
  r_poison : forall m, c_mods c m = Some false -> k_poisoned k m = true;
  r_unreg : c_mods c MMissing = None /\ c_mods c MSyntax = None;
  r_fail : c_mods c MThrow <> Some true /\ c_mods c MNest <> Some true;
  r_good : c_mods c MGood <> Some false
}.

Lemma rel_init : Rel k_init s_init init_carried.
Proof. constructor; cbn; auto; try (split; discriminate); try discriminate; intros m H; discriminate H. Qed.

Lemma rel_reset : forall c, Rel k_init s_init (m_reset c).
Proof.
  intros [he fibs cd mods ch rg gl]; unfold m_reset, m_reset_stack; destruct fibs; cbn;
    (constructor; cbn; auto; try (split; discriminate); try discriminate; intros m H; discriminate H).
Qed.

Definition step_goal (k : kstate) (s : sstate) (c : carried) (sn : snip) : Prop :=
  Rel (fst (scan_snippet k sn)) (fst (spec_snippet s sn)) (fst (m_snippet c sn)) /\
  settled (snd (m_snippet c sn)) /\
  (snd (scan_snippet k sn) = None -> snd (m_snippet c sn) = snd (spec_snippet s sn)).

Ltac gl_case :=
  match goal with
  | |- context [match ?f ?x with _ => _ end] => is_var f; destruct (f x) as [[? | ? | ? | ? | ?]|]
  end.
Ltac nf := lazy -[show_Z show_nat Z.add String.append name_error exc_msg circular_msg missing_msg gname_s fname_s cname_s
                 mod_alias mod_v range_hit range_full].
Ltac ev := nf; repeat (gl_case; nf).
(* the registry and the poison set are unchanged *)
Ltac fin_same Hi Hp Hu Hf Hg :=
  split; [constructor; [reflexivity | exact Hi | exact Hp | exact Hu | exact Hf | exact Hg]
         | split; [exact I | intros _; reflexivity]].

Lemma refine_plain : forall k s c sn,
  (forall m, sn <> SnImport m) -> sn <> SnReset -> Rel k s c -> step_goal k s c sn.
Proof.
  intros [kp] [sg si] [he fibs cd mods ch rg gl] sn Hni Hnr [Hg Hi Hp Hu Hf Hgood]; cbn in *; subst sg.
  unfold step_goal.
  destruct sn as [g z|g|f g|f|cl z|cl|pre|w d|  |  |  |  |k|  |m|m| ].
  - ev; fin_same Hi Hp Hu Hf Hgood.
  - ev; fin_same Hi Hp Hu Hf Hgood.
  - ev; fin_same Hi Hp Hu Hf Hgood.
  - ev; fin_same Hi Hp Hu Hf Hgood.
  - ev; fin_same Hi Hp Hu Hf Hgood.
  - ev; fin_same Hi Hp Hu Hf Hgood.
  - destruct pre; ev; fin_same Hi Hp Hu Hf Hgood.
  - destruct d as [[g z]|]; destruct w as [|[]| | | | | | | | | | ]; ev; fin_same Hi Hp Hu Hf Hgood.
  - ev; fin_same Hi Hp Hu Hf Hgood.
  - ev; fin_same Hi Hp Hu Hf Hgood.
  - ev; fin_same Hi Hp Hu Hf Hgood.
  - ev; fin_same Hi Hp Hu Hf Hgood.
  - destruct k; cbn; unfold m_build_range; cbn; destruct (range_hit _ rg); try destruct (range_full rg); nf;
      fin_same Hi Hp Hu Hf Hgood.
  - ev; fin_same Hi Hp Hu Hf Hgood.
  - exfalso; eapply Hni; reflexivity.
  - ev; fin_same Hi Hp Hu Hf Hgood.
  - exfalso; apply Hnr; reflexivity.
Qed.
