(* C15 - the Mechanism (Reuse.v) refines the Spec (ReuseSpec.v) at every snippet of EVERY history (no named class is
   left since commit 367eb72); the Mechanism of before that commit (ReuseOld.v) does not.  See ReuseProofs.v for the
   other theorems. *)
From Coq Require Import List Bool Arith ZArith String Lia.
From YV Require Import Show ReplLang Reuse ReuseSpec ReuseOld ReuseProofs.
Import ListNotations.
Set Default Timeout 120.

Record Rel (s : sstate) (c : carried) : Prop := mkRel {
  r_glob : s_globals s = c_globals c;
  r_imp : forall m, s_imported s m = match mget m (c_mods c) with Some true => true | _ => false end;
  r_unreg : r_missing (c_mods c) = None /\ r_syn (c_mods c) = None;
  r_fail : r_bad (c_mods c) <> Some true /\ r_nest (c_mods c) <> Some true;
  r_goodm : r_good (c_mods c) <> Some false
}.

Ltac rel_base :=
  constructor; cbn;
  first [ reflexivity | discriminate | split; discriminate | split; reflexivity
        | (let m := fresh in intros m; destruct m; reflexivity)
        | (let m := fresh in let H := fresh in intros m H; destruct m; discriminate H)
        | (let H := fresh in intros H; discriminate H) ].

Lemma rel_init : Rel s_init init_carried.
Proof. rel_base. Qed.

Lemma rel_reset : forall c, Rel s_init (m_reset c).
Proof.
  intros [he fibs cd mods ch rg gl]; unfold m_reset, m_reset_stack; destruct fibs; cbn; rel_base.
Qed.

Definition step_goal (s : sstate) (c : carried) (sn : snip) : Prop :=
  Rel (fst (spec_snippet s sn)) (fst (m_snippet c sn)) /\
  settled (snd (m_snippet c sn)) /\
  snd (m_snippet c sn) = snd (spec_snippet s sn).

Ltac nf := lazy -[show_Z show_nat Z.add String.append name_error exc_msg circular_msg missing_msg gname_s fname_s cname_s
                 mod_alias mod_v range_hit range_full].
Ltac nf_in H := lazy -[show_Z show_nat Z.add String.append name_error exc_msg circular_msg missing_msg gname_s fname_s cname_s
                 mod_alias mod_v range_hit range_full] in H.
Ltac dv x := destruct x as [[?|?|?|?| |?]|].

(* the registry, the poison set and the waiting flag are unchanged; globals changed the same way on both sides *)
Ltac fin_same Hi Hu Hf Hg :=
  split; [constructor; [reflexivity | exact Hi | exact Hu | exact Hf | exact Hg]
         | split; [exact I | reflexivity]].

Section Plain.
Variables (si : modk -> bool) (he : bool) (fibs : list fiber) (cd : bool)
          (mods : modreg) (ch : nat) (rg : list nat).
Variables a0 a1 a2 a3 a4 a5 a6 a7 a8 a9 a10 a11 a12 : option gval.
Let gl := mkG a0 a1 a2 a3 a4 a5 a6 a7 a8 a9 a10 a11 a12.
Let S0 := mkS gl si.
Let C0 := mkC he fibs cd mods ch rg gl.
Hypothesis Hi : forall m, si m = match mget m mods with Some true => true | _ => false end.
Hypothesis Hu : r_missing mods = None /\ r_syn mods = None.
Hypothesis Hf : r_bad mods <> Some true /\ r_nest mods <> Some true.
Hypothesis Hg : r_good mods <> Some false.

Lemma refine_var : forall g z, step_goal S0 C0 (SnVar g z).
Proof. intros g z; unfold step_goal, S0, C0, gl; destruct g; nf; fin_same Hi Hu Hf Hg. Qed.

Lemma refine_print : forall g, step_goal S0 C0 (SnPrint g).
Proof.
  intros g; unfold step_goal, S0, C0, gl; destruct g; [dv a0 | dv a1]; nf; fin_same Hi Hu Hf Hg.
Qed.

Ltac start := unfold step_goal, S0, C0, gl.
Ltac fin := fin_same Hi Hu Hf Hg.

Lemma refine_fn : forall f g, step_goal S0 C0 (SnFn f g).
Proof. intros f g; start; destruct f; nf; fin. Qed.

Lemma refine_call : forall f, step_goal S0 C0 (SnCall f).
Proof.
  intros f; start; destruct f.
  - destruct a2 as [[?|g|?|?| |?]|].
    2: { destruct g; [dv a0 | dv a1]; nf; fin. }
    all: nf; fin.
  - destruct a3 as [[?|g|?|?| |?]|].
    2: { destruct g; [dv a0 | dv a1]; nf; fin. }
    all: nf; fin.
Qed.

Lemma refine_class : forall c z, step_goal S0 C0 (SnClass c z).
Proof. intros c z; start; destruct c; nf; fin. Qed.

Lemma refine_use : forall c, step_goal S0 C0 (SnUse c).
Proof. intros c; start; destruct c; [dv a4 | dv a5]; nf; fin. Qed.

Lemma refine_syntax : forall pre, step_goal S0 C0 (SnSyntax pre).
Proof. intros pre; start; destruct pre; nf; fin. Qed.

Lemma refine_tryfin : step_goal S0 C0 SnTryFin.
Proof. start; nf; fin. Qed.
Lemma refine_trycatch : step_goal S0 C0 SnTryCatch.
Proof. start; nf; fin. Qed.
Lemma refine_fiberok : step_goal S0 C0 SnFiberOk.
Proof. start; nf; fin. Qed.
Lemma refine_captureok : step_goal S0 C0 SnCaptureOk.
Proof. start; nf; fin. Qed.

Lemma refine_range : forall k, step_goal S0 C0 (SnRange k).
Proof.
  intros k; start; destruct k; unfold m_snippet, m_add_chunks, m_execute_start; cbn [compiles code_of chunks_of depth_nat];
    unfold run_fuel; cbn [run_instrs ms_st step]; unfold m_build_range; cbn [c_ranges ms_c with_chunks with_fibers with_he];
    destruct (range_hit _ rg); try destruct (range_full rg); nf; fin.
Qed.

Lemma refine_useleak : step_goal S0 C0 SnUseLeak.
Proof. start; dv a6; nf; fin. Qed.

Lemma refine_usemod : forall m, step_goal S0 C0 (SnUseMod m).
Proof. intros m; start; destruct m; [dv a8 | dv a9 | dv a10 | dv a11 | dv a12]; nf; fin. Qed.

(* uncaught errors: the definitions completed before the failure persist on both sides, nothing else *)
Lemma refine_throw : forall w d, step_goal S0 C0 (SnThrow w d).
Proof.
  intros w d; start.
  destruct d as [[[] z]|]; destruct w as [|[]| | | | | | | | | | | | | | ]; nf; fin.
Qed.

Lemma refine_usefiber : step_goal S0 C0 SnUseFiber.
Proof. start; dv a7; nf; fin. Qed.

Lemma refine_probetotal : step_goal S0 C0 SnProbeTotal.
Proof. start; nf; fin. Qed.

(* runs that end successfully with the exception flag still set: nothing but their output is observable *)
Lemma refine_swallowok : step_goal S0 C0 SnSwallowOk.
Proof. start; nf; fin. Qed.
Lemma refine_parkfin : step_goal S0 C0 SnParkFin.
Proof. start; nf; fin. Qed.
End Plain.

Section Imports.
Variables (si : modk -> bool) (he : bool) (fibs : list fiber) (cd : bool)
          (mg mb mn : option bool) (ch : nat) (rg : list nat).
Variables a0 a1 a2 a3 a4 a5 a6 a7 a8 a9 a10 a11 a12 : option gval.
Let gl := mkG a0 a1 a2 a3 a4 a5 a6 a7 a8 a9 a10 a11 a12.
Let mods := mkR mg mb None None mn.
Let S0 := mkS gl si.
Let C0 := mkC he fibs cd mods ch rg gl.
Hypothesis Hi : forall m, si m = match mget m mods with Some true => true | _ => false end.
Hypothesis Hf : mb <> Some true /\ mn <> Some true.
Hypothesis Hg : mg <> Some false.

Ltac start := unfold step_goal, S0, C0, gl, mods.
Ltac imp_tac := let m := fresh "m" in intros m; destruct m; nf;
  first [ reflexivity | exact (Hi MGood) | exact (Hi MThrow) | exact (Hi MMissing) | exact (Hi MSyntax) | exact (Hi MNest) ].
Ltac fin_rel :=
  constructor;
  [ nf; reflexivity | imp_tac | split; reflexivity
  | nf; split; first [ exact (proj1 Hf) | exact (proj2 Hf) | discriminate ]
  | nf; first [ exact Hg | discriminate ] ].
Ltac fin_eq := split; [fin_rel | split; [exact I | reflexivity]].

Lemma refine_import_missing : step_goal S0 C0 (SnImport MMissing).
Proof.
  start. pose proof (Hi MMissing) as E; nf_in E. nf. rewrite E. nf. fin_eq.
Qed.

Lemma refine_import_syntax : step_goal S0 C0 (SnImport MSyntax).
Proof.
  start. pose proof (Hi MSyntax) as E; nf_in E. nf. rewrite E. nf. fin_eq.
Qed.

Lemma refine_import_good : step_goal S0 C0 (SnImport MGood).
Proof.
  pose proof (Hi MGood) as E. revert E Hi Hg. unfold step_goal, S0, C0, gl, mods.
  destruct mg as [[]|]; intros E Hi Hg; nf_in E.
  - nf. rewrite E. nf. fin_eq.
  - exfalso; apply Hg; reflexivity.
  - nf. rewrite E. nf. fin_eq.
Qed.

(* a module whose body failed earlier is a dead registry entry: it is replaced and its body runs again, as in the Spec *)
Lemma refine_import_throw : step_goal S0 C0 (SnImport MThrow).
Proof.
  pose proof (Hi MThrow) as E. revert E Hi Hf. unfold step_goal, S0, C0, gl, mods.
  destruct mb as [[]|]; intros E Hi Hf; nf_in E.
  - exfalso; apply (proj1 Hf); reflexivity.
  - nf. rewrite E. nf. fin_eq.
  - nf. rewrite E. nf. fin_eq.
Qed.

Lemma refine_import_nest : step_goal S0 C0 (SnImport MNest).
Proof.
  pose proof (Hi MNest) as E. revert E Hi Hf. unfold step_goal, S0, C0, gl, mods.
  destruct mn as [[]|]; intros E Hi Hf; nf_in E.
  - exfalso; apply (proj2 Hf); reflexivity.
  - revert E Hi Hf. destruct mb as [[]|]; intros E Hi Hf.
    + exfalso; apply (proj1 Hf); reflexivity.
    + nf. rewrite E. nf. fin_eq.
    + nf. rewrite E. nf. fin_eq.
  - revert E Hi Hf. destruct mb as [[]|]; intros E Hi Hf.
    + exfalso; apply (proj1 Hf); reflexivity.
    + nf. rewrite E. nf. fin_eq.
    + nf. rewrite E. nf. fin_eq.
Qed.
End Imports.

(* ---------- every snippet ---------- *)
Theorem snippet_refines : forall s c sn, Rel s c -> step_goal s c sn.
Proof.
  intros [sg si] [he fibs cd [mg mb mm ms mn] ch rg [a0 a1 a2 a3 a4 a5 a6 a7 a8 a9 a10 a11 a12]] sn
         [Hgl Hi [Hu1 Hu2] Hf Hg].
  cbn in Hgl, Hi, Hu1, Hu2, Hf, Hg. subst sg mm ms.
  destruct sn as [g z|g|f g|f|cl z|cl|pre|w d|  |  |  |  |k|  |  |  |  |  |m|m| ].
  - apply refine_var; auto.
  - apply refine_print; auto.
  - apply refine_fn; auto.
  - apply refine_call; auto.
  - apply refine_class; auto.
  - apply refine_use; auto.
  - apply refine_syntax; auto.
  - apply refine_throw; auto.
  - apply refine_tryfin; auto.
  - apply refine_trycatch; auto.
  - apply refine_fiberok; auto.
  - apply refine_captureok; auto.
  - apply refine_range; auto.
  - apply refine_useleak; auto.
  - apply refine_usefiber; auto.
  - apply refine_probetotal; auto.
  - apply refine_swallowok; auto.
  - apply refine_parkfin; auto.
  - destruct m.
    + apply refine_import_good; auto.
    + apply refine_import_throw; auto.
    + apply refine_import_missing; auto.
    + apply refine_import_syntax; auto.
    + apply refine_import_nest; auto.
  - apply refine_usemod; auto.
  - (* RESET *)
    unfold step_goal. split; [apply rel_reset | split; [exact I | reflexivity]].
Qed.

(* ---------- every history ---------- *)
Lemma history_refines : forall h s c, Rel s c ->
  map fst (m_history c h) = s_history s h /\ Forall (fun oc => settled (fst oc)) (m_history c h).
Proof.
  induction h as [|sn r IH]; intros s c HR; cbn; [split; constructor|].
  destruct (snippet_refines s c sn HR) as [HR' [Hs He]].
  destruct (spec_snippet s sn) as [s' so]; destruct (m_snippet c sn) as [c' mo]; cbn in *.
  destruct (IH s' c' HR') as [I1 I2]. subst so. split; [f_equal; exact I1 | constructor; assumption].
Qed.

(* T: for EVERY history the code prints what the Spec prints at every snippet, ends the way the Spec ends and asks the
   module loader for the same modules: a failed snippet affects later ones only through its completed definitions *)
Theorem failed_snippet_only_definitions : forall h, map fst (eval_mech h) = eval_spec h.
Proof. intros h; apply history_refines; exact rel_init. Qed.

(* T: and every history leaves a clean fiber after every snippet; no snippet panics or leaves the source-level path *)
Theorem run_leaves_clean_always : forall h, Forall (fun oc => clean (snd oc)) (eval_mech h).
Proof. intros h; apply run_leaves_clean; apply history_refines with (s := s_init); exact rel_init. Qed.

(* the selected variant: the boolean is regenerated from start_import_impl by the translator *)
Theorem variant_current : forall h, map fst (mech_variant true h) = eval_spec h.
Proof. exact failed_snippet_only_definitions. Qed.

(* the Mechanism of before 367eb72 (every registered, not yet imported module answers "Circular dependency") does NOT
   refine the Spec: the repaired defect failed_import_poisons_module *)
Theorem failed_import_refuted_old : exists h, map fst (mech_variant false h) <> eval_spec h.
Proof. exists [SnImport MThrow; SnImport MThrow]; vm_compute; discriminate. Qed.

(* clearing the flag where a failed run ends (reset_stack) instead of where a run starts (execute) does NOT refine the
   Spec: a run can end successfully with the flag set, and the next try/finally re-raises a value that was never thrown.
   On histories whose only flag-setting snippets are uncaught errors the two designs agree (first conjunct: an instance) *)
Theorem late_flag_reset_refuted :
  map fst (eval_mech_late [SnThrow WTryFinally None; SnTryFin; SnThrow WTop None; SnTryFin]) =
    eval_spec [SnThrow WTryFinally None; SnTryFin; SnThrow WTop None; SnTryFin] /\
  map fst (eval_mech_late [SnSwallowOk; SnTryFin]) <> eval_spec [SnSwallowOk; SnTryFin] /\
  map fst (eval_mech_late [SnParkFin; SnTryFin]) <> eval_spec [SnParkFin; SnTryFin].
Proof. split; [vm_compute; reflexivity | split; vm_compute; discriminate]. Qed.

Example refines_example :
  map fst (eval_mech [SnVar I0 5%Z; SnImport MGood; SnThrow WTryFinally (Some (I1, 2%Z)); SnTryFin; SnThrow WClassDef None;
                      SnClass I0 7%Z; SnUse I0; SnImport MThrow; SnImport MThrow; SnImport MNest; SnImport MGood;
                      SnThrow WCaptureFiber None; SnUseLeak; SnThrow WFiberWait None; SnUseFiber; SnReset; SnImport MNest])
  <> [].
Proof. vm_compute; discriminate. Qed.

Print Assumptions failed_snippet_only_definitions.
Print Assumptions run_leaves_clean_always.
Print Assumptions failed_import_refuted_old.
Print Assumptions late_flag_reset_refuted.
