(* C15, round 8 - the clean-up of a failed run at SCALE.
   `run_leaves_clean` (ReuseProofs.v) speaks about the ACTIVE fiber only.  reset_stack also has to end every fiber that is
   waiting for the failed one (the caller chain), and that chain is not bounded by any constant of the VM: every fiber has
   its own frames, so FRAMES_MAX bounds the frames of ONE fiber, not the number of fibers.
     reset_stack_ends_every_fiber    after reset_stack / runtime_error / reset EVERY fiber of the chain is over
                                     (no frame, empty stack, no open upvalue), for chains of any length
     bounded_agrees_up_to_bound      a walk that stops after k waiting fibers is the same function on every chain with at most
                                     k waiting fibers  (why histories with a handful of fibers cannot tell the two apart)
     bounded_refuted_beyond_bound    ... and leaves a live fiber behind on EVERY chain of live fibers with more than k waiting
                                     fibers (the implementation-side tie therefore runs chains of 2, 63 .. 66 and 130 fibers:
                                     tools/props/C15.py, scale_check) *)
From Coq Require Import List Bool Arith Lia.
From YV Require Import ReplLang Reuse.
Import ListNotations.

Definition fiber_over (f : fiber) : Prop := fb_frames f = 0 /\ fb_stack f = 0 /\ fb_open_upv f = false.

Lemma clear_fiber_over : forall f, fiber_over (clear_fiber f).
Proof. intros f; unfold fiber_over, clear_fiber; cbn; auto. Qed.

Lemma map_clear_over : forall l, Forall fiber_over (map clear_fiber l).
Proof. induction l; cbn; constructor; auto using clear_fiber_over. Qed.

Theorem reset_stack_ends_every_fiber : forall c, Forall fiber_over (c_fibers (m_reset_stack c)) \/ c_fibers c = [].
Proof.
  intros c; unfold m_reset_stack; destruct (c_fibers c) as [|f r] eqn:E; [right; reflexivity|left].
  cbn. constructor; [apply clear_fiber_over | apply map_clear_over].
Qed.

Theorem runtime_error_ends_every_fiber : forall c, Forall fiber_over (c_fibers (m_runtime_error c)) \/ c_fibers c = [].
Proof. exact reset_stack_ends_every_fiber. Qed.

(* a chain of n + 1 fibers: the failing one and n fibers waiting for it, all of them in the middle of a call *)
Definition live_chain (n : nat) (c : carried) : carried := with_fibers (repeat fresh_fiber (S n)) c.

Theorem failed_run_ends_chain_of_any_length : forall n c, Forall fiber_over (c_fibers (m_runtime_error (live_chain n c))).
Proof.
  intros n c. destruct (runtime_error_ends_every_fiber (live_chain n c)) as [H|H]; [exact H|].
  unfold live_chain in H; cbn in H; discriminate.
Qed.

(* the same walk stopped after k waiting fibers *)
Definition m_reset_stack_bounded (k : nat) (c : carried) : carried :=
  match c_fibers c with
  | [] => c
  | f :: r => with_fibers (clear_fiber f :: (map clear_fiber (firstn k r) ++ skipn k r)) c
  end.

Theorem bounded_agrees_up_to_bound : forall k c,
  List.length (tl (c_fibers c)) <= k -> m_reset_stack_bounded k c = m_reset_stack c.
Proof.
  intros k c H; unfold m_reset_stack_bounded, m_reset_stack; destruct (c_fibers c) as [|f r]; [reflexivity|].
  cbn in H. rewrite firstn_all2 by exact H. rewrite skipn_all2 by exact H. rewrite app_nil_r. reflexivity.
Qed.

Lemma fresh_not_over : ~ fiber_over fresh_fiber.
Proof. unfold fiber_over, fresh_fiber; cbn; intros [H _]; discriminate. Qed.

Lemma in_skipn_repeat : forall (x : fiber) k m, In x (skipn k (repeat x (k + S m))).
Proof. induction k; intros m; cbn; auto. Qed.

Theorem bounded_refuted_beyond_bound : forall k n c,
  k < n -> ~ Forall fiber_over (c_fibers (m_reset_stack_bounded k (live_chain n c))).
Proof.
  intros k n c Hlt HF. unfold m_reset_stack_bounded, live_chain in HF. cbn in HF.
  inversion HF as [|? ? _ HF']; subst. apply Forall_app in HF'. destruct HF' as [_ Hs].
  assert (Hin : In fresh_fiber (skipn k (repeat fresh_fiber n))).
  { replace n with (k + S (n - k - 1)) by lia. apply in_skipn_repeat. }
  rewrite Forall_forall in Hs. exact (fresh_not_over (Hs _ Hin)).
Qed.

(* the instance the VM's constants suggest: a walk bounded by the frame limit 64 is wrong from 65 waiting fibers on *)
Corollary bounded_by_frame_limit_refuted :
  m_reset_stack_bounded 64 (live_chain 64 init_carried) = m_reset_stack (live_chain 64 init_carried) /\
  ~ Forall fiber_over (c_fibers (m_reset_stack_bounded 64 (live_chain 65 init_carried))).
Proof.
  split; [apply bounded_agrees_up_to_bound; change (List.length (repeat fresh_fiber 64) <= 64); rewrite repeat_length; lia | apply bounded_refuted_beyond_bound; lia].
Qed.

(* ---------------------------------------------------------------------------------------------------------------------------
   Round 9 - objects that ESCAPED from a module body that then failed, across a retry of the import.
   `failed_snippet_only_definitions` identifies a module with its registry entry; closures are not values of the mini-language.
   In the VM a closure keeps the module OBJECT it was created in as its globals, and such an object can outlive its registry entry:
   a body that stores a closure somewhere else (another module, a callback of main, the thrown value, a yielded value) and then
   fails leaves an object that is reachable only through that closure.  "A failed snippet matters only through the definitions it
   completed" includes those.  Abstract model: a heap of module objects (identity -> name -> value), a registry (path -> identity)
   and the two designs of the retry of a failed import:
     retry_fresh   the entry is dropped and the retry builds a NEW object (vm.rs since 367eb72: `self.modules.remove(&path)`)
     retry_wipe    the registered object is kept and emptied (seeded change C15-9/2)
   followed by any definitions the retried body makes (all of them go to the object the retry runs in).
     fresh_retry_keeps_escaped      under retry_fresh NO global of ANY object that existed before changes, for any body: every
                                    escaped closure/method/class reads what it read before, whatever the retry does and however it ends
     wipe_retry_refuted             under retry_wipe a closure of the failed attempt loses a global that attempt had completed
     reuse_retry_refuted            keeping the object WITHOUT emptying it (the sibling) lets the retry overwrite such a global
   Tie: props/C15.v states the first on `retry_variant start_import_reloads_dead_src` (regenerated from vm.rs); the implementation
   side is the directed family `escape_check` of tools/props/C15.py. *)
From Coq Require Import String.

Definition mheap := nat -> string -> option nat.
Record mstore := { ms_next : nat; ms_reg : string -> option nat; ms_heap : mheap }.

Definition h_set (h : mheap) (id : nat) (x : string) (v : nat) : mheap :=
  fun i y => if andb (Nat.eqb i id) (String.eqb y x) then Some v else h i y.
Definition h_wipe (h : mheap) (id : nat) : mheap := fun i y => if Nat.eqb i id then None else h i y.
Definition r_set (r : string -> option nat) (p : string) (id : nat) : string -> option nat :=
  fun q => if String.eqb q p then Some id else r q.

(* the body of the retried module: a list of global definitions, all made in the object the retry runs in *)
Fixpoint run_defs (id : nat) (defs : list (string * nat)) (h : mheap) : mheap :=
  match defs with [] => h | (x, v) :: r => run_defs id r (h_set h id x v) end.

Definition retry_fresh (p : string) (defs : list (string * nat)) (s : mstore) : mstore :=
  {| ms_next := S (ms_next s); ms_reg := r_set (ms_reg s) p (ms_next s);
     ms_heap := run_defs (ms_next s) defs (h_wipe (ms_heap s) (ms_next s)) |}.
Definition retry_wipe (p : string) (defs : list (string * nat)) (s : mstore) : mstore :=
  match ms_reg s p with
  | Some id => {| ms_next := ms_next s; ms_reg := ms_reg s; ms_heap := run_defs id defs (h_wipe (ms_heap s) id) |}
  | None => retry_fresh p defs s
  end.
Definition retry_reuse (p : string) (defs : list (string * nat)) (s : mstore) : mstore :=
  match ms_reg s p with
  | Some id => {| ms_next := ms_next s; ms_reg := ms_reg s; ms_heap := run_defs id defs (ms_heap s) |}
  | None => retry_fresh p defs s
  end.
(* selected by the boolean the translator reads from the registry-hit branch of start_import_impl *)
Definition retry_variant (reloads : bool) := if reloads then retry_fresh else retry_wipe.

(* a closure = the module object it was created in; calling it reads globals of THAT object *)
Definition closure_reads (s : mstore) (obj : nat) (x : string) : option nat := ms_heap s obj x.

Lemma run_defs_other : forall defs id h i y, i <> id -> run_defs id defs h i y = h i y.
Proof.
  induction defs as [|[x v] r IH]; intros id h i y Hne; cbn; [reflexivity|].
  rewrite IH by exact Hne. unfold h_set. destruct (Nat.eqb_spec i id); [contradiction|reflexivity].
Qed.

Theorem fresh_retry_keeps_escaped : forall p defs s obj x,
  obj < ms_next s -> closure_reads (retry_fresh p defs s) obj x = closure_reads s obj x.
Proof.
  intros p defs s obj x Hlt. unfold closure_reads, retry_fresh; cbn.
  rewrite run_defs_other by lia. unfold h_wipe. destruct (Nat.eqb_spec obj (ms_next s)); [lia|reflexivity].
Qed.

(* ... for any number of retries, each with its own body *)
Fixpoint retries_fresh (p : string) (bodies : list (list (string * nat))) (s : mstore) : mstore :=
  match bodies with [] => s | d :: r => retries_fresh p r (retry_fresh p d s) end.
Theorem fresh_retries_keep_escaped : forall bodies p s obj x,
  obj < ms_next s -> closure_reads (retries_fresh p bodies s) obj x = closure_reads s obj x.
Proof.
  induction bodies as [|d r IH]; intros p s obj x Hlt; cbn; [reflexivity|].
  rewrite IH by (cbn; lia). apply fresh_retry_keeps_escaped; exact Hlt.
Qed.

Local Open Scope string_scope.
(* the state after `import "m"` failed: object 1 is registered for "m" and holds the global the attempt completed *)
Definition after_failed_import : mstore :=
  {| ms_next := 2; ms_reg := r_set (fun _ => None) "m" 1; ms_heap := h_set (fun _ _ => None) 1 "greeting" 7 |}.

Theorem wipe_retry_refuted :
  closure_reads after_failed_import 1 "greeting" = Some 7 /\
  closure_reads (retry_wipe "m" [] after_failed_import) 1 "greeting" = None /\
  closure_reads (retry_fresh "m" [] after_failed_import) 1 "greeting" = Some 7.
Proof. repeat split; vm_compute; reflexivity. Qed.

Theorem reuse_retry_refuted :
  closure_reads (retry_reuse "m" [("greeting", 8)] after_failed_import) 1 "greeting" = Some 8 /\
  closure_reads (retry_fresh "m" [("greeting", 8)] after_failed_import) 1 "greeting" = Some 7.
Proof. split; vm_compute; reflexivity. Qed.
