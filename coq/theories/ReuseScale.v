(* C15, round 8 - the clean-up of a failed run at SCALE.
   `run_leaves_clean` (ReuseProofs.v) speaks about the ACTIVE fiber only.  reset_stack also has to end every fiber that is
   waiting for the failed one (the caller chain), and that chain is not bounded by any constant of the VM: every fiber has
   its own frames, so FRAMES_MAX bounds the frames of ONE fiber, not the number of fibers.
     reset_stack_ends_every_fiber    after reset_stack / runtime_error / reset EVERY fiber of the chain is over
                                     (no frame, empty stack, no open upvalue), for chains of any length
     bounded_agrees_up_to_bound      a walk that stops after k waiting fibers is the same function on every chain with at most
                                     k waiting fibers  (why histories with a handful of fibers cannot tell the two apart)
     bounded_refuted_beyond_bound    ... and leaves a live fiber behind on EVERY chain of live fibers with more than k waiting
                                     fibers (the implementation-side tie therefore runs chains of 2, 63 .. 66 and 130 fibers:
                                     tools/props/C15.py, scale_check) *)
From Coq Require Import List Bool Arith Lia.
From YV Require Import ReplLang Reuse.
Import ListNotations.

Definition fiber_over (f : fiber) : Prop := fb_frames f = 0 /\ fb_stack f = 0 /\ fb_open_upv f = false.

Lemma clear_fiber_over : forall f, fiber_over (clear_fiber f).
Proof. intros f; unfold fiber_over, clear_fiber; cbn; auto. Qed.

Lemma map_clear_over : forall l, Forall fiber_over (map clear_fiber l).
Proof. induction l; cbn; constructor; auto using clear_fiber_over. Qed.

Theorem reset_stack_ends_every_fiber : forall c, Forall fiber_over (c_fibers (m_reset_stack c)) \/ c_fibers c = [].
Proof.
  intros c; unfold m_reset_stack; destruct (c_fibers c) as [|f r] eqn:E; [right; reflexivity|left].
  cbn. constructor; [apply clear_fiber_over | apply map_clear_over].
Qed.

Theorem runtime_error_ends_every_fiber : forall c, Forall fiber_over (c_fibers (m_runtime_error c)) \/ c_fibers c = [].
Proof. exact reset_stack_ends_every_fiber. Qed.

(* a chain of n + 1 fibers: the failing one and n fibers waiting for it, all of them in the middle of a call *)
Definition live_chain (n : nat) (c : carried) : carried := with_fibers (repeat fresh_fiber (S n)) c.

Theorem failed_run_ends_chain_of_any_length : forall n c, Forall fiber_over (c_fibers (m_runtime_error (live_chain n c))).
Proof.
  intros n c. destruct (runtime_error_ends_every_fiber (live_chain n c)) as [H|H]; [exact H|].
  unfold live_chain in H; cbn in H; discriminate.
Qed.

(* the same walk stopped after k waiting fibers *)
Definition m_reset_stack_bounded (k : nat) (c : carried) : carried :=
  match c_fibers c with
  | [] => c
  | f :: r => with_fibers (clear_fiber f :: (map clear_fiber (firstn k r) ++ skipn k r)) c
  end.

Theorem bounded_agrees_up_to_bound : forall k c,
  List.length (tl (c_fibers c)) <= k -> m_reset_stack_bounded k c = m_reset_stack c.
Proof.
  intros k c H; unfold m_reset_stack_bounded, m_reset_stack; destruct (c_fibers c) as [|f r]; [reflexivity|].
  cbn in H. rewrite firstn_all2 by exact H. rewrite skipn_all2 by exact H. rewrite app_nil_r. reflexivity.
Qed.

Lemma fresh_not_over : ~ fiber_over fresh_fiber.
Proof. unfold fiber_over, fresh_fiber; cbn; intros [H _]; discriminate. Qed.

Lemma in_skipn_repeat : forall (x : fiber) k m, In x (skipn k (repeat x (k + S m))).
Proof. induction k; intros m; cbn; auto. Qed.

Theorem bounded_refuted_beyond_bound : forall k n c,
  k < n -> ~ Forall fiber_over (c_fibers (m_reset_stack_bounded k (live_chain n c))).
Proof.
  intros k n c Hlt HF. unfold m_reset_stack_bounded, live_chain in HF. cbn in HF.
  inversion HF as [|? ? _ HF']; subst. apply Forall_app in HF'. destruct HF' as [_ Hs].
  assert (Hin : In fresh_fiber (skipn k (repeat fresh_fiber n))).
  { replace n with (k + S (n - k - 1)) by lia. apply in_skipn_repeat. }
  rewrite Forall_forall in Hs. exact (fresh_not_over (Hs _ Hin)).
Qed.

(* the instance the VM's constants suggest: a walk bounded by the frame limit 64 is wrong from 65 waiting fibers on *)
Corollary bounded_by_frame_limit_refuted :
  m_reset_stack_bounded 64 (live_chain 64 init_carried) = m_reset_stack (live_chain 64 init_carried) /\
  ~ Forall fiber_over (c_fibers (m_reset_stack_bounded 64 (live_chain 65 init_carried))).
Proof.
  split; [apply bounded_agrees_up_to_bound; change (List.length (repeat fresh_fiber 64) <= 64); rewrite repeat_length; lia | apply bounded_refuted_beyond_bound; lia].
Qed.
