(* C15 - Spec (S): "feeding one interpreter a sequence of snippets behaves like one program run piecewise".
   The ONLY state a later snippet can observe is the set of COMPLETED definitions: the globals of module main
   (numbers, functions, classes, closures, module aliases) and the modules whose import completed.  A snippet that
   fails keeps the definitions it completed before failing and nothing else; RESET forgets everything.
   There is no flag, fiber, handler, stack, pending class or half-imported module in this state.
   DEFINITIONS ONLY. *)
From Coq Require Import List Bool Arith ZArith String.
From YV Require Import Show ReplLang Reuse.
Import ListNotations.
Local Open Scope string_scope.

Record sstate := mkS {
  s_globals : globals;          (* completed definitions of module main *)
  s_imported : modk -> bool     (* modules whose import completed *)
}.
Definition s_init : sstate := mkS gempty (fun _ => false).

Definition s_def (k : gname) (v : gval) (s : sstate) : sstate := mkS (gset k v (s_globals s)) (s_imported s).
Definition sobs (out : list string) (r : outcome) (loads : list modk) : obs := mkObs out r loads.

(* what the failing construct prints before failing, the error, and the definitions it completes *)
Definition spec_where (w : where_) (s : sstate) : sstate * list string * outcome :=
  match w with
  | WTop | WNested _ | WFiber => (s, [], OErr KRuntime (exc_msg 1))
  | WTryFinally => (s, ["fin"], OErr KRuntime (exc_msg 1))
  | WCatch => (s, [], OErr KRuntime (exc_msg 2))
  | WFinally => (s, ["t"], OErr KRuntime (exc_msg 3))
  | WFinallyRet => (s, [], OErr KRuntime (exc_msg 4))
  | WClassDef | WClassDefNested => (s, [], OErr KRuntime superclass_msg)
  | WCapture => (s_def GLeak (VClosure 41) s, [], OErr KRuntime (exc_msg 1))   (* c = || x completed *)
  | WBuiltin => (s, ["nf"], OErr KAttr attr_msg)
  | WCaptureFiber => (s_def GLeak (VClosure 41) s, [], OErr KRuntime (exc_msg 1))
  | WFiberWait => (s_def GFib VFiber s, [], OErr KRuntime (exc_msg 1))   (* the run is over: fw has finished *)
  | WSetGlobal | WSetGlobalNested | WSetGlobalFiber => (s, [], OErr KName total_msg)   (* an assignment never declares *)
  end.

(* loading a module that is not imported yet: what it prints, whether it completes, the loader calls *)
Definition spec_load (m : modk) : list string * option outcome * list modk :=
  match m with
  | MGood => (["load good"], None, [MGood])
  | MThrow => (["load bad"], Some (OErr KRuntime (exc_msg 9)), [MThrow])
  | MMissing => ([], Some (OErr KImport (missing_msg MMissing)), [MMissing])
  | MSyntax => ([], Some (OErr KImport modcompile_msg), [MSyntax])
  | MNest => (["load bad"], Some (OErr KRuntime (exc_msg 9)), [MNest; MThrow])
  end.

Definition spec_snippet (s : sstate) (sn : snip) : sstate * obs :=
  match sn with
  | SnVar g z => (s_def (GVar g) (VNum z) s, sobs [] OOk [])
  | SnPrint g =>
      match gget (GVar g) (s_globals s) with
      | Some (VNum z) => (s, sobs [show_Z z] OOk [])
      | _ => (s, sobs [] (OErr KName (name_error (gname_s g))) [])
      end
  | SnFn f g => (s_def (GFun f) (VFn g) s, sobs [] OOk [])
  | SnCall f =>
      match gget (GFun f) (s_globals s) with
      | Some (VFn g) =>
          match gget (GVar g) (s_globals s) with
          | Some (VNum z) => (s, sobs [show_Z (z + 1)] OOk [])
          | _ => (s, sobs [] (OErr KName (name_error (gname_s g))) [])
          end
      | _ => (s, sobs [] (OErr KName (name_error (fname_s f))) [])
      end
  | SnClass c z => (s_def (GCls c) (VClass z) s, sobs [] OOk [])
  | SnUse c =>
      match gget (GCls c) (s_globals s) with
      | Some (VClass z) => (s, sobs [class_s c; show_Z z; class_s c] OOk [])
      | _ => (s, sobs [] (OErr KName (name_error (cname_s c))) [])
      end
  | SnSyntax _ => (s, sobs [] (OErr KCompile syntax_msg) [])     (* nothing of the snippet runs *)
  | SnThrow w d =>
      let s1 := match d with Some (g, z) => s_def (GVar g) (VNum z) s | None => s end in
      let '(s2, out, r) := spec_where w s1 in (s2, sobs out r [])
  | SnTryFin => (s, sobs ["t"; "f"; "after"] OOk [])
  | SnTryCatch => (s, sobs ["7"; "after"] OOk [])
  | SnFiberOk => (s, sobs ["5"] OOk [])
  | SnCaptureOk => (s_def GLeak (VClosure 42) s, sobs [] OOk [])
  | SnRange k => (s, sobs (map show_nat (seq 0 (depth_nat k))) OOk [])
  | SnUseLeak =>
      match gget GLeak (s_globals s) with
      | Some (VClosure z) => (s, sobs [show_Z z] OOk [])
      | _ => (s, sobs [] (OErr KName (name_error "c")) [])
      end
  | SnUseFiber =>
      match gget GFib (s_globals s) with
      | Some VFiber => (s, sobs ["true"] OOk [])     (* a fiber of a run that is over has finished *)
      | _ => (s, sobs [] (OErr KName (name_error "fw")) [])
      end
  | SnProbeTotal => (s, sobs [] (OErr KName total_msg) [])   (* no snippet can declare `total` *)
  | SnSwallowOk => (s, sobs ["8"] OOk [])        (* the value returned by the finally block; nothing is defined *)
  | SnParkFin => (s, sobs ["3"] OOk [])          (* the value the fiber yields; nothing is defined *)
  | SnImport m =>
      if s_imported s m then
        (s_def (GMod m) (VMod m) s, sobs [mod_v m] OOk [])
      else
        match spec_load m with
        | (out, Some err, loads) => (s, sobs out err loads)
        | (out, None, loads) =>
            (mkS (gset (GMod m) (VMod m) (s_globals s)) (fun k => if modk_eqb m k then true else s_imported s k),
             sobs (out ++ [mod_v m])%list OOk loads)
        end
  | SnUseMod m =>
      match gget (GMod m) (s_globals s) with
      | Some (VMod m') => (s, sobs [mod_v m'] OOk [])
      | _ => (s, sobs [] (OErr KName (name_error (mod_alias m))) [])
      end
  | SnReset => (s_init, sobs [] OReset [])
  end.

Fixpoint s_history (s : sstate) (h : history) : list obs :=
  match h with
  | [] => []
  | sn :: r => let '(s', o) := spec_snippet s sn in o :: s_history s' r
  end.
Definition eval_spec (h : history) : list obs := s_history s_init h.

(* ---------- entry points for the tie (tools/props/C15.py) ----------
   Compact output (printing long strings is what costs time in coqc): messages are printed as an index into
   msg_table (printed once by the plug-in), the H5 record as 12 numbers. *)
Definition msg_table : list string :=
  (map (fun g => name_error (gname_s g)) [I0; I1] ++ map (fun f => name_error (fname_s f)) [I0; I1] ++
   map (fun c => name_error (cname_s c)) [I0; I1] ++ [name_error "c"; name_error "fw"] ++ map (fun m => name_error (mod_alias m)) all_mods ++
   map exc_msg [1; 2; 3; 4; 7; 9]%Z ++ map circular_msg all_mods ++ map missing_msg all_mods ++
   [modcompile_msg; superclass_msg; attr_msg; syntax_msg; "Expected ClassDef."; total_msg])%list.
Definition show_msg_table : string := show_sep "," hex_of_string msg_table.

Fixpoint index_of (s : string) (l : list string) (i : nat) : option nat :=
  match l with
  | [] => None
  | x :: r => if String.eqb s x then Some i else index_of s r (S i)
  end.
Definition msg_code (m : string) : string :=
  match index_of m msg_table 0 with Some i => "#" ++ show_nat i | None => hex_of_string m end.

Definition c_outcome (o : outcome) : string :=
  match o with
  | OOk => "ok"
  | OErr k msg => "err:" ++ kind_s k ++ ":" ++ msg_code msg
  | OPanic msg => "panic:" ++ msg_code msg
  | ODiverged why => "diverged:" ++ hex_of_string why
  | OReset => "reset"
  end.
Definition c_obs (o : obs) : string :=
  "out=" ++ show_sep "," hex_of_string (o_out o) ++ ";res=" ++ c_outcome (o_res o) ++ ";loads=" ++ show_loads (o_loads o).
Definition c_h5 (core : nat) (c : carried) : string :=
  let f := active c in
  show_sep " " (fun x => x)
    [show_b01 (c_he c); show_b01 (match c_fibers c with [] => false | _ => true end); show_nat (fb_frames f);
     show_nat (fb_stack f); show_nat (List.length (fb_handlers f)); show_b01 (fb_retpend f); show_b01 (fb_errip f);
     show_b01 (c_classdef c); show_nat (S (count_mods (c_mods c))); show_nat (core + c_chunks c); show_nat core;
     show_nat (List.length (c_ranges c))].
Fixpoint c_rows (core : nat) (ss : list obs) (ms : list (obs * carried)) : list string :=
  match ss, ms with
  | s :: ss', (o, c) :: ms' =>
      let so := c_obs s in
      let mo := c_obs o in
      (so ++ "~" ++ (if String.eqb so mo then "=" else mo) ++ "~" ++ c_h5 core c ++ "~-") :: c_rows core ss' ms'
  | _, _ => []
  end.

(* one row per snippet: spec ~ mech (or =) ~ H5 numbers ~ known class (none is left: always "-") *)
Definition run_case (core : nat) (wire : string) : string :=
  let h := history_of_wire wire in
  show_sep "|" (fun x => x) (c_rows core (eval_spec h) (eval_mech h)).

(* the source text of one snippet (the plug-in renders every distinct snippet once) *)
Definition render_wire (wire : string) : string := render_history (history_of_wire wire).
