(* Roots.v -- handle histories against GcBox.num_roots (memory.rs).  Definitions only.

   Root<T> / UniqueRoot<T> are the only owners of a root count:
     Heap::allocate_root / allocate_unique  : inc after allocate_raw      (memory.rs:342-356)
     Clone for Root                         : inc                          (memory.rs:143-149)
     From<Gc<T>> / From<GcBoxPtr<T>> for Root: inc                         (memory.rs:171-185)
     From<UniqueRoot<T>> for Root           : inc; the consumed UniqueRoot is then dropped: dec
                                                                           (memory.rs:187-193, 259-263)
     Drop for Root / UniqueRoot             : dec                          (memory.rs:165-169, 259-263)
   `dec_num_roots` computes `num_roots - 1` on usize (memory.rs:86-88): at 0 this panics in a debug
   build and wraps in release; the model records it in the flag [underflow]. *)
From Coq Require Import List NArith Bool Arith.
From YV Require Import Heap.
Import ListNotations.

Inductive hkind : Type := HRoot | HUnique.

Inductive hop : Type :=
| NewRoot (a : addr)          (* Root::new: box a was just allocated *)
| NewUnique (a : addr)        (* UniqueRoot::new *)
| CloneRoot (h : nat)         (* root.clone() *)
| RootFromGc (a : addr)       (* Root::from(gc) / gc.as_root() *)
| RootFromUnique (h : nat)    (* Root::from(unique_root), consumes the UniqueRoot *)
| DropHandle (h : nat).       (* the handle goes out of scope *)

Definition handle := (nat * (hkind * addr))%type.

Record rstate : Type := mkRS {
  cnt : addr -> nat;          (* num_roots of every box *)
  live : list handle;         (* handles in existence *)
  next_id : nat;
  underflow : bool
}.

Definition r_init : rstate := mkRS (fun _ => 0) [] 0 false.

Fixpoint hfind (l : list handle) (h : nat) : option (hkind * addr) :=
  match l with
  | [] => None
  | (i, x) :: r => if Nat.eqb i h then Some x else hfind r h
  end.

Definition hremove (h : nat) (l : list handle) : list handle :=
  filter (fun e => negb (Nat.eqb (fst e) h)) l.

Definition inc (a : addr) (s : rstate) : rstate :=
  mkRS (fun b => if N.eqb a b then S (cnt s a) else cnt s b) (live s) (next_id s) (underflow s).

Definition dec (a : addr) (s : rstate) : rstate :=
  mkRS (fun b => if N.eqb a b then pred (cnt s a) else cnt s b) (live s) (next_id s)
       (underflow s || Nat.eqb (cnt s a) 0).

Definition add_handle (k : hkind) (a : addr) (s : rstate) : rstate :=
  mkRS (cnt s) ((next_id s, (k, a)) :: live s) (S (next_id s)) (underflow s).

Definition del_handle (h : nat) (s : rstate) : rstate :=
  mkRS (cnt s) (hremove h (live s)) (next_id s) (underflow s).

(* ops that safe Rust cannot express (cloning a UniqueRoot, using a moved handle) are no-ops *)
Definition apply_op (o : hop) (s : rstate) : rstate :=
  match o with
  | NewRoot a => add_handle HRoot a (inc a s)
  | NewUnique a => add_handle HUnique a (inc a s)
  | RootFromGc a => add_handle HRoot a (inc a s)
  | CloneRoot h =>
      match hfind (live s) h with
      | Some (HRoot, a) => add_handle HRoot a (inc a s)
      | _ => s
      end
  | RootFromUnique h =>
      match hfind (live s) h with
      | Some (HUnique, a) => del_handle h (dec a (add_handle HRoot a (inc a s)))
      | _ => s
      end
  | DropHandle h =>
      match hfind (live s) h with
      | Some (_, a) => del_handle h (dec a s)
      | None => s
      end
  end.

Definition run_ops (ops : list hop) (s : rstate) : rstate := fold_left (fun s o => apply_op o s) ops s.

(* number of live handles to box a *)
Definition nlive (l : list handle) (a : addr) : nat :=
  length (filter (fun e => N.eqb (snd (snd e)) a) l).
