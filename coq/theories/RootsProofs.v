(* RootsProofs.v -- num_roots is exact: after any handle history, the count of every box equals
   the number of live handles to it, and the subtraction never underflows. *)
From Coq Require Import List NArith Bool Arith Lia.
From YV Require Import Heap Roots.
Import ListNotations.

Definition ids (l : list handle) : list nat := map fst l.

Record rinv (s : rstate) : Prop := {
  inv_exact : forall a, cnt s a = nlive (live s) a;
  inv_noflow : underflow s = false;
  inv_fresh : forall i, In i (ids (live s)) -> i < next_id s;
  inv_nodup : NoDup (ids (live s))
}.

Lemma nlive_cons i k a l b :
  nlive ((i, (k, a)) :: l) b = (if N.eqb a b then 1 else 0) + nlive l b.
Proof. unfold nlive. simpl. destruct (N.eqb a b); reflexivity. Qed.

Lemma hfind_In l h x : hfind l h = Some x -> In (h, x) l.
Proof.
  induction l as [|[i y] l IH]; simpl; [discriminate|].
  destruct (Nat.eqb_spec i h) as [->|Hne]; intros E; [inversion E; now left | right; auto].
Qed.

Lemma hremove_ids h l i : In i (ids (hremove h l)) -> In i (ids l) /\ i <> h.
Proof.
  unfold ids, hremove. intros Hin. apply in_map_iff in Hin. destruct Hin as [e [<- He]].
  apply filter_In in He. destruct He as [He Hb]. split; [now apply in_map|].
  apply negb_true_iff in Hb. now apply Nat.eqb_neq in Hb.
Qed.

Lemma hremove_nodup h l : NoDup (ids l) -> NoDup (ids (hremove h l)).
Proof.
  unfold ids, hremove. induction l as [|e l IH]; simpl; intros Hn; [constructor|].
  inversion Hn as [|x l' Hx Hn']; subst. destruct (negb (fst e =? h)); simpl; [|auto].
  constructor; [|auto]. intros Hin. apply Hx. apply in_map_iff in Hin.
  destruct Hin as [z [Ez Hz]]. apply filter_In in Hz. rewrite <- Ez. apply in_map. tauto.
Qed.

Lemma hremove_absent h l : ~ In h (ids l) -> hremove h l = l.
Proof.
  unfold ids, hremove. induction l as [|[i x] l IH]; simpl; intros Hn; [reflexivity|].
  destruct (Nat.eqb_spec i h) as [->|Hne]; simpl; [exfalso; apply Hn; now left|].
  f_equal. apply IH. intros H. apply Hn. now right.
Qed.

Lemma nlive_remove l h k a b :
  NoDup (ids l) -> hfind l h = Some (k, a) ->
  nlive (hremove h l) b + (if N.eqb a b then 1 else 0) = nlive l b.
Proof.
  induction l as [|[i [k' a']] l IH]; simpl; intros Hn Hf; [discriminate|].
  inversion Hn as [|x l' Hx Hn']; subst.
  destruct (Nat.eqb_spec i h) as [->|Hne].
  - inversion Hf; subst. simpl. rewrite (hremove_absent h l Hx). rewrite nlive_cons. lia.
  - simpl. rewrite !nlive_cons. specialize (IH Hn' Hf). lia.
Qed.

Lemma inv_add k a s : rinv s -> rinv (add_handle k a (inc a s)).
Proof.
  intros [He Hu Hf Hn]. constructor; simpl.
  - intros b. rewrite nlive_cons. destruct (N.eqb_spec a b) as [->|Hne]; rewrite He; lia.
  - exact Hu.
  - intros i [<-|Hi]; [lia|]. specialize (Hf i Hi). lia.
  - constructor; [|exact Hn]. intros Hi. specialize (Hf _ Hi). lia.
Qed.

Lemma inv_drop h k a s : rinv s -> hfind (live s) h = Some (k, a) -> rinv (del_handle h (dec a s)).
Proof.
  intros [He Hu Hf Hn] Hfind. constructor; simpl.
  - intros b. pose proof (nlive_remove (live s) h k a b Hn Hfind) as Hr.
    destruct (N.eqb_spec a b) as [->|Hne]; rewrite He; lia.
  - rewrite Hu. simpl. apply Nat.eqb_neq. rewrite He.
    pose proof (nlive_remove (live s) h k a a Hn Hfind) as Hr. rewrite N.eqb_refl in Hr. lia.
  - intros i Hi. apply hremove_ids in Hi. apply Hf. tauto.
  - now apply hremove_nodup.
Qed.

Lemma apply_op_inv o s : rinv s -> rinv (apply_op o s).
Proof.
  intros Hs. destruct o as [a|a|h|a|h|h]; simpl.
  - now apply inv_add.
  - now apply inv_add.
  - destruct (hfind (live s) h) as [[[|] a]|]; [now apply inv_add | exact Hs | exact Hs].
  - now apply inv_add.
  - destruct (hfind (live s) h) as [[[|] a]|] eqn:Hf; [exact Hs | | exact Hs].
    apply (inv_drop h HUnique a).
    + now apply inv_add.
    + simpl. destruct (Nat.eqb_spec (next_id s) h) as [E|_]; [|exact Hf].
      exfalso. apply hfind_In in Hf. pose proof (inv_fresh s Hs h) as Hlt.
      assert (In h (ids (live s))) by (unfold ids; change h with (fst (h, (HUnique, a))); now apply in_map).
      specialize (Hlt H). lia.
  - destruct (hfind (live s) h) as [[k a]|] eqn:Hf; [|exact Hs]. eapply inv_drop; eauto.
Qed.

Lemma run_ops_inv ops : forall s, rinv s -> rinv (run_ops ops s).
Proof.
  unfold run_ops. induction ops as [|o ops IH]; intros s Hs; simpl; [exact Hs|].
  apply IH. now apply apply_op_inv.
Qed.

Lemma rinv_init : rinv r_init.
Proof. constructor; simpl; [reflexivity | reflexivity | contradiction | constructor]. Qed.

(* Theorem 8 *)
Theorem num_roots_exact ops :
  let s := run_ops ops r_init in
  (forall a, cnt s a = nlive (live s) a) /\ underflow s = false.
Proof.
  pose proof (run_ops_inv ops r_init rinv_init) as [He Hu _ _]. split; assumption.
Qed.

Theorem last_drop_zero ops h k a :
  let s := run_ops ops r_init in
  hfind (live s) h = Some (k, a) -> nlive (live s) a = 1 ->
  cnt (apply_op (DropHandle h) s) a = 0 /\ nlive (live (apply_op (DropHandle h) s)) a = 0.
Proof.
  intros s Hf H1. pose proof (run_ops_inv ops r_init rinv_init) as Hs. fold s in Hs.
  pose proof (apply_op_inv (DropHandle h) s Hs) as Hs'.
  assert (nlive (live (apply_op (DropHandle h) s)) a = 0).
  { unfold apply_op. rewrite Hf. unfold del_handle, dec. cbn [live].
    pose proof (nlive_remove (live s) h k a a (inv_nodup s Hs) Hf) as Hr. rewrite N.eqb_refl in Hr. lia. }
  split; [rewrite (inv_exact _ Hs')|]; assumption.
Qed.

(* a box whose count is zero has no handle: it is not a root for the next collection *)
Lemma nlive_pos l h k a : In (h, (k, a)) l -> 0 < nlive l a.
Proof.
  induction l as [|[i [k' a']] l IH]; [contradiction|]. rewrite nlive_cons. intros [E|Hin].
  - inversion E; subst. rewrite N.eqb_refl. lia.
  - specialize (IH Hin). lia.
Qed.

Corollary zero_count_no_handle ops a :
  cnt (run_ops ops r_init) a = 0 -> forall h k, hfind (live (run_ops ops r_init)) h <> Some (k, a).
Proof.
  intros H0 h k Hf. pose proof (proj1 (num_roots_exact ops) a) as He. cbv zeta in He.
  apply hfind_In in Hf. apply nlive_pos in Hf. lia.
Qed.

(* the transient +1 of Root::from(UniqueRoot) is visible in the model *)
Open Scope N_scope.
Definition ex_ops : list hop :=
  [NewUnique 5; NewRoot 7; CloneRoot 1; RootFromUnique 0; RootFromGc 5; DropHandle 1; CloneRoot 0;
   DropHandle 2; NewUnique 9; DropHandle 5].

Example ex_roots :
  let s := run_ops ex_ops r_init in
  (cnt s 5, cnt s 7, cnt s 9, underflow s, map fst (live s)) = (2%nat, 0%nat, 0%nat, false, [4%nat; 3%nat]).
Proof. vm_compute. reflexivity. Qed.

Example ex_last_drop :
  let s := run_ops [NewRoot 7; CloneRoot 0; DropHandle 0] r_init in
  hfind (live s) 1 = Some (HRoot, 7) /\ nlive (live s) 7 = 1%nat.
Proof. vm_compute. split; reflexivity. Qed.

Print Assumptions num_roots_exact.
Print Assumptions last_drop_zero.
