(* C03, round 7: the reference for the regenerated table `YVGen.Tokens.scanner_positions_gen` - every place of
   scanner.rs where a byte position of `source` is computed or used.

   WHY: the scanner model YV.Scanner works on `chars_of src`, the list of CHARACTERS (the slices between consecutive
   char boundaries); `ScannerProofs.scan_no_bad_slice` ("every slice lies on character boundaries") holds there by
   construction.  It describes the Rust code only as long as the code obtains every position the way the rows below
   say:
     * `self.current` is written only with `get_next_char_boundary(self.current)` (advance, match_char) or with a value
       it had before (`slice_start` in read_escaped_bytes un-reads the closing quote); `self.start` only with
       `self.current`;  =>  both are character boundaries of `source`, always (model: `s_pos` = clen of the consumed
       characters, `ScannerProofs.chars_of_boundary`);
     * every slice bound is `self.start`, `self.current`, or a local bound to `get_next_char_boundary(..)` of one of
       them (peek, peek_next, match_char, advance, make_token);
     * the only byte arithmetic on positions is `self.start + k` in check_keyword / identifier_type, reached from
       `identifier()` only: the lexeme `source[start..current]` consists of ASCII letters, digits and `_`
       (`is_alpha` / `is_digit` accept single ASCII bytes only), every bound is guarded by `current - start > k`
       resp. `current - start == start + rest.len()`, so every `start + k <= current` is a boundary
       (`ScanSitesProofs.ascii_token_slices`, `ident_lexeme_ascii`);
     * `get_next_char_boundary` / `is_at_end` are the two primitives (model: the head of `s_rest` / `s_rest = []`);
       `is_alpha` / `is_digit` accept ASCII only (model: `is_alpha_byte` / `is_digit` on a one-byte character);
     * unwrap() occurs twice, in read_escaped_bytes on `bytes.last()` after `num_bytes == 1` pushes (non-empty).
   A new slice, a position obtained by byte arithmetic (`self.current + 2`), a changed primitive changes a row and
   breaks `C03_scanner_positions`; the driver then enumerates every character width at every offset after every
   scanner state (tools/props/C03.py, scanner_boundary_inputs) to produce the text that panics.  DEFINITIONS ONLY (proofs: ScanSitesProofs.v). *)
From Coq Require Import Strings.Byte Strings.String List NArith.
From YV Require Import Utf8.
Import ListNotations.
Local Open Scope string_scope.

Definition scanner_positions_ref : list string := [
  "is_alpha|body|!s.is_empty()&&s.chars().all(|c|c.is_ascii_alphabetic()||c=='_')";
  "is_digit|body|!s.is_empty()&&s.chars().all(|c|c.is_ascii_digit())";
  "scan_token|write|self.start = self.current";
  "is_at_end|body|self.current>=self.source.len()";
  "advance|let|slice_start = self.current";
  "advance|index|self.source[slice_start..self.current]";
  "advance|write|self.current = self.get_next_char_boundary(self.current)";
  "peek|let|slice_end = self.get_next_char_boundary(self.current)";
  "peek|index|self.source[self.current..slice_end]";
  "peek_next|let|slice_start = self.get_next_char_boundary(self.current)";
  "peek_next|let|slice_end = self.get_next_char_boundary(slice_start)";
  "peek_next|index|self.source[slice_start..slice_end]";
  "match_char|let|next = self.get_next_char_boundary(self.current)";
  "match_char|index|self.source[self.current..next]";
  "match_char|write|self.current = next";
  "make_token|index|self.source[self.start..self.current]";
  "check_keyword|let|slice_begin = self.start+start";
  "check_keyword|let|slice_end = slice_begin+rest.len()";
  "check_keyword|index|self.source[slice_begin..slice_end]";
  "identifier_type|index|self.source[self.start..self.start+1]";
  "identifier_type|index|self.source[self.start+1..self.start+2]";
  "identifier_type|index|self.source[self.start+1..self.start+2]";
  "identifier_type|index|self.source[self.start+1..self.start+2]";
  "identifier_type|index|self.source[self.start+1..self.start+2]";
  "identifier_type|index|self.source[self.start+1..self.start+2]";
  "identifier_type|index|self.source[self.start+2..self.start+3]";
  "read_escaped_bytes|let|slice_start = self.current";
  "read_escaped_bytes|write|self.current = slice_start";
  "read_escaped_bytes|unwrap|2";
  "get_next_char_boundary|body|for pos in(start+1)..self.source.len(){if self.source.is_char_boundary(pos){return pos;}}self.source.len()"
].

(* a single-byte (ASCII) character: what `is_alpha` / `is_digit` of scanner.rs accept *)
Definition ascii_byte (b : byte) : bool := N.ltb (bN b) 128.

(* Round 9.  HOST RECURSION.  The call cycles among the functions of scanner.rs and compiler.rs (by name; regenerated:
   YVGen.Tokens.host_recursion_gen, translator/translate_c03.py host_recursion).  The property bounds the NESTING of a
   text, not its LENGTH: compile may use host stack in proportion to the nesting depth only.  That holds of the code
   exactly when every cycle is entered once per nesting level:
   - scanner.rs has NO cycle: scan_token, skip_whitespace, string, number, identifier are loops; a run of comments /
     blank lines / characters of any length costs no stack;
   - compiler.rs has ONE cycle by name, the statement grammar: declaration -> statement -> block / if / while / for /
     try -> declaration, fn / class / method bodies -> block.  Each round through it opens a `{` (or an `else if`):
     nesting.  The sequence of declarations of a block is the `while` loop of block() / parse(), not a self call.
   - the expression grammar recurses through the RULES table (fn pointers, not calls by name): parse_precedence ->
     prefix / infix handler -> parse_precedence, once per operand that is NESTED in the grammar (grouping, unary,
     the right operand of a binary operator; `and` / `or` / assignment / lambda bodies are right-recursive).
   A loop rewritten as a self call (`return self.scan_token()` after a comment, `self.declaration()` at the end of
   declaration) adds a row and breaks `C03_host_recursion`; the driver's length-scale family (tools/props/C03.py,
   scale_family: every flat construct x 1k .. 200k repetitions on a 1 MiB stack, confirmed on the CLI's 8 MiB) produces
   the text that overflows. *)
Definition host_recursion_ref : list string := [
  "compiler.rs|cycle|block,class_declaration,declaration,fn_declaration,for_statement,function,if_statement,method,statement,try_statement,while_statement"
].
