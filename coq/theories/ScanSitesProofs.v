(* C03, round 7: why the byte arithmetic `self.start + k` of check_keyword / identifier_type (rows of
   ScanSites.scanner_positions_ref) stays on character boundaries: an identifier lexeme is ASCII, and inside an ASCII
   token EVERY byte offset is a character boundary, so every sub-slice `source[start+i .. start+j]` exists. *)
From Coq Require Import Strings.Byte Strings.String.
From Coq Require Import List NArith Bool Arith Lia.
From YV Require Import Utf8 Utf8Proofs NumText Scanner ScannerProofs ScanSites.
Import ListNotations.
Local Open Scope nat_scope.

Lemma ascii_not_cont : forall b, ascii_byte b = true -> is_cont b = false.
Proof.
  intros b H. unfold ascii_byte in H. apply N.ltb_lt in H. unfold is_cont.
  destruct (N.leb_spec 128 (bN b)); [lia|reflexivity].
Qed.

Lemma alpha_byte_ascii : forall b, is_alpha_byte b = true -> ascii_byte b = true.
Proof.
  intros b H. unfold is_alpha_byte in H. unfold ascii_byte, bN. apply N.ltb_lt.
  repeat (apply orb_prop in H; destruct H as [H|H]);
    try (apply andb_prop in H; destruct H as [_ H]; apply N.leb_le in H; lia).
  apply N.eqb_eq in H. lia.
Qed.

Lemma digit_byte_ascii : forall b, is_digit b = true -> ascii_byte b = true.
Proof. intros b H. unfold ascii_byte. apply N.ltb_lt. apply is_digit_ascii. exact H. Qed.

(* `while is_alpha(peek()) || is_digit(peek()) { advance() }` collects ASCII bytes only *)
Lemma span_ident_ascii : forall cs l r, span_ident cs = (l, r) -> forallb ascii_byte l = true.
Proof.
  induction cs as [|c cs IH]; intros l r H; cbn [span_ident] in H.
  - inversion H; reflexivity.
  - destruct c as [|b [|b2 c']]; try (inversion H; reflexivity).
    destruct (is_alpha_byte b || is_digit b) eqn:E; [|inversion H; reflexivity].
    destruct (span_ident cs) as [l' r'] eqn:E2. inversion H; subst.
    cbn [forallb]. rewrite (IH _ _ eq_refl), andb_true_r.
    apply orb_prop in E. destruct E as [E|E]; [apply alpha_byte_ascii|apply digit_byte_ascii]; exact E.
Qed.

(* the lexeme `identifier()` hands to identifier_type: first character `c` with is_alpha(c), then span_ident *)
Theorem ident_lexeme_ascii : forall c r l r',
  is_alpha c = true -> span_ident r = (l, r') -> forallb ascii_byte (c ++ l) = true.
Proof.
  intros c r l r' Ha Hs. destruct c as [|b [|b2 c']]; try discriminate. cbn [is_alpha] in Ha.
  cbn [app forallb]. rewrite (alpha_byte_ascii _ Ha), (span_ident_ascii _ _ _ Hs). reflexivity.
Qed.
Print Assumptions ident_lexeme_ascii.

(* strictly inside a run of ASCII bytes every offset is a character boundary *)
Lemma ascii_run_boundary : forall pre lex post k,
  forallb ascii_byte lex = true -> 0 < k < length lex ->
  is_char_boundary (pre ++ lex ++ post) (length pre + k) = true.
Proof.
  intros pre lex post k F Hk. unfold is_char_boundary.
  destruct (length pre + k) as [|n] eqn:E; [lia|]. rewrite <- E.
  rewrite nth_error_app2 by lia. replace (length pre + k - length pre) with k by lia.
  rewrite nth_error_app1 by lia.
  destruct (nth_error lex k) as [b|] eqn:N.
  - rewrite forallb_forall in F. rewrite (ascii_not_cont b); [reflexivity|].
    apply F. eapply nth_error_In; exact N.
  - apply nth_error_None in N. lia.
Qed.

Lemma skipn_add : forall (A : Type) (n m : nat) (l : list A), skipn n (skipn m l) = skipn (m + n) l.
Proof.
  intros A n m. induction m as [|m IH]; intros l; [reflexivity|].
  destruct l as [|x l]; [cbn; destruct n; reflexivity|]. cbn [skipn Nat.add]. apply IH.
Qed.

Lemma slice_inv : forall s a b l, slice s a b = Some l ->
  a <= b /\ b <= length s /\ is_char_boundary s a = true /\ is_char_boundary s b = true /\
  s = firstn a s ++ l ++ skipn b s /\ length l = b - a.
Proof.
  intros s a b l H. unfold slice in H.
  destruct (Nat.leb a b) eqn:L1; [|discriminate]. destruct (Nat.leb b (length s)) eqn:L2; [|discriminate].
  destruct (is_char_boundary s a) eqn:B1; [|discriminate]. destruct (is_char_boundary s b) eqn:B2; [|discriminate].
  cbn in H. inversion H as [Hl]. apply Nat.leb_le in L1. apply Nat.leb_le in L2.
  repeat split; try assumption; try reflexivity.
  - rewrite <- (firstn_skipn a s) at 1. f_equal.
    rewrite <- (firstn_skipn (b - a) (skipn a s)) at 1. f_equal.
    rewrite skipn_add. f_equal. lia.
  - rewrite firstn_length, skipn_length. lia.
Qed.

(* THE FACT BEHIND THE ROWS `check_keyword|...` / `identifier_type|index|self.source[self.start+i..self.start+j]`:
   for a token whose lexeme is ASCII, every sub-slice by BYTE offsets exists and is that part of the lexeme *)
Theorem ascii_token_slices : forall src st t start st',
  reachable src st ->
  scan_token_start st = (t, start, st') ->
  lexeme_token (tk t) = true ->
  forallb ascii_byte (tsource t) = true ->
  forall i j, i <= j -> j <= length (tsource t) ->
  slice src (start + i) (start + j) = Some (firstn (j - i) (skipn i (tsource t))).
Proof.
  intros src st t start st' R H Hk F i j Hij Hj.
  destruct (scan_no_bad_slice _ _ _ _ _ R H) as [lex [Hs Hlex]].
  rewrite (Hlex Hk) in *. clear Hlex.
  destruct (slice_inv _ _ _ _ Hs) as [L1 [L2 [B1 [B2 [Hsrc Hlen]]]]].
  set (pre := firstn start src) in *. set (post := skipn (s_pos st') src) in *.
  assert (Hpre : length pre = start) by (unfold pre; rewrite firstn_length; lia).
  assert (Bd : forall k, k <= length lex -> is_char_boundary src (start + k) = true).
  { intros k Hk'. destruct (Nat.eq_dec k 0) as [->|K0]; [rewrite Nat.add_0_r; exact B1|].
    destruct (Nat.eq_dec k (length lex)) as [->|K1].
    - replace (start + length lex) with (s_pos st') by lia. exact B2.
    - rewrite Hsrc, <- Hpre. apply ascii_run_boundary; [exact F|lia]. }
  unfold slice.
  replace (Nat.leb (start + i) (start + j)) with true by (symmetry; apply Nat.leb_le; lia).
  replace (Nat.leb (start + j) (length src)) with true by (symmetry; apply Nat.leb_le; lia).
  rewrite (Bd i) by lia. rewrite (Bd j) by lia. cbn [andb]. f_equal.
  replace (start + j - (start + i)) with (j - i) by lia.
  rewrite Hsrc, <- Hpre. rewrite skipn_app.
  replace (skipn (length pre + i) pre) with (@nil byte) by (symmetry; apply skipn_all2; lia).
  replace (length pre + i - length pre) with i by lia. cbn [app].
  rewrite skipn_app. replace (i - length lex) with 0 by lia. cbn [skipn].
  rewrite firstn_app. rewrite skipn_length.
  replace (j - i - (length lex - i)) with 0 by lia. cbn [firstn]. apply app_nil_r.
Qed.
Print Assumptions ascii_token_slices.
