(* Model of /repo/yarel/src/scanner.rs over byte lists.  DEFINITIONS ONLY (proofs: ScannerProofs.v).

   The Rust scanner works on a `String` and moves `current` from one char boundary to the next
   (`get_next_char_boundary`: the next position whose byte is not a UTF-8 continuation byte, or
   the end).  We therefore cut the source ONCE into "characters" (`chars_of`: one byte followed by
   all continuation bytes that follow it -- exactly the slices `advance`/`peek` return, for every
   byte string, valid UTF-8 or not) and let the scanner run over the list of characters.  All loops
   are then structurally recursive.  `s_pos` is the byte offset `current`. *)
From Coq Require Import Strings.Byte Strings.String.
From Coq Require Import List NArith Bool Arith.
From YV Require Import Utf8 NumText.
Import ListNotations.

(* ------------------------------------------------------------------ *)
(* enum TokenKind, in declaration order (72 kinds)                      *)
Inductive tkind :=
| TLeftParen | TRightParen | TLeftBrace | TRightBrace | TLeftBracket | TRightBracket
| TComma | TDot | TDotDot | TMinus | TMinusEqual | TPlus | TPlusEqual | TColon | TSemiColon
| TSlash | TSlashEqual | TStar | TStarEqual | TBang | TBangEqual | TEqual | TEqualEqual
| TGreater | TGreaterEqual | TLess | TLessEqual | TAmp | TAmpEqual | TBar | TBarEqual
| TCaret | TCaretEqual | TPercent | TPercentEqual | TGreaterGreater | TGreaterGreaterEqual
| TLessLess | TLessLessEqual | TAmpAmp | TBarBar | TTilde | THash
| TIdentifier | TStr | TInterpolation | TNumber
| TCapSelf | TCatch | TClass | TElse | TFalse | TFinally | TFor | TFn | TIf | TImport | TAs | TIn
| TNil | TReturn | TSelf | TSuper | TBreak | TContinue | TThrow | TTrue | TTry | TVar | TWhile
| TError | TEof.

Definition all_tkinds : list tkind :=
  [TLeftParen; TRightParen; TLeftBrace; TRightBrace; TLeftBracket; TRightBracket;
   TComma; TDot; TDotDot; TMinus; TMinusEqual; TPlus; TPlusEqual; TColon; TSemiColon;
   TSlash; TSlashEqual; TStar; TStarEqual; TBang; TBangEqual; TEqual; TEqualEqual;
   TGreater; TGreaterEqual; TLess; TLessEqual; TAmp; TAmpEqual; TBar; TBarEqual;
   TCaret; TCaretEqual; TPercent; TPercentEqual; TGreaterGreater; TGreaterGreaterEqual;
   TLessLess; TLessLessEqual; TAmpAmp; TBarBar; TTilde; THash;
   TIdentifier; TStr; TInterpolation; TNumber;
   TCapSelf; TCatch; TClass; TElse; TFalse; TFinally; TFor; TFn; TIf; TImport; TAs; TIn;
   TNil; TReturn; TSelf; TSuper; TBreak; TContinue; TThrow; TTrue; TTry; TVar; TWhile;
   TError; TEof].

(* `kind as usize` *)
Definition tkind_index (k : tkind) : nat :=
  match k with
  | TLeftParen => 0 | TRightParen => 1 | TLeftBrace => 2 | TRightBrace => 3
  | TLeftBracket => 4 | TRightBracket => 5 | TComma => 6 | TDot => 7 | TDotDot => 8
  | TMinus => 9 | TMinusEqual => 10 | TPlus => 11 | TPlusEqual => 12 | TColon => 13
  | TSemiColon => 14 | TSlash => 15 | TSlashEqual => 16 | TStar => 17 | TStarEqual => 18
  | TBang => 19 | TBangEqual => 20 | TEqual => 21 | TEqualEqual => 22 | TGreater => 23
  | TGreaterEqual => 24 | TLess => 25 | TLessEqual => 26 | TAmp => 27 | TAmpEqual => 28
  | TBar => 29 | TBarEqual => 30 | TCaret => 31 | TCaretEqual => 32 | TPercent => 33
  | TPercentEqual => 34 | TGreaterGreater => 35 | TGreaterGreaterEqual => 36
  | TLessLess => 37 | TLessLessEqual => 38 | TAmpAmp => 39 | TBarBar => 40 | TTilde => 41
  | THash => 42 | TIdentifier => 43 | TStr => 44 | TInterpolation => 45 | TNumber => 46
  | TCapSelf => 47 | TCatch => 48 | TClass => 49 | TElse => 50 | TFalse => 51
  | TFinally => 52 | TFor => 53 | TFn => 54 | TIf => 55 | TImport => 56 | TAs => 57
  | TIn => 58 | TNil => 59 | TReturn => 60 | TSelf => 61 | TSuper => 62 | TBreak => 63
  | TContinue => 64 | TThrow => 65 | TTrue => 66 | TTry => 67 | TVar => 68 | TWhile => 69
  | TError => 70 | TEof => 71
  end.

Definition tkind_eqb (a b : tkind) : bool := Nat.eqb (tkind_index a) (tkind_index b).

(* struct Token.  For Str/Interpolation tokens `tsource` is the string AFTER escape processing,
   for Error tokens it is the message, otherwise the lexeme. *)
Record token := mkToken { tk : tkind; tline : N; tsource : list byte }.

(* ------------------------------------------------------------------ *)
(* characters                                                           *)
Definition chr := list byte.     (* one "character": the slice between two consecutive boundaries *)

Definition starts_with_cont (c : chr) : bool :=
  match c with b :: _ => is_cont b | [] => false end.

(* cut at every position `p > 0` whose byte is not a continuation byte
   (= every p with `is_char_boundary(p)`) *)
Fixpoint chars_of (l : list byte) : list chr :=
  match l with
  | [] => []
  | b :: r =>
    match chars_of r with
    | [] => [[b]]
    | c :: cs => if starts_with_cont c then (b :: c) :: cs else [b] :: c :: cs
    end
  end.

Definition chr_is (c : chr) (b : byte) : bool :=
  match c with [x] => Byte.eqb x b | _ => false end.

Definition is_alpha_byte (b : byte) : bool :=
  let n := Byte.to_N b in
  (N.leb 65 n && N.leb n 90) || (N.leb 97 n && N.leb n 122) || N.eqb n 95.

(* fn is_alpha(s: &str): non-empty and all chars ASCII alphabetic or '_' (s is one character) *)
Definition is_alpha (c : chr) : bool := match c with [b] => is_alpha_byte b | _ => false end.
(* fn is_digit(s: &str) *)
Definition is_digit_chr (c : chr) : bool := match c with [b] => is_digit b | _ => false end.

Definition clen (cs : list chr) : nat := length (concat cs).

(* ------------------------------------------------------------------ *)
(* scanner state                                                        *)
Definition INTERPOLATION_DEPTH_MAX : nat := 8.

Record sstate := mkS {
  s_rest : list chr;        (* source[current..], cut into characters *)
  s_pos : nat;              (* current *)
  s_line : N;               (* line *)
  s_parens : list N         (* `parantheses`, top of the stack first *)
}.

Definition init_sstate (src : list byte) : sstate := mkS (chars_of src) 0 1 [].

(* skip_whitespace.  `incomment` = inside the `while peek() != "\n" advance()` loop of a comment. *)
Fixpoint skip_ws (incomment : bool) (cs : list chr) (pos : nat) (line : N) : list chr * nat * N :=
  match cs with
  | [] => ([], pos, line)
  | c :: r =>
    if incomment then
      if chr_is c "010" then skip_ws false r (pos + 1) (line + 1)
      else skip_ws true r (pos + length c) line
    else if chr_is c " " || chr_is c "013" || chr_is c "009" then skip_ws false r (pos + 1) line
    else if chr_is c "010" then skip_ws false r (pos + 1) (line + 1)
    else if chr_is c "/" then
      match r with
      | c2 :: _ => if chr_is c2 "/" then skip_ws true r (pos + 1) line else (cs, pos, line)
      | [] => (cs, pos, line)
      end
    else (cs, pos, line)
  end.

(* while is_alpha(peek()) || is_digit(peek()) advance() *)
Fixpoint span_ident (cs : list chr) : list byte * list chr :=
  match cs with
  | [b] :: r =>
    if is_alpha_byte b || is_digit b then let '(l, r') := span_ident r in (b :: l, r') else ([], cs)
  | _ => ([], cs)
  end.

(* while is_digit(peek()) advance() *)
Fixpoint span_digit_chrs (cs : list chr) : list byte * list chr :=
  match cs with
  | [b] :: r => if is_digit b then let '(l, r') := span_digit_chrs r in (b :: l, r') else ([], cs)
  | _ => ([], cs)
  end.

(* fn number, after the first digit `c` has been consumed: (rest of the lexeme, remaining input) *)
Definition number_tail (cs : list chr) : list byte * list chr :=
  let '(ip, r1) := span_digit_chrs cs in
  match r1 with
  | d :: n :: r2 =>
    if chr_is d "." && is_digit_chr n then
      let '(fp, r3) := span_digit_chrs (n :: r2) in (ip ++ "."%byte :: fp, r3)
    else (ip, r1)
  | _ => (ip, r1)
  end.

(* ------------------------------------------------------------------ *)
(* keywords                                                             *)
Definition bs (s : string) : list byte := list_byte_of_string s.

(* fn check_keyword(start, rest, kind) on the lexeme source[start..current] *)
Definition check_keyword (lex : list byte) (start : nat) (rest : string) (k : tkind) : tkind :=
  let r := bs rest in
  if Nat.eqb (length lex) (start + length r) && bytes_eqb (skipn start lex) r then k
  else TIdentifier.

(* fn identifier_type: the keyword trie *)
Definition identifier_type (lex : list byte) : tkind :=
  match lex with
  | "a"%byte :: _ => check_keyword lex 1 "s" TAs
  | "b"%byte :: _ => check_keyword lex 1 "reak" TBreak
  | "c"%byte :: t =>
    match t with
    | "a"%byte :: _ => check_keyword lex 2 "tch" TCatch
    | "l"%byte :: _ => check_keyword lex 2 "ass" TClass
    | "o"%byte :: _ => check_keyword lex 2 "ntinue" TContinue
    | _ => TIdentifier
    end
  | "e"%byte :: _ => check_keyword lex 1 "lse" TElse
  | "f"%byte :: t =>
    match t with
    | "a"%byte :: _ => check_keyword lex 2 "lse" TFalse
    | "i"%byte :: _ => check_keyword lex 2 "nally" TFinally
    | "o"%byte :: _ => check_keyword lex 2 "r" TFor
    | "n"%byte :: _ => check_keyword lex 2 "" TFn
    | _ => TIdentifier
    end
  | "i"%byte :: t =>
    match t with
    | "f"%byte :: _ => check_keyword lex 2 "" TIf
    | "n"%byte :: _ => check_keyword lex 2 "" TIn
    | "m"%byte :: _ => check_keyword lex 2 "port" TImport
    | _ => TIdentifier
    end
  | "n"%byte :: _ => check_keyword lex 1 "il" TNil
  | "r"%byte :: _ => check_keyword lex 1 "eturn" TReturn
  | "S"%byte :: _ => check_keyword lex 1 "elf" TCapSelf
  | "s"%byte :: t =>
    match t with
    | "e"%byte :: _ => check_keyword lex 2 "lf" TSelf
    | "u"%byte :: _ => check_keyword lex 2 "per" TSuper
    | _ => TIdentifier
    end
  | "t"%byte :: t =>
    match t with
    | "h"%byte :: _ => check_keyword lex 2 "row" TThrow
    | "r"%byte :: t2 =>
      match t2 with
      | "u"%byte :: _ => check_keyword lex 3 "e" TTrue
      | "y"%byte :: _ => check_keyword lex 3 "" TTry
      | _ => TIdentifier
      end
    | _ => TIdentifier
    end
  | "v"%byte :: _ => check_keyword lex 1 "ar" TVar
  | "w"%byte :: _ => check_keyword lex 1 "hile" TWhile
  | _ => TIdentifier
  end.

(* ------------------------------------------------------------------ *)
(* strings                                                              *)

Definition hex_val (b : byte) : option N :=
  let n := Byte.to_N b in
  if N.leb 48 n && N.leb n 57 then Some (n - 48)%N
  else if N.leb 97 n && N.leb n 102 then Some (n - 87)%N
  else if N.leb 65 n && N.leb n 70 then Some (n - 55)%N
  else None.

(* u8::from_str_radix(s, 16) for a string made of exactly two characters c1 c2.
   (A leading '+' is accepted by Rust; a leading '-' is not for unsigned types.) *)
Definition u8_from_hex2 (c1 c2 : chr) : option N :=
  match c1, c2 with
  | [a], [b] =>
    match hex_val b with
    | None => None
    | Some lo =>
      if Byte.eqb a "+" then Some lo
      else match hex_val a with Some hi => Some (16 * hi + lo)%N | None => None end
    end
  | _, _ => None
  end.

(* The inner `for _ in 0..2` of read_escaped_bytes: Some (two chars) and the number of characters
   consumed, or None (at end / hit the closing quote, which is un-read).  The `self.line += 1` for a
   consumed "\n" is applied by string_loop when it passes over the consumed characters. *)
Definition read2 (cs : list chr) : option (chr * chr) * nat :=
  match cs with
  | [] => (None, 0)
  | c1 :: r =>
    if chr_is c1 """" then (None, 0)
    else match r with
         | [] => (None, 1)
         | c2 :: _ => if chr_is c2 """" then (None, 1) else (Some (c1, c2), 2)
         end
  end.

(* the outer loop: (Ok bytes | Err, number of characters consumed) *)
Fixpoint read_escaped_raw (n : nat) (cs : list chr) : option (list byte) * nat :=
  match n with
  | O => (Some [], 0)
  | S n' =>
    match read2 cs with
    | (None, k) => (None, k)
    | (Some (c1, c2), k) =>
      match u8_from_hex2 c1 c2 with
      | None => (None, k)
      | Some b =>
        match read_escaped_raw n' (skipn k cs) with
        | (Some bs', k') => (Some (Nb b :: bs'), k + k')
        | (None, k') => (None, k + k')
        end
      end
    end
  end.

(* `if num_bytes == 1 && last > 127 { insert(0, 195); last &= 0b1011_1111 }` *)
Definition latin1_fixup (n : nat) (l : list byte) : list byte :=
  match n, l with
  | 1, [b] => if N.ltb 127 (bN b) then [Nb 195; Nb (N.land (bN b) 191)] else l
  | _, _ => l
  end.

(* fn read_escaped_bytes(num_bytes): result and number of characters consumed *)
Definition read_escaped_bytes (n : nat) (cs : list chr) : option (list byte) * nat :=
  match read_escaped_raw n cs with
  | (Some l, k) =>
    let l' := latin1_fixup n l in
    (if valid_utf8 l' then Some l' else None, k)
  | (None, k) => (None, k)
  end.

Definition error_token (line : N) (msg : string) : token := mkToken TError line (bs msg).

(* single-byte escapes of fn string *)
Definition simple_escape (c : chr) : option byte :=
  match c with
  | [b] =>
    if Byte.eqb b "$" then Some "$"%byte
    else if Byte.eqb b "a" then Some "007"%byte
    else if Byte.eqb b "b" then Some "008"%byte
    else if Byte.eqb b "f" then Some "012"%byte
    else if Byte.eqb b "n" then Some "010"%byte
    else if Byte.eqb b "r" then Some "013"%byte
    else if Byte.eqb b "t" then Some "009"%byte
    else if Byte.eqb b "v" then Some "011"%byte
    else if Byte.eqb b """" then Some """"%byte
    else if Byte.eqb b "\" then Some "\"%byte
    else if Byte.eqb b "0" then Some "000"%byte
    else None
  | _ => None
  end.

(* number of bytes of a \u / \U / \x escape *)
Definition hex_escape (c : chr) : option (nat * string) :=
  if chr_is c "u" then Some (2, "Invalid Unicode sequence."%string)
  else if chr_is c "U" then Some (4, "Invalid Unicode sequence."%string)
  else if chr_is c "x" then Some (1, "Invalid hexadecimal sequence."%string)
  else None.

(* fn string.  `skip` = number of upcoming characters already consumed by an escape sequence;
   `buf` = `buffer`, reversed; `err` = `error`.
   Lines (since /repo 914ba97): read_escaped_bytes does `if read_chars.ends_with('\n') { self.line += 1; }`
   after every character it pushes (read_chars is reset per byte, so after the first push it ends with
   '\n' iff the first character is "\n", after the second iff the second is), i.e. EVERY raw line break among
   the 2/4/8 characters of a \x / \u / \U escape counts - also when the escape then fails.  The model
   passes over those characters with `skip`, so the `S k` branch counts a skipped "\n".  (The first skipped
   character is the escape letter itself - `n`, `x`, `u`, ... - never a line break.)  Before 914ba97 the
   skipped characters never changed `line` (finding escape_swallows_newline, fixed).
   The character consumed right after `\` or `$` when it makes the token an error ("Invalid escape
   sequence." / "Expected '{' in string interpolation."): since /repo e81033c a raw line break there is
   counted too - AFTER the Error token was built, so that token keeps the line of its `\` / `$` and
   the returned state carries line + 1 (these two exits are the only places where the token's line is not
   the line of the state returned with it).  Before e81033c it was not counted (finding
   literal_error_swallows_newline, fixed).  With that, every line break the scanner consumes is counted:
   ScannerLineExact.token_line_exact. *)
Fixpoint string_loop (cs : list chr) (skip : nat) (buf : list byte) (err : option string)
         (pos : nat) (line : N) (parens : list N) : token * sstate :=
  match cs with
  | [] => (error_token line "Unterminated string.", mkS [] pos line parens)
  | c :: r =>
    match skip with
    | S k => string_loop r k buf err (pos + length c) (if chr_is c "010" then line + 1 else line) parens
    | O =>
      if chr_is c """" then
        (match err with
         | Some m => error_token line m
         | None => mkToken TStr line (rev buf)
         end, mkS r (pos + 1) line parens)
      else if chr_is c "$" then
        match r with
        | [] => (error_token line "Expected '{' in string interpolation.", mkS [] (pos + 1) line parens)
        | c2 :: r2 =>
          let st := mkS r2 (pos + 1 + length c2) line parens in
          if negb (chr_is c2 "{") then
            (* the token is built first, THEN `if is_newline { self.line += 1; }` (since /repo e81033c) *)
            (error_token line "Expected '{' in string interpolation.",
             mkS r2 (pos + 1 + length c2) (if chr_is c2 "010" then line + 1 else line) parens)
          else if Nat.leb INTERPOLATION_DEPTH_MAX (length parens)
               then (error_token line "Max interpolation depth exceeded.", st)
          else (mkToken TInterpolation line (rev buf),
                mkS r2 (pos + 1 + length c2) line (1%N :: parens))
        end
      else if chr_is c "\" then
        match r with
        | [] => (error_token line "Invalid escape sequence.", mkS [] (pos + 1) line parens)
        | c2 :: r2 =>
          match simple_escape c2 with
          | Some b => string_loop r 1 (b :: buf) err (pos + 1) line parens
          | None =>
            match hex_escape c2 with
            | Some (n, msg) =>
              match read_escaped_bytes n r2 with
              | (Some l, k) => string_loop r (1 + k) (rev_append l buf) err (pos + 1) line parens
              | (None, k) => string_loop r (1 + k) buf (Some msg) (pos + 1) line parens
              end
            | None =>
              (* the `"\n"` arm: token first, then `self.line += 1` (since /repo e81033c); `_` arm: no change *)
              (error_token line "Invalid escape sequence.",
               mkS r2 (pos + 1 + length c2) (if chr_is c2 "010" then line + 1 else line) parens)
            end
          end
        end
      else if chr_is c "010" then string_loop r 0 ("010"%byte :: buf) err (pos + 1) (line + 1) parens
      else string_loop r 0 (rev_append c buf) err (pos + length c) line parens
    end
  end.

Definition scan_string (cs : list chr) (pos : nat) (line : N) (parens : list N) : token * sstate :=
  string_loop cs 0 [] None pos line parens.

(* ------------------------------------------------------------------ *)
(* scan_token                                                           *)

(* fn match_char(expected) *)
Definition match_chr (cs : list chr) (b : byte) : bool * list chr :=
  match cs with
  | c :: r => if chr_is c b then (true, r) else (false, cs)
  | [] => (false, cs)
  end.

Definition unexpected_msg (c : chr) : list byte :=
  bs "Unexpected character: '" ++ c ++ bs "'.".

(* Result of scan_token together with `self.start` (used by the slicing theorems). *)
Definition scan_token_start (st : sstate) : token * nat * sstate :=
  let '(cs, start, line) := skip_ws false (s_rest st) (s_pos st) (s_line st) in
  let parens := s_parens st in
  match cs with
  | [] => (mkToken TEof line [], start, mkS [] start line parens)
  | c :: r =>
    let p1 := start + length c in
    (* make_token for a lexeme `c ++ more`, with `rest` still to scan *)
    let mk := fun (k : tkind) (more : list byte) (rest : list chr) =>
                (mkToken k line (c ++ more), start, mkS rest (p1 + length more) line parens) in
    let binary_token := fun (bare assign : tkind) =>
                          match match_chr r "=" with
                          | (true, r') => mk assign ["="%byte] r'
                          | (false, _) => mk bare [] r
                          end in
    if is_alpha c then
      let '(l, r') := span_ident r in mk (identifier_type (c ++ l)) l r'
    else if is_digit_chr c then
      let '(l, r') := number_tail r in mk TNumber l r'
    else match c with
    | [b] =>
      if Byte.eqb b "(" then mk TLeftParen [] r
      else if Byte.eqb b ")" then mk TRightParen [] r
      else if Byte.eqb b "{" then
        (mkToken TLeftBrace line c, start,
         mkS r p1 line (match parens with n :: ps => (n + 1)%N :: ps | [] => [] end))
      else if Byte.eqb b "}" then
        match parens with
        | n :: ps =>
          if N.eqb (n - 1) 0 then
            let '(t, st') := scan_string r p1 line ps in (t, start, st')
          else (mkToken TRightBrace line c, start, mkS r p1 line ((n - 1)%N :: ps))
        | [] => mk TRightBrace [] r
        end
      else if Byte.eqb b "[" then mk TLeftBracket [] r
      else if Byte.eqb b "]" then mk TRightBracket [] r
      else if Byte.eqb b ":" then mk TColon [] r
      else if Byte.eqb b ";" then mk TSemiColon [] r
      else if Byte.eqb b "," then mk TComma [] r
      else if Byte.eqb b "#" then mk THash [] r
      else if Byte.eqb b "." then
        match match_chr r "." with
        | (true, r') => mk TDotDot ["."%byte] r'
        | (false, _) => mk TDot [] r
        end
      else if Byte.eqb b "-" then binary_token TMinus TMinusEqual
      else if Byte.eqb b "+" then binary_token TPlus TPlusEqual
      else if Byte.eqb b "/" then binary_token TSlash TSlashEqual
      else if Byte.eqb b "*" then binary_token TStar TStarEqual
      else if Byte.eqb b "!" then binary_token TBang TBangEqual
      else if Byte.eqb b "=" then binary_token TEqual TEqualEqual
      else if Byte.eqb b "<" then
        let '(dbl, r1) := match_chr r "<" in
        let '(eq, r2) := match_chr r1 "=" in
        mk (match dbl, eq with
            | true, true => TLessLessEqual | true, false => TLessLess
            | false, true => TLessEqual | false, false => TLess end)
           ((if dbl then ["<"%byte] else []) ++ (if eq then ["="%byte] else [])) r2
      else if Byte.eqb b ">" then
        let '(dbl, r1) := match_chr r ">" in
        let '(eq, r2) := match_chr r1 "=" in
        mk (match dbl, eq with
            | true, true => TGreaterGreaterEqual | true, false => TGreaterGreater
            | false, true => TGreaterEqual | false, false => TGreater end)
           ((if dbl then [">"%byte] else []) ++ (if eq then ["="%byte] else [])) r2
      else if Byte.eqb b "|" then
        match match_chr r "|" with
        | (true, r') => mk TBarBar ["|"%byte] r'
        | (false, _) => binary_token TBar TBarEqual
        end
      else if Byte.eqb b "&" then
        match match_chr r "&" with
        | (true, r') => mk TAmpAmp ["&"%byte] r'
        | (false, _) => binary_token TAmp TAmpEqual
        end
      else if Byte.eqb b "^" then binary_token TCaret TCaretEqual
      else if Byte.eqb b "%" then binary_token TPercent TPercentEqual
      else if Byte.eqb b "~" then mk TTilde [] r
      else if Byte.eqb b """" then
        let '(t, st') := scan_string r p1 line parens in (t, start, st')
      else (mkToken TError line (unexpected_msg c), start, mkS r p1 line parens)
    | _ => (mkToken TError line (unexpected_msg c), start, mkS r p1 line parens)
    end
  end.

Definition scan_token (st : sstate) : token * sstate :=
  let '(t, _, st') := scan_token_start st in (t, st').

(* All tokens up to and including the first Eof.  Out of fuel: stop (never happens with the fuel
   of scan_all, see ScannerProofs.scan_all_fuel_enough). *)
Fixpoint scan_loop (fuel : nat) (st : sstate) : list token :=
  match fuel with
  | O => []
  | S f =>
    let '(t, st') := scan_token st in
    match tk t with
    | TEof => [t]
    | _ => t :: scan_loop f st'
    end
  end.

Definition scan_all (src : list byte) : list token :=
  scan_loop (length src + 2) (init_sstate src).
