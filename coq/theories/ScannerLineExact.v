(* ScannerLineExact: the EXACT line of every token (proofs; the few definitions are specification-side).

   Since /repo 914ba97 read_escaped_bytes counts the line breaks it consumes, so the scanner's line counter can be
   compared with the number of newline bytes it has passed.  Result (token_line_exact):

       for every source `src` (no LF directly followed by a UTF-8 continuation byte - true of every valid UTF-8
       string, i.e. of every Rust `String`), for every token t of `scan_all src`, with e = the offset `current`
       right after t was produced (the END of its lexeme / of the text the error token consumed):

           tline t + (number of SWALLOWING error tokens up to and including t)
             = 1 + (number of newline bytes of src before e).

   A swallowing error token is one of the two places left in scanner.rs where a character is consumed without
   being looked at: the character after `\` when it is not an escape letter ("Invalid escape sequence.") and the
   character after `$` when it is not `{` ("Expected '{' in string interpolation.") - when that character is a raw
   line break (`swallowb`).  The token itself then still carries the line of the `\` / `$` (arguably right), but
   every LATER token of the compilation is one line short: line_exact_refuted_escape / line_exact_refuted_dollar
   (witnesses confirmed on the real scanner, see notes/Scanner-newline.md).  For every token that has no such error
   token before it the equation is the plain one (token_line_exact_clean), in particular for every token up to and
   including the first Error token of any kind (token_line_exact_first_error), hence - the parser stops at the first
   Error token: ParserInv.parse_error_before_scan_error - for the FIRST compile error of every source, with no side
   condition (compile_error_line_exact_first): its line is the line of the offset where the reported token ends, or,
   for a swallowing Error token, the line on which the swallowed break stands. *)
From Coq Require Import Strings.Byte Strings.String.
From Coq Require Import List NArith Bool Arith Lia.
From YV Require Import Utf8 Utf8Proofs NumText Scanner ScannerProofs Parser ParseRun Lines LinesProofs.
From YV Require TotalityProofs ParserInv.
Import ListNotations.
Local Open Scope N_scope.
Local Open Scope list_scope.

(* ------------------------------------------------------------------ *)
(** * 0. specification-side definitions *)

(* tokens with the offset `current` after each of them (same loop as scan_loop) *)
Fixpoint scan_loop_ends (fuel : nat) (st : sstate) : list (token * nat) :=
  match fuel with
  | O => []
  | S f =>
    let '(t, st') := scan_token st in
    match tk t with
    | TEof => [(t, s_pos st')]
    | _ => (t, s_pos st') :: scan_loop_ends f st'
    end
  end.

Definition scan_ends (src : list byte) : list (token * nat) :=
  scan_loop_ends (List.length src + 2) (init_sstate src).

(* the line a position is on: 1 + newline bytes before it *)
Definition line_of_offset (src : list byte) (e : nat) : N := 1 + N.of_nat (count_nl (firstn e src)).

Definition msg_invalid_escape : list byte := bs "Invalid escape sequence.".
Definition msg_expected_brace : list byte := bs "Expected '{' in string interpolation.".

(* an Error token made right after blindly consuming one character *)
Definition swallow_msg (t : token) : bool :=
  tkind_eqb (tk t) TError &&
  (bytes_eqb (tsource t) msg_invalid_escape || bytes_eqb (tsource t) msg_expected_brace).

(* ... and that character (the last byte before `e`) is a line break *)
Definition byte_before_is_nl (src : list byte) (e : nat) : bool :=
  match e with
  | O => false
  | S p => match nth_error src p with Some b => is_nl b | None => false end
  end.

Definition swallowb (src : list byte) (te : token * nat) : bool :=
  swallow_msg (fst te) && byte_before_is_nl src (snd te).

Definition swallowed (src : list byte) (l : list (token * nat)) : N :=
  N.of_nat (List.length (filter (swallowb src) l)).

(* no LF is directly followed by a continuation byte (0x80..0xBF) - every valid UTF-8 string: valid_nl_clean *)
Fixpoint nl_cleanb (l : list byte) : bool :=
  match l with
  | [] => true
  | b :: r => (if is_nl b then head_ok r else true) && nl_cleanb r
  end.

(* ------------------------------------------------------------------ *)
(** * 1. characters and newline bytes *)

Definition nlc (c : chr) : N := if chr_is c "010" then 1 else 0.

Lemma cnl_app : forall a b, cnl (a ++ b) = cnl a + cnl b.
Proof. intros a b. unfold cnl. rewrite filter_app, app_length. lia. Qed.

Fixpoint last_nl (m : list chr) : bool :=
  match m with
  | [] => false
  | c :: r => match r with [] => chr_is c "010" | _ => last_nl r end
  end.

Lemma last_nl_cons : forall c m, m <> [] -> last_nl (c :: m) = last_nl m.
Proof. intros c [|x m] H; [contradiction|reflexivity]. Qed.

Lemma last_nl_app : forall a m, m <> [] -> last_nl (a ++ m) = last_nl m.
Proof.
  induction a as [|c a IH]; intros m H; [reflexivity|].
  cbn [app]. rewrite last_nl_cons; [apply IH; exact H|]. destruct a; [exact H|discriminate].
Qed.

(* every character of chars_of: one byte followed by continuation bytes only *)
Definition chr_shaped (c : chr) : Prop := exists b t, c = b :: t /\ forallb is_cont t = true.

Lemma chars_of_shaped : forall l, Forall chr_shaped (chars_of l).
Proof.
  induction l as [|b r IH]; [constructor|]. rewrite chars_of_cons.
  destruct (chars_of r) as [|c cs] eqn:E.
  - constructor; [exists b, []; split; reflexivity|constructor].
  - inversion IH as [|? ? [x [t [Hc Ht]]] Hcs]; subst.
    destruct (starts_with_cont (x :: t)) eqn:Es.
    + constructor; [|exact Hcs]. exists b, (x :: t). split; [reflexivity|].
      cbn [forallb]. cbn in Es. rewrite Es, Ht. reflexivity.
    + constructor; [exists b, []; split; reflexivity|]. constructor; [exists x, t; split; [reflexivity|exact Ht]|exact Hcs].
Qed.

Lemma cont_not_nl : forall b, is_cont b = true -> is_nl b = false.
Proof.
  intros b H. unfold is_nl. destruct (Byte.eqb b "010") eqn:E; [|reflexivity].
  apply Byte.byte_dec_bl in E. subst b. discriminate H.
Qed.

Lemma count_nl_conts : forall t, forallb is_cont t = true -> count_nl t = 0%nat.
Proof.
  induction t as [|x t IH]; intros H; [reflexivity|]. cbn in H. apply andb_prop in H as [Hx Ht].
  unfold count_nl. cbn [filter]. rewrite (cont_not_nl x Hx). apply IH; exact Ht.
Qed.

(* the characters of a string in which no LF is followed by a continuation byte: a character holds a newline byte
   iff it IS the newline character *)
Definition chr_clean (c : chr) : Prop := N.of_nat (count_nl c) = nlc c.

Lemma nl_clean_chars : forall l, nl_cleanb l = true -> Forall chr_clean (chars_of l).
Proof.
  induction l as [|b r IH]; intros H; [constructor|]. cbn [nl_cleanb] in H. apply andb_prop in H as [Hb Hr].
  specialize (IH Hr). rewrite chars_of_cons.
  assert (Hone : chr_clean [b]).
  { unfold chr_clean, nlc, count_nl, chr_is. cbn [filter]. unfold is_nl. destruct (Byte.eqb b "010"); reflexivity. }
  destruct (chars_of r) as [|c cs] eqn:E.
  - constructor; [exact Hone|constructor].
  - destruct (starts_with_cont c) eqn:Es.
    + inversion IH as [|? ? Hc Hcs]; subst. constructor; [|exact Hcs].
      pose proof (chars_of_shaped r) as Sh. rewrite E in Sh. inversion Sh as [|? ? [x [t [Hx Ht]]] _]; subst.
      cbn in Es.
      (* b is not LF: the byte after it is a continuation byte *)
      assert (Hnb : is_nl b = false).
      { destruct (is_nl b) eqn:Enb; [|reflexivity]. exfalso.
        destruct r as [|y r']; [discriminate E|].
        destruct (chars_of_head y r') as [t' [cs' E']]. rewrite E' in E. inversion E; subst.
        cbn in Hb. rewrite Es in Hb. discriminate Hb. }
      unfold chr_clean, nlc. change (b :: x :: t) with ([b] ++ x :: t) at 1.
      rewrite count_nl_app, (count_nl_conts (x :: t)) by (cbn [forallb]; rewrite Es, Ht; reflexivity).
      unfold count_nl. cbn [filter]. rewrite Hnb. reflexivity.
    + constructor; [exact Hone|exact IH].
Qed.

Lemma cnl_count_clean : forall cs, Forall chr_clean cs -> cnl cs = N.of_nat (count_nl (List.concat cs)).
Proof.
  induction cs as [|c r IH]; intros F; [reflexivity|]. inversion F as [|? ? Hc Hr]; subst.
  rewrite cnl_cons. cbn [List.concat]. rewrite count_nl_app, Nat2N.inj_add, Hc, (IH Hr). reflexivity.
Qed.

Lemma firstn_clen_concat : forall (pre rest : list chr),
  firstn (clen pre) (List.concat (pre ++ rest)) = List.concat pre.
Proof.
  intros pre rest. rewrite concat_app. unfold clen. rewrite firstn_app, Nat.sub_diag, firstn_all. cbn. apply app_nil_r.
Qed.

(* the last byte before the end of a non-empty run of characters is LF iff the last character is the newline *)
Lemma last_byte_nl : forall (k : list chr) (pre : list byte) (post : list byte),
  Forall chr_shaped k -> k <> [] ->
  byte_before_is_nl (pre ++ List.concat k ++ post) (List.length pre + clen k) = last_nl k.
Proof.
  induction k as [|c k IH]; intros pre post F Hne; [contradiction|].
  inversion F as [|? ? [b [t [Hc Ht]]] Fk]; subst.
  destruct k as [|c2 k'].
  - (* the last character *)
    cbn [last_nl List.concat]. rewrite app_nil_r. unfold clen. cbn [List.concat]. rewrite app_nil_r.
    destruct (rev t) as [|y ty] eqn:Er.
    + assert (t = []) by (destruct t; [reflexivity|apply (f_equal (@List.length _)) in Er; rewrite rev_length in Er; discriminate]).
      subst t. cbn [List.length]. replace (List.length pre + 1)%nat with (S (List.length pre)) by lia.
      unfold byte_before_is_nl. cbn [app]. rewrite nth_error_app_len. unfold is_nl, chr_is. reflexivity.
    + assert (Et : t = rev ty ++ [y]) by (rewrite <- (rev_involutive t), Er; reflexivity).
      assert (Hy : is_cont y = true).
      { rewrite forallb_forall in Ht. apply Ht. rewrite Et. apply in_or_app. right. left. reflexivity. }
      assert (Hch : chr_is (b :: t) "010" = false) by (rewrite Et; destruct (rev ty); reflexivity).
      rewrite Hch. rewrite Et.
      replace (pre ++ (b :: rev ty ++ [y]) ++ post) with ((pre ++ b :: rev ty) ++ y :: post)
        by (rewrite <- !app_assoc; cbn; rewrite <- app_assoc; reflexivity).
      replace (List.length pre + List.length (b :: rev ty ++ [y]))%nat with (S (List.length (pre ++ b :: rev ty)))
        by (rewrite !app_length; cbn [List.length]; rewrite app_length; cbn [List.length]; lia).
      unfold byte_before_is_nl. rewrite nth_error_app_len. apply cont_not_nl; exact Hy.
  - rewrite last_nl_cons by discriminate.
    rewrite <- (IH (pre ++ b :: t) post Fk) by discriminate.
    f_equal.
    + cbn [List.concat]. rewrite <- !app_assoc. reflexivity.
    + rewrite clen_cons, app_length. lia.
Qed.

(* ------------------------------------------------------------------ *)
(** * 2. one scanning step, exactly *)

Lemma alnum_not_nl : forall b, is_alpha_byte b || is_digit b = true -> chr_is [b] "010" = false.
Proof.
  intros b H. unfold chr_is. destruct (Byte.eqb b "010") eqn:E; [|reflexivity].
  apply Byte.byte_dec_bl in E. subst b. discriminate H.
Qed.

Lemma skip_ws_exact : forall cs b pos line,
  let '(cs', _, line') := skip_ws b cs pos line in
  line' + cnl cs' = line + cnl cs /\ match cs' with c :: _ => chr_is c "010" = false | [] => True end.
Proof.
  induction cs as [|c r IH]; intros b pos line; cbn [skip_ws]; [split; [reflexivity|exact I]|].
  pose proof (cnl_cons c r) as Hc.
  destruct b.
  - destruct (chr_is c "010") eqn:E.
    + specialize (IH false (pos + 1)%nat (line + 1)).
      destruct (skip_ws false r (pos + 1) (line + 1)) as [[cs' p'] l']. destruct IH as [IH1 IH2]. split; [lia|exact IH2].
    + specialize (IH true (pos + List.length c)%nat line).
      destruct (skip_ws true r (pos + List.length c) line) as [[cs' p'] l']. destruct IH as [IH1 IH2]. split; [lia|exact IH2].
  - destruct (chr_is c " " || chr_is c "013" || chr_is c "009") eqn:Ews.
    + assert (En : chr_is c "010" = false).
      { destruct (chr_is c "010") eqn:En; [|reflexivity]. apply chr_is_eq in En. subst c. discriminate Ews. }
      rewrite En in Hc.
      specialize (IH false (pos + 1)%nat line).
      destruct (skip_ws false r (pos + 1) line) as [[cs' p'] l']. destruct IH as [IH1 IH2]. split; [lia|exact IH2].
    + destruct (chr_is c "010") eqn:E.
      * specialize (IH false (pos + 1)%nat (line + 1)).
        destruct (skip_ws false r (pos + 1) (line + 1)) as [[cs' p'] l']. destruct IH as [IH1 IH2]. split; [lia|exact IH2].
      * destruct (chr_is c "/").
        -- destruct r as [|c2 r2]; [split; [reflexivity|exact E]|].
           destruct (chr_is c2 "/").
           ++ specialize (IH true (pos + 1)%nat line).
              destruct (skip_ws true (c2 :: r2) (pos + 1) line) as [[cs' p'] l']. destruct IH as [IH1 IH2]. split; [lia|exact IH2].
           ++ split; [reflexivity|exact E].
        -- split; [reflexivity|exact E].
Qed.

Lemma span_ident_cnl_eq : forall cs l r, span_ident cs = (l, r) -> cnl r = cnl cs.
Proof.
  induction cs as [|c cs IH]; intros l r H; cbn [span_ident] in H.
  - inversion H; reflexivity.
  - destruct c as [|b [|b2 c']]; try (inversion H; reflexivity).
    destruct (is_alpha_byte b || is_digit b) eqn:Eb; [|inversion H; reflexivity].
    destruct (span_ident cs) as [l' r'] eqn:E. inversion H; subst.
    rewrite (IH _ _ eq_refl), cnl_cons, (alnum_not_nl b Eb). lia.
Qed.

Lemma span_digit_cnl_eq : forall cs l r, span_digit_chrs cs = (l, r) -> cnl r = cnl cs.
Proof.
  induction cs as [|c cs IH]; intros l r H; cbn [span_digit_chrs] in H.
  - inversion H; reflexivity.
  - destruct c as [|b [|b2 c']]; try (inversion H; reflexivity).
    destruct (is_digit b) eqn:Eb; [|inversion H; reflexivity].
    destruct (span_digit_chrs cs) as [l' r'] eqn:E. inversion H; subst.
    rewrite (IH _ _ eq_refl), cnl_cons, (alnum_not_nl b) by (rewrite Eb; apply orb_true_r). lia.
Qed.

Lemma number_tail_cnl_eq : forall cs l r, number_tail cs = (l, r) -> cnl r = cnl cs.
Proof.
  intros cs l r H. unfold number_tail in H.
  destruct (span_digit_chrs cs) as [ip r1] eqn:E1. pose proof (span_digit_cnl_eq _ _ _ E1) as H1.
  destruct r1 as [|d [|n r2]]; try (inversion H; subst; exact H1).
  destruct (chr_is d "." && is_digit_chr n) eqn:Ed; [|inversion H; subst; exact H1].
  destruct (span_digit_chrs (n :: r2)) as [fp r3] eqn:E3. pose proof (span_digit_cnl_eq _ _ _ E3) as H3.
  inversion H; subst. apply andb_prop in Ed as [Ed _]. apply chr_is_eq in Ed. subst d.
  assert (Hd : chr_is ["."%byte] "010" = false) by reflexivity.
  rewrite H3, <- H1, (cnl_cons ["."%byte]), Hd. lia.
Qed.

Lemma match_chr_cnl_eq : forall cs b ok r,
  Byte.eqb b "010" = false -> match_chr cs b = (ok, r) -> cnl r = cnl cs.
Proof.
  intros [|c cs] b ok r Hb H; cbn in H; [inversion H; reflexivity|].
  destruct (chr_is c b) eqn:E; inversion H; subst; [|reflexivity].
  apply chr_is_eq in E. subst c. rewrite cnl_cons. cbn [chr_is]. rewrite Hb. lia.
Qed.

(* the deficit of a step that consumed the characters m and produced t *)
Definition sw (t : token) (m : list chr) : N := if swallow_msg t && last_nl m then 1 else 0.

(* a string body: the token carries the final line; the line grew by exactly the newline characters consumed,
   except for one when the token is a swallowing error *)
Definition str_exact (line : N) (cs : list chr) (t : token) (st' : sstate) : Prop :=
  exists m, cs = m ++ s_rest st' /\ tline t = s_line st' /\ s_line st' + sw t m = line + cnl m /\
            (swallow_msg t = true -> m <> []).

Lemma swallow_msg_str : forall line l, swallow_msg (mkToken TStr line l) = false.
Proof. reflexivity. Qed.
Lemma swallow_msg_interp : forall line l, swallow_msg (mkToken TInterpolation line l) = false.
Proof. reflexivity. Qed.

Ltac str_leaf m0 :=
  exists m0; cbn [s_rest s_line tline error_token app];
  split; [reflexivity|]; split; [reflexivity|]; split;
  [unfold sw; cbn [last_nl]; rewrite ?cnl_cons, ?cnl_nil; try reflexivity | intros _; discriminate].

Lemma string_loop_exact : forall cs skip buf err pos line parens,
  let '(t, st') := string_loop cs skip buf err pos line parens in str_exact line cs t st'.
Proof.
  induction cs as [|c r IH]; intros skip buf err pos line parens; cbn [string_loop].
  - exists []. cbn. repeat split; try reflexivity. intros Q; discriminate Q.
  - (* what a recursive call on r gives for c :: r, when c adds `dl` to the line *)
    assert (Hrec : forall skip' buf' err' pos' (dl : N),
              dl = nlc c ->
              let '(t, st') := string_loop r skip' buf' err' pos' (line + dl) parens in
              str_exact line (c :: r) t st').
    { intros skip' buf' err' pos' dl Hdl. specialize (IH skip' buf' err' pos' (line + dl) parens).
      destruct (string_loop r skip' buf' err' pos' (line + dl) parens) as [t st'].
      destruct IH as [m [Hm [Ht [Hl Hne]]]]. exists (c :: m).
      split; [rewrite Hm at 1; reflexivity|]. split; [exact Ht|]. split; [|intros _; discriminate].
      rewrite cnl_cons. fold (nlc c). rewrite <- Hdl.
      assert (Hsw : sw t (c :: m) = sw t m).
      { unfold sw. destruct (swallow_msg t) eqn:Es; [|reflexivity]. cbn [andb].
        rewrite last_nl_cons; [reflexivity|apply Hne; reflexivity]. }
      rewrite Hsw. lia. }
    destruct skip as [|k].
    + destruct (chr_is c """") eqn:Eq.
      { assert (En : chr_is c "010" = false) by (apply chr_is_eq in Eq; subst c; reflexivity).
        destruct err as [msg|].
        - exists [c]. cbn [s_rest s_line tline error_token app].
          split; [reflexivity|]. split; [reflexivity|]. split.
          + unfold sw. cbn [last_nl]. rewrite En, andb_false_r, cnl_cons, En. cbn. lia.
          + intros _; discriminate.
        - exists [c]. cbn [s_rest s_line tline app].
          split; [reflexivity|]. split; [reflexivity|]. split.
          + unfold sw. rewrite swallow_msg_str, cnl_cons, En. cbn. lia.
          + intros _; discriminate. }
      destruct (chr_is c "$") eqn:Ed.
      { assert (En : chr_is c "010" = false) by (apply chr_is_eq in Ed; subst c; reflexivity).
        destruct r as [|c2 r2].
        - exists [c]. cbn [s_rest s_line tline error_token app].
          split; [reflexivity|]. split; [reflexivity|]. split.
          + unfold sw. cbn [last_nl]. rewrite En, andb_false_r, cnl_cons, En. cbn. lia.
          + intros _; discriminate.
        - cbv zeta. destruct (negb (chr_is c2 "{")) eqn:Eb.
          + (* the swallowing case: c2 is consumed unseen *)
            exists [c; c2]. cbn [s_rest s_line tline error_token app].
            split; [reflexivity|]. split; [reflexivity|]. split; [|intros _; discriminate].
            unfold sw. cbn [last_nl]. rewrite !cnl_cons, En.
            replace (swallow_msg (mkToken TError line (bs "Expected '{' in string interpolation."))) with true by reflexivity.
            cbn [andb]. destruct (chr_is c2 "010"); cbn; lia.
          + assert (En2 : chr_is c2 "010" = false).
            { apply negb_false_iff in Eb. apply chr_is_eq in Eb. subst c2. reflexivity. }
            destruct (Nat.leb INTERPOLATION_DEPTH_MAX (List.length parens)).
            * exists [c; c2]. cbn [s_rest s_line tline error_token app].
              split; [reflexivity|]. split; [reflexivity|]. split; [|intros _; discriminate].
              unfold sw. cbn [last_nl]. rewrite En2, andb_false_r, !cnl_cons, En, En2. cbn. lia.
            * exists [c; c2]. cbn [s_rest s_line tline app].
              split; [reflexivity|]. split; [reflexivity|]. split; [|intros _; discriminate].
              unfold sw. rewrite swallow_msg_interp, !cnl_cons, En, En2. cbn. lia. }
      destruct (chr_is c "\") eqn:Eb.
      { assert (En : chr_is c "010" = false) by (apply chr_is_eq in Eb; subst c; reflexivity).
        assert (Hn0 : 0 = nlc c) by (unfold nlc; rewrite En; reflexivity).
        destruct r as [|c2 r2].
        - exists [c]. cbn [s_rest s_line tline error_token app].
          split; [reflexivity|]. split; [reflexivity|]. split.
          + unfold sw. cbn [last_nl]. rewrite En, andb_false_r, cnl_cons, En. cbn. lia.
          + intros _; discriminate.
        - destruct (simple_escape c2).
          { pose proof (Hrec 1%nat (b :: buf) err (pos + 1)%nat 0 Hn0) as H. rewrite N.add_0_r in H. exact H. }
          destruct (hex_escape c2) as [[n msg]|].
          { destruct (read_escaped_bytes n r2) as [[l|] k].
            - pose proof (Hrec (1 + k)%nat (rev_append l buf) err (pos + 1)%nat 0 Hn0) as H. rewrite N.add_0_r in H. exact H.
            - pose proof (Hrec (1 + k)%nat buf (Some msg) (pos + 1)%nat 0 Hn0) as H. rewrite N.add_0_r in H. exact H. }
          (* the swallowing case: c2 is consumed unseen *)
          exists [c; c2]. cbn [s_rest s_line tline error_token app].
          split; [reflexivity|]. split; [reflexivity|]. split; [|intros _; discriminate].
          unfold sw. cbn [last_nl]. rewrite !cnl_cons, En.
          replace (swallow_msg (mkToken TError line (bs "Invalid escape sequence."))) with true by reflexivity.
          cbn [andb]. destruct (chr_is c2 "010"); cbn; lia. }
      destruct (chr_is c "010") eqn:En.
      { assert (Hn1 : 1 = nlc c) by (unfold nlc; rewrite En; reflexivity).
        exact (Hrec 0%nat ("010"%byte :: buf) err (pos + 1)%nat 1 Hn1). }
      assert (Hn0 : 0 = nlc c) by (unfold nlc; rewrite En; reflexivity).
      pose proof (Hrec 0%nat (rev_append c buf) err (pos + List.length c)%nat 0 Hn0) as H. rewrite N.add_0_r in H. exact H.
    + (* a character consumed by an escape: a line break among them counts (since /repo 914ba97) *)
      pose proof (Hrec k buf err (pos + List.length c)%nat (nlc c) eq_refl) as H.
      unfold nlc in H. destruct (chr_is c "010"); [exact H|]. rewrite N.add_0_r in H. exact H.
Qed.

(* ---------- scan_token ---------- *)
Lemma identifier_type_not_error : forall lex, tkind_eqb (identifier_type lex) TError = false.
Proof.
  intros lex. unfold identifier_type.
  repeat match goal with
         | |- context [match ?x with _ => _ end] => destruct x
         end;
  try reflexivity;
  match goal with |- tkind_eqb (check_keyword ?a ?b ?c ?d) _ = _ =>
    destruct (check_keyword_cases a b c d) as [Q|Q]; rewrite Q; reflexivity end.
Qed.

Lemma sw_ident : forall lex line l, swallow_msg (mkToken (identifier_type lex) line l) = false.
Proof. intros. unfold swallow_msg. cbn [tk]. rewrite identifier_type_not_error. reflexivity. Qed.

Lemma sw_unexpected : forall line c, swallow_msg (mkToken TError line (unexpected_msg c)) = false.
Proof. intros. reflexivity. Qed.

(* a step that is not a string body: no deficit *)
Definition leaf_exact (line : N) (cs : list chr) (t : token) (st' : sstate) : Prop :=
  swallow_msg t = false /\ tline t = s_line st' /\ s_line st' + cnl (s_rest st') = line + cnl cs.

Ltac fin_leaf :=
  left; unfold leaf_exact; cbn [tline s_line s_rest fst snd];
  split; [first [reflexivity | apply sw_ident | apply sw_unexpected]|split; [reflexivity|lia]].

Lemma scan_token_cases : forall st cs start line,
  skip_ws false (s_rest st) (s_pos st) (s_line st) = (cs, start, line) ->
  leaf_exact line cs (fst (scan_token st)) (snd (scan_token st)) \/
  (exists c r, cs = c :: r /\ str_exact line r (fst (scan_token st)) (snd (scan_token st))).
Proof.
  intros [rest pos line0 parens] cs start line Hws. rewrite scan_token_eq. cbn [fst snd]. unfold scan_token_start.
  cbn [s_rest s_pos s_line s_parens] in *. rewrite Hws.
  pose proof (skip_ws_exact rest false pos line0) as Hs. rewrite Hws in Hs. destruct Hs as [_ Hs2].
  destruct cs as [|c r]; [cbn [fst snd]; left; unfold leaf_exact; cbn; repeat split; reflexivity|].
  pose proof (cnl_cons c r) as Hc. rewrite Hs2 in Hc.
  cbv beta zeta.
  set (P := fun x : token * nat * sstate =>
              leaf_exact line (c :: r) (fst (fst x)) (snd x) \/
              (exists c0 r0, c :: r = c0 :: r0 /\ str_exact line r0 (fst (fst x)) (snd x))).
  match goal with |- _ (fst (fst ?X)) _ \/ _ => change (P X) end.
  destruct (is_alpha c).
  { destruct (span_ident r) as [l r'] eqn:E. apply span_ident_cnl_eq in E. subst P; cbv beta iota; cbn [fst snd]. fin_leaf. }
  destruct (is_digit_chr c).
  { destruct (number_tail r) as [l r'] eqn:E. apply number_tail_cnl_eq in E. subst P; cbv beta iota; cbn [fst snd]. fin_leaf. }
  destruct c as [|b [|b2 c']]; try (subst P; cbv beta iota; cbn [fst snd]; fin_leaf).
  repeat match goal with
  | |- P (match scan_string ?r0 ?p ?l ?ps with _ => _ end) =>
    pose proof (string_loop_exact r0 0%nat [] None p l ps); unfold scan_string;
    destruct (string_loop r0 0 [] None p l ps) as [? ?]
  | |- P (match match_chr ?r0 ?x with _ => _ end) =>
    let E := fresh "E" in destruct (match_chr r0 x) as [? ?] eqn:E; apply match_chr_cnl_eq in E; [|reflexivity]
  | |- P (match ?x with _ => _ end) => destruct x
  end; subst P; cbv beta iota; cbn [fst snd];
  repeat match goal with x : bool |- _ => destruct x end;
  first [ right; eexists; eexists; split; [reflexivity|assumption] | fin_leaf ].
Qed.

(* one step, with the characters it consumed *)
Lemma scan_token_exact : forall st t st',
  scan_token st = (t, st') ->
  exists k, s_rest st = k ++ s_rest st' /\ s_pos st' = (s_pos st + clen k)%nat /\
            tline t = s_line st' /\ s_line st' + sw t k = s_line st + cnl k /\
            (swallow_msg t = true -> k <> []).
Proof.
  intros st t st' H.
  destruct (scan_token_spec _ _ _ H) as [start [ws m Hr Hs Hp _ _ _ _]].
  exists (ws ++ m). split; [rewrite <- app_assoc; exact Hr|]. split; [rewrite clen_app; lia|].
  destruct (skip_ws false (s_rest st) (s_pos st) (s_line st)) as [[cs start0] line] eqn:Ews.
  pose proof (skip_ws_exact (s_rest st) false (s_pos st) (s_line st)) as Hx. rewrite Ews in Hx. destruct Hx as [Hx1 Hx2].
  destruct (skip_ws_consumes _ _ _ _ _ _ _ Ews) as [ws0 [Hws0 _]].
  pose proof (scan_token_cases st cs start0 line Ews) as Hc. rewrite H in Hc. cbn [fst snd] in Hc.
  assert (Hk : cnl (s_rest st) = cnl (ws ++ m) + cnl (s_rest st')) by (rewrite Hr at 1; rewrite app_assoc, cnl_app; reflexivity).
  destruct Hc as [[Hsw [Ht Hl]]|[c [r [Ecs [m0 [Hm0 [Ht [Hl Hne]]]]]]]].
  - split; [exact Ht|]. split; [|rewrite Hsw; intros Q; discriminate Q].
    unfold sw. rewrite Hsw. cbn [andb]. lia.
  - split; [exact Ht|].
    (* ws ++ m = ws0 ++ c :: m0 *)
    assert (Ek : ws ++ m = ws0 ++ c :: m0).
    { apply (app_inv_tail (s_rest st')). rewrite <- app_assoc, <- Hr, Hws0, Ecs, Hm0, <- app_assoc. reflexivity. }
    rewrite Ek. rewrite Ek in Hk.
    assert (Hcn : chr_is c "010" = false) by (rewrite Ecs in Hx2; exact Hx2).
    rewrite cnl_app, cnl_cons, Hcn in *.
    assert (Hcs : cnl cs = cnl m0 + cnl (s_rest st')) by (rewrite Ecs, cnl_cons, Hcn, Hm0, cnl_app; lia).
    assert (Hrs : cnl (s_rest st) = cnl ws0 + cnl cs) by (rewrite Hws0, cnl_app; reflexivity).
    split; [|intros _; destruct ws0; discriminate].
    assert (Hsw : sw t (ws0 ++ c :: m0) = sw t m0).
    { unfold sw. destruct (swallow_msg t) eqn:Es; [|reflexivity]. cbn [andb].
      rewrite last_nl_app by discriminate. rewrite last_nl_cons; [reflexivity|apply Hne; reflexivity]. }
    rewrite Hsw. lia.
Qed.

(* ------------------------------------------------------------------ *)
(** * 3. the whole token list *)

Lemma scan_loop_ends_tokens : forall fuel st, map fst (scan_loop_ends fuel st) = scan_loop fuel st.
Proof.
  induction fuel as [|f IH]; intros st; [reflexivity|]. cbn [scan_loop_ends scan_loop].
  destruct (scan_token st) as [t st']. destruct (tk t); cbn [map fst]; rewrite ?IH; reflexivity.
Qed.

Theorem scan_ends_tokens : forall src, map fst (scan_ends src) = scan_all src.
Proof. intros src. apply scan_loop_ends_tokens. Qed.

Lemma swallowed_cons : forall src te l,
  swallowed src (te :: l) = (if swallowb src te then 1 else 0) + swallowed src l.
Proof. intros src te l. unfold swallowed. cbn [filter]. destruct (swallowb src te); cbn [List.length]; lia. Qed.

Lemma Forall_app_l : forall {A} (P : A -> Prop) a b, Forall P (a ++ b) -> Forall P a.
Proof. intros A P a b H. apply Forall_app in H. tauto. Qed.

(* one step from a state that sits at the end of the characters `pre` of src *)
Lemma step_exact_full : forall src st pre t st',
  nl_cleanb src = true ->
  chars_of src = pre ++ s_rest st -> s_pos st = clen pre ->
  scan_token st = (t, st') ->
  exists k, chars_of src = (pre ++ k) ++ s_rest st' /\ s_pos st' = clen (pre ++ k) /\
            tline t = s_line st' /\
            s_line st' + (if swallowb src (t, s_pos st') then 1 else 0) = s_line st + cnl k /\
            line_of_offset src (s_pos st') = 1 + cnl (pre ++ k).
Proof.
  intros src st pre t st' Hcl Hc Hp H.
  destruct (scan_token_exact _ _ _ H) as [k [Hk [Hpk [Ht [Hl Hne]]]]].
  exists k.
  assert (Hc' : chars_of src = (pre ++ k) ++ s_rest st') by (rewrite Hc, Hk, app_assoc; reflexivity).
  assert (Hp' : s_pos st' = clen (pre ++ k)) by (rewrite clen_app; lia).
  split; [exact Hc'|]. split; [exact Hp'|]. split; [exact Ht|].
  assert (Hsrc : src = List.concat (pre ++ k) ++ List.concat (s_rest st')).
  { rewrite <- (chars_of_concat_id src) at 1. rewrite Hc', concat_app. reflexivity. }
  split.
  - (* the swallow flag, read off the source *)
    assert (Hflag : (if swallowb src (t, s_pos st') then 1 else 0) = sw t k).
    { unfold swallowb, sw. cbn [fst snd]. destruct (swallow_msg t) eqn:Es; [|reflexivity]. cbn [andb].
      specialize (Hne eq_refl).
      assert (Hsh : Forall chr_shaped k).
      { pose proof (chars_of_shaped src) as Sh. rewrite Hc' in Sh. apply Forall_app_l in Sh.
        apply Forall_app in Sh. tauto. }
      pose proof (last_byte_nl k (List.concat pre) (List.concat (s_rest st')) Hsh Hne) as Hb.
      replace (List.concat pre ++ List.concat k ++ List.concat (s_rest st')) with src in Hb
        by (rewrite Hsrc at 1; rewrite concat_app, <- app_assoc; reflexivity).
      replace (List.length (List.concat pre) + clen k)%nat with (s_pos st') in Hb
        by (rewrite Hpk, Hp; reflexivity).
      rewrite Hb. reflexivity. }
    rewrite Hflag. exact Hl.
  - unfold line_of_offset. rewrite Hp'. rewrite Hsrc at 1.
    rewrite <- concat_app, firstn_clen_concat.
    rewrite <- cnl_count_clean; [reflexivity|].
    pose proof (nl_clean_chars src Hcl) as Cl. rewrite Hc' in Cl. apply Forall_app_l in Cl. exact Cl.
Qed.

Lemma scan_loop_ends_exact : forall src, nl_cleanb src = true ->
  forall fuel st pre D,
  chars_of src = pre ++ s_rest st -> s_pos st = clen pre -> s_line st + D = 1 + cnl pre ->
  forall l1 t e l2, scan_loop_ends fuel st = l1 ++ (t, e) :: l2 ->
    tline t + D + swallowed src (l1 ++ [(t, e)]) = line_of_offset src e.
Proof.
  intros src Hcl. induction fuel as [|f IH]; intros st pre D Hc Hp HD l1 t e l2 H.
  - destruct l1; discriminate H.
  - cbn [scan_loop_ends] in H. destruct (scan_token st) as [t0 st'] eqn:E.
    destruct (step_exact_full src st pre t0 st' Hcl Hc Hp E) as [k [Hc' [Hp' [Ht [Hl Hlo]]]]].
    rewrite cnl_app in Hlo.
    assert (Hhead : forall rest, l1 ++ (t, e) :: l2 = (t0, s_pos st') :: rest ->
              (l1 = [] /\ t = t0 /\ e = s_pos st') \/ (exists l1', l1 = (t0, s_pos st') :: l1' /\ rest = l1' ++ (t, e) :: l2)).
    { intros rest Q. destruct l1 as [|x l1']; cbn in Q; inversion Q; subst; [left; auto|right; eauto]. }
    assert (Hfirst : l1 = [] -> t = t0 -> e = s_pos st' ->
              tline t + D + swallowed src (l1 ++ [(t, e)]) = line_of_offset src e).
    { intros -> -> ->. cbn [app]. rewrite swallowed_cons. unfold swallowed at 1. cbn [filter List.length]. lia. }
    destruct (tk t0) eqn:Ek;
      try (destruct (Hhead _ (eq_sym H)) as [[Q1 [Q2 Q3]]|[l1' [Q1 Q2]]];
           [exact (Hfirst Q1 Q2 Q3)|
            subst l1; cbn [app]; rewrite swallowed_cons;
            specialize (IH st' (pre ++ k) (D + (if swallowb src (t0, s_pos st') then 1 else 0)) Hc' Hp');
            rewrite cnl_app in IH;
            assert (HD' : s_line st' + (D + (if swallowb src (t0, s_pos st') then 1 else 0)) = 1 + (cnl pre + cnl k)) by lia;
            specialize (IH HD' l1' t e l2 Q2); lia]).
    (* Eof: the list ends here *)
    destruct (Hhead _ (eq_sym H)) as [[Q1 [Q2 Q3]]|[l1' [Q1 Q2]]]; [exact (Hfirst Q1 Q2 Q3)|].
    destruct l1'; discriminate Q2.
Qed.

(** THE LINE THEOREM.  e = `current` after the token was made. *)
Theorem token_line_exact : forall src, nl_cleanb src = true ->
  forall l1 t e l2, scan_ends src = l1 ++ (t, e) :: l2 ->
    tline t + swallowed src (l1 ++ [(t, e)]) = line_of_offset src e.
Proof.
  intros src Hcl l1 t e l2 H.
  pose proof (scan_loop_ends_exact src Hcl (List.length src + 2) (init_sstate src) [] 0 eq_refl eq_refl eq_refl
                l1 t e l2 H) as Q.
  lia.
Qed.
Print Assumptions token_line_exact.

(* ------------------------------------------------------------------ *)
(** * 4. the side condition holds for every valid UTF-8 string (every Rust `String`) *)

Lemma nl_cleanb_skip : forall p rest, forallb (fun b => negb (is_nl b)) p = true ->
  nl_cleanb (p ++ rest) = nl_cleanb rest.
Proof.
  induction p as [|b p IH]; intros rest H; [reflexivity|]. cbn in H. apply andb_prop in H as [Hb Hp].
  cbn [app nl_cleanb]. apply negb_true_iff in Hb. rewrite Hb. cbn [andb]. apply IH; exact Hp.
Qed.

Lemma is_char_nl : forall b t, is_char (b :: t) -> is_nl b = true -> t = [].
Proof.
  intros b t Hc Hb. unfold is_nl in Hb. apply Byte.byte_dec_bl in Hb. subst b.
  destruct (is_char_decode _ Hc) as [cp [Hd _]].
  assert (Hn : next_char ("010"%byte :: t) = Some (bN "010"%byte, t)) by (apply ascii_next_char; reflexivity).
  rewrite (decode_step _ _ _ Hn) in Hd.
  destruct (decode t) as [cps|] eqn:Et; [|discriminate Hd]. cbn in Hd. inversion Hd; subst.
  apply encode_decode in Et. cbn in Et. inversion Et; reflexivity.
Qed.

Theorem valid_nl_clean : forall src, valid_utf8 src = true -> nl_cleanb src = true.
Proof.
  intros src V. apply valid_iff in V. destruct V as [cs [-> F]].
  induction cs as [|c cs IH]; [reflexivity|]. inversion F as [|? ? Hc Fcs]; subst.
  specialize (IH Fcs). cbn [List.concat].
  assert (Hh : head_ok (List.concat cs) = true).
  { apply concat_head_ok. eapply Forall_impl; [|exact Fcs]. apply is_char_shaped. }
  destruct (is_char_shaped _ Hc) as [l [t [-> [Hl Ht]]]].
  destruct (is_nl l) eqn:En.
  - rewrite (is_char_nl l t Hc En). cbn [app nl_cleanb]. rewrite En, Hh, IH. reflexivity.
  - rewrite nl_cleanb_skip; [exact IH|]. cbn [forallb]. rewrite En. cbn [negb andb].
    apply forallb_forall. intros x Hx. rewrite forallb_forall in Ht. rewrite (cont_not_nl x (Ht x Hx)). reflexivity.
Qed.
Print Assumptions valid_nl_clean.

(* ------------------------------------------------------------------ *)
(** * 5. corollaries *)

Lemma swallowed_app : forall src a b, swallowed src (a ++ b) = swallowed src a + swallowed src b.
Proof. intros. unfold swallowed. rewrite filter_app, app_length. lia. Qed.

Lemma swallowed_none : forall src l, Forall (fun te => swallow_msg (fst te) = false) l -> swallowed src l = 0.
Proof.
  intros src l F. induction F as [|te l H F IH]; [reflexivity|].
  rewrite swallowed_cons, IH. unfold swallowb. rewrite H. reflexivity.
Qed.

Lemma not_error_not_swallow : forall t, tk t <> TError -> swallow_msg t = false.
Proof.
  intros t H. unfold swallow_msg. destruct (tk t); try reflexivity. contradiction H; reflexivity.
Qed.

(* (a) a token with no swallowing error token up to and including itself *)
Theorem token_line_exact_clean : forall src, nl_cleanb src = true ->
  forall l1 t e l2, scan_ends src = l1 ++ (t, e) :: l2 ->
    swallowed src (l1 ++ [(t, e)]) = 0 -> tline t = line_of_offset src e.
Proof. intros src Hcl l1 t e l2 H Hz. pose proof (token_line_exact src Hcl l1 t e l2 H). lia. Qed.

(* (b) every token that has no Error token before it - in particular the FIRST Error token, the one the compiler
   reports: exact unless it is itself a swallowing error, which carries the line of its `\` / `$` *)
Theorem token_line_exact_first_error : forall src, nl_cleanb src = true ->
  forall l1 t e l2, scan_ends src = l1 ++ (t, e) :: l2 ->
    Forall (fun te => tk (fst te) <> TError) l1 ->
    tline t + (if swallowb src (t, e) then 1 else 0) = line_of_offset src e /\
    (tk t <> TError -> tline t = line_of_offset src e).
Proof.
  intros src Hcl l1 t e l2 H F.
  pose proof (token_line_exact src Hcl l1 t e l2 H) as Q.
  rewrite swallowed_app, (swallowed_none src l1) in Q
    by (eapply Forall_impl; [|exact F]; intros te Hte; apply not_error_not_swallow; exact Hte).
  rewrite swallowed_cons in Q. unfold swallowed in Q at 1. cbn [filter List.length] in Q.
  split; [lia|]. intros Hk. unfold swallowb in Q. cbn [fst] in Q. rewrite (not_error_not_swallow t Hk) in Q.
  cbn [andb] in Q. lia.
Qed.

(* (c) sources whose token list holds no swallowing error message (decidable on the tokens): every line exact *)
Definition no_swallow_tokens (src : list byte) : bool := forallb (fun t => negb (swallow_msg t)) (scan_all src).

Lemma no_swallow_tokens_none : forall src, no_swallow_tokens src = true ->
  forall l, incl l (scan_ends src) -> swallowed src l = 0.
Proof.
  intros src H l Hi. apply swallowed_none. apply Forall_forall. intros te Hin.
  unfold no_swallow_tokens in H. rewrite forallb_forall in H.
  apply negb_true_iff. apply H. rewrite <- scan_ends_tokens. apply in_map. apply Hi. exact Hin.
Qed.

Theorem token_line_exact_all : forall src, nl_cleanb src = true -> no_swallow_tokens src = true ->
  forall t e, In (t, e) (scan_ends src) -> tline t = line_of_offset src e.
Proof.
  intros src Hcl Hn t e Hin. apply in_split in Hin. destruct Hin as [l1 [l2 H]].
  apply (token_line_exact_clean src Hcl l1 t e l2 H).
  apply (no_swallow_tokens_none src Hn). intros x Hx. rewrite H.
  apply in_app_or in Hx. apply in_or_app. destruct Hx as [Hx|[<-|[]]]; [left; exact Hx|right; left; reflexivity].
Qed.

(* (d) on the plain token list: every token's line is the line of an offset of the source, up to the number of
   swallowing error tokens of the whole scan *)
Theorem token_line_exact_in : forall src, nl_cleanb src = true ->
  forall t, In t (scan_all src) ->
  exists e, In (t, e) (scan_ends src) /\
            tline t <= line_of_offset src e <= tline t + swallowed src (scan_ends src) /\
            (no_swallow_tokens src = true -> tline t = line_of_offset src e).
Proof.
  intros src Hcl t Hin. rewrite <- scan_ends_tokens in Hin. apply in_map_iff in Hin.
  destruct Hin as [[t' e] [Ht Hin]]. cbn in Ht. subst t'. exists e. split; [exact Hin|].
  destruct (in_split _ _ Hin) as [l1 [l2 H]].
  pose proof (token_line_exact src Hcl l1 t e l2 H) as Q.
  split.
  - rewrite H. replace (l1 ++ (t, e) :: l2) with ((l1 ++ [(t, e)]) ++ l2) by (rewrite <- app_assoc; reflexivity).
    rewrite swallowed_app. lia.
  - intros Hn. apply (token_line_exact_all src Hcl Hn t e Hin).
Qed.
Print Assumptions token_line_exact_first_error.
Print Assumptions token_line_exact_all.
Print Assumptions token_line_exact_in.

(* (e) through the parser (ParserInv): the line of the first compile error is the line of a token of the source, hence
   the line of the offset where that token ends - exactly, when the scan holds no swallowing error message *)
Theorem compile_error_line_exact : forall src l a m,
  nl_cleanb src = true ->
  parse_source src = PErr l a m ->
  exists t e, In (t, e) (scan_ends src) /\ l = tline t /\
              l <= line_of_offset src e <= l + swallowed src (scan_ends src) /\
              (no_swallow_tokens src = true -> l = line_of_offset src e).
Proof.
  intros src l a m Hcl H.
  destruct (ParserInv.parse_error_line_from_token src l a m H) as [t [Hin ->]].
  destruct (token_line_exact_in src Hcl t Hin) as [e [He [Hb Hx]]].
  exists t, e. split; [exact He|]. split; [reflexivity|]. split; [exact Hb|exact Hx].
Qed.
Print Assumptions compile_error_line_exact.

(* the same for a Rust String *)
Corollary compile_error_line_exact_utf8 : forall src l a m,
  valid_utf8 src = true -> no_swallow_tokens src = true ->
  parse_source src = PErr l a m ->
  exists t e, In (t, e) (scan_ends src) /\ l = tline t /\ l = line_of_offset src e.
Proof.
  intros src l a m V Hn H.
  destruct (compile_error_line_exact src l a m (valid_nl_clean src V) H) as [t [e [Hin [Hl [_ Hx]]]]].
  exists t, e. split; [exact Hin|]. split; [exact Hl|exact (Hx Hn)].
Qed.
Print Assumptions compile_error_line_exact_utf8.

(* (f) the own clauses of the brief, made explicit.
   Eof: the synthetic Eof token ends at the end of the source, so it carries the LAST line (minus the deficit). *)
Lemma scan_loop_ends_eof : forall src fuel st pre,
  chars_of src = pre ++ s_rest st -> s_pos st = clen pre ->
  forall t e, In (t, e) (scan_loop_ends fuel st) -> tk t = TEof -> e = List.length src.
Proof.
  intros src. induction fuel as [|f IH]; intros st pre Hc Hp t e Hin Hk; [contradiction|].
  cbn [scan_loop_ends] in Hin. destruct (scan_token st) as [t0 st'] eqn:E.
  destruct (scan_token_exact _ _ _ E) as [k [Hk' [Hpk _]]].
  assert (Hc' : chars_of src = (pre ++ k) ++ s_rest st') by (rewrite Hc, Hk', app_assoc; reflexivity).
  assert (Hp' : s_pos st' = clen (pre ++ k)) by (rewrite clen_app; lia).
  assert (Hend : tk t0 = TEof -> s_pos st' = List.length src).
  { intros Q. pose proof (scan_progress _ _ _ E) as [_ [_ [_ [_ Hr]]]]. specialize (Hr Q).
    rewrite Hr, app_nil_r in Hc'. rewrite Hp'. unfold clen. rewrite <- Hc', chars_of_concat_id. reflexivity. }
  destruct (tk t0) eqn:Ek;
    try (destruct Hin as [Q|Hin]; [inversion Q; subst; rewrite Ek in Hk; discriminate Hk|
                                   exact (IH st' (pre ++ k) Hc' Hp' t e Hin Hk)]).
  destruct Hin as [Q|[]]. inversion Q; subst. apply Hend. reflexivity.
Qed.

Theorem eof_line_exact : forall src, nl_cleanb src = true ->
  forall t e, In (t, e) (scan_ends src) -> tk t = TEof ->
    e = List.length src /\
    tline t + swallowed src (scan_ends src) = 1 + N.of_nat (count_nl src).
Proof.
  intros src Hcl t e Hin Hk.
  assert (He : e = List.length src)
    by (exact (scan_loop_ends_eof src _ (init_sstate src) [] eq_refl eq_refl t e Hin Hk)).
  split; [exact He|].
  (* the Eof token is the last element *)
  destruct (in_split _ _ Hin) as [l1 [l2 H]].
  assert (Hl2 : l2 = []).
  { pose proof (scan_all_spec src) as [l [t' [Hs [Ht' [Fl _]]]]].
    rewrite <- scan_ends_tokens, H, map_app in Hs. cbn [map fst] in Hs.
    destruct l2 as [|x l2']; [reflexivity|]. exfalso.
    (* t would be a non-last element of l ++ [t'], hence not Eof *)
    assert (Hlen : List.length (map fst l1 ++ t :: map fst (x :: l2')) = List.length (l ++ [t'])) by (rewrite Hs; reflexivity).
    assert (Hnth : nth_error (l ++ [t']) (List.length (map fst l1)) = Some t) by (rewrite <- Hs; apply nth_error_app_len).
    rewrite !app_length in Hlen. cbn [List.length map] in Hlen.
    rewrite nth_error_app1 in Hnth by lia.
    apply nth_error_In in Hnth. rewrite Forall_forall in Fl. exact (Fl t Hnth Hk). }
  subst l2. pose proof (token_line_exact src Hcl l1 t e [] H) as Q. rewrite H.
  unfold line_of_offset in Q. rewrite He, firstn_all in Q. rewrite He. exact Q.
Qed.
Print Assumptions eof_line_exact.

(* a swallowing Error token itself: it carries the line ON WHICH THE SWALLOWED BREAK STANDS (the line of its `\` / `$`
   when they are adjacent) - one less than the line where its text ends *)
Lemma line_of_offset_after_nl : forall src e, byte_before_is_nl src e = true ->
  line_of_offset src e = line_of_offset src (e - 1) + 1.
Proof.
  intros src [|p] H; [discriminate H|]. cbn [byte_before_is_nl] in H.
  destruct (nth_error src p) as [b|] eqn:En; [|discriminate H].
  replace (S p - 1)%nat with p by lia. unfold line_of_offset.
  destruct (nth_error_split _ _ En) as [a [r [Hs Hl]]]. subst src p.
  replace (S (List.length a)) with (List.length (a ++ [b])) by (rewrite app_length; cbn; lia).
  replace (a ++ b :: r) with ((a ++ [b]) ++ r) by (rewrite <- app_assoc; reflexivity).
  rewrite firstn_app, Nat.sub_diag, firstn_all. cbn [firstn]. rewrite app_nil_r.
  rewrite <- app_assoc. cbn [app]. rewrite firstn_app, Nat.sub_diag, firstn_all. cbn [firstn]. rewrite app_nil_r.
  rewrite count_nl_app. unfold count_nl at 2. cbn [filter]. rewrite H. cbn [List.length]. lia.
Qed.

Theorem swallowing_error_line : forall src, nl_cleanb src = true ->
  forall l1 t e l2, scan_ends src = l1 ++ (t, e) :: l2 ->
    Forall (fun te => tk (fst te) <> TError) l1 -> swallowb src (t, e) = true ->
    tline t = line_of_offset src (e - 1).
Proof.
  intros src Hcl l1 t e l2 H F Hs.
  destruct (token_line_exact_first_error src Hcl l1 t e l2 H F) as [Q _]. rewrite Hs in Q.
  unfold swallowb in Hs. cbn [fst snd] in Hs. apply andb_prop in Hs as [_ Hb].
  rewrite (line_of_offset_after_nl src e Hb) in Q. lia.
Qed.
Print Assumptions swallowing_error_line.

(* (e') UNCONDITIONALLY exact for the FIRST compile error: the parser stops at the first Error token (ParserInv,
   instance C), so the token whose line is reported has no Error token before it - its line is the line of the offset
   where it ends; the one exception is a swallowing Error token, reported on the line of the swallowed break *)
Theorem compile_error_line_exact_first : forall src l a m,
  nl_cleanb src = true ->
  parse_source src = PErr l a m ->
  exists l1 t e l2, scan_ends src = l1 ++ (t, e) :: l2 /\ Forall (fun te => tk (fst te) <> TError) l1 /\
    l = tline t /\
    l + (if swallowb src (t, e) then 1 else 0) = line_of_offset src e /\
    (tk t <> TError -> l = line_of_offset src e) /\
    (swallowb src (t, e) = true -> l = line_of_offset src (e - 1)).
Proof.
  intros src l a m Hcl H.
  destruct (ParserInv.parse_error_before_scan_error src l a m H) as [t [[pre [post [E F]]] Hl]].
  rewrite <- scan_ends_tokens in E. apply map_eq_app in E. destruct E as [l1 [r [E [E1 E2]]]].
  apply map_eq_cons in E2. destruct E2 as [[t' e] [l2 [Er [Et E3]]]]. cbn in Et. subst t' r.
  assert (F1 : Forall (fun te => tk (fst te) <> TError) l1).
  { rewrite <- E1 in F. rewrite Forall_map in F. exact F. }
  exists l1, t, e, l2. split; [exact E|]. split; [exact F1|]. split; [symmetry; exact Hl|].
  destruct (token_line_exact_first_error src Hcl l1 t e l2 E F1) as [Q1 Q2]. rewrite <- Hl.
  split; [exact Q1|]. split; [exact Q2|].
  intros Hs. exact (swallowing_error_line src Hcl l1 t e l2 E F1 Hs).
Qed.
Print Assumptions compile_error_line_exact_first.

Corollary compile_error_line_exact_first_utf8 : forall src l a m,
  valid_utf8 src = true ->
  parse_source src = PErr l a m ->
  exists t e, In (t, e) (scan_ends src) /\ l = tline t /\
    (if swallowb src (t, e) then l = line_of_offset src (e - 1) else l = line_of_offset src e).
Proof.
  intros src l a m V H.
  destruct (compile_error_line_exact_first src l a m (valid_nl_clean src V) H)
    as [l1 [t [e [l2 [E [_ [Hl [Q [_ Hs]]]]]]]]].
  exists t, e. split; [rewrite E; apply in_or_app; right; left; reflexivity|]. split; [exact Hl|].
  destruct (swallowb src (t, e)); [apply Hs; reflexivity|lia].
Qed.
Print Assumptions compile_error_line_exact_first_utf8.

(* ------------------------------------------------------------------ *)
(** * 6. witnesses *)
Definition lf : string := String (Ascii.ascii_of_nat 10) "".
Local Open Scope string_scope.

(* every token of a source satisfies the plain equation / the equation with the deficit *)
Definition all_exactb (src : list byte) : bool :=
  forallb (fun te => N.eqb (tline (fst te)) (line_of_offset src (snd te))) (scan_ends src).

(* the witness of the repaired defect: a line break among the hex digits of an escape - now exact on every token
   (the Error token is on line 2, where the literal ends; `var = 2;` is on line 3) *)
Example line_exact_escape_fixed :
  let src := bs ("var s = ""\x" ++ lf ++ "1"";" ++ lf ++ "var = 2;") in
  valid_utf8 src = true /\ nl_cleanb src = true /\ no_swallow_tokens src = true /\ all_exactb src = true /\
  map (fun te => (tkind_index (tk (fst te)), N.to_nat (tline (fst te)), snd te)) (scan_ends src) =
    [(68, 1, 3); (43, 1, 5); (21, 1, 7); (70, 2, 14); (14, 2, 15); (68, 3, 19); (21, 3, 21); (46, 3, 23); (14, 3, 24);
     (71, 3, 24)]%nat /\
  parse_source src = PErr 2 AtNothing "Invalid hexadecimal sequence.".
Proof. vm_compute. repeat split; reflexivity. Qed.

(* the hypotheses of token_line_exact are satisfiable with a non-zero deficit, and the equation is tight *)
Example line_exact_deficit_example :
  let src := bs ("var s = ""\" ++ lf ++ """;"";" ++ lf ++ "var = 2;") in
  nl_cleanb src = true /\ swallowed src (scan_ends src) = 1%N /\
  forallb (fun te => N.eqb (tline (fst te) + 1) (line_of_offset src (snd te))) (skipn 3 (scan_ends src)) = true.
Proof. vm_compute. repeat split; reflexivity. Qed.

(* REFUTED: "every non-Error token carries the line of the offset where it ends" - false of the faithful model and of
   scanner.rs (2026-09-26, 914ba97): the character after `\` (not an escape letter) or after `$` (not `{`) is consumed
   without being looked at; when it is a raw line break, every later token is one line short.
   Witness (quote = the double quote character): var s = quote \ LF quote ; quote ; LF var = 2;
   real binary: [line 1] Error: Invalid escape sequence. and then [line 2] Error at '=': Expected variable name.
   although that = stands on line 3. *)
Theorem line_exact_refuted_escape :
  exists src l1 t e l2, valid_utf8 src = true /\ scan_ends src = (l1 ++ (t, e) :: l2)%list /\
    tk t = TEqual /\ tline t = 2%N /\ line_of_offset src e = 3%N.
Proof.
  pose (src := bs ("var s = ""\" ++ lf ++ """;"";" ++ lf ++ "var = 2;")).
  exists src, (firstn 7 (scan_ends src)), (fst (nth 7 (scan_ends src) (mkToken TEof 0 [], O))),
         (snd (nth 7 (scan_ends src) (mkToken TEof 0 [], O))), (skipn 8 (scan_ends src)).
  vm_compute. repeat split; reflexivity.
Qed.

Theorem line_exact_refuted_dollar :
  exists src l1 t e l2, valid_utf8 src = true /\ scan_ends src = (l1 ++ (t, e) :: l2)%list /\
    tk t = TEqual /\ tline t = 2%N /\ line_of_offset src e = 3%N.
Proof.
  pose (src := bs ("var s = ""$" ++ lf ++ """;"";" ++ lf ++ "var = 2;")).
  exists src, (firstn 7 (scan_ends src)), (fst (nth 7 (scan_ends src) (mkToken TEof 0 [], O))),
         (snd (nth 7 (scan_ends src) (mkToken TEof 0 [], O))), (skipn 8 (scan_ends src)).
  vm_compute. repeat split; reflexivity.
Qed.

(* the side condition nl_cleanb matters only for byte strings that are not UTF-8 (not reachable from Rust): LF followed
   by a continuation byte is ONE character of chars_of and is not counted *)
Example nl_clean_needed :
  let src := [x0a; x80; x61] in
  valid_utf8 src = false /\ nl_cleanb src = false /\
  map (fun te => (tline (fst te), line_of_offset src (snd te))) (scan_ends src) = [(1, 2); (1, 2); (1, 2)]%N.
Proof. vm_compute. repeat split; reflexivity. Qed.
Print Assumptions token_line_exact_clean.
Print Assumptions line_exact_refuted_escape.
Print Assumptions line_exact_refuted_dollar.
