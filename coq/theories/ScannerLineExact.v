(* ScannerLineExact: the EXACT line of every token (proofs; the few definitions are specification-side).

   Since /repo 914ba97 (line breaks among the characters of a \x / \u / \U escape) and e81033c (the character consumed
   right after a lone `\` or after a `$` not followed by `{`) EVERY line break the scanner consumes is counted, so the
   line counter is a function of the offset:

       scanner_line_exact   every reachable scanner state:  s_line st = 1 + (newline bytes of src before s_pos st)

   and so is the line of every token (token_line_exact): for every source `src` (no LF directly followed by a UTF-8
   continuation byte - true of every valid UTF-8 string, i.e. of every Rust `String`: valid_nl_clean), for every token t
   of `scan_all src`, with e = the offset `current` right after t was produced (the END of its lexeme / of the text
   the error token consumed):

           tline t = 1 + (number of newline bytes of src before `token_offset src (t, e)`)

   where token_offset is e for EVERY token - lexemes, strings, interpolation parts, Eof (e = length src), Error tokens -
   with one exception: the two Error tokens that scanner.rs builds right after consuming one character unseen
   ("Invalid escape sequence." after `\`, "Expected '{' in string interpolation." after `$`) when that character is a
   raw line break: there the token is built BEFORE the break is counted (e81033c keeps the message on the line of its
   `\` / `$`), so its offset is e - 1, the offset OF that line break (`late_breakb`).  No deficit term is left: the old
   form (tline t + swallowing error tokens so far = ...) was needed while those two exits did not count the break
   (finding literal_error_swallows_newline, fixed by e81033c; witnesses line_exact_backslash_fixed /
   line_exact_dollar_fixed below now evaluate to the right lines).
   Through the parser (ParserInv): the line of the first compile error is the line of such an offset
   (compile_error_line_exact). *)
From Coq Require Import Strings.Byte Strings.String.
From Coq Require Import List NArith Bool Arith Lia.
From YV Require Import Utf8 Utf8Proofs NumText Scanner ScannerProofs Parser ParseRun Lines LinesProofs.
From YV Require TotalityProofs ParserInv.
Import ListNotations.
Local Open Scope N_scope.
Local Open Scope list_scope.

(* ------------------------------------------------------------------ *)
(** * 0. specification-side definitions *)

(* tokens with the offset `current` after each of them (same loop as scan_loop) *)
Fixpoint scan_loop_ends (fuel : nat) (st : sstate) : list (token * nat) :=
  match fuel with
  | O => []
  | S f =>
    let '(t, st') := scan_token st in
    match tk t with
    | TEof => [(t, s_pos st')]
    | _ => (t, s_pos st') :: scan_loop_ends f st'
    end
  end.

Definition scan_ends (src : list byte) : list (token * nat) :=
  scan_loop_ends (List.length src + 2) (init_sstate src).

(* the line a position is on: 1 + newline bytes before it *)
Definition line_of_offset (src : list byte) (e : nat) : N := 1 + N.of_nat (count_nl (firstn e src)).

Definition msg_invalid_escape : list byte := bs "Invalid escape sequence.".
Definition msg_expected_brace : list byte := bs "Expected '{' in string interpolation.".

(* an Error token made right after blindly consuming one character *)
Definition blind_msg (t : token) : bool :=
  tkind_eqb (tk t) TError &&
  (bytes_eqb (tsource t) msg_invalid_escape || bytes_eqb (tsource t) msg_expected_brace).

Definition byte_before_is_nl (src : list byte) (e : nat) : bool :=
  match e with
  | O => false
  | S p => match nth_error src p with Some b => is_nl b | None => false end
  end.

(* ... and that character (the last byte before `e`) is a line break: it is counted AFTER the token was built *)
Definition late_breakb (src : list byte) (te : token * nat) : bool :=
  blind_msg (fst te) && byte_before_is_nl src (snd te).

(* the offset whose line a token carries: where it ends - for a late_breakb token, the line break it ends with *)
Definition token_offset (src : list byte) (te : token * nat) : nat :=
  if late_breakb src te then (snd te - 1)%nat else snd te.

(* no LF is directly followed by a continuation byte (0x80..0xBF) - every valid UTF-8 string: valid_nl_clean *)
Fixpoint nl_cleanb (l : list byte) : bool :=
  match l with
  | [] => true
  | b :: r => (if is_nl b then head_ok r else true) && nl_cleanb r
  end.

(* ------------------------------------------------------------------ *)
(** * 1. characters and newline bytes *)

Definition nlc (c : chr) : N := if chr_is c "010" then 1 else 0.

Lemma cnl_app : forall a b, cnl (a ++ b) = cnl a + cnl b.
Proof. intros a b. unfold cnl. rewrite filter_app, app_length. lia. Qed.

Fixpoint last_nl (m : list chr) : bool :=
  match m with
  | [] => false
  | c :: r => match r with [] => chr_is c "010" | _ => last_nl r end
  end.

Lemma last_nl_cons : forall c m, m <> [] -> last_nl (c :: m) = last_nl m.
Proof. intros c [|x m] H; [contradiction|reflexivity]. Qed.

Lemma last_nl_app : forall a m, m <> [] -> last_nl (a ++ m) = last_nl m.
Proof.
  induction a as [|c a IH]; intros m H; [reflexivity|].
  cbn [app]. rewrite last_nl_cons; [apply IH; exact H|]. destruct a; [exact H|discriminate].
Qed.

(* every character of chars_of: one byte followed by continuation bytes only *)
Definition chr_shaped (c : chr) : Prop := exists b t, c = b :: t /\ forallb is_cont t = true.

Lemma chars_of_shaped : forall l, Forall chr_shaped (chars_of l).
Proof.
  induction l as [|b r IH]; [constructor|]. rewrite chars_of_cons.
  destruct (chars_of r) as [|c cs] eqn:E.
  - constructor; [exists b, []; split; reflexivity|constructor].
  - inversion IH as [|? ? [x [t [Hc Ht]]] Hcs]; subst.
    destruct (starts_with_cont (x :: t)) eqn:Es.
    + constructor; [|exact Hcs]. exists b, (x :: t). split; [reflexivity|].
      cbn [forallb]. cbn in Es. rewrite Es, Ht. reflexivity.
    + constructor; [exists b, []; split; reflexivity|]. constructor; [exists x, t; split; [reflexivity|exact Ht]|exact Hcs].
Qed.

Lemma cont_not_nl : forall b, is_cont b = true -> is_nl b = false.
Proof.
  intros b H. unfold is_nl. destruct (Byte.eqb b "010") eqn:E; [|reflexivity].
  apply Byte.byte_dec_bl in E. subst b. discriminate H.
Qed.

Lemma count_nl_conts : forall t, forallb is_cont t = true -> count_nl t = 0%nat.
Proof.
  induction t as [|x t IH]; intros H; [reflexivity|]. cbn in H. apply andb_prop in H as [Hx Ht].
  unfold count_nl. cbn [filter]. rewrite (cont_not_nl x Hx). apply IH; exact Ht.
Qed.

(* the characters of a string in which no LF is followed by a continuation byte: a character holds a newline byte
   iff it IS the newline character *)
Definition chr_clean (c : chr) : Prop := N.of_nat (count_nl c) = nlc c.

Lemma nl_clean_chars : forall l, nl_cleanb l = true -> Forall chr_clean (chars_of l).
Proof.
  induction l as [|b r IH]; intros H; [constructor|]. cbn [nl_cleanb] in H. apply andb_prop in H as [Hb Hr].
  specialize (IH Hr). rewrite chars_of_cons.
  assert (Hone : chr_clean [b]).
  { unfold chr_clean, nlc, count_nl, chr_is. cbn [filter]. unfold is_nl. destruct (Byte.eqb b "010"); reflexivity. }
  destruct (chars_of r) as [|c cs] eqn:E.
  - constructor; [exact Hone|constructor].
  - destruct (starts_with_cont c) eqn:Es.
    + inversion IH as [|? ? Hc Hcs]; subst. constructor; [|exact Hcs].
      pose proof (chars_of_shaped r) as Sh. rewrite E in Sh. inversion Sh as [|? ? [x [t [Hx Ht]]] _]; subst.
      cbn in Es.
      (* b is not LF: the byte after it is a continuation byte *)
      assert (Hnb : is_nl b = false).
      { destruct (is_nl b) eqn:Enb; [|reflexivity]. exfalso.
        destruct r as [|y r']; [discriminate E|].
        destruct (chars_of_head y r') as [t' [cs' E']]. rewrite E' in E. inversion E; subst.
        cbn in Hb. rewrite Es in Hb. discriminate Hb. }
      unfold chr_clean, nlc. change (b :: x :: t) with ([b] ++ x :: t) at 1.
      rewrite count_nl_app, (count_nl_conts (x :: t)) by (cbn [forallb]; rewrite Es, Ht; reflexivity).
      unfold count_nl. cbn [filter]. rewrite Hnb. reflexivity.
    + constructor; [exact Hone|exact IH].
Qed.

Lemma cnl_count_clean : forall cs, Forall chr_clean cs -> cnl cs = N.of_nat (count_nl (List.concat cs)).
Proof.
  induction cs as [|c r IH]; intros F; [reflexivity|]. inversion F as [|? ? Hc Hr]; subst.
  rewrite cnl_cons. cbn [List.concat]. rewrite count_nl_app, Nat2N.inj_add, Hc, (IH Hr). reflexivity.
Qed.

Lemma firstn_clen_concat : forall (pre rest : list chr),
  firstn (clen pre) (List.concat (pre ++ rest)) = List.concat pre.
Proof.
  intros pre rest. rewrite concat_app. unfold clen. rewrite firstn_app, Nat.sub_diag, firstn_all. cbn. apply app_nil_r.
Qed.

(* the last byte before the end of a non-empty run of characters is LF iff the last character is the newline *)
Lemma last_byte_nl : forall (k : list chr) (pre : list byte) (post : list byte),
  Forall chr_shaped k -> k <> [] ->
  byte_before_is_nl (pre ++ List.concat k ++ post) (List.length pre + clen k) = last_nl k.
Proof.
  induction k as [|c k IH]; intros pre post F Hne; [contradiction|].
  inversion F as [|? ? [b [t [Hc Ht]]] Fk]; subst.
  destruct k as [|c2 k'].
  - (* the last character *)
    cbn [last_nl List.concat]. rewrite app_nil_r. unfold clen. cbn [List.concat]. rewrite app_nil_r.
    destruct (rev t) as [|y ty] eqn:Er.
    + assert (t = []) by (destruct t; [reflexivity|apply (f_equal (@List.length _)) in Er; rewrite rev_length in Er; discriminate]).
      subst t. cbn [List.length]. replace (List.length pre + 1)%nat with (S (List.length pre)) by lia.
      unfold byte_before_is_nl. cbn [app]. rewrite nth_error_app_len. unfold is_nl, chr_is. reflexivity.
    + assert (Et : t = rev ty ++ [y]) by (rewrite <- (rev_involutive t), Er; reflexivity).
      assert (Hy : is_cont y = true).
      { rewrite forallb_forall in Ht. apply Ht. rewrite Et. apply in_or_app. right. left. reflexivity. }
      assert (Hch : chr_is (b :: t) "010" = false) by (rewrite Et; destruct (rev ty); reflexivity).
      rewrite Hch. rewrite Et.
      replace (pre ++ (b :: rev ty ++ [y]) ++ post) with ((pre ++ b :: rev ty) ++ y :: post)
        by (rewrite <- !app_assoc; cbn; rewrite <- app_assoc; reflexivity).
      replace (List.length pre + List.length (b :: rev ty ++ [y]))%nat with (S (List.length (pre ++ b :: rev ty)))
        by (rewrite !app_length; cbn [List.length]; rewrite app_length; cbn [List.length]; lia).
      unfold byte_before_is_nl. rewrite nth_error_app_len. apply cont_not_nl; exact Hy.
  - rewrite last_nl_cons by discriminate.
    rewrite <- (IH (pre ++ b :: t) post Fk) by discriminate.
    f_equal.
    + cbn [List.concat]. rewrite <- !app_assoc. reflexivity.
    + rewrite clen_cons, app_length. lia.
Qed.

(* ------------------------------------------------------------------ *)
(** * 2. one scanning step, exactly *)

Lemma alnum_not_nl : forall b, is_alpha_byte b || is_digit b = true -> chr_is [b] "010" = false.
Proof.
  intros b H. unfold chr_is. destruct (Byte.eqb b "010") eqn:E; [|reflexivity].
  apply Byte.byte_dec_bl in E. subst b. discriminate H.
Qed.

Lemma skip_ws_exact : forall cs b pos line,
  let '(cs', _, line') := skip_ws b cs pos line in
  line' + cnl cs' = line + cnl cs /\ match cs' with c :: _ => chr_is c "010" = false | [] => True end.
Proof.
  induction cs as [|c r IH]; intros b pos line; cbn [skip_ws]; [split; [reflexivity|exact I]|].
  pose proof (cnl_cons c r) as Hc.
  destruct b.
  - destruct (chr_is c "010") eqn:E.
    + specialize (IH false (pos + 1)%nat (line + 1)).
      destruct (skip_ws false r (pos + 1) (line + 1)) as [[cs' p'] l']. destruct IH as [IH1 IH2]. split; [lia|exact IH2].
    + specialize (IH true (pos + List.length c)%nat line).
      destruct (skip_ws true r (pos + List.length c) line) as [[cs' p'] l']. destruct IH as [IH1 IH2]. split; [lia|exact IH2].
  - destruct (chr_is c " " || chr_is c "013" || chr_is c "009") eqn:Ews.
    + assert (En : chr_is c "010" = false).
      { destruct (chr_is c "010") eqn:En; [|reflexivity]. apply chr_is_eq in En. subst c. discriminate Ews. }
      rewrite En in Hc.
      specialize (IH false (pos + 1)%nat line).
      destruct (skip_ws false r (pos + 1) line) as [[cs' p'] l']. destruct IH as [IH1 IH2]. split; [lia|exact IH2].
    + destruct (chr_is c "010") eqn:E.
      * specialize (IH false (pos + 1)%nat (line + 1)).
        destruct (skip_ws false r (pos + 1) (line + 1)) as [[cs' p'] l']. destruct IH as [IH1 IH2]. split; [lia|exact IH2].
      * destruct (chr_is c "/").
        -- destruct r as [|c2 r2]; [split; [reflexivity|exact E]|].
           destruct (chr_is c2 "/").
           ++ specialize (IH true (pos + 1)%nat line).
              destruct (skip_ws true (c2 :: r2) (pos + 1) line) as [[cs' p'] l']. destruct IH as [IH1 IH2]. split; [lia|exact IH2].
           ++ split; [reflexivity|exact E].
        -- split; [reflexivity|exact E].
Qed.

Lemma span_ident_cnl_eq : forall cs l r, span_ident cs = (l, r) -> cnl r = cnl cs.
Proof.
  induction cs as [|c cs IH]; intros l r H; cbn [span_ident] in H.
  - inversion H; reflexivity.
  - destruct c as [|b [|b2 c']]; try (inversion H; reflexivity).
    destruct (is_alpha_byte b || is_digit b) eqn:Eb; [|inversion H; reflexivity].
    destruct (span_ident cs) as [l' r'] eqn:E. inversion H; subst.
    rewrite (IH _ _ eq_refl), cnl_cons, (alnum_not_nl b Eb). lia.
Qed.

Lemma span_digit_cnl_eq : forall cs l r, span_digit_chrs cs = (l, r) -> cnl r = cnl cs.
Proof.
  induction cs as [|c cs IH]; intros l r H; cbn [span_digit_chrs] in H.
  - inversion H; reflexivity.
  - destruct c as [|b [|b2 c']]; try (inversion H; reflexivity).
    destruct (is_digit b) eqn:Eb; [|inversion H; reflexivity].
    destruct (span_digit_chrs cs) as [l' r'] eqn:E. inversion H; subst.
    rewrite (IH _ _ eq_refl), cnl_cons, (alnum_not_nl b) by (rewrite Eb; apply orb_true_r). lia.
Qed.

Lemma number_tail_cnl_eq : forall cs l r, number_tail cs = (l, r) -> cnl r = cnl cs.
Proof.
  intros cs l r H. unfold number_tail in H.
  destruct (span_digit_chrs cs) as [ip r1] eqn:E1. pose proof (span_digit_cnl_eq _ _ _ E1) as H1.
  destruct r1 as [|d [|n r2]]; try (inversion H; subst; exact H1).
  destruct (chr_is d "." && is_digit_chr n) eqn:Ed; [|inversion H; subst; exact H1].
  destruct (span_digit_chrs (n :: r2)) as [fp r3] eqn:E3. pose proof (span_digit_cnl_eq _ _ _ E3) as H3.
  inversion H; subst. apply andb_prop in Ed as [Ed _]. apply chr_is_eq in Ed. subst d.
  assert (Hd : chr_is ["."%byte] "010" = false) by reflexivity.
  rewrite H3, <- H1, (cnl_cons ["."%byte]), Hd. lia.
Qed.

Lemma match_chr_cnl_eq : forall cs b ok r,
  Byte.eqb b "010" = false -> match_chr cs b = (ok, r) -> cnl r = cnl cs.
Proof.
  intros [|c cs] b ok r Hb H; cbn in H; [inversion H; reflexivity|].
  destruct (chr_is c b) eqn:E; inversion H; subst; [|reflexivity].
  apply chr_is_eq in E. subst c. rewrite cnl_cons. cbn [chr_is]. rewrite Hb. lia.
Qed.

(* 1 when the step that consumed the characters m built the token t BEFORE counting its last line break *)
Definition sw (t : token) (m : list chr) : N := if blind_msg t && last_nl m then 1 else 0.

(* a string body: the line grows by exactly the newline characters consumed; the token carries the final line,
   except for a late-break Error token, which carries one less *)
Definition str_exact (line : N) (cs : list chr) (t : token) (st' : sstate) : Prop :=
  exists m, cs = m ++ s_rest st' /\ s_line st' = line + cnl m /\ tline t + sw t m = s_line st' /\
            (blind_msg t = true -> m <> []).

Lemma blind_msg_str : forall line l, blind_msg (mkToken TStr line l) = false.
Proof. reflexivity. Qed.
Lemma blind_msg_interp : forall line l, blind_msg (mkToken TInterpolation line l) = false.
Proof. reflexivity. Qed.

Lemma string_loop_exact : forall cs skip buf err pos line parens,
  let '(t, st') := string_loop cs skip buf err pos line parens in str_exact line cs t st'.
Proof.
  induction cs as [|c r IH]; intros skip buf err pos line parens; cbn [string_loop].
  - exists []. cbn. repeat split; first [reflexivity | lia | (intros Q; discriminate Q)].
  - (* what a recursive call on r gives for c :: r, when c adds `dl` to the line *)
    assert (Hrec : forall skip' buf' err' pos' (dl : N),
              dl = nlc c ->
              let '(t, st') := string_loop r skip' buf' err' pos' (line + dl) parens in
              str_exact line (c :: r) t st').
    { intros skip' buf' err' pos' dl Hdl. specialize (IH skip' buf' err' pos' (line + dl) parens).
      destruct (string_loop r skip' buf' err' pos' (line + dl) parens) as [t st'].
      destruct IH as [m [Hm [Hl [Ht Hne]]]]. exists (c :: m).
      split; [rewrite Hm at 1; reflexivity|]. split; [|split; [|intros _; discriminate]].
      - rewrite cnl_cons. fold (nlc c). rewrite <- Hdl. lia.
      - assert (Hsw : sw t (c :: m) = sw t m).
        { unfold sw. destruct (blind_msg t) eqn:Es; [|reflexivity]. cbn [andb].
          rewrite last_nl_cons; [reflexivity|apply Hne; reflexivity]. }
        rewrite Hsw. exact Ht. }
    (* a leaf that consumed the characters m0 *)
    destruct skip as [|k].
    + destruct (chr_is c """") eqn:Eq.
      { assert (En : chr_is c "010" = false) by (apply chr_is_eq in Eq; subst c; reflexivity).
        destruct err as [msg|].
        - exists [c]. cbn [s_rest s_line tline error_token app].
          split; [reflexivity|]. split; [rewrite cnl_cons, En; cbn; lia|]. split; [|intros _; discriminate].
          unfold sw. cbn [last_nl]. rewrite En, andb_false_r. lia.
        - exists [c]. cbn [s_rest s_line tline app].
          split; [reflexivity|]. split; [rewrite cnl_cons, En; cbn; lia|]. split; [|intros _; discriminate].
          unfold sw. rewrite blind_msg_str. cbn [andb]. lia. }
      destruct (chr_is c "$") eqn:Ed.
      { assert (En : chr_is c "010" = false) by (apply chr_is_eq in Ed; subst c; reflexivity).
        destruct r as [|c2 r2].
        - exists [c]. cbn [s_rest s_line tline error_token app].
          split; [reflexivity|]. split; [rewrite cnl_cons, En; cbn; lia|]. split; [|intros _; discriminate].
          unfold sw. cbn [last_nl]. rewrite En, andb_false_r. lia.
        - cbv zeta. destruct (negb (chr_is c2 "{")) eqn:Eb.
          + (* c2 is consumed unseen; a line break is counted after the token was built (e81033c) *)
            exists [c; c2]. cbn [s_rest s_line tline error_token app].
            split; [reflexivity|]. split; [|split; [|intros _; discriminate]].
            * rewrite !cnl_cons, En. destruct (chr_is c2 "010"); cbn; lia.
            * unfold sw. cbn [last_nl].
              replace (blind_msg (mkToken TError line (bs "Expected '{' in string interpolation."))) with true by reflexivity.
              cbn [andb]. destruct (chr_is c2 "010"); cbn; lia.
          + assert (En2 : chr_is c2 "010" = false).
            { apply negb_false_iff in Eb. apply chr_is_eq in Eb. subst c2. reflexivity. }
            destruct (Nat.leb INTERPOLATION_DEPTH_MAX (List.length parens)).
            * exists [c; c2]. cbn [s_rest s_line tline error_token app].
              split; [reflexivity|]. split; [rewrite !cnl_cons, En, En2; cbn; lia|]. split; [|intros _; discriminate].
              unfold sw. cbn [last_nl]. rewrite En2, andb_false_r. lia.
            * exists [c; c2]. cbn [s_rest s_line tline app].
              split; [reflexivity|]. split; [rewrite !cnl_cons, En, En2; cbn; lia|]. split; [|intros _; discriminate].
              unfold sw. rewrite blind_msg_interp. cbn [andb]. lia. }
      destruct (chr_is c "\") eqn:Eb.
      { assert (En : chr_is c "010" = false) by (apply chr_is_eq in Eb; subst c; reflexivity).
        assert (Hn0 : 0 = nlc c) by (unfold nlc; rewrite En; reflexivity).
        destruct r as [|c2 r2].
        - exists [c]. cbn [s_rest s_line tline error_token app].
          split; [reflexivity|]. split; [rewrite cnl_cons, En; cbn; lia|]. split; [|intros _; discriminate].
          unfold sw. cbn [last_nl]. rewrite En, andb_false_r. lia.
        - destruct (simple_escape c2).
          { pose proof (Hrec 1%nat (b :: buf) err (pos + 1)%nat 0 Hn0) as H. rewrite N.add_0_r in H. exact H. }
          destruct (hex_escape c2) as [[n msg]|].
          { destruct (read_escaped_bytes n r2) as [[l|] k].
            - pose proof (Hrec (1 + k)%nat (rev_append l buf) err (pos + 1)%nat 0 Hn0) as H. rewrite N.add_0_r in H. exact H.
            - pose proof (Hrec (1 + k)%nat buf (Some msg) (pos + 1)%nat 0 Hn0) as H. rewrite N.add_0_r in H. exact H. }
          (* c2 is consumed unseen; a line break is counted after the token was built (e81033c) *)
          exists [c; c2]. cbn [s_rest s_line tline error_token app].
          split; [reflexivity|]. split; [|split; [|intros _; discriminate]].
          + rewrite !cnl_cons, En. destruct (chr_is c2 "010"); cbn; lia.
          + unfold sw. cbn [last_nl].
            replace (blind_msg (mkToken TError line (bs "Invalid escape sequence."))) with true by reflexivity.
            cbn [andb]. destruct (chr_is c2 "010"); cbn; lia. }
      destruct (chr_is c "010") eqn:En.
      { assert (Hn1 : 1 = nlc c) by (unfold nlc; rewrite En; reflexivity).
        exact (Hrec 0%nat ("010"%byte :: buf) err (pos + 1)%nat 1 Hn1). }
      assert (Hn0 : 0 = nlc c) by (unfold nlc; rewrite En; reflexivity).
      pose proof (Hrec 0%nat (rev_append c buf) err (pos + List.length c)%nat 0 Hn0) as H. rewrite N.add_0_r in H. exact H.
    + (* a character consumed by an escape: a line break among them counts (since /repo 914ba97) *)
      pose proof (Hrec k buf err (pos + List.length c)%nat (nlc c) eq_refl) as H.
      unfold nlc in H. destruct (chr_is c "010"); [exact H|]. rewrite N.add_0_r in H. exact H.
Qed.

(* ---------- scan_token ---------- *)
Lemma identifier_type_not_error : forall lex, tkind_eqb (identifier_type lex) TError = false.
Proof.
  intros lex. unfold identifier_type.
  repeat match goal with
         | |- context [match ?x with _ => _ end] => destruct x
         end;
  try reflexivity;
  match goal with |- tkind_eqb (check_keyword ?a ?b ?c ?d) _ = _ =>
    destruct (check_keyword_cases a b c d) as [Q|Q]; rewrite Q; reflexivity end.
Qed.

Lemma sw_ident : forall lex line l, blind_msg (mkToken (identifier_type lex) line l) = false.
Proof. intros. unfold blind_msg. cbn [tk]. rewrite identifier_type_not_error. reflexivity. Qed.

Lemma sw_unexpected : forall line c, blind_msg (mkToken TError line (unexpected_msg c)) = false.
Proof. intros. reflexivity. Qed.

(* a step that is not a string body *)
Definition leaf_exact (line : N) (cs : list chr) (t : token) (st' : sstate) : Prop :=
  blind_msg t = false /\ tline t = s_line st' /\ s_line st' + cnl (s_rest st') = line + cnl cs.

Ltac fin_leaf :=
  left; unfold leaf_exact; cbn [tline s_line s_rest fst snd];
  split; [first [reflexivity | apply sw_ident | apply sw_unexpected]|split; [reflexivity|lia]].

Lemma scan_token_cases : forall st cs start line,
  skip_ws false (s_rest st) (s_pos st) (s_line st) = (cs, start, line) ->
  leaf_exact line cs (fst (scan_token st)) (snd (scan_token st)) \/
  (exists c r, cs = c :: r /\ str_exact line r (fst (scan_token st)) (snd (scan_token st))).
Proof.
  intros [rest pos line0 parens] cs start line Hws. rewrite scan_token_eq. cbn [fst snd]. unfold scan_token_start.
  cbn [s_rest s_pos s_line s_parens] in *. rewrite Hws.
  pose proof (skip_ws_exact rest false pos line0) as Hs. rewrite Hws in Hs. destruct Hs as [_ Hs2].
  destruct cs as [|c r]; [cbn [fst snd]; left; unfold leaf_exact; cbn; repeat split; reflexivity|].
  pose proof (cnl_cons c r) as Hc. rewrite Hs2 in Hc.
  cbv beta zeta.
  set (P := fun x : token * nat * sstate =>
              leaf_exact line (c :: r) (fst (fst x)) (snd x) \/
              (exists c0 r0, c :: r = c0 :: r0 /\ str_exact line r0 (fst (fst x)) (snd x))).
  match goal with |- _ (fst (fst ?X)) _ \/ _ => change (P X) end.
  destruct (is_alpha c).
  { destruct (span_ident r) as [l r'] eqn:E. apply span_ident_cnl_eq in E. subst P; cbv beta iota; cbn [fst snd]. fin_leaf. }
  destruct (is_digit_chr c).
  { destruct (number_tail r) as [l r'] eqn:E. apply number_tail_cnl_eq in E. subst P; cbv beta iota; cbn [fst snd]. fin_leaf. }
  destruct c as [|b [|b2 c']]; try (subst P; cbv beta iota; cbn [fst snd]; fin_leaf).
  repeat match goal with
  | |- P (match scan_string ?r0 ?p ?l ?ps with _ => _ end) =>
    pose proof (string_loop_exact r0 0%nat [] None p l ps); unfold scan_string;
    destruct (string_loop r0 0 [] None p l ps) as [? ?]
  | |- P (match match_chr ?r0 ?x with _ => _ end) =>
    let E := fresh "E" in destruct (match_chr r0 x) as [? ?] eqn:E; apply match_chr_cnl_eq in E; [|reflexivity]
  | |- P (match ?x with _ => _ end) => destruct x
  end; subst P; cbv beta iota; cbn [fst snd];
  repeat match goal with x : bool |- _ => destruct x end;
  first [ right; eexists; eexists; split; [reflexivity|assumption] | fin_leaf ].
Qed.

(* one step, with the characters it consumed *)
Lemma scan_token_exact : forall st t st',
  scan_token st = (t, st') ->
  exists k, s_rest st = k ++ s_rest st' /\ s_pos st' = (s_pos st + clen k)%nat /\
            s_line st' = s_line st + cnl k /\ tline t + sw t k = s_line st' /\
            (blind_msg t = true -> k <> []).
Proof.
  intros st t st' H.
  destruct (scan_token_spec _ _ _ H) as [start [ws m Hr Hs Hp _ _ _ _]].
  exists (ws ++ m). split; [rewrite <- app_assoc; exact Hr|]. split; [rewrite clen_app; lia|].
  destruct (skip_ws false (s_rest st) (s_pos st) (s_line st)) as [[cs start0] line] eqn:Ews.
  pose proof (skip_ws_exact (s_rest st) false (s_pos st) (s_line st)) as Hx. rewrite Ews in Hx. destruct Hx as [Hx1 Hx2].
  destruct (skip_ws_consumes _ _ _ _ _ _ _ Ews) as [ws0 [Hws0 _]].
  pose proof (scan_token_cases st cs start0 line Ews) as Hc. rewrite H in Hc. cbn [fst snd] in Hc.
  assert (Hk : cnl (s_rest st) = cnl (ws ++ m) + cnl (s_rest st')) by (rewrite Hr at 1; rewrite app_assoc, cnl_app; reflexivity).
  destruct Hc as [[Hsw [Ht Hl]]|[c [r [Ecs [m0 [Hm0 [Hl [Ht Hne]]]]]]]].
  - split; [lia|]. split; [|rewrite Hsw; intros Q; discriminate Q].
    unfold sw. rewrite Hsw. cbn [andb]. lia.
  - (* ws ++ m = ws0 ++ c :: m0 *)
    assert (Ek : ws ++ m = ws0 ++ c :: m0).
    { apply (app_inv_tail (s_rest st')). rewrite <- app_assoc, <- Hr, Hws0, Ecs, Hm0, <- app_assoc. reflexivity. }
    rewrite Ek. rewrite Ek in Hk.
    assert (Hcn : chr_is c "010" = false) by (rewrite Ecs in Hx2; exact Hx2).
    rewrite cnl_app, cnl_cons, Hcn in *.
    assert (Hcs : cnl cs = cnl m0 + cnl (s_rest st')) by (rewrite Ecs, cnl_cons, Hcn, Hm0, cnl_app; lia).
    assert (Hrs : cnl (s_rest st) = cnl ws0 + cnl cs) by (rewrite Hws0, cnl_app; reflexivity).
    split; [lia|]. split; [|intros _; destruct ws0; discriminate].
    assert (Hsw : sw t (ws0 ++ c :: m0) = sw t m0).
    { unfold sw. destruct (blind_msg t) eqn:Es; [|reflexivity]. cbn [andb].
      rewrite last_nl_app by discriminate. rewrite last_nl_cons; [reflexivity|apply Hne; reflexivity]. }
    rewrite Hsw. exact Ht.
Qed.

(* ------------------------------------------------------------------ *)
(** * 3. the whole token list *)

Lemma scan_loop_ends_tokens : forall fuel st, map fst (scan_loop_ends fuel st) = scan_loop fuel st.
Proof.
  induction fuel as [|f IH]; intros st; [reflexivity|]. cbn [scan_loop_ends scan_loop].
  destruct (scan_token st) as [t st']. destruct (tk t); cbn [map fst]; rewrite ?IH; reflexivity.
Qed.

Theorem scan_ends_tokens : forall src, map fst (scan_ends src) = scan_all src.
Proof. intros src. apply scan_loop_ends_tokens. Qed.

Lemma Forall_app_l : forall {A} (P : A -> Prop) a b, Forall P (a ++ b) -> Forall P a.
Proof. intros A P a b H. apply Forall_app in H. tauto. Qed.

(* the line of the end of a run of characters of src *)
Lemma line_of_offset_prefix : forall src pre rest, nl_cleanb src = true ->
  chars_of src = pre ++ rest -> line_of_offset src (clen pre) = 1 + cnl pre.
Proof.
  intros src pre rest Hcl Hc. unfold line_of_offset.
  rewrite <- (chars_of_concat_id src) at 1. rewrite Hc, firstn_clen_concat.
  rewrite <- cnl_count_clean; [reflexivity|].
  pose proof (nl_clean_chars src Hcl) as Cl. rewrite Hc in Cl. apply Forall_app_l in Cl. exact Cl.
Qed.

(* one step from a state that sits at the end of the characters `pre` of src *)
Lemma step_exact_full : forall src st pre t st',
  nl_cleanb src = true ->
  chars_of src = pre ++ s_rest st -> s_pos st = clen pre ->
  scan_token st = (t, st') ->
  exists k, chars_of src = (pre ++ k) ++ s_rest st' /\ s_pos st' = clen (pre ++ k) /\
            s_line st' = s_line st + cnl k /\
            tline t + (if late_breakb src (t, s_pos st') then 1 else 0) = s_line st'.
Proof.
  intros src st pre t st' Hcl Hc Hp H.
  destruct (scan_token_exact _ _ _ H) as [k [Hk [Hpk [Hl [Ht Hne]]]]].
  exists k.
  assert (Hc' : chars_of src = (pre ++ k) ++ s_rest st') by (rewrite Hc, Hk, app_assoc; reflexivity).
  assert (Hp' : s_pos st' = clen (pre ++ k)) by (rewrite clen_app; lia).
  split; [exact Hc'|]. split; [exact Hp'|]. split; [exact Hl|].
  assert (Hsrc : src = List.concat (pre ++ k) ++ List.concat (s_rest st')).
  { rewrite <- (chars_of_concat_id src) at 1. rewrite Hc', concat_app. reflexivity. }
  (* the flag, read off the source *)
  assert (Hflag : (if late_breakb src (t, s_pos st') then 1 else 0) = sw t k).
  { unfold late_breakb, sw. cbn [fst snd]. destruct (blind_msg t) eqn:Es; [|reflexivity]. cbn [andb].
    specialize (Hne eq_refl).
    assert (Hsh : Forall chr_shaped k).
    { pose proof (chars_of_shaped src) as Sh. rewrite Hc' in Sh. apply Forall_app_l in Sh.
      apply Forall_app in Sh. tauto. }
    pose proof (last_byte_nl k (List.concat pre) (List.concat (s_rest st')) Hsh Hne) as Hb.
    replace (List.concat pre ++ List.concat k ++ List.concat (s_rest st')) with src in Hb
      by (rewrite Hsrc at 1; rewrite concat_app, <- app_assoc; reflexivity).
    replace (List.length (List.concat pre) + clen k)%nat with (s_pos st') in Hb
      by (rewrite Hpk, Hp; reflexivity).
    rewrite Hb. reflexivity. }
  rewrite Hflag. exact Ht.
Qed.

(* THE STATE INVARIANT: the line counter is a function of the offset *)
Theorem scanner_line_exact : forall src st, nl_cleanb src = true ->
  reachable src st -> s_line st = line_of_offset src (s_pos st).
Proof.
  intros src st Hcl R.
  assert (I : exists pre, chars_of src = pre ++ s_rest st /\ s_pos st = clen pre /\ s_line st = 1 + cnl pre).
  { induction R as [|st t st' R IH H].
    - exists []. repeat split.
    - destruct IH as [pre [Hc [Hp Hl]]].
      destruct (step_exact_full src st pre t st' Hcl Hc Hp H) as [k [Hc' [Hp' [Hl' _]]]].
      exists (pre ++ k). split; [exact Hc'|]. split; [exact Hp'|]. rewrite cnl_app. lia. }
  destruct I as [pre [Hc [Hp Hl]]]. rewrite Hp, (line_of_offset_prefix src pre _ Hcl Hc). exact Hl.
Qed.
Print Assumptions scanner_line_exact.

Lemma scan_loop_ends_exact : forall src, nl_cleanb src = true ->
  forall fuel st pre,
  chars_of src = pre ++ s_rest st -> s_pos st = clen pre -> s_line st = 1 + cnl pre ->
  forall t e, In (t, e) (scan_loop_ends fuel st) ->
    tline t + (if late_breakb src (t, e) then 1 else 0) = line_of_offset src e.
Proof.
  intros src Hcl. induction fuel as [|f IH]; intros st pre Hc Hp HL t e Hin; [contradiction|].
  cbn [scan_loop_ends] in Hin. destruct (scan_token st) as [t0 st'] eqn:E.
  destruct (step_exact_full src st pre t0 st' Hcl Hc Hp E) as [k [Hc' [Hp' [Hl Ht]]]].
  assert (HL' : s_line st' = 1 + cnl (pre ++ k)) by (rewrite cnl_app; lia).
  assert (Hhead : tline t0 + (if late_breakb src (t0, s_pos st') then 1 else 0) = line_of_offset src (s_pos st')).
  { rewrite Ht, Hp', (line_of_offset_prefix src (pre ++ k) _ Hcl Hc'). exact HL'. }
  destruct (tk t0);
    try (destruct Hin as [Q|Hin]; [inversion Q; subst; exact Hhead|exact (IH st' (pre ++ k) Hc' Hp' HL' t e Hin)]).
  destruct Hin as [Q|[]]. inversion Q; subst. exact Hhead.
Qed.

Lemma line_of_offset_after_nl : forall src e, byte_before_is_nl src e = true ->
  line_of_offset src e = line_of_offset src (e - 1) + 1.
Proof.
  intros src [|p] H; [discriminate H|]. cbn [byte_before_is_nl] in H.
  destruct (nth_error src p) as [b|] eqn:En; [|discriminate H].
  replace (S p - 1)%nat with p by lia. unfold line_of_offset.
  destruct (nth_error_split _ _ En) as [a [r [Hs Hl]]]. subst src p.
  replace (S (List.length a)) with (List.length (a ++ [b])) by (rewrite app_length; cbn; lia).
  replace (a ++ b :: r) with ((a ++ [b]) ++ r) by (rewrite <- app_assoc; reflexivity).
  rewrite firstn_app, Nat.sub_diag, firstn_all. cbn [firstn]. rewrite app_nil_r.
  rewrite <- app_assoc. cbn [app]. rewrite firstn_app, Nat.sub_diag, firstn_all. cbn [firstn]. rewrite app_nil_r.
  rewrite count_nl_app. unfold count_nl at 2. cbn [filter]. rewrite H. cbn [List.length]. lia.
Qed.

(** THE LINE THEOREM, unconditional: e = `current` after the token was made; token_offset = e, except e - 1 (the line
    break itself) for a blind-character Error token that ends with a line break. *)
Theorem token_line_exact : forall src, nl_cleanb src = true ->
  forall t e, In (t, e) (scan_ends src) -> tline t = line_of_offset src (token_offset src (t, e)).
Proof.
  intros src Hcl t e Hin.
  pose proof (scan_loop_ends_exact src Hcl (List.length src + 2) (init_sstate src) [] eq_refl eq_refl eq_refl t e Hin) as Q.
  unfold token_offset. cbn [snd]. destruct (late_breakb src (t, e)) eqn:Es; [|lia].
  unfold late_breakb in Es. cbn [fst snd] in Es. apply andb_prop in Es as [_ Hb].
  rewrite (line_of_offset_after_nl src e Hb) in Q. lia.
Qed.
Print Assumptions token_line_exact.

(* ------------------------------------------------------------------ *)
(** * 4. the side condition holds for every valid UTF-8 string (every Rust `String`) *)

Lemma nl_cleanb_skip : forall p rest, forallb (fun b => negb (is_nl b)) p = true ->
  nl_cleanb (p ++ rest) = nl_cleanb rest.
Proof.
  induction p as [|b p IH]; intros rest H; [reflexivity|]. cbn in H. apply andb_prop in H as [Hb Hp].
  cbn [app nl_cleanb]. apply negb_true_iff in Hb. rewrite Hb. cbn [andb]. apply IH; exact Hp.
Qed.

Lemma is_char_nl : forall b t, is_char (b :: t) -> is_nl b = true -> t = [].
Proof.
  intros b t Hc Hb. unfold is_nl in Hb. apply Byte.byte_dec_bl in Hb. subst b.
  destruct (is_char_decode _ Hc) as [cp [Hd _]].
  assert (Hn : next_char ("010"%byte :: t) = Some (bN "010"%byte, t)) by (apply ascii_next_char; reflexivity).
  rewrite (decode_step _ _ _ Hn) in Hd.
  destruct (decode t) as [cps|] eqn:Et; [|discriminate Hd]. cbn in Hd. inversion Hd; subst.
  apply encode_decode in Et. cbn in Et. inversion Et; reflexivity.
Qed.

Theorem valid_nl_clean : forall src, valid_utf8 src = true -> nl_cleanb src = true.
Proof.
  intros src V. apply valid_iff in V. destruct V as [cs [-> F]].
  induction cs as [|c cs IH]; [reflexivity|]. inversion F as [|? ? Hc Fcs]; subst.
  specialize (IH Fcs). cbn [List.concat].
  assert (Hh : head_ok (List.concat cs) = true).
  { apply concat_head_ok. eapply Forall_impl; [|exact Fcs]. apply is_char_shaped. }
  destruct (is_char_shaped _ Hc) as [l [t [-> [Hl Ht]]]].
  destruct (is_nl l) eqn:En.
  - rewrite (is_char_nl l t Hc En). cbn [app nl_cleanb]. rewrite En, Hh, IH. reflexivity.
  - rewrite nl_cleanb_skip; [exact IH|]. cbn [forallb]. rewrite En. cbn [negb andb].
    apply forallb_forall. intros x Hx. rewrite forallb_forall in Ht. rewrite (cont_not_nl x (Ht x Hx)). reflexivity.
Qed.
Print Assumptions valid_nl_clean.

(* ------------------------------------------------------------------ *)
(** * 5. corollaries *)

Lemma not_error_not_blind : forall t, tk t <> TError -> blind_msg t = false.
Proof.
  intros t H. unfold blind_msg. destruct (tk t); try reflexivity. contradiction H; reflexivity.
Qed.

(* (a) the plain form: every token that is not a late-break Error token - in particular every token that is not an Error
   token - carries the line of the offset where it ends *)
Theorem token_line_exact_plain : forall src, nl_cleanb src = true ->
  forall t e, In (t, e) (scan_ends src) ->
    (late_breakb src (t, e) = false -> tline t = line_of_offset src e) /\
    (tk t <> TError -> tline t = line_of_offset src e).
Proof.
  intros src Hcl t e Hin. pose proof (token_line_exact src Hcl t e Hin) as Q. unfold token_offset in Q. cbn [snd] in Q.
  assert (H1 : late_breakb src (t, e) = false -> tline t = line_of_offset src e) by (intros Hf; rewrite Hf in Q; exact Q).
  split; [exact H1|]. intros Hk. apply H1. unfold late_breakb. cbn [fst]. rewrite (not_error_not_blind t Hk). reflexivity.
Qed.

(* (b) the Error clause: a blind-character Error token that ends with a line break carries the line of that break *)
Theorem late_break_error_line : forall src, nl_cleanb src = true ->
  forall t e, In (t, e) (scan_ends src) -> late_breakb src (t, e) = true ->
    tline t = line_of_offset src (e - 1) /\ line_of_offset src e = tline t + 1.
Proof.
  intros src Hcl t e Hin Hs. pose proof (token_line_exact src Hcl t e Hin) as Q. unfold token_offset in Q. cbn [snd] in Q.
  rewrite Hs in Q. split; [exact Q|].
  unfold late_breakb in Hs. cbn [fst snd] in Hs. apply andb_prop in Hs as [_ Hb].
  rewrite (line_of_offset_after_nl src e Hb). lia.
Qed.

(* (c) on the plain token list *)
Theorem token_line_exact_in : forall src, nl_cleanb src = true ->
  forall t, In t (scan_all src) ->
  exists e, In (t, e) (scan_ends src) /\ tline t = line_of_offset src (token_offset src (t, e)).
Proof.
  intros src Hcl t Hin. rewrite <- scan_ends_tokens in Hin. apply in_map_iff in Hin.
  destruct Hin as [[t' e] [Ht Hin]]. cbn in Ht. subst t'. exists e. split; [exact Hin|].
  exact (token_line_exact src Hcl t e Hin).
Qed.
Print Assumptions token_line_exact_plain.
Print Assumptions late_break_error_line.
Print Assumptions token_line_exact_in.

(* (d) the Eof clause: the synthetic Eof token ends at the end of the source, so it carries the LAST line *)
Lemma scan_loop_ends_eof : forall src fuel st pre,
  chars_of src = pre ++ s_rest st -> s_pos st = clen pre ->
  forall t e, In (t, e) (scan_loop_ends fuel st) -> tk t = TEof -> e = List.length src.
Proof.
  intros src. induction fuel as [|f IH]; intros st pre Hc Hp t e Hin Hk; [contradiction|].
  cbn [scan_loop_ends] in Hin. destruct (scan_token st) as [t0 st'] eqn:E.
  destruct (scan_token_exact _ _ _ E) as [k [Hk' [Hpk _]]].
  assert (Hc' : chars_of src = (pre ++ k) ++ s_rest st') by (rewrite Hc, Hk', app_assoc; reflexivity).
  assert (Hp' : s_pos st' = clen (pre ++ k)) by (rewrite clen_app; lia).
  assert (Hend : tk t0 = TEof -> s_pos st' = List.length src).
  { intros Q. pose proof (scan_progress _ _ _ E) as [_ [_ [_ [_ Hr]]]]. specialize (Hr Q).
    rewrite Hr, app_nil_r in Hc'. rewrite Hp'. unfold clen. rewrite <- Hc', chars_of_concat_id. reflexivity. }
  destruct (tk t0) eqn:Ek;
    try (destruct Hin as [Q|Hin]; [inversion Q; subst; rewrite Ek in Hk; discriminate Hk|
                                   exact (IH st' (pre ++ k) Hc' Hp' t e Hin Hk)]).
  destruct Hin as [Q|[]]. inversion Q; subst. apply Hend. reflexivity.
Qed.

Theorem eof_line_exact : forall src, nl_cleanb src = true ->
  forall t e, In (t, e) (scan_ends src) -> tk t = TEof ->
    e = List.length src /\ tline t = 1 + N.of_nat (count_nl src).
Proof.
  intros src Hcl t e Hin Hk.
  assert (He : e = List.length src)
    by (exact (scan_loop_ends_eof src _ (init_sstate src) [] eq_refl eq_refl t e Hin Hk)).
  split; [exact He|].
  destruct (token_line_exact_plain src Hcl t e Hin) as [_ Q].
  rewrite Q by (rewrite Hk; discriminate). unfold line_of_offset. rewrite He, firstn_all. reflexivity.
Qed.
Print Assumptions eof_line_exact.

(* (e) through the parser (ParserInv): the line of the first compile error is the line of a token of the source, hence
   the line of that token's offset; an error "at '<lexeme>'" or "at end" is reported at a token that is not an Error
   token, so its offset is the end of that token *)
Theorem compile_error_line_exact : forall src l a m,
  nl_cleanb src = true ->
  parse_source src = PErr l a m ->
  exists t e, In (t, e) (scan_ends src) /\ l = tline t /\ l = line_of_offset src (token_offset src (t, e)).
Proof.
  intros src l a m Hcl H.
  destruct (ParserInv.parse_error_line_from_token src l a m H) as [t [Hin ->]].
  destruct (token_line_exact_in src Hcl t Hin) as [e [He Hx]].
  exists t, e. split; [exact He|]. split; [reflexivity|exact Hx].
Qed.
Print Assumptions compile_error_line_exact.

(* the same for a Rust String *)
Corollary compile_error_line_exact_utf8 : forall src l a m,
  valid_utf8 src = true ->
  parse_source src = PErr l a m ->
  exists t e, In (t, e) (scan_ends src) /\ l = tline t /\ l = line_of_offset src (token_offset src (t, e)).
Proof. intros src l a m V H. exact (compile_error_line_exact src l a m (valid_nl_clean src V) H). Qed.
Print Assumptions compile_error_line_exact_utf8.

(* located errors ("Error at '<lexeme>'"): the quoted lexeme is a token that ENDS on the reported line *)
Theorem compile_error_at_token_line : forall src l lex m,
  nl_cleanb src = true ->
  parse_source src = PErr l (AtToken lex) m ->
  exists t e, In (t, e) (scan_ends src) /\ tsource t = lex /\ l = line_of_offset src e.
Proof.
  intros src l lex m Hcl H.
  pose proof (ParserInv.parse_error_at_token src l (AtToken lex) m H) as Q. cbn in Q.
  destruct Q as [t [Hin [Hl [Hs [_ Hk]]]]].
  rewrite <- scan_ends_tokens in Hin. apply in_map_iff in Hin. destruct Hin as [[t' e] [Ht Hin]]. cbn in Ht. subst t'.
  exists t, e. split; [exact Hin|]. split; [exact Hs|].
  destruct (token_line_exact_plain src Hcl t e Hin) as [_ P]. rewrite <- Hl. exact (P Hk).
Qed.
Print Assumptions compile_error_at_token_line.

(* ------------------------------------------------------------------ *)
(** * 6. witnesses *)
Definition lf : string := String (Ascii.ascii_of_nat 10) "".
Local Open Scope string_scope.

(* every token of a source satisfies the equation *)
Definition all_exactb (src : list byte) : bool :=
  forallb (fun te => N.eqb (tline (fst te)) (line_of_offset src (token_offset src te))) (scan_ends src).

(* the witness of the first repaired defect (914ba97): a line break among the hex digits of an escape
   (the Error token is on line 2, where the literal ends; `var = 2;` is on line 3) *)
Example line_exact_escape_fixed :
  let src := bs ("var s = ""\x" ++ lf ++ "1"";" ++ lf ++ "var = 2;") in
  valid_utf8 src = true /\ nl_cleanb src = true /\ all_exactb src = true /\
  map (fun te => (tkind_index (tk (fst te)), N.to_nat (tline (fst te)), token_offset src te)) (scan_ends src) =
    [(68, 1, 3); (43, 1, 5); (21, 1, 7); (70, 2, 14); (14, 2, 15); (68, 3, 19); (21, 3, 21); (46, 3, 23); (14, 3, 24);
     (71, 3, 24)]%nat /\
  parse_source src = PErr 2 AtNothing "Invalid hexadecimal sequence.".
Proof. vm_compute. repeat split; reflexivity. Qed.

(* the witnesses of the second repaired defect (e81033c; quote = the double quote character):
   var s = quote \ LF quote ; quote ; LF var = 2;   and the same with $ for \ .
   The Error token keeps line 1 (its offset is 10, the line break itself, not 11), the later `=` is on line 3 -
   before e81033c the model (and scanner.rs) gave line 2 for it. *)
Example line_exact_backslash_fixed :
  let src := bs ("var s = ""\" ++ lf ++ """;"";" ++ lf ++ "var = 2;") in
  valid_utf8 src = true /\ all_exactb src = true /\
  map (fun te => (tkind_index (tk (fst te)), N.to_nat (tline (fst te)), snd te, token_offset src te)) (scan_ends src) =
    [(68, 1, 3, 3); (43, 1, 5, 5); (21, 1, 7, 7); (70, 1, 11, 10); (44, 2, 14, 14); (14, 2, 15, 15); (68, 3, 19, 19);
     (21, 3, 21, 21); (46, 3, 23, 23); (14, 3, 24, 24); (71, 3, 24, 24)]%nat /\
  parse_source src = PErr 1 AtNothing "Invalid escape sequence.".
Proof. vm_compute. repeat split; reflexivity. Qed.

Example line_exact_dollar_fixed :
  let src := bs ("var s = ""$" ++ lf ++ """;"";" ++ lf ++ "var = 2;") in
  valid_utf8 src = true /\ all_exactb src = true /\
  map (fun te => (tkind_index (tk (fst te)), N.to_nat (tline (fst te)), snd te, token_offset src te)) (scan_ends src) =
    [(68, 1, 3, 3); (43, 1, 5, 5); (21, 1, 7, 7); (70, 1, 11, 10); (44, 2, 14, 14); (14, 2, 15, 15); (68, 3, 19, 19);
     (21, 3, 21, 21); (46, 3, 23, 23); (14, 3, 24, 24); (71, 3, 24, 24)]%nat /\
  parse_source src = PErr 1 AtNothing "Expected '{' in string interpolation.".
Proof. vm_compute. repeat split; reflexivity. Qed.

(* the side condition nl_cleanb matters only for byte strings that are not UTF-8 (not reachable from Rust): LF followed
   by a continuation byte is ONE character of chars_of and is not counted *)
Example nl_clean_needed :
  let src := [x0a; x80; x61] in
  valid_utf8 src = false /\ nl_cleanb src = false /\
  map (fun te => (tline (fst te), line_of_offset src (snd te))) (scan_ends src) = [(1, 2); (1, 2); (1, 2)]%N.
Proof. vm_compute. repeat split; reflexivity. Qed.
