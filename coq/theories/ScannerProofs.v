(* Proofs about the scanner model (Scanner.v). *)
From Coq Require Import Strings.Byte Strings.String.
From Coq Require Import List NArith Bool Arith Lia.
From YV Require Import Utf8 Utf8Proofs NumText NumLex Scanner.
Import ListNotations.

Local Open Scope nat_scope.

(* ------------------------------------------------------------------ *)
(* consumption relation: going from (cs, pos) to (cs', pos') consumes   *)
(* the characters m                                                     *)
(* ------------------------------------------------------------------ *)
Definition consumes (cs : list chr) (pos : nat) (m : list chr) (cs' : list chr) (pos' : nat) : Prop :=
  cs = m ++ cs' /\ pos' = pos + clen m.

Lemma clen_nil : clen [] = 0. Proof. reflexivity. Qed.
Lemma clen_cons : forall c cs, clen (c :: cs) = length c + clen cs.
Proof. intros. unfold clen. cbn [concat]. rewrite app_length. reflexivity. Qed.
Lemma clen_app : forall a b, clen (a ++ b) = clen a + clen b.
Proof. intros. unfold clen. rewrite concat_app, app_length. reflexivity. Qed.

Lemma consumes_refl : forall cs pos, consumes cs pos [] cs pos.
Proof. intros. split; [reflexivity|rewrite clen_nil; lia]. Qed.

Lemma consumes_refl1 : forall cs pos, consumes cs pos [] cs (pos + clen []).
Proof. intros. split; [reflexivity|reflexivity]. Qed.

Lemma consumes_cons : forall c r pos m cs' pos',
  consumes r (pos + length c) m cs' pos' -> consumes (c :: r) pos (c :: m) cs' pos'.
Proof. intros c r pos m cs' pos' [H1 H2]. split; [subst r; reflexivity|rewrite clen_cons; lia]. Qed.

Lemma consumes_trans : forall cs pos m1 cs1 pos1 m2 cs2 pos2,
  consumes cs pos m1 cs1 pos1 -> consumes cs1 pos1 m2 cs2 pos2 ->
  consumes cs pos (m1 ++ m2) cs2 pos2.
Proof.
  intros cs pos m1 cs1 pos1 m2 cs2 pos2 [A1 A2] [B1 B2]. split.
  - rewrite <- app_assoc. congruence.
  - rewrite clen_app. lia.
Qed.

Lemma chr_is_eq : forall c b, chr_is c b = true -> c = [b].
Proof.
  intros c b H. destruct c as [|x [|y t]]; try discriminate. cbn in H.
  apply Byte.byte_dec_bl in H. congruence.
Qed.

(* ---------- skip_ws ---------- *)
Lemma skip_ws_consumes : forall cs ic pos line cs' pos' line',
  skip_ws ic cs pos line = (cs', pos', line') -> exists m, consumes cs pos m cs' pos'.
Proof.
  induction cs as [|c r IH]; intros ic pos line cs' pos' line' H; cbn [skip_ws] in H.
  - inversion H; subst. exists []. apply consumes_refl.
  - destruct ic.
    + destruct (chr_is c "010") eqn:E.
      * apply IH in H. destruct H as [m Hm]. exists (c :: m). apply consumes_cons.
        apply chr_is_eq in E. subst c. exact Hm.
      * apply IH in H. destruct H as [m Hm]. exists (c :: m). apply consumes_cons. exact Hm.
    + destruct (chr_is c " " || chr_is c "013" || chr_is c "009") eqn:E1.
      { apply IH in H. destruct H as [m Hm]. exists (c :: m). apply consumes_cons.
        assert (length c = 1).
        { apply orb_prop in E1. destruct E1 as [E1|E1]; [apply orb_prop in E1; destruct E1 as [E1|E1]|];
          apply chr_is_eq in E1; subst c; reflexivity. }
        congruence. }
      destruct (chr_is c "010") eqn:E2.
      { apply IH in H. destruct H as [m Hm]. exists (c :: m). apply consumes_cons.
        apply chr_is_eq in E2. subst c. exact Hm. }
      destruct (chr_is c "/") eqn:E3.
      { destruct r as [|c2 r2].
        - inversion H; subst. exists []. apply consumes_refl.
        - destruct (chr_is c2 "/") eqn:E4.
          + apply IH in H. destruct H as [m Hm]. exists (c :: m). apply consumes_cons.
            apply chr_is_eq in E3. subst c. exact Hm.
          + inversion H; subst. exists []. apply consumes_refl. }
      inversion H; subst. exists []. apply consumes_refl.
Qed.

(* what skip_ws leaves does not start with white space *)

(* ---------- spans ---------- *)
Lemma span_ident_consumes : forall cs l r pos,
  span_ident cs = (l, r) -> exists m, consumes cs pos m r (pos + length l) /\ concat m = l.
Proof.
  induction cs as [|c cs IH]; intros l r pos H; cbn [span_ident] in H.
  - inversion H; subst. exists []. split; [|reflexivity]. cbn. rewrite Nat.add_0_r. apply consumes_refl.
  - destruct c as [|b [|b2 t]].
    + inversion H; subst. exists []. split; [|reflexivity]. cbn. rewrite Nat.add_0_r. apply consumes_refl.
    + destruct (is_alpha_byte b || is_digit b).
      * destruct (span_ident cs) as [l' r'] eqn:E. inversion H; subst.
        destruct (IH l' r (pos + 1) eq_refl) as [m [Hm Hc]].
        exists ([b] :: m). split.
        -- apply consumes_cons. cbn [length]. replace (pos + S (length l')) with (pos + 1 + length l') by lia. exact Hm.
        -- cbn. congruence.
      * inversion H; subst. exists []. split; [|reflexivity]. cbn. rewrite Nat.add_0_r. apply consumes_refl.
    + inversion H; subst. exists []. split; [|reflexivity]. cbn. rewrite Nat.add_0_r. apply consumes_refl.
Qed.

Lemma span_digit_chrs_consumes : forall cs l r pos,
  span_digit_chrs cs = (l, r) -> exists m, consumes cs pos m r (pos + length l) /\ concat m = l.
Proof.
  induction cs as [|c cs IH]; intros l r pos H; cbn [span_digit_chrs] in H.
  - inversion H; subst. exists []. split; [|reflexivity]. cbn. rewrite Nat.add_0_r. apply consumes_refl.
  - destruct c as [|b [|b2 t]].
    + inversion H; subst. exists []. split; [|reflexivity]. cbn. rewrite Nat.add_0_r. apply consumes_refl.
    + destruct (is_digit b).
      * destruct (span_digit_chrs cs) as [l' r'] eqn:E. inversion H; subst.
        destruct (IH l' r (pos + 1) eq_refl) as [m [Hm Hc]].
        exists ([b] :: m). split.
        -- apply consumes_cons. cbn [length]. replace (pos + S (length l')) with (pos + 1 + length l') by lia. exact Hm.
        -- cbn. congruence.
      * inversion H; subst. exists []. split; [|reflexivity]. cbn. rewrite Nat.add_0_r. apply consumes_refl.
    + inversion H; subst. exists []. split; [|reflexivity]. cbn. rewrite Nat.add_0_r. apply consumes_refl.
Qed.

Lemma number_tail_consumes : forall cs l r pos,
  number_tail cs = (l, r) -> exists m, consumes cs pos m r (pos + length l) /\ concat m = l.
Proof.
  intros cs l r pos H. unfold number_tail in H.
  destruct (span_digit_chrs cs) as [ip r1] eqn:E1.
  destruct (span_digit_chrs_consumes _ _ _ pos E1) as [m1 [Hm1 Hc1]].
  assert (Hdef : (l, r) = (ip, r1) -> exists m, consumes cs pos m r (pos + length l) /\ concat m = l).
  { intros Q. inversion Q; subst. exists m1. split; [exact Hm1|reflexivity]. }
  destruct r1 as [|d [|n r2]]; try (apply Hdef; congruence).
  destruct (chr_is d "." && is_digit_chr n) eqn:E2; [|apply Hdef; congruence].
  apply andb_prop in E2. destruct E2 as [Ed En]. apply chr_is_eq in Ed. subst d.
  destruct (span_digit_chrs (n :: r2)) as [fp r3] eqn:E3. inversion H; subst.
  destruct (span_digit_chrs_consumes _ _ _ (pos + length (concat m1) + 1) E3) as [m2 [Hm2 Hc2]].
  exists (m1 ++ ["."%byte] :: m2). split.
  - eapply consumes_trans; [exact Hm1|]. apply consumes_cons. cbn [length].
    rewrite app_length. cbn [length].
    replace (pos + (length (concat m1) + S (length fp))) with (pos + length (concat m1) + 1 + length fp) by lia.
    exact Hm2.
  - rewrite concat_app. cbn [concat]. cbn. congruence.
Qed.

Lemma match_chr_consumes : forall cs b f r pos,
  match_chr cs b = (f, r) ->
  consumes cs pos (if f then [[b]] else []) r (pos + (if f then 1 else 0)).
Proof.
  intros cs b f r pos H. unfold match_chr in H. destruct cs as [|c cs].
  - inversion H; subst. rewrite Nat.add_0_r. apply consumes_refl.
  - destruct (chr_is c b) eqn:E; inversion H; subst.
    + apply chr_is_eq in E. subst c. apply consumes_cons. cbn [length]. apply consumes_refl.
    + rewrite Nat.add_0_r. apply consumes_refl.
Qed.

(* ---------- strings ---------- *)
Lemma read2_bound : forall cs o k, read2 cs = (o, k) -> k <= length cs.
Proof.
  intros cs o k H. unfold read2 in H. destruct cs as [|c1 [|c2 r]].
  - inversion H; lia.
  - destruct (chr_is c1 """"); inversion H; cbn; lia.
  - destruct (chr_is c1 """"); [inversion H; cbn; lia|].
    destruct (chr_is c2 """"); inversion H; cbn; lia.
Qed.

Lemma read_escaped_raw_bound : forall n cs o k, read_escaped_raw n cs = (o, k) -> k <= length cs.
Proof.
  induction n as [|n IH]; intros cs o k H; cbn [read_escaped_raw] in H.
  - inversion H; lia.
  - destruct (read2 cs) as [[[c1 c2]|] k1] eqn:E.
    + pose proof (read2_bound _ _ _ E) as B.
      destruct (u8_from_hex2 c1 c2); [|inversion H; subst; exact B].
      destruct (read_escaped_raw n (skipn k1 cs)) as [[l|] k2] eqn:E2;
        apply IH in E2; rewrite skipn_length in E2; inversion H; subst; lia.
    + inversion H; subst. eapply read2_bound; eauto.
Qed.

Lemma read_escaped_bytes_bound : forall n cs o k, read_escaped_bytes n cs = (o, k) -> k <= length cs.
Proof.
  intros n cs o k H. unfold read_escaped_bytes in H.
  destruct (read_escaped_raw n cs) as [[l|] k1] eqn:E; apply read_escaped_raw_bound in E;
    inversion H; subst; exact E.
Qed.

(* Everything string_loop returns: a non-Eof token, some consumed characters, a paren stack that is
   either unchanged or one deeper (and then within the limit). *)
(* tokens whose `source` is the slice source[start..current] (make_token) *)
Definition lexeme_token (k : tkind) : bool :=
  match k with TStr | TInterpolation | TError => false | _ => true end.

Definition parens_step (parens parens' : list N) : Prop :=
  parens' = parens \/ (exists n, parens' = n :: parens /\ length parens < INTERPOLATION_DEPTH_MAX).

Lemma string_loop_spec : forall cs skip buf err pos line parens t st',
  skip <= length cs ->
  string_loop cs skip buf err pos line parens = (t, st') ->
  (exists m, consumes cs pos m (s_rest st') (s_pos st')) /\
  lexeme_token (tk t) = false /\ parens_step parens (s_parens st').
Proof.
  induction cs as [|c r IH]; intros skip buf err pos line parens t st' Hs H; cbn [string_loop] in H.
  - inversion H; subst. cbn. split; [|split]; [exists []; apply consumes_refl|reflexivity|left; reflexivity].
  - assert (Hrec : forall skip' buf' err' line',
              skip' <= length r ->
              string_loop r skip' buf' err' (pos + length c) line' parens = (t, st') ->
              (exists m, consumes (c :: r) pos m (s_rest st') (s_pos st')) /\
              lexeme_token (tk t) = false /\ parens_step parens (s_parens st')).
    { intros skip' buf' err' line' Hs' H'. destruct (IH _ _ _ _ _ _ _ _ Hs' H') as [[m Hm] [Ht Hp]].
      split; [|split]; [exists (c :: m); apply consumes_cons; exact Hm|exact Ht|exact Hp]. }
    destruct skip as [|k].
    2:{ apply (Hrec k buf err (if chr_is c "010" then (line + 1)%N else line)); [cbn in Hs; lia|exact H]. }
    assert (Hleaf : forall tok rest' pos' line' parens',
              (tok, mkS rest' pos' line' parens') = (t, st') ->
              forall n, lexeme_token (tk tok) = false ->
              consumes r (pos + length c) n rest' (pos + length c + clen n) ->
              pos' = pos + length c + clen n -> parens_step parens parens' ->
              (exists m, consumes (c :: r) pos m (s_rest st') (s_pos st')) /\
              lexeme_token (tk t) = false /\ parens_step parens (s_parens st')).
    { intros tok rest' pos' line' parens' Q n Ht Hn Hpos Hp. inversion Q; subst. cbn.
      split; [|split]; [exists (c :: n); apply consumes_cons; exact Hn|exact Ht|exact Hp]. }
    destruct (chr_is c """") eqn:E1.
    { apply chr_is_eq in E1. subst c.
      eapply (Hleaf _ _ _ _ _ H []); [| apply consumes_refl1 | | left; reflexivity ].
      - destruct err; reflexivity.
      - unfold clen; cbn; lia. }
    destruct (chr_is c "$") eqn:E2.
    { apply chr_is_eq in E2. subst c. destruct r as [|c2 r2].
      - eapply (Hleaf _ _ _ _ _ H []); [reflexivity| apply consumes_refl1 | | left; reflexivity ].
        unfold clen; cbn; lia.
      - assert (Hc2 : consumes (c2 :: r2) (pos + length ["$"%byte]) [c2] r2 (pos + length ["$"%byte] + clen [c2])).
        { apply consumes_cons. rewrite clen_cons, clen_nil.
          replace (pos + length ["$"%byte] + (length c2 + 0)) with (pos + length ["$"%byte] + length c2) by lia.
          apply consumes_refl. }
        assert (Hp2 : pos + 1 + length c2 = pos + length ["$"%byte] + clen [c2]).
        { unfold clen; cbn; rewrite ?app_nil_r; lia. }
        cbv zeta in H.
        destruct (negb (chr_is c2 "{")).
        { eapply (Hleaf _ _ _ _ _ H [c2]); [reflexivity|exact Hc2|exact Hp2|left; reflexivity]. }
        destruct (Nat.leb INTERPOLATION_DEPTH_MAX (length parens)) eqn:E3.
        { eapply (Hleaf _ _ _ _ _ H [c2]); [reflexivity|exact Hc2|exact Hp2|left; reflexivity]. }
        eapply (Hleaf _ _ _ _ _ H [c2]); [reflexivity|exact Hc2|exact Hp2| ].
        right. exists 1%N. split; [reflexivity|]. apply Nat.leb_gt in E3. exact E3. }
    destruct (chr_is c "\") eqn:E3.
    { apply chr_is_eq in E3. subst c. destruct r as [|c2 r2].
      - eapply (Hleaf _ _ _ _ _ H []); [reflexivity| apply consumes_refl1 | | left; reflexivity ].
        unfold clen; cbn; lia.
      - destruct (simple_escape c2).
        { apply (Hrec 1 (b :: buf) err line); [cbn; lia|exact H]. }
        destruct (hex_escape c2) as [[n msg]|].
        + destruct (read_escaped_bytes n r2) as [[l|] k] eqn:E4;
            apply read_escaped_bytes_bound in E4.
          * apply (Hrec (1 + k) (rev_append l buf) err line); [cbn; lia|exact H].
          * apply (Hrec (1 + k) buf (Some msg) line); [cbn; lia|exact H].
        + eapply (Hleaf _ _ _ _ _ H [c2]); [reflexivity| | |left; reflexivity].
          * apply consumes_cons. rewrite clen_cons, clen_nil.
            replace (pos + length ["\"%byte] + (length c2 + 0)) with (pos + length ["\"%byte] + length c2) by lia.
            apply consumes_refl.
          * unfold clen; cbn; rewrite ?app_nil_r; lia. }
    destruct (chr_is c "010") eqn:E4.
    { apply chr_is_eq in E4. subst c. apply (Hrec 0 ("010"%byte :: buf) err (line + 1)%N); [lia|exact H]. }
    apply (Hrec 0 (rev_append c buf) err line); [lia|exact H].
Qed.

(* ------------------------------------------------------------------ *)
(* scan_token                                                           *)
(* ------------------------------------------------------------------ *)
Lemma check_keyword_cases : forall lex n rest k,
  check_keyword lex n rest k = k \/ check_keyword lex n rest k = TIdentifier.
Proof. intros. unfold check_keyword. destruct (_ && _); auto. Qed.

Lemma identifier_type_not_eof : forall lex, identifier_type lex <> TEof.
Proof.
  intros lex. unfold identifier_type.
  repeat match goal with
         | |- context [match ?x with _ => _ end] => destruct x
         end;
  try discriminate;
  match goal with |- check_keyword ?a ?b ?c ?d <> _ =>
    destruct (check_keyword_cases a b c d) as [Q|Q]; rewrite Q; discriminate end.
Qed.

Definition depth_ok (st : sstate) : Prop := length (s_parens st) <= INTERPOLATION_DEPTH_MAX.

Lemma match_chr_eq : forall cs b f r, match_chr cs b = (f, r) ->
  cs = (if f then [[b]] else []) ++ r.
Proof. intros cs b f r H. apply (match_chr_consumes cs b f r 0) in H. destruct H as [H _]. exact H. Qed.

(* The specification of one scanner step: white space `ws`, then the characters `m` of the token. *)
Inductive step_spec (st : sstate) (t : token) (start : nat) (st' : sstate) : Prop :=
| StepSpec : forall (ws m : list chr),
    s_rest st = ws ++ m ++ s_rest st' ->
    start = s_pos st + clen ws ->
    s_pos st' = start + clen m ->
    (tk t <> TEof -> m <> []) ->
    (tk t = TEof -> s_rest st' = [] /\ m = []) ->
    (depth_ok st -> depth_ok st') ->
    (lexeme_token (tk t) = true -> tsource t = concat m) ->
    step_spec st t start st'.

Lemma parens_step_depth : forall ps ps', parens_step ps ps' ->
  length ps <= INTERPOLATION_DEPTH_MAX -> length ps' <= INTERPOLATION_DEPTH_MAX.
Proof. intros ps ps' [E|[n [E L]]] H; subst; cbn; lia. Qed.

Lemma scan_string_spec : forall r p line parens t st',
  scan_string r p line parens = (t, st') ->
  (exists m, r = m ++ s_rest st' /\ s_pos st' = p + clen m) /\ lexeme_token (tk t) = false /\
  parens_step parens (s_parens st').
Proof.
  intros r p line parens t st' H. unfold scan_string in H.
  apply string_loop_spec in H; [|lia]. destruct H as [[m [Hm Hp]] [Ht Hs]].
  split; [|split]; [exists m; split; assumption|exact Ht|exact Hs].
Qed.

Ltac leaf_pos := unfold clen in *; cbn [concat length app] in *; rewrite ?app_length, ?app_nil_r in *; cbn [length] in *; lia.

Theorem scan_token_start_spec : forall st t start st',
  scan_token_start st = (t, start, st') -> step_spec st t start st'.
Proof.
  intros st t start st' H. unfold scan_token_start in H.
  destruct (skip_ws false (s_rest st) (s_pos st) (s_line st)) as [[cs start0] line] eqn:Ews.
  destruct (skip_ws_consumes _ _ _ _ _ _ _ Ews) as [ws [Hws Hstart]].
  destruct cs as [|c r].
  { inversion H; subst. apply (StepSpec _ _ _ _ ws []); cbn.
    - rewrite Hws. rewrite app_nil_r. reflexivity.
    - reflexivity.
    - unfold clen; cbn; lia.
    - intros Q; contradiction Q; reflexivity.
    - intros _. split; reflexivity.
    - intros D; exact D.
    - intros _. reflexivity. }
  (* generic leaf: token of kind k, characters c :: n consumed, parens' *)
  assert (Hleaf : forall k lex rest' pos' parens' n,
            (mkToken k line lex, start0, mkS rest' pos' line parens') = (t, start, st') ->
            k <> TEof -> (lexeme_token k = true -> lex = c ++ concat n) ->
            r = n ++ rest' -> pos' = start0 + length c + clen n ->
            (length (s_parens st) <= INTERPOLATION_DEPTH_MAX -> length parens' <= INTERPOLATION_DEPTH_MAX) ->
            step_spec st t start st').
  { intros k lex rest' pos' parens' n Q Hk Hlex Hr Hp Hd. inversion Q; subst.
    apply (StepSpec _ _ _ _ ws (c :: n)); cbn.
    - rewrite Hws. reflexivity.
    - reflexivity.
    - leaf_pos.
    - intros _; discriminate.
    - intros Q'; contradiction.
    - exact Hd.
    - exact Hlex. }
  assert (Hstr : forall ps tt stt,
            scan_string r (start0 + length c) line ps = (tt, stt) ->
            (length (s_parens st) <= INTERPOLATION_DEPTH_MAX -> length ps <= INTERPOLATION_DEPTH_MAX) ->
            (tt, start0, stt) = (t, start, st') -> step_spec st t start st').
  { intros ps tt stt E Hd Q. inversion Q; subst.
    apply scan_string_spec in E. destruct E as [[m [Hm Hp]] [Ht Hs]].
    apply (StepSpec _ _ _ _ ws (c :: m)); cbn.
    - rewrite Hws, Hm. reflexivity.
    - reflexivity.
    - leaf_pos.
    - intros _; discriminate.
    - intros Q'; rewrite Q' in Ht; discriminate.
    - intros D. eapply parens_step_depth; [exact Hs|apply Hd; exact D].
    - intros Q'; rewrite Q' in Ht; discriminate. }
  cbv zeta in H.
  destruct (is_alpha c).
  { destruct (span_ident r) as [l r'] eqn:E.
    destruct (span_ident_consumes _ _ _ 0 E) as [m [[Hm _] Hc]].
    eapply (Hleaf _ _ _ _ _ m H); [apply identifier_type_not_eof | intros _; congruence | exact Hm | subst l; unfold clen; lia | intros D; exact D]. }
  destruct (is_digit_chr c).
  { destruct (number_tail r) as [l r'] eqn:E.
    destruct (number_tail_consumes _ _ _ 0 E) as [m [[Hm _] Hc]].
    eapply (Hleaf _ _ _ _ _ m H); [discriminate | intros _; congruence | exact Hm | subst l; unfold clen; lia | intros D; exact D]. }
  assert (Herr : (mkToken TError line (unexpected_msg c), start0,
                  mkS r (start0 + length c) line (s_parens st)) = (t, start, st') ->
                 step_spec st t start st').
  { intros Q. eapply (Hleaf _ _ _ _ _ [] Q); [discriminate|discriminate|reflexivity|leaf_pos|intros D; exact D]. }
  destruct c as [|b [|b2 tl]]; [exact (Herr H)| |exact (Herr H)].
  destruct (s_parens st) as [|pn ps] eqn:Eps.
  all: repeat (match type of H with
          | (if ?x then _ else _) = _ => destruct x eqn:?
          | (let '(_, _) := match_chr ?a ?b in _) = _ => destruct (match_chr a b) as [? ?] eqn:?
          | (match match_chr ?a ?b with _ => _ end) = _ => destruct (match_chr a b) as [[|] ?] eqn:?
          | (let '(_, _) := scan_string ?a ?b ?c ?d in _) = _ =>
            destruct (scan_string a b c d) as [? ?] eqn:?
          end);
  repeat match goal with E : match_chr _ _ = _ |- _ => apply match_chr_eq in E end;
  repeat match goal with x : bool |- _ => destruct x end;
  try (exact (Herr H));
  try (match goal with E : scan_string _ _ _ _ = _ |- _ =>
         eapply (Hstr _ _ _ E); [|exact H]; unfold depth_ok; intros D; cbn in *; lia end);
  try (eapply (Hleaf _ _ _ _ _ [] H); [discriminate|intros _; reflexivity|reflexivity|leaf_pos|intros D; cbn in *; lia]);
  try (match goal with E : _ = ?n ++ ?r' |- _ =>
         eapply (Hleaf _ _ _ _ _ n H); [discriminate|intros _; reflexivity|exact E|leaf_pos|intros D; exact D] end);
  try (match goal with E1 : _ = ?n1 ++ ?r1, E2 : ?r1 = ?n2 ++ ?r2 |- _ =>
         eapply (Hleaf _ _ _ _ _ (n1 ++ n2) H);
         [discriminate|intros _; reflexivity|rewrite <- app_assoc, <- E2; exact E1|leaf_pos|intros D; exact D] end).
Qed.

Lemma scan_token_spec : forall st t st',
  scan_token st = (t, st') -> exists start, step_spec st t start st'.
Proof.
  intros st t st' H. unfold scan_token in H.
  destruct (scan_token_start st) as [[t0 start] st0] eqn:E. inversion H; subst.
  exists start. apply scan_token_start_spec. exact E.
Qed.

(* ------------------------------------------------------------------ *)
(* scan_progress                                                        *)
(* ------------------------------------------------------------------ *)
Definition nonempty_chars (cs : list chr) : Prop := Forall (fun c => c <> []) cs.

Lemma clen_pos : forall m, nonempty_chars m -> m <> [] -> 0 < clen m.
Proof.
  intros m F N. destruct m as [|c m]; [contradiction|]. inversion F; subst.
  rewrite clen_cons. destruct c; [contradiction|cbn; lia].
Qed.

(* One step never moves backwards, accounts exactly for the bytes it consumes, and a non-Eof token
   consumes at least one character (hence at least one byte when characters are non-empty). *)
Theorem scan_progress : forall st t st',
  scan_token st = (t, st') ->
  s_pos st <= s_pos st' /\
  s_pos st' + clen (s_rest st') = s_pos st + clen (s_rest st) /\
  (tk t <> TEof -> length (s_rest st') < length (s_rest st)) /\
  (tk t <> TEof -> nonempty_chars (s_rest st) -> s_pos st < s_pos st') /\
  (tk t = TEof -> s_rest st' = []).
Proof.
  intros st t st' H. destruct (scan_token_spec _ _ _ H) as [start [ws m Hr Hs Hp Hn He _ _]].
  repeat split.
  - lia.
  - rewrite Hr, !clen_app. lia.
  - intros Q. apply Hn in Q. rewrite Hr, !app_length. destruct m; [contradiction|cbn; lia].
  - intros Q F. apply Hn in Q. rewrite Hr in F. apply Forall_app in F. destruct F as [_ F].
    apply Forall_app in F. destruct F as [F _]. pose proof (clen_pos m F Q). lia.
  - intros Q. apply He in Q. tauto.
Qed.
Print Assumptions scan_progress.

Example scan_progress_ex :
  scan_token (init_sstate (bs "var x")) =
  (mkToken TVar 1 (bs "var"), mkS [[" "%byte]; ["x"%byte]] 3 1 []).
Proof. reflexivity. Qed.

(* Eof is absorbing: a step that returned Eof leaves a state in which every further step returns
   Eof and changes nothing. *)
Lemma scan_at_end : forall st, s_rest st = [] ->
  scan_token st = (mkToken TEof (s_line st) [], st).
Proof. intros [r p l ps] H. cbn in H. subst r. reflexivity. Qed.

Theorem scan_eof_absorbing : forall st t st',
  scan_token st = (t, st') -> tk t = TEof ->
  scan_token st' = (mkToken TEof (s_line st') [], st').
Proof.
  intros st t st' H Q. apply scan_at_end. apply (scan_progress _ _ _ H). exact Q.
Qed.
Print Assumptions scan_eof_absorbing.

(* ------------------------------------------------------------------ *)
(* scan_all: fuel suffices, the list ends with the only Eof, is short   *)
(* ------------------------------------------------------------------ *)
Lemma scan_loop_spec : forall fuel st, length (s_rest st) < fuel ->
  exists l t, scan_loop fuel st = l ++ [t] /\ tk t = TEof /\
              Forall (fun x => tk x <> TEof) l /\ length l <= length (s_rest st).
Proof.
  induction fuel as [|f IH]; intros st Hf; [lia|].
  cbn [scan_loop]. destruct (scan_token st) as [t st'] eqn:E.
  pose proof (scan_progress _ _ _ E) as [_ [_ [Hlt _]]].
  assert (D : tk t = TEof \/ tk t <> TEof) by (destruct (tk t); auto; right; discriminate).
  destruct D as [Ek|Hne].
  - exists [], t.
    assert (R : match tk t with TEof => [t] | _ => t :: scan_loop f st' end = [t])
      by (rewrite Ek; reflexivity).
    rewrite R. split; [reflexivity|split; [exact Ek|split; [constructor|cbn; lia]]].
  - specialize (Hlt Hne).
    destruct (IH st') as [l [t' [Hl [Ht' [Fl Ll]]]]]; [lia|].
    exists (t :: l), t'.
    assert (R : match tk t with TEof => [t] | _ => t :: scan_loop f st' end = t :: scan_loop f st')
      by (destruct (tk t); try reflexivity; contradiction).
    rewrite R, Hl. split; [reflexivity|split; [exact Ht'|split; [constructor; [exact Hne|exact Fl]|cbn; lia]]].
Qed.

Lemma chars_of_length : forall l, length (chars_of l) <= length l.
Proof.
  induction l as [|b r IH]; [cbn; lia|]. cbn [chars_of].
  destruct (chars_of r) as [|c cs]; [cbn; lia|].
  destruct (starts_with_cont c); cbn in *; lia.
Qed.

Theorem scan_all_spec : forall src,
  exists l t, scan_all src = l ++ [t] /\ tk t = TEof /\
              Forall (fun x => tk x <> TEof) l /\ length l <= length src.
Proof.
  intros src. unfold scan_all.
  destruct (scan_loop_spec (length src + 2) (init_sstate src)) as [l [t [H1 [H2 [H3 H4]]]]].
  - cbn. pose proof (chars_of_length src). lia.
  - exists l, t. split; [exact H1|split; [exact H2|split; [exact H3|]]].
    cbn in H4. pose proof (chars_of_length src). lia.
Qed.

(* the token list is finite and short *)
Theorem scan_all_length : forall src, length (scan_all src) <= length src + 1.
Proof.
  intros src. destruct (scan_all_spec src) as [l [t [H [_ [_ L]]]]].
  rewrite H, app_length. cbn. lia.
Qed.
Print Assumptions scan_all_length.
Print Assumptions scan_all_spec.

(* ------------------------------------------------------------------ *)
(* chars_of                                                             *)
(* ------------------------------------------------------------------ *)
Lemma chars_of_cons : forall b r,
  chars_of (b :: r) =
  match chars_of r with
  | [] => [[b]]
  | c :: cs => if starts_with_cont c then (b :: c) :: cs else [b] :: c :: cs
  end.
Proof. reflexivity. Qed.

Lemma chars_of_concat_id : forall l, concat (chars_of l) = l.
Proof.
  induction l as [|b r IH]; [reflexivity|]. rewrite chars_of_cons.
  destruct (chars_of r) as [|c cs]; [cbn in *; congruence|].
  destruct (starts_with_cont c); cbn in *; congruence.
Qed.

Lemma chars_of_nonempty : forall l, nonempty_chars (chars_of l).
Proof.
  induction l as [|b r IH]; [constructor|]. rewrite chars_of_cons.
  destruct (chars_of r) as [|c cs]; [repeat constructor; discriminate|].
  inversion IH; subst.
  destruct (starts_with_cont c); repeat constructor; try discriminate; assumption.
Qed.

(* the first character starts with the first byte *)
Lemma chars_of_head : forall b r, exists t cs, chars_of (b :: r) = (b :: t) :: cs.
Proof.
  intros b r. rewrite chars_of_cons. destruct (chars_of r) as [|c cs]; [exists [], []; reflexivity|].
  destruct (starts_with_cont c); [exists c, cs|exists [], (c :: cs)]; reflexivity.
Qed.

(* every character but the first starts with a non-continuation byte *)
Lemma chars_of_tail_heads : forall l c cs, chars_of l = c :: cs ->
  Forall (fun x => starts_with_cont x = false) cs.
Proof.
  induction l as [|b r IH]; intros c cs H; [discriminate|]. rewrite chars_of_cons in H.
  destruct (chars_of r) as [|c' cs'] eqn:E.
  - inversion H; subst. constructor.
  - specialize (IH c' cs' eq_refl). destruct (starts_with_cont c') eqn:Ec; inversion H; subst.
    + exact IH.
    + constructor; assumption.
Qed.

Lemma nth_error_app_len : forall (A : Type) (a : list A) x r, nth_error (a ++ x :: r) (length a) = Some x.
Proof. intros A a x r. induction a; cbn; auto. Qed.

(* every split of chars_of src is at a char boundary of src (for ALL byte strings) *)
Lemma chars_of_boundary : forall src pre rest,
  chars_of src = pre ++ rest -> is_char_boundary src (clen pre) = true.
Proof.
  intros src pre rest H. destruct pre as [|p0 pre'].
  { apply boundary_zero. }
  destruct rest as [|c rest'].
  { rewrite app_nil_r in H. unfold clen. rewrite <- H, chars_of_concat_id. apply boundary_len. }
  pose proof (chars_of_tail_heads _ _ _ H) as F.
  apply Forall_app in F. destruct F as [_ F]. inversion F as [|? ? Hc _]; subst.
  pose proof (chars_of_nonempty src) as NE. rewrite H in NE.
  apply Forall_app in NE. destruct NE as [NE1 NE2]. inversion NE2 as [|? ? Hne _]; subst.
  destruct c as [|x t]; [contradiction|]. cbn in Hc.
  assert (Hs : src = concat (p0 :: pre') ++ x :: (t ++ concat rest')).
  { rewrite <- (chars_of_concat_id src), H, concat_app. cbn [concat]. rewrite <- !app_assoc. reflexivity. }
  unfold clen. unfold is_char_boundary.
  destruct (length (concat (p0 :: pre'))) eqn:EL; [reflexivity|].
  rewrite <- EL. rewrite Hs at 1. rewrite nth_error_app_len. rewrite Hc. reflexivity.
Qed.

(* ------------------------------------------------------------------ *)
(* reachable scanner states                                             *)
(* ------------------------------------------------------------------ *)
Inductive reachable (src : list byte) : sstate -> Prop :=
| reach_init : reachable src (init_sstate src)
| reach_step : forall st t st', reachable src st -> scan_token st = (t, st') -> reachable src st'.

Definition inv (src : list byte) (st : sstate) : Prop :=
  (exists pre, chars_of src = pre ++ s_rest st /\ s_pos st = clen pre) /\ depth_ok st.

Lemma reachable_inv : forall src st, reachable src st -> inv src st.
Proof.
  intros src st R. induction R as [|st t st' R IH H].
  - split; [exists []; split; reflexivity|unfold depth_ok; cbn; unfold INTERPOLATION_DEPTH_MAX; lia].
  - destruct IH as [[pre [Hc Hp]] Hd].
    destruct (scan_token_spec _ _ _ H) as [start [ws m Hr Hs Hp' _ _ Hd' _]].
    split; [|apply Hd'; exact Hd].
    exists (pre ++ ws ++ m). split.
    + rewrite Hc, Hr, <- !app_assoc. reflexivity.
    + rewrite !clen_app. lia.
Qed.

(* current <= source.len() *)
Theorem scan_pos_le_length : forall src st, reachable src st -> s_pos st <= length src.
Proof.
  intros src st R. destruct (reachable_inv _ _ R) as [[pre [Hc Hp]] _].
  rewrite <- (chars_of_concat_id src) at 1. rewrite Hc, concat_app, app_length. unfold clen in Hp. lia.
Qed.
Print Assumptions scan_pos_le_length.

(* the interpolation stack never exceeds INTERPOLATION_DEPTH_MAX *)
Theorem interp_depth_bounded : forall src st,
  reachable src st -> length (s_parens st) <= INTERPOLATION_DEPTH_MAX.
Proof. intros src st R. apply (reachable_inv _ _ R). Qed.
Print Assumptions interp_depth_bounded.

(* the bound is reached *)
Fixpoint nsteps (n : nat) (st : sstate) : sstate :=
  match n with O => st | S k => nsteps k (snd (scan_token st)) end.
Lemma reachable_nsteps : forall src n st, reachable src st -> reachable src (nsteps n st).
Proof.
  intros src n. induction n as [|k IH]; intros st R; [exact R|]. cbn [nsteps]. apply IH.
  destruct (scan_token st) as [t st'] eqn:E. eapply reach_step; [exact R|exact E].
Qed.
Example interp_depth_reached :
  exists st, reachable (bs """${""${""${""${""${""${""${""${") st /\ length (s_parens st) = 8.
Proof.
  exists (nsteps 8 (init_sstate (bs """${""${""${""${""${""${""${""${"))). split.
  - apply reachable_nsteps. apply reach_init.
  - vm_compute. reflexivity.
Qed.

(* ------------------------------------------------------------------ *)
(* slicing                                                              *)
(* ------------------------------------------------------------------ *)
(* &source[a..b]: None where Rust would panic *)
Definition slice (s : list byte) (a b : nat) : option (list byte) :=
  if Nat.leb a b && Nat.leb b (length s) && is_char_boundary s a && is_char_boundary s b
  then Some (firstn (b - a) (skipn a s)) else None.

Lemma firstn_skipn_mid : forall (A : Type) (a m r : list A),
  firstn (length m) (skipn (length a) (a ++ m ++ r)) = m.
Proof.
  intros A a m r. rewrite skipn_app, skipn_all, Nat.sub_diag. cbn [skipn app].
  rewrite firstn_app, firstn_all, Nat.sub_diag. cbn. apply app_nil_r.
Qed.

(* The slice `source[start..current]` taken by make_token exists for every token (both ends are
   char boundaries and in range) and is the token's source for every token kind that is built by
   make_token.  Holds for every byte string; for Rust only valid UTF-8 strings exist. *)
Theorem scan_no_bad_slice : forall src st t start st',
  reachable src st ->
  scan_token_start st = (t, start, st') ->
  exists lex, slice src start (s_pos st') = Some lex /\
              (lexeme_token (tk t) = true -> tsource t = lex).
Proof.
  intros src st t start st' R H.
  destruct (reachable_inv _ _ R) as [[pre [Hc Hp]] _].
  destruct (scan_token_start_spec _ _ _ _ H) as [ws m Hr Hs Hp' _ _ _ Hlex].
  exists (concat m). split; [|exact Hlex].
  assert (H1 : chars_of src = (pre ++ ws) ++ (m ++ s_rest st')) by (rewrite Hc, Hr, <- app_assoc; reflexivity).
  assert (H2 : chars_of src = (pre ++ ws ++ m) ++ s_rest st') by (rewrite Hc, Hr, <- !app_assoc; reflexivity).
  pose proof (chars_of_boundary _ _ _ H1) as B1. pose proof (chars_of_boundary _ _ _ H2) as B2.
  assert (E1 : start = clen (pre ++ ws)) by (rewrite clen_app; lia).
  assert (E2 : s_pos st' = clen (pre ++ ws ++ m)) by (rewrite !clen_app; lia).
  assert (Hsrc : src = concat (pre ++ ws) ++ concat m ++ concat (s_rest st')).
  { rewrite <- (chars_of_concat_id src) at 1. rewrite H1, !concat_app. reflexivity. }
  unfold slice. rewrite E2, E1, B1, B2.
  assert (L1 : Nat.leb (clen (pre ++ ws)) (clen (pre ++ ws ++ m)) = true)
    by (apply Nat.leb_le; rewrite !clen_app; lia).
  assert (L2 : Nat.leb (clen (pre ++ ws ++ m)) (length src) = true).
  { apply Nat.leb_le. rewrite Hsrc. rewrite !app_length, !clen_app. unfold clen. rewrite concat_app, app_length. lia. }
  rewrite L1, L2. cbn [andb]. f_equal.
  replace (clen (pre ++ ws ++ m) - clen (pre ++ ws)) with (length (concat m))
    by (rewrite !clen_app; unfold clen; lia).
  unfold clen. rewrite Hsrc at 1. apply firstn_skipn_mid.
Qed.
Print Assumptions scan_no_bad_slice.


(* ------------------------------------------------------------------ *)
(* numbers: the character-level `number` is NumLex.lex_number           *)
(* ------------------------------------------------------------------ *)
Lemma ascii_next_char : forall b r, (bN b < 128)%N -> next_char (b :: r) = Some (bN b, r).
Proof.
  intros b r H. unfold next_char, char_width. apply N.ltb_lt in H. rewrite H. reflexivity.
Qed.

Lemma ascii_valid_tail : forall b r, (bN b < 128)%N -> valid_utf8 (b :: r) = true -> valid_utf8 r = true.
Proof.
  intros b r H V. unfold valid_utf8 in *. rewrite (decode_step _ _ _ (ascii_next_char b r H)) in V.
  destruct (decode r); [reflexivity|discriminate].
Qed.

Lemma chars_of_cons_head_ok : forall b r, head_ok r = true -> chars_of (b :: r) = [b] :: chars_of r.
Proof.
  intros b r H. rewrite chars_of_cons. destruct r as [|x r']; [reflexivity|].
  destruct (chars_of_head x r') as [t [cs E]]. rewrite E. cbn in H. cbn.
  destruct (is_cont x); [discriminate|reflexivity].
Qed.

Lemma chars_of_ascii_cons : forall b r, (bN b < 128)%N -> valid_utf8 (b :: r) = true ->
  chars_of (b :: r) = [b] :: chars_of r /\ valid_utf8 r = true.
Proof.
  intros b r H V. pose proof (ascii_valid_tail b r H V) as V'. split; [|exact V'].
  apply chars_of_cons_head_ok. apply valid_head_ok. exact V'.
Qed.

Lemma is_digit_ascii : forall b, is_digit b = true -> (bN b < 128)%N.
Proof.
  intros b H. unfold is_digit in H. apply andb_prop in H. destruct H as [_ H].
  apply N.leb_le in H. unfold bN. lia.
Qed.

Lemma span_digit_chrs_chars_of : forall r, valid_utf8 r = true ->
  span_digit_chrs (chars_of r) = (fst (span_digits r), chars_of (snd (span_digits r))).
Proof.
  induction r as [|b r IH]; intros V; [reflexivity|].
  cbn [span_digits]. destruct (is_digit b) eqn:D.
  - destruct (chars_of_ascii_cons b r (is_digit_ascii b D) V) as [E V']. rewrite E.
    cbn [span_digit_chrs]. rewrite D, (IH V'). destruct (span_digits r). reflexivity.
  - cbn [fst snd]. destruct (chars_of_head b r) as [t [cs E]]. rewrite E.
    destruct t; cbn [span_digit_chrs]; [rewrite D|]; reflexivity.
Qed.

Lemma dot_ascii : (bN "."%byte < 128)%N. Proof. reflexivity. Qed.

Lemma number_tail_lex : forall c r0, is_digit c = true -> valid_utf8 (c :: r0) = true ->
  number_tail (chars_of r0) =
  (tl (fst (lex_number (c :: r0))), chars_of (snd (lex_number (c :: r0)))).
Proof.
  intros c r0 D V. destruct (chars_of_ascii_cons c r0 (is_digit_ascii c D) V) as [_ V0].
  unfold number_tail, lex_number. rewrite (span_digit_chrs_chars_of r0 V0).
  destruct (span_digits r0) as [ip r1] eqn:E1. cbn [fst snd].
  assert (V1 : valid_utf8 r1 = true).
  { clear -E1 V0. revert ip r1 E1 V0. induction r0 as [|b r IH]; intros ip r1 E V; cbn [span_digits] in E.
    - inversion E; subst. exact V.
    - destruct (is_digit b) eqn:D.
      + destruct (span_digits r) as [d' r'] eqn:E'. inversion E; subst.
        apply (IH d' r1 eq_refl). apply (ascii_valid_tail b r (is_digit_ascii b D) V).
      + inversion E; subst. exact V. }
  destruct r1 as [|x r1']; [reflexivity|].
  destruct (Byte.eqb x ".") eqn:Ex.
  - apply Byte.byte_dec_bl in Ex. subst x.
    destruct (chars_of_ascii_cons _ r1' dot_ascii V1) as [Ed V2]. rewrite Ed.
    destruct r1' as [|d r2]; [reflexivity|].
    destruct (is_digit d) eqn:Dd.
    + destruct (chars_of_ascii_cons d r2 (is_digit_ascii d Dd) V2) as [Ed2 V3]. rewrite Ed2.
      cbn [chr_is is_digit_chr]. rewrite Dd.
      change (Byte.eqb "." ".") with true. cbn [andb].
      unfold chr in *. rewrite <- Ed2. rewrite (span_digit_chrs_chars_of (d :: r2) V2).
      destruct (span_digits (d :: r2)) as [fp r3]. reflexivity.
    + destruct (chars_of_head d r2) as [t [cs E]]. rewrite E.
      assert (Q : is_digit_chr (d :: t) = false) by (destruct t; cbn; [exact Dd|reflexivity]).
      rewrite Q, andb_false_r. rewrite <- E, <- Ed. reflexivity.
  - destruct (chars_of_head x r1') as [t [cs E]]. rewrite E.
    assert (Q : chr_is (x :: t) "." = false) by (destruct t; cbn; [exact Ex|reflexivity]).
    assert (R : (let '(ip0, r2) := (ip, x :: r1') in
                 match r2 with
                 | "."%byte :: d :: r3 =>
                   if is_digit d then let '(fp, r4) := span_digits (d :: r3) in (c :: ip0 ++ "."%byte :: fp, r4)
                   else (c :: ip0, r2)
                 | _ => (c :: ip0, r2)
                 end) = (c :: ip, x :: r1')).
    { cbv beta iota zeta. destruct x; try reflexivity. discriminate Ex. }
    rewrite R. cbn [fst snd tl]. rewrite <- E.
    destruct cs as [|n cs']; [rewrite E; reflexivity|]. rewrite Q. cbn [andb]. rewrite E. reflexivity.
Qed.

(* scan_token on input that starts with a digit returns exactly NumLex.lex_number's lexeme and
   continues with the rest *)
Theorem scan_number_is_lex_number : forall l pos line parens,
  valid_utf8 l = true -> starts_number l = true ->
  scan_token (mkS (chars_of l) pos line parens) =
  (mkToken TNumber line (fst (lex_number l)),
   mkS (chars_of (snd (lex_number l))) (pos + length (fst (lex_number l))) line parens).
Proof.
  intros l pos line parens V S. destruct l as [|c r0]; [discriminate|]. cbn in S.
  destruct (chars_of_ascii_cons c r0 (is_digit_ascii c S) V) as [E V0].
  pose proof (number_tail_lex c r0 S V) as NT.
  assert (HL : fst (lex_number (c :: r0)) = c :: tl (fst (lex_number (c :: r0)))).
  { unfold lex_number. destruct (span_digits r0) as [ip r1].
    destruct r1 as [|x r1']; [reflexivity|].
    destruct x; try reflexivity.
    destruct r1' as [|d r2]; [reflexivity|].
    destruct (is_digit d); [|reflexivity].
    destruct (span_digits (d :: r2)); reflexivity. }
  rewrite E. unfold scan_token, scan_token_start. cbn [s_rest s_pos s_line s_parens].
  assert (WS : skip_ws false ([c] :: chars_of r0) pos line = ([c] :: chars_of r0, pos, line)).
  { cbn [skip_ws chr_is]. unfold is_digit in S.
    destruct c; try discriminate S; reflexivity. }
  rewrite WS. cbv zeta.
  assert (A : is_alpha [c] = false) by (unfold is_digit in S; destruct c; try discriminate S; reflexivity).
  remember (tl (fst (lex_number (c :: r0)))) as tlx eqn:Etl.
  rewrite A. cbn [is_digit_chr]. rewrite S, NT, HL. cbn [app length].
  f_equal. f_equal. lia.
Qed.
Print Assumptions scan_number_is_lex_number.

Example scan_number_ex :
  scan_token (init_sstate (bs "12.50.x")) =
  (mkToken TNumber 1 (bs "12.50"), mkS [["."%byte]; ["x"%byte]] 5 1 []).
Proof. reflexivity. Qed.
