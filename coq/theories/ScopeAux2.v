(* C06 - stage 1: auxiliary facts about the pure compiler of the fragment expr3 / bstmt3 / stmt3. *)
From Coq Require Import List Arith Bool String ZArith NArith Lia.
From YV Require Import Show Upvalues Cells ScopeLang ScopeComp ScopeSim ScopeDefs2 ScopeComp2.
Import ListNotations.
Import Gen.
Open Scope nat_scope.

Section Aux.
Variable cf : cfg.

(* at script level there is no enclosing function: bexpr with no enclosing locals = cexpr2 *)
Lemma rvb_script : forall L U x, rvb cf L [] U x = match rv L x with Some r => Some (r, U, []) | None => None end.
Proof.
  intros L U x. unfold rvb, rv. destruct (resolve_local L x) as [[s [|]]|]; reflexivity.
Qed.

Lemma bexpr_script : forall e, expr3 e = true -> forall L U,
  bexpr cf L e U [] = match cexpr2 L e with Some ce => Some (ce, U, []) | None => None end.
Proof.
  induction e as [n|x|a IHa b IHb|f args| |vv k args]; intros He L U; cbn in He; try discriminate.
  - reflexivity.
  - cbn [bexpr cexpr2]. rewrite rvb_script. destruct (rv L x); reflexivity.
  - apply andb_prop in He as [Ha Hb]. cbn [bexpr cexpr2]. rewrite (IHa Ha). destruct (cexpr2 L a) as [ca|]; [|reflexivity].
    rewrite (IHb Hb). destruct (cexpr2 L b); reflexivity.
  - destruct args; [|discriminate]. cbn [bexpr cexpr2]. rewrite rvb_script. destruct (rv L f); reflexivity.
Qed.

Lemma cexpr2_uninit : forall x L e, expr3 e = true -> forall ce,
  cexpr2 (mkLocal (Some x) None false :: L) e = Some ce -> cexpr2 L e = Some ce.
Proof.
  intros x L e. induction e as [n|y|a IHa b IHb|f args| |vv k args]; intros He ce H; cbn in He; try discriminate; cbn [cexpr2] in *.
  - exact H.
  - unfold rv in *. cbn [resolve_local] in H. unfold name_is in H. cbn [l_name l_depth] in H.
    destruct (x =? y); [discriminate|exact H].
  - apply andb_prop in He as [Ha Hb].
    destruct (cexpr2 (mkLocal (Some x) None false :: L) a) as [ca|]; [|discriminate].
    destruct (cexpr2 (mkLocal (Some x) None false :: L) b) as [cb|]; [|discriminate].
    rewrite (IHa Ha _ eq_refl), (IHb Hb _ eq_refl). exact H.
  - destruct args; [|discriminate]. unfold rv in *. cbn [resolve_local] in H. unfold name_is in H. cbn [l_name l_depth] in H.
    destruct (x =? f); [discriminate|exact H].
Qed.

(* every upvalue entry points at a NAMED local of the enclosing function (never at slot 0) *)
Definition ups_named (U : ups_t) (Ls : list local) : Prop :=
  Forall (fun u => exists l, nth_error (rev Ls) (fst u) = Some l /\ l_name l <> None) U.

Lemma resolve_local_named : forall L x s b, resolve_local L x = Some (s, b) ->
  exists l, nth_error (rev L) s = Some l /\ l_name l = Some x.
Proof.
  induction L as [|l r IH]; intros x s b H; cbn in H; [discriminate|].
  destruct (name_is l x) eqn:E.
  - inversion H; subst. exists l. split.
    + cbn [rev]. rewrite nth_error_app2 by (rewrite rev_length; lia). rewrite rev_length, Nat.sub_diag. reflexivity.
    + unfold name_is in E. destruct (l_name l) as [y|]; [|discriminate]. apply Nat.eqb_eq in E. now subst.
  - destruct (IH _ _ _ H) as (l0 & E1 & E2). exists l0. split; [|exact E2].
    cbn [rev]. apply nth_error_app1 with (l' := [l]) in E1 || idtac.
    rewrite nth_error_app1; [exact E1|]. apply nth_error_Some. congruence.
Qed.

Lemma flags_up_rev_name : forall L L' s l, flags_up L L' -> nth_error (rev L) s = Some l ->
  exists l', nth_error (rev L') s = Some l' /\ l_name l' = l_name l.
Proof.
  intros L L' s l HF. revert s l.
  assert (HR : Forall2 (fun a b => l_name a = l_name b) (rev L) (rev L')).
  { induction HF as [|a b r r' (E1 & _) HF' IH]; cbn; [constructor|]. apply Forall2_app; [exact IH|constructor; [exact E1|constructor]]. }
  induction HR as [|a b r r' E HR' IH]; intros s l H; [destruct s; discriminate|].
  destruct s; cbn in *; [inversion H; subst; eauto|eauto].
Qed.

Lemma ups_named_flags : forall U L L', flags_up L L' -> ups_named U L -> ups_named U L'.
Proof.
  intros U L L' HF H. unfold ups_named in *. revert H. apply Forall_impl. intros u (l & E1 & E2).
  destruct (flags_up_rev_name _ _ _ _ HF E1) as (l' & E3 & E4). exists l'. split; [exact E3|congruence].
Qed.

Lemma mark_captured_flags_up : forall L s, flags_up L (mark_captured L s).
Proof.
  induction L as [|l r IH]; intros s; cbn [mark_captured]; [constructor|].
  destruct (List.length r =? s).
  - constructor; [cbn; repeat split; auto|apply flags_up_refl].
  - constructor; [repeat split; auto|apply IH].
Qed.

Lemma rvb_named : forall Lb Ls U x r U' Ls', rvb cf Lb Ls U x = Some (r, U', Ls') -> ups_named U Ls -> ups_named U' Ls'.
Proof.
  intros Lb Ls U x r U' Ls' H HU. unfold rvb in H.
  destruct (resolve_local Lb x) as [[s [|]]|]; try discriminate; [inversion H; subst; exact HU|].
  destruct (resolve_local Ls x) as [[slot [|]]|] eqn:E; try (inversion H; subst; exact HU).
  destruct (add_upvalue (c_upvalues_max cf) U slot true) as [[U1 k] ovf] eqn:Eu. destruct ovf; [discriminate|].
  inversion H; subst r U' Ls'. clear H.
  pose proof (mark_captured_flags_up Ls slot) as HF.
  assert (HU' : ups_named U (mark_captured Ls slot)) by (eapply ups_named_flags; eauto).
  unfold add_upvalue in Eu. destruct (find_up U slot true 0); [inversion Eu; subst; exact HU'|].
  destruct (List.length U =? c_upvalues_max cf); inversion Eu; subst.
  apply Forall_app. split; [exact HU'|]. constructor; [|constructor]. cbn [fst].
  destruct (resolve_local_named _ _ _ _ E) as (l & E1 & E2).
  destruct (flags_up_rev_name _ _ _ _ HF E1) as (l' & E3 & E4). exists l'. split; [exact E3|congruence].
Qed.

Lemma bexpr_named : forall e, expr3 e = true -> forall Lb U Ls ce U' Ls',
  bexpr cf Lb e U Ls = Some (ce, U', Ls') -> ups_named U Ls -> ups_named U' Ls'.
Proof.
  induction e as [n|x|a IHa b IHb|f args| |vv k args]; intros He Lb U Ls ce U' Ls' H HU; cbn in He; try discriminate; cbn [bexpr] in H.
  - inversion H; subst; exact HU.
  - destruct (rvb cf Lb Ls U x) as [[[r U1] Ls1]|] eqn:E; [|discriminate]. inversion H; subst. eapply rvb_named; eauto.
  - apply andb_prop in He as [Ha Hb].
    destruct (bexpr cf Lb a U Ls) as [[[ca U1] Ls1]|] eqn:Ea; [|discriminate].
    destruct (bexpr cf Lb b U1 Ls1) as [[[cb U2] Ls2]|] eqn:Eb; [|discriminate]. inversion H; subst.
    eapply IHb; eauto.
  - destruct args; [|discriminate].
    destruct (rvb cf Lb Ls U f) as [[[r U1] Ls1]|] eqn:E; [|discriminate]. inversion H; subst. eapply rvb_named; eauto.
Qed.

Lemma bstmt_named : forall s, bstmt3 s = true -> forall Lb d U Ls code Lb' U' Ls',
  bstmt cf s Lb d U Ls = Some (code, Lb', U', Ls') -> ups_named U Ls -> ups_named U' Ls'.
Proof.
  intros s Hs Lb d U Ls code Lb' U' Ls' H HU. destruct s; cbn in Hs; try discriminate; cbn [bstmt] in H.
  - destruct (rvb cf Lb Ls U x) as [[[r U0] Ls0]|] eqn:E; [|discriminate].
    destruct (bexpr cf Lb e U0 Ls0) as [[[ce U1] Ls1]|] eqn:Ee; [|discriminate]. inversion H; subst.
    eapply bexpr_named; eauto. eapply rvb_named; eauto.
  - destruct (bexpr cf Lb e U Ls) as [[[ce U1] Ls1]|] eqn:Ee; [|discriminate]. inversion H; subst. eapply bexpr_named; eauto.
  - destruct (bexpr cf Lb e U Ls) as [[[ce U1] Ls1]|] eqn:Ee; [|discriminate]. inversion H; subst. eapply bexpr_named; eauto.
  - destruct (bexpr cf Lb e U Ls) as [[[ce U1] Ls1]|] eqn:Ee; [|discriminate]. inversion H; subst. eapply bexpr_named; eauto.
Qed.

Lemma blist_named : forall b, forallb bstmt3 b = true -> forall Lb d U Ls code Lb' U' Ls',
  blist cf b Lb d U Ls = Some (code, Lb', U', Ls') -> ups_named U Ls -> ups_named U' Ls'.
Proof.
  induction b as [|a r IH]; intros Hb Lb d U Ls code Lb' U' Ls' H HU; cbn [blist] in H.
  - inversion H; subst; exact HU.
  - cbn in Hb. apply andb_prop in Hb as [Ha Hr].
    destruct (bstmt cf a Lb d U Ls) as [[[[ca Lb1] U1] Ls1]|] eqn:Ea; [|discriminate].
    destruct (blist cf r Lb1 d U1 Ls1) as [[[[cr Lb2] U2] Ls2]|] eqn:Er; [|discriminate]. inversion H; subst.
    eapply IH; eauto. eapply bstmt_named; eauto.
Qed.

Lemma cbody_named : forall ps b Ls code U Ls', forallb bstmt3 b = true -> cbody cf ps b Ls = Some (code, U, Ls') -> ups_named U Ls'.
Proof.
  intros ps b Ls code U Ls' Hb H. unfold cbody in H. destruct (bparams cf ps _) as [Lb0|]; [|discriminate].
  destruct (blist cf b Lb0 1 [] Ls) as [[[[c Lb'] U1] Ls1]|] eqn:E; [|discriminate]. inversion H; subst.
  eapply blist_named; eauto. constructor.
Qed.

(* ---- the same for the general fragment (arguments, declarations and blocks inside bodies) ---- *)
Lemma bexpr_named2 : forall e, expr2 e = true -> forall Lb U Ls ce U' Ls',
  bexpr cf Lb e U Ls = Some (ce, U', Ls') -> ups_named U Ls -> ups_named U' Ls'.
Proof.
  intros e He. pattern e. revert e He. apply expr2_ind.
  - intros n Lb U Ls ce U' Ls' H HU. cbn [bexpr] in H. inversion H; subst; exact HU.
  - intros x Lb U Ls ce U' Ls' H HU. cbn [bexpr] in H.
    destruct (rvb cf Lb Ls U x) as [[[r U1] Ls1]|] eqn:E; [|discriminate]. inversion H; subst. eapply rvb_named; eauto.
  - intros a b _ _ IHa IHb Lb U Ls ce U' Ls' H HU. cbn [bexpr] in H.
    destruct (bexpr cf Lb a U Ls) as [[[ca U1] Ls1]|] eqn:Ea; [|discriminate].
    destruct (bexpr cf Lb b U1 Ls1) as [[[cb U2] Ls2]|] eqn:Eb; [|discriminate]. inversion H; subst. eauto.
  - intros f args _ IH Lb U Ls ce U' Ls' H HU. rewrite bexpr_call in H.
    destruct (rvb cf Lb Ls U f) as [[[r U0] Ls0]|] eqn:E; [|discriminate].
    destruct (bargs cf Lb args U0 Ls0) as [[[cargs U3] Ls3]|] eqn:Eb; [|discriminate]. inversion H; subst.
    assert (HU0 : ups_named U0 Ls0) by (eapply rvb_named; eauto).
    clear H E r. revert U0 Ls0 cargs HU0 Eb. induction IH as [|a t Ha Hr IHr]; intros U0 Ls0 cargs HU0 Eb; cbn [bargs] in Eb.
    + inversion Eb; subst; exact HU0.
    + destruct (bexpr cf Lb a U0 Ls0) as [[[ca U1] Ls1]|] eqn:Ea; [|discriminate].
      destruct (bargs cf Lb t U1 Ls1) as [[[ct U2] Ls2]|] eqn:Et; [|discriminate]. inversion Eb; subst. eauto.
Qed.

Lemma blist_named_aux : forall b,
  Forall (fun s => forall Lb d U Ls code Lb' U' Ls', bstmt cf s Lb d U Ls = Some (code, Lb', U', Ls') -> ups_named U Ls -> ups_named U' Ls') b ->
  forall Lb d U Ls code Lb' U' Ls', blist cf b Lb d U Ls = Some (code, Lb', U', Ls') -> ups_named U Ls -> ups_named U' Ls'.
Proof.
  intros b H. induction H as [|a r Ha Hr IH]; intros Lb d U Ls code Lb' U' Ls' E HU; cbn [blist] in E.
  - inversion E; subst; exact HU.
  - destruct (bstmt cf a Lb d U Ls) as [[[[ca Lb1] U1] Ls1]|] eqn:Ea; [|discriminate].
    destruct (blist cf r Lb1 d U1 Ls1) as [[[[cr Lb2] U2] Ls2]|] eqn:Er; [|discriminate]. inversion E; subst.
    eapply IH; eauto.
Qed.

Lemma bstmt_named2 : forall s, bstmt2 s = true -> forall Lb d U Ls code Lb' U' Ls',
  bstmt cf s Lb d U Ls = Some (code, Lb', U', Ls') -> ups_named U Ls -> ups_named U' Ls'.
Proof.
  intros s Hs. pattern s. revert s Hs. apply bstmt2_ind.
  - intros x e He Lb d U Ls code Lb' U' Ls' H HU. cbn [bstmt] in H.
    destruct (dup_in_scope Lb x d); [discriminate|]. destruct (List.length Lb =? c_locals_max cf); [discriminate|].
    destruct (bexpr cf _ e U Ls) as [[[ce U1] Ls1]|] eqn:Ee; [|discriminate]. inversion H; subst. eapply bexpr_named2; eauto.
  - intros x e He Lb d U Ls code Lb' U' Ls' H HU. cbn [bstmt] in H.
    destruct (rvb cf Lb Ls U x) as [[[r U0] Ls0]|] eqn:E; [|discriminate].
    destruct (bexpr cf Lb e U0 Ls0) as [[[ce U1] Ls1]|] eqn:Ee; [|discriminate]. inversion H; subst.
    eapply bexpr_named2; eauto. eapply rvb_named; eauto.
  - intros e He Lb d U Ls code Lb' U' Ls' H HU. cbn [bstmt] in H.
    destruct (bexpr cf Lb e U Ls) as [[[ce U1] Ls1]|] eqn:Ee; [|discriminate]. inversion H; subst. eapply bexpr_named2; eauto.
  - intros e He Lb d U Ls code Lb' U' Ls' H HU. cbn [bstmt] in H.
    destruct (bexpr cf Lb e U Ls) as [[[ce U1] Ls1]|] eqn:Ee; [|discriminate]. inversion H; subst. eapply bexpr_named2; eauto.
  - intros e He Lb d U Ls code Lb' U' Ls' H HU. cbn [bstmt] in H.
    destruct (bexpr cf Lb e U Ls) as [[[ce U1] Ls1]|] eqn:Ee; [|discriminate]. inversion H; subst. eapply bexpr_named2; eauto.
  - intros b Hb IH Lb d U Ls code Lb' U' Ls' H HU. rewrite bstmt_block in H.
    destruct (blist cf b Lb (S d) U Ls) as [[[[cb Lb1] U1] Ls1]|] eqn:E; [|discriminate]. cbn zeta in H. inversion H; subst.
    eapply blist_named_aux; eauto.
Qed.

Lemma blist_named2 : forall b, forallb bstmt2 b = true -> forall Lb d U Ls code Lb' U' Ls',
  blist cf b Lb d U Ls = Some (code, Lb', U', Ls') -> ups_named U Ls -> ups_named U' Ls'.
Proof.
  induction b as [|a r IH]; intros Hb Lb d U Ls code Lb' U' Ls' H HU; cbn [blist] in H.
  - inversion H; subst; exact HU.
  - cbn in Hb. apply andb_prop in Hb as [Ha Hr].
    destruct (bstmt cf a Lb d U Ls) as [[[[ca Lb1] U1] Ls1]|] eqn:Ea; [|discriminate].
    destruct (blist cf r Lb1 d U1 Ls1) as [[[[cr Lb2] U2] Ls2]|] eqn:Er; [|discriminate]. inversion H; subst.
    eapply IH; eauto. eapply bstmt_named2; eauto.
Qed.

Lemma cbody_named2 : forall ps b Ls code U Ls', forallb bstmt2 b = true -> cbody cf ps b Ls = Some (code, U, Ls') -> ups_named U Ls'.
Proof.
  intros ps b Ls code U Ls' Hb H. unfold cbody in H. destruct (bparams cf ps _) as [Lb0|]; [|discriminate].
  destruct (blist cf b Lb0 1 [] Ls) as [[[[c Lb'] U1] Ls1]|] eqn:E; [|discriminate]. inversion H; subst.
  eapply blist_named2; eauto. constructor.
Qed.

Lemma bexpr_script2 : forall e, expr2 e = true -> forall L U,
  bexpr cf L e U [] = match cexpr2 L e with Some ce => Some (ce, U, []) | None => None end.
Proof.
  intros e He. pattern e. revert e He. apply expr2_ind.
  - reflexivity.
  - intros x L U. cbn [bexpr cexpr2]. rewrite rvb_script. destruct (rv L x); reflexivity.
  - intros a b _ _ IHa IHb L U. cbn [bexpr cexpr2]. rewrite IHa. destruct (cexpr2 L a) as [ca|]; [|reflexivity].
    rewrite IHb. destruct (cexpr2 L b); reflexivity.
  - intros f args _ IH L U. rewrite bexpr_call, cexpr2_call, rvb_script. destruct (rv L f) as [r|]; [|reflexivity].
    assert (G : forall U0, bargs cf L args U0 [] = match cargs2 L args with Some c => Some (c, U0, []) | None => None end).
    { induction IH as [|a t Ha Ht IHt]; intros U0; [reflexivity|]. cbn [bargs cargs2]. rewrite Ha.
      destruct (cexpr2 L a) as [ca|]; [|reflexivity]. rewrite IHt. destruct (cargs2 L t); reflexivity. }
    rewrite G. destruct (cargs2 L args); reflexivity.
Qed.

Lemma rv_uninit : forall x L y r, rv (mkLocal (Some x) None false :: L) y = Some r -> rv L y = Some r.
Proof.
  intros x L y r H. unfold rv in *. cbn [resolve_local] in H. unfold name_is in H. cbn [l_name l_depth] in H.
  destruct (x =? y); [discriminate|exact H].
Qed.

Lemma cexpr2_uninit2 : forall x e, expr2 e = true -> forall L ce,
  cexpr2 (mkLocal (Some x) None false :: L) e = Some ce -> cexpr2 L e = Some ce.
Proof.
  intros x e He. pattern e. revert e He. apply expr2_ind.
  - intros n L ce H. exact H.
  - intros y L ce H. cbn [cexpr2] in *. destruct (rv (mkLocal (Some x) None false :: L) y) as [r|] eqn:E; [|discriminate].
    now rewrite (rv_uninit _ _ _ _ E).
  - intros a b _ _ IHa IHb L ce H. cbn [cexpr2] in *.
    destruct (cexpr2 (mkLocal (Some x) None false :: L) a) as [ca|] eqn:Ea; [|discriminate].
    destruct (cexpr2 (mkLocal (Some x) None false :: L) b) as [cb|] eqn:Eb; [|discriminate].
    now rewrite (IHa _ _ Ea), (IHb _ _ Eb).
  - intros f args _ IH L ce H. rewrite cexpr2_call in *.
    destruct (rv (mkLocal (Some x) None false :: L) f) as [r|] eqn:E; [|discriminate]. rewrite (rv_uninit _ _ _ _ E).
    assert (G : forall q, cargs2 (mkLocal (Some x) None false :: L) args = Some q -> cargs2 L args = Some q).
    { clear H. induction IH as [|a t Ha Ht IHt]; intros q Hq; [exact Hq|]. cbn [cargs2] in *.
      destruct (cexpr2 (mkLocal (Some x) None false :: L) a) as [ca|] eqn:Ea; [|discriminate]. rewrite (Ha _ _ Ea).
      destruct (cargs2 (mkLocal (Some x) None false :: L) t) as [ct|] eqn:Et; [|discriminate]. now rewrite (IHt _ eq_refl). }
    destruct (cargs2 (mkLocal (Some x) None false :: L) args) as [ca|] eqn:Ec; [|discriminate]. now rewrite (G _ eq_refl).
Qed.

End Aux.
