(* C06 - stage 1 of compile_scope_correct (blocks + closures over block locals, one function level):
   the stateful compiler compile_scope (ScopeComp.v) equals the pure compiler of ScopeDefs2.v on the fragment
   expr2 / bstmt2 / stmt2, plus structural facts about the pure compiler (flags only rise, upvalue lists and
   the function table only grow, every upvalue entry points at a captured initialised script local, body
   locals are never captured).  PROOFS ONLY (two auxiliary list functions bargs / cargs2 name the local `fix`es
   of bexpr / cexpr2). *)
From Coq Require Import List Arith Bool String ZArith NArith Lia.
From YV Require Import Show Upvalues Cells ScopeLang ScopeComp ScopeSim ScopeDefs2.
Import ListNotations.
Import Gen.
Open Scope nat_scope.

(* ------------------------------------------------------------------------------------------ *)
(* Part 0: nested induction principles for the fragment *)

Lemma expr2_ind : forall P : expr -> Prop,
  (forall n, P (ELit n)) -> (forall x, P (EVar x)) ->
  (forall a b, expr2 a = true -> expr2 b = true -> P a -> P b -> P (EAdd a b)) ->
  (forall f args, forallb expr2 args = true -> Forall P args -> P (ECall f args)) ->
  forall e, expr2 e = true -> P e.
Proof.
  intros P Hl Hv Ha Hc. fix IH 1. intros e H. destruct e as [n|x|a b|f args| |v k args]; cbn in H; try discriminate.
  - apply Hl.
  - apply Hv.
  - apply andb_prop in H. destruct H as [H1 H2].
    apply Ha; [exact H1|exact H2|apply IH; exact H1|apply IH; exact H2].
  - apply Hc; [exact H|].
    refine ((fix go (l : list expr) : forallb expr2 l = true -> Forall P l :=
               match l with
               | [] => fun _ => Forall_nil P
               | a :: r => fun H0 => _
               end) args H).
    cbn in H0. apply andb_prop in H0. destruct H0 as [H1 H2].
    constructor; [apply IH; exact H1|apply go; exact H2].
Qed.

Lemma bstmt2_ind : forall P : stmt -> Prop,
  (forall x e, expr2 e = true -> P (SDecl x e)) -> (forall x e, expr2 e = true -> P (SAssign x e)) ->
  (forall e, expr2 e = true -> P (SPrint e)) -> (forall e, expr2 e = true -> P (SExpr e)) ->
  (forall e, expr2 e = true -> P (SReturn e)) ->
  (forall b, forallb bstmt2 b = true -> Forall P b -> P (SBlock b)) ->
  forall s, bstmt2 s = true -> P s.
Proof.
  intros P Hd Ha Hp He Hr Hb. fix IH 1. intros s H. destruct s; cbn in H; try discriminate.
  1: apply Hd; exact H. 1: apply Ha; exact H. 1: apply Hp; exact H. 1: apply He; exact H.
  2: apply Hr; exact H.
  apply Hb; [exact H|].
  refine ((fix go (l : list stmt) : forallb bstmt2 l = true -> Forall P l :=
             match l with
             | [] => fun _ => Forall_nil P
             | a :: r => fun H0 => _
             end) b H).
  cbn in H0. apply andb_prop in H0. destruct H0 as [H1 H2].
  constructor; [apply IH; exact H1|apply go; exact H2].
Qed.

Lemma stmt2_ind : forall P : stmt -> Prop,
  (forall x e, expr2 e = true -> P (SDecl x e)) -> (forall x e, expr2 e = true -> P (SAssign x e)) ->
  (forall e, expr2 e = true -> P (SPrint e)) -> (forall e, expr2 e = true -> P (SExpr e)) ->
  (forall b, forallb stmt2 b = true -> Forall P b -> P (SBlock b)) ->
  (forall f ps b, forallb bstmt2 b = true -> P (SFun f ps b)) ->
  (forall x ps b, forallb bstmt2 b = true -> existsb (s_mentions x) b = false -> P (SLam x ps b)) ->
  forall s, stmt2 s = true -> P s.
Proof.
  intros P Hd Ha Hp He Hb Hf Hl. fix IH 1. intros s H. destruct s; cbn in H; try discriminate.
  1: apply Hd; exact H. 1: apply Ha; exact H. 1: apply Hp; exact H. 1: apply He; exact H.
  2: apply Hf; exact H.
  2: { apply andb_prop in H. destruct H as [H1 H2]. apply Hl; [exact H1|]. now apply negb_true_iff in H2. }
  apply Hb; [exact H|].
  refine ((fix go (l : list stmt) : forallb stmt2 l = true -> Forall P l :=
             match l with
             | [] => fun _ => Forall_nil P
             | a :: r => fun H0 => _
             end) b H).
  cbn in H0. apply andb_prop in H0. destruct H0 as [H1 H2].
  constructor; [apply IH; exact H1|apply go; exact H2].
Qed.

(* ------------------------------------------------------------------------------------------ *)
(* Part 1: the error flag is sticky through the constructs of the fragment *)

Definition comp_args (cf : cfg) (l : list expr) (st : cst) : cst := fold_left (fun s a => comp_expr cf a s) l st.

Lemma comp_expr_call : forall cf f args st,
  comp_expr cf (ECall f args) st = emit (ICall (List.length args)) (comp_args cf args (named_get cf f st)).
Proof. reflexivity. Qed.

Lemma comp_args_cons : forall cf a r st, comp_args cf (a :: r) st = comp_args cf r (comp_expr cf a st).
Proof. reflexivity. Qed.

Lemma comp_stmt_fun : forall cf f ps b st,
  comp_stmt cf (SFun f ps b) st =
  define_variable f (finalise_function (comp_list cf b (open_function cf ps (mark_initialised (declare_variable cf f st))))).
Proof. reflexivity. Qed.

Lemma comp_stmt_lam : forall cf x ps b st,
  comp_stmt cf (SLam x ps b) st =
  define_variable x (finalise_function (comp_list cf b (open_function cf ps (declare_variable cf x st)))).
Proof. reflexivity. Qed.

Lemma errd_comp_args_aux : forall cf args,
  Forall (fun e => forall st, errd st -> errd (comp_expr cf e st)) args ->
  forall st, errd st -> errd (comp_args cf args st).
Proof.
  intros cf args H. induction H as [|a r Ha Hr IH]; intros st Hst; [exact Hst|].
  rewrite comp_args_cons. apply IH, Ha, Hst.
Qed.

Lemma errd_comp_expr2 : forall cf e, expr2 e = true -> forall st, errd st -> errd (comp_expr cf e st).
Proof.
  intros cf e He. pattern e. revert e He. apply expr2_ind.
  - intros n st H. cbn [comp_expr]. now apply errd_emit.
  - intros x st H. cbn [comp_expr]. now apply errd_named_get.
  - intros a b _ _ IHa IHb st H. cbn [comp_expr]. apply errd_emit, IHb, IHa, H.
  - intros f args _ IH st H. rewrite comp_expr_call. apply errd_emit.
    apply errd_comp_args_aux; [exact IH|]. now apply errd_named_get.
Qed.

Lemma errd_comp_args : forall cf args, forallb expr2 args = true ->
  forall st, errd st -> errd (comp_args cf args st).
Proof.
  intros cf args. induction args as [|a r IH]; intros Ha st H; [exact H|].
  cbn in Ha. apply andb_prop in Ha as [Ha Hr]. rewrite comp_args_cons. apply IH; [exact Hr|].
  now apply errd_comp_expr2.
Qed.

Lemma errd_comp_list_aux : forall cf b,
  Forall (fun s => forall st, errd st -> errd (comp_stmt cf s st)) b ->
  forall st, errd st -> errd (comp_list cf b st).
Proof.
  intros cf b H. induction H as [|a r Ha Hr IH]; intros st Hst; [exact Hst|].
  rewrite comp_list_cons. apply IH, Ha, Hst.
Qed.

(* statements of a closure body *)
Lemma errd_comp_stmt_b : forall cf s, bstmt2 s = true -> forall st, errd st -> errd (comp_stmt cf s st).
Proof.
  intros cf s Hs. pattern s. revert s Hs. apply bstmt2_ind.
  - intros x e He st H. cbn [comp_stmt]. apply errd_define_variable. apply errd_comp_expr2; [exact He|].
    apply errd_declare_variable; exact H.
  - intros x e He st H. cbn [comp_stmt]. pose proof (errd_resolve_variable cf x st H) as H1.
    destruct (resolve_variable cf x st) as [st1 r]. apply errd_emit, errd_emit. apply errd_comp_expr2; [exact He|exact H1].
  - intros e He st H. cbn [comp_stmt]. apply errd_emit, errd_emit. apply errd_comp_expr2; [exact He|]. apply errd_emit; exact H.
  - intros e He st H. cbn [comp_stmt]. apply errd_emit. apply errd_comp_expr2; [exact He|exact H].
  - intros e He st H. cbn [comp_stmt]. cbv zeta.
    assert (H0 : errd (if fc_script (top_of st) then fail st "Cannot return from top-level code." else st)).
    { destruct (fc_script (top_of st)); [apply errd_fail|exact H]. }
    pose proof (errd_comp_expr2 cf e He _ H0) as H1.
    destruct (fc_intry _); [apply errd_fail|now apply errd_emit].
  - intros b Hb IH st H. rewrite comp_stmt_block. apply errd_end_scope.
    apply errd_comp_list_aux; [exact IH|]. now apply errd_on_top.
Qed.

Lemma errd_comp_list_b : forall cf b, forallb bstmt2 b = true -> forall st, errd st -> errd (comp_list cf b st).
Proof.
  intros cf b. induction b as [|a r IH]; intros Hb st H; [exact H|].
  cbn in Hb. apply andb_prop in Hb as [Ha Hr]. rewrite comp_list_cons. apply IH; auto. now apply errd_comp_stmt_b.
Qed.

Lemma errd_finalise_function : forall st, errd st -> errd (finalise_function st).
Proof.
  intros st H. unfold finalise_function. cbv zeta.
  pose proof (errd_emits [INil; IReturn] st H) as H1.
  destruct (cs_comps (emits [INil; IReturn] st)) as [|c r]; [apply errd_fail|].
  apply errd_emit. exact H1.
Qed.

Definition param_step (cf : cfg) : cst -> name -> cst :=
  fun s p => define_variable p (declare_variable cf p (on_top (fun c => set_arity c (S (fc_arity c))) s)).

Lemma errd_params : forall cf ps st, errd st -> errd (fold_left (param_step cf) ps st).
Proof.
  intros cf ps. induction ps as [|p r IH]; intros st H; [exact H|].
  cbn [fold_left]. apply IH. unfold param_step. apply errd_define_variable, errd_declare_variable.
  now apply errd_on_top.
Qed.

Lemma open_function_params : forall cf ps st,
  open_function cf ps st =
  fold_left (param_step cf) ps (begin_scope (mkCst (new_fcomp false :: cs_comps st) (cs_funs st) (cs_err st))).
Proof. reflexivity. Qed.

Lemma errd_open_function : forall cf ps st, errd st -> errd (open_function cf ps st).
Proof.
  intros cf ps st H. rewrite open_function_params. apply errd_params. apply errd_on_top. exact H.
Qed.

(* script-level statements *)
Lemma errd_comp_stmt2 : forall cf s, stmt2 s = true -> forall st, errd st -> errd (comp_stmt cf s st).
Proof.
  intros cf s Hs. pattern s. revert s Hs. apply stmt2_ind.
  - intros x e He st H. cbn [comp_stmt]. apply errd_define_variable. apply errd_comp_expr2; [exact He|].
    apply errd_declare_variable; exact H.
  - intros x e He st H. cbn [comp_stmt]. pose proof (errd_resolve_variable cf x st H) as H1.
    destruct (resolve_variable cf x st) as [st1 r]. apply errd_emit, errd_emit. apply errd_comp_expr2; [exact He|exact H1].
  - intros e He st H. cbn [comp_stmt]. apply errd_emit, errd_emit. apply errd_comp_expr2; [exact He|]. apply errd_emit; exact H.
  - intros e He st H. cbn [comp_stmt]. apply errd_emit. apply errd_comp_expr2; [exact He|exact H].
  - intros b Hb IH st H. rewrite comp_stmt_block. apply errd_end_scope.
    apply errd_comp_list_aux; [exact IH|]. now apply errd_on_top.
  - intros f ps b Hb st H. rewrite comp_stmt_fun. apply errd_define_variable, errd_finalise_function.
    apply errd_comp_list_b; [exact Hb|]. apply errd_open_function, errd_mark_initialised, errd_declare_variable, H.
  - intros x ps b Hb _ st H. rewrite comp_stmt_lam. apply errd_define_variable, errd_finalise_function.
    apply errd_comp_list_b; [exact Hb|]. apply errd_open_function, errd_declare_variable, H.
Qed.

Lemma errd_comp_list2 : forall cf b, forallb stmt2 b = true -> forall st, errd st -> errd (comp_list cf b st).
Proof.
  intros cf b. induction b as [|a r IH]; intros Hb st H; [exact H|].
  cbn in Hb. apply andb_prop in Hb as [Ha Hr]. rewrite comp_list_cons. apply IH; auto. now apply errd_comp_stmt2.
Qed.

(* ------------------------------------------------------------------------------------------ *)
(* Part 2: body level - two compilers [body; script] on the stack *)

Lemma set_ups_id : forall c, set_ups c (fc_ups c) = c.
Proof. intros c. destruct c; reflexivity. Qed.
Lemma set_locals_id : forall c, set_locals c (fc_locals c) = c.
Proof. intros c. destruct c; reflexivity. Qed.

Lemma two_norm : forall cb cs fs,
  two cb cs fs = two (set_ups (with_code_locals cb (fc_code cb) (fc_locals cb)) (fc_ups cb)) (set_locals cs (fc_locals cs)) fs.
Proof. intros cb cs fs. destruct cb, cs; reflexivity. Qed.

Lemma emit_two : forall cb cs fs i,
  emit i (two cb cs fs) = two (with_code_locals cb (fc_code cb ++ [i]) (fc_locals cb)) cs fs.
Proof. reflexivity. Qed.

Lemma emits_two : forall l cb cs fs,
  emits l (two cb cs fs) = two (with_code_locals cb (fc_code cb ++ l) (fc_locals cb)) cs fs.
Proof.
  induction l as [|i r IH]; intros cb cs fs; cbn [emits].
  - rewrite app_nil_r. destruct cb; reflexivity.
  - rewrite emit_two, IH. cbn. now rewrite <- app_assoc.
Qed.

Lemma top_of_two : forall cb cs fs, top_of (two cb cs fs) = cb.
Proof. reflexivity. Qed.

Lemma resolve_variable_two : forall cf x cb cs fs,
  match rvb cf (fc_locals cb) (fc_locals cs) (fc_ups cb) x with
  | Some (r, U', Ls') => resolve_variable cf x (two cb cs fs) = (two (set_ups cb U') (set_locals cs Ls') fs, r)
  | None => errd (fst (resolve_variable cf x (two cb cs fs)))
  end.
Proof.
  intros cf x cb cs fs. unfold rvb, resolve_variable, two. cbn [cs_comps].
  destruct (resolve_local (fc_locals cb) x) as [[s [|]]|].
  - rewrite set_ups_id, set_locals_id. reflexivity.
  - cbn. apply errd_fail.
  - cbn [find_enclosing]. destruct (resolve_local (fc_locals cs) x) as [[slot [|]]|].
    + cbn [firstn nth skipn map chain_ups].
      destruct (add_upvalue (c_upvalues_max cf) (fc_ups cb) slot true) as [[U' k] ovf].
      cbn [put_ups app]. destruct ovf; cbn.
      * apply errd_fail.
      * reflexivity.
    + rewrite set_ups_id, set_locals_id. reflexivity.
    + rewrite set_ups_id, set_locals_id. reflexivity.
Qed.

(* the local `fix` of bexpr (arguments of a call) as a function of its own *)
Fixpoint bargs (cf : cfg) (Lb : list local) (l : list expr) (U : ups_t) (Ls : list local)
  : option (list instr * ups_t * list local) :=
  match l with
  | [] => Some ([], U, Ls)
  | a :: t => match bexpr cf Lb a U Ls with
              | Some (ca, U1, Ls1) =>
                  match bargs cf Lb t U1 Ls1 with
                  | Some (ct, U2, Ls2) => Some ((ca ++ ct)%list, U2, Ls2)
                  | None => None
                  end
              | None => None
              end
  end.

Lemma bexpr_call : forall cf Lb f args U Ls,
  bexpr cf Lb (ECall f args) U Ls =
  match rvb cf Lb Ls U f with
  | Some (r, U0, Ls0) =>
      match bargs cf Lb args U0 Ls0 with
      | Some (cargs, U3, Ls3) => Some ((get_op r f :: cargs ++ [ICall (List.length args)])%list, U3, Ls3)
      | None => None
      end
  | None => None
  end.
Proof.
  intros cf Lb f args U Ls. cbn [bexpr].
  destruct (rvb cf Lb Ls U f) as [[[r U0] Ls0]|]; [|reflexivity].
  match goal with |- match ?g args U0 Ls0 with _ => _ end = _ =>
    assert (E : forall l U1 Ls1, g l U1 Ls1 = bargs cf Lb l U1 Ls1) end.
  { induction l as [|a t IH]; intros U1 Ls1; [reflexivity|]. cbn [bargs].
    destruct (bexpr cf Lb a U1 Ls1) as [[[ca U2] Ls2]|]; [|reflexivity]. now rewrite IH. }
  now rewrite E.
Qed.

Definition body_expr_goal (cf : cfg) (e : expr) : Prop := forall cb cs fs,
  match bexpr cf (fc_locals cb) e (fc_ups cb) (fc_locals cs) with
  | Some (ce, U', Ls') => comp_expr cf e (two cb cs fs) =
       two (set_ups (with_code_locals cb (fc_code cb ++ ce) (fc_locals cb)) U') (set_locals cs Ls') fs
  | None => errd (comp_expr cf e (two cb cs fs))
  end.

Lemma comp_args_body_aux : forall cf args, Forall (body_expr_goal cf) args -> forallb expr2 args = true ->
  forall cb cs fs,
  match bargs cf (fc_locals cb) args (fc_ups cb) (fc_locals cs) with
  | Some (ca, U', Ls') => comp_args cf args (two cb cs fs) =
       two (set_ups (with_code_locals cb (fc_code cb ++ ca) (fc_locals cb)) U') (set_locals cs Ls') fs
  | None => errd (comp_args cf args (two cb cs fs))
  end.
Proof.
  intros cf args H. induction H as [|a r Ha Hr IH]; intros Hb cb cs fs.
  - cbn. rewrite app_nil_r. destruct cb, cs; reflexivity.
  - cbn in Hb. apply andb_prop in Hb as [Hb1 Hb2]. cbn [bargs]. rewrite comp_args_cons.
    specialize (Ha cb cs fs). destruct (bexpr cf (fc_locals cb) a (fc_ups cb) (fc_locals cs)) as [[[ca U1] Ls1]|].
    + rewrite Ha.
      specialize (IH Hb2 (set_ups (with_code_locals cb (fc_code cb ++ ca) (fc_locals cb)) U1) (set_locals cs Ls1) fs).
      cbn [fc_locals fc_ups fc_code set_ups set_locals with_code_locals] in IH.
      destruct (bargs cf (fc_locals cb) r U1 Ls1) as [[[ct U2] Ls2]|].
      * rewrite IH. cbn. now rewrite <- app_assoc.
      * exact IH.
    + apply (errd_comp_args cf r Hb2). exact Ha.
Qed.

Lemma comp_expr_body : forall cf e, expr2 e = true -> forall cb cs fs,
  match bexpr cf (fc_locals cb) e (fc_ups cb) (fc_locals cs) with
  | Some (ce, U', Ls') => comp_expr cf e (two cb cs fs) =
       two (set_ups (with_code_locals cb (fc_code cb ++ ce) (fc_locals cb)) U') (set_locals cs Ls') fs
  | None => errd (comp_expr cf e (two cb cs fs))
  end.
Proof.
  intros cf e He. change (body_expr_goal cf e). pattern e. revert e He. apply expr2_ind.
  - intros n cb cs fs. cbn [bexpr comp_expr]. rewrite emit_two. destruct cb, cs; reflexivity.
  - intros x cb cs fs. cbn [bexpr comp_expr]. unfold named_get.
    pose proof (resolve_variable_two cf x cb cs fs) as H.
    destruct (rvb cf (fc_locals cb) (fc_locals cs) (fc_ups cb) x) as [[[r U'] Ls']|].
    + rewrite H, emit_two. reflexivity.
    + destruct (resolve_variable cf x (two cb cs fs)) as [st1 r]. now apply errd_emit.
  - intros a b Ha Hb IHa IHb cb cs fs. cbn [bexpr comp_expr].
    specialize (IHa cb cs fs). destruct (bexpr cf (fc_locals cb) a (fc_ups cb) (fc_locals cs)) as [[[ca U1] Ls1]|].
    + rewrite IHa.
      specialize (IHb (set_ups (with_code_locals cb (fc_code cb ++ ca) (fc_locals cb)) U1) (set_locals cs Ls1) fs).
      cbn [fc_locals fc_ups fc_code set_ups set_locals with_code_locals] in IHb.
      destruct (bexpr cf (fc_locals cb) b U1 Ls1) as [[[cb0 U2] Ls2]|].
      * rewrite IHb, emit_two. cbn. now rewrite <- !app_assoc.
      * now apply errd_emit.
    + apply errd_emit. apply errd_comp_expr2; auto.
  - intros f args Hargs IH cb cs fs. rewrite bexpr_call, comp_expr_call. unfold named_get.
    pose proof (resolve_variable_two cf f cb cs fs) as H.
    destruct (rvb cf (fc_locals cb) (fc_locals cs) (fc_ups cb) f) as [[[r U0] Ls0]|].
    + rewrite H, emit_two.
      pose proof (comp_args_body_aux cf args IH Hargs
                    (with_code_locals (set_ups cb U0) (fc_code (set_ups cb U0) ++ [get_op r f]) (fc_locals (set_ups cb U0)))
                    (set_locals cs Ls0) fs) as Ha.
      cbn [fc_locals fc_ups fc_code set_ups set_locals with_code_locals] in Ha |- *.
      destruct (bargs cf (fc_locals cb) args U0 Ls0) as [[[ca U3] Ls3]|].
      * rewrite Ha, emit_two. cbn. now rewrite <- !app_assoc.
      * now apply errd_emit.
    + destruct (resolve_variable cf f (two cb cs fs)) as [st1 r]. apply errd_emit.
      apply errd_comp_args; [exact Hargs|]. now apply errd_emit.
Qed.

Lemma comp_args_body : forall cf args, forallb expr2 args = true -> forall cb cs fs,
  match bargs cf (fc_locals cb) args (fc_ups cb) (fc_locals cs) with
  | Some (ca, U', Ls') => comp_args cf args (two cb cs fs) =
       two (set_ups (with_code_locals cb (fc_code cb ++ ca) (fc_locals cb)) U') (set_locals cs Ls') fs
  | None => errd (comp_args cf args (two cb cs fs))
  end.
Proof.
  intros cf args Hb. apply comp_args_body_aux; [|exact Hb].
  induction args as [|a r IH]; constructor.
  - cbn in Hb. apply andb_prop in Hb as [Ha _]. intros cb cs fs. now apply comp_expr_body.
  - cbn in Hb. apply andb_prop in Hb as [_ Hr]. now apply IH.
Qed.

Lemma bstmt_block : forall cf b Lb d U Ls,
  bstmt cf (SBlock b) Lb d U Ls =
  match blist cf b Lb (S d) U Ls with
  | Some (cb, Lb', U', Ls') =>
      let ops := scope_end_ops Lb' d in Some ((cb ++ ops)%list, skipn (List.length ops) Lb', U', Ls')
  | None => None
  end.
Proof.
  intros cf b Lb d U Ls. cbn [bstmt].
  match goal with |- match ?g b Lb U Ls with _ => _ end = _ =>
    assert (E : forall l Lb1 U1 Ls1, g l Lb1 U1 Ls1 = blist cf l Lb1 (S d) U1 Ls1) end.
  { induction l as [|a r IH]; intros Lb1 U1 Ls1; [reflexivity|]. cbn [blist].
    destruct (bstmt cf a Lb1 (S d) U1 Ls1) as [[[[ca Lb2] U2] Ls2]|]; [|reflexivity]. now rewrite IH. }
  now rewrite E.
Qed.

Definition body_stmt_goal (cf : cfg) (s : stmt) : Prop := forall cb cs fs,
  fc_depth cb <> 0 -> fc_script cb = false -> fc_intry cb = false ->
  match bstmt cf s (fc_locals cb) (fc_depth cb) (fc_ups cb) (fc_locals cs) with
  | Some (code, Lb', U', Ls') => comp_stmt cf s (two cb cs fs) =
       two (set_ups (with_code_locals cb (fc_code cb ++ code) Lb') U') (set_locals cs Ls') fs
  | None => errd (comp_stmt cf s (two cb cs fs))
  end.

Lemma comp_list_body_aux : forall cf b, Forall (body_stmt_goal cf) b -> forallb bstmt2 b = true ->
  forall cb cs fs, fc_depth cb <> 0 -> fc_script cb = false -> fc_intry cb = false ->
  match blist cf b (fc_locals cb) (fc_depth cb) (fc_ups cb) (fc_locals cs) with
  | Some (code, Lb', U', Ls') => comp_list cf b (two cb cs fs) =
       two (set_ups (with_code_locals cb (fc_code cb ++ code) Lb') U') (set_locals cs Ls') fs
  | None => errd (comp_list cf b (two cb cs fs))
  end.
Proof.
  intros cf b H. induction H as [|a r Ha Hr IH]; intros Hb cb cs fs Hd Hs Ht.
  - cbn. rewrite app_nil_r. destruct cb, cs; reflexivity.
  - cbn in Hb. apply andb_prop in Hb as [Hb1 Hb2]. cbn [blist]. rewrite comp_list_cons.
    specialize (Ha cb cs fs Hd Hs Ht).
    destruct (bstmt cf a (fc_locals cb) (fc_depth cb) (fc_ups cb) (fc_locals cs)) as [[[[ca Lb1] U1] Ls1]|].
    + rewrite Ha.
      specialize (IH Hb2 (set_ups (with_code_locals cb (fc_code cb ++ ca) Lb1) U1) (set_locals cs Ls1) fs Hd Hs Ht).
      cbn [fc_locals fc_ups fc_code fc_depth set_ups set_locals with_code_locals] in IH.
      destruct (blist cf r Lb1 (fc_depth cb) U1 Ls1) as [[[[cr Lb2] U2] Ls2]|].
      * rewrite IH. cbn. now rewrite <- app_assoc.
      * exact IH.
    + apply (errd_comp_list_b cf r Hb2). exact Ha.
Qed.

Lemma comp_stmt_body : forall cf s, bstmt2 s = true -> forall cb cs fs,
  fc_depth cb <> 0 -> fc_script cb = false -> fc_intry cb = false ->
  match bstmt cf s (fc_locals cb) (fc_depth cb) (fc_ups cb) (fc_locals cs) with
  | Some (code, Lb', U', Ls') => comp_stmt cf s (two cb cs fs) =
       two (set_ups (with_code_locals cb (fc_code cb ++ code) Lb') U') (set_locals cs Ls') fs
  | None => errd (comp_stmt cf s (two cb cs fs))
  end.
Proof.
  intros cf s Hs. change (body_stmt_goal cf s). pattern s. revert s Hs. apply bstmt2_ind.
  - (* SDecl *)
    intros x e He cb cs fs Hd Hsc Ht. cbn [bstmt comp_stmt]. unfold declare_variable. rewrite top_of_two.
    destruct (fc_depth cb =? 0) eqn:Ed; [apply Nat.eqb_eq in Ed; contradiction|].
    destruct (dup_in_scope (fc_locals cb) x (fc_depth cb)) eqn:Edup.
    + apply errd_define_variable. apply errd_comp_expr2; [exact He|].
      unfold add_local. destruct (List.length _ =? c_locals_max cf); [apply errd_fail|apply errd_on_top, errd_fail].
    + unfold add_local. rewrite top_of_two.
      destruct (List.length (fc_locals cb) =? c_locals_max cf) eqn:Emax.
      * apply errd_define_variable. apply errd_comp_expr2; [exact He|apply errd_fail].
      * change (on_top (fun c0 : fcomp => set_locals c0 (mkLocal (Some x) None false :: fc_locals c0)) (two cb cs fs))
          with (two (set_locals cb (mkLocal (Some x) None false :: fc_locals cb)) cs fs).
        pose proof (comp_expr_body cf e He (set_locals cb (mkLocal (Some x) None false :: fc_locals cb)) cs fs) as Hc.
        cbn [fc_locals fc_ups fc_code set_locals] in Hc.
        destruct (bexpr cf (mkLocal (Some x) None false :: fc_locals cb) e (fc_ups cb) (fc_locals cs)) as [[[ce U'] Ls']|].
        -- rewrite Hc. unfold define_variable, at_top_level. rewrite top_of_two.
           cbn [fc_depth with_code_locals set_locals set_ups]. rewrite Ed.
           unfold mark_initialised, on_top, two. cbn. rewrite Ed. reflexivity.
        -- now apply errd_define_variable.
  - (* SAssign *)
    intros x e He cb cs fs Hd Hsc Ht. cbn [bstmt comp_stmt].
    pose proof (resolve_variable_two cf x cb cs fs) as Hr.
    destruct (rvb cf (fc_locals cb) (fc_locals cs) (fc_ups cb) x) as [[[r U0] Ls0]|].
    + rewrite Hr. pose proof (comp_expr_body cf e He (set_ups cb U0) (set_locals cs Ls0) fs) as Hc.
      cbn [fc_locals fc_ups fc_code set_locals set_ups] in Hc.
      destruct (bexpr cf (fc_locals cb) e U0 Ls0) as [[[ce U'] Ls']|].
      * rewrite Hc, !emit_two. cbn. now rewrite <- !app_assoc.
      * now apply errd_emit, errd_emit.
    + destruct (resolve_variable cf x (two cb cs fs)) as [st1 r]. apply errd_emit, errd_emit.
      apply errd_comp_expr2; [exact He|exact Hr].
  - (* SPrint *)
    intros e He cb cs fs Hd Hsc Ht. cbn [bstmt comp_stmt]. rewrite emit_two.
    pose proof (comp_expr_body cf e He (with_code_locals cb (fc_code cb ++ [IGetGlobal GPrint]) (fc_locals cb)) cs fs) as Hc.
    cbn [fc_locals fc_ups fc_code with_code_locals] in Hc.
    destruct (bexpr cf (fc_locals cb) e (fc_ups cb) (fc_locals cs)) as [[[ce U'] Ls']|].
    + rewrite Hc, !emit_two. cbn. rewrite <- !app_assoc. reflexivity.
    + now apply errd_emit, errd_emit.
  - (* SExpr *)
    intros e He cb cs fs Hd Hsc Ht. cbn [bstmt comp_stmt].
    pose proof (comp_expr_body cf e He cb cs fs) as Hc.
    destruct (bexpr cf (fc_locals cb) e (fc_ups cb) (fc_locals cs)) as [[[ce U'] Ls']|].
    + rewrite Hc, !emit_two. cbn. rewrite <- !app_assoc. reflexivity.
    + now apply errd_emit.
  - (* SReturn *)
    intros e He cb cs fs Hd Hsc Ht. cbn [bstmt comp_stmt]. cbv zeta. rewrite top_of_two, Hsc.
    pose proof (comp_expr_body cf e He cb cs fs) as Hc.
    destruct (bexpr cf (fc_locals cb) e (fc_ups cb) (fc_locals cs)) as [[[ce U'] Ls']|].
    + rewrite Hc, top_of_two. cbn [fc_intry set_ups with_code_locals]. rewrite Ht.
      rewrite emit_two. cbn. rewrite <- !app_assoc. reflexivity.
    + destruct (fc_intry (top_of _)); [apply errd_fail|now apply errd_emit].
  - (* SBlock *)
    intros b Hb IH cb cs fs Hd Hsc Ht. rewrite bstmt_block, comp_stmt_block.
    change (begin_scope (two cb cs fs)) with (two (set_depth cb (S (fc_depth cb))) cs fs).
    pose proof (comp_list_body_aux cf b IH Hb (set_depth cb (S (fc_depth cb))) cs fs) as Hl.
    cbn [fc_locals fc_depth fc_ups fc_code fc_script fc_intry set_depth] in Hl.
    specialize (Hl (Nat.neq_succ_0 _) Hsc Ht).
    destruct (blist cf b (fc_locals cb) (S (fc_depth cb)) (fc_ups cb) (fc_locals cs)) as [[[[code Lb'] U'] Ls']|].
    + rewrite Hl. unfold end_scope, on_top, two. cbn [cs_comps cs_funs cs_err]. unfold top_of. cbn [cs_comps].
      cbn [fc_depth set_depth with_code_locals set_ups]. replace (S (fc_depth cb) - 1) with (fc_depth cb) by lia.
      unfold emit_scope_end, top_of. cbn [cs_comps fc_locals set_depth with_code_locals set_ups].
      pose proof (emits_two (scope_end_ops Lb' (fc_depth cb))
                   (set_depth (set_ups (with_code_locals (set_depth cb (S (fc_depth cb))) (fc_code cb ++ code) Lb') U') (fc_depth cb))
                   (set_locals cs Ls') fs) as Hem.
      unfold two in Hem. cbn [fc_depth set_depth with_code_locals set_ups fc_code fc_locals] in Hem |- *.
      rewrite Hem. unfold on_top. cbn. now rewrite <- app_assoc.
    + now apply errd_end_scope.
Qed.

Lemma comp_list_body : forall cf b, forallb bstmt2 b = true -> forall cb cs fs,
  fc_depth cb <> 0 -> fc_script cb = false -> fc_intry cb = false ->
  match blist cf b (fc_locals cb) (fc_depth cb) (fc_ups cb) (fc_locals cs) with
  | Some (code, Lb', U', Ls') => comp_list cf b (two cb cs fs) =
       two (set_ups (with_code_locals cb (fc_code cb ++ code) Lb') U') (set_locals cs Ls') fs
  | None => errd (comp_list cf b (two cb cs fs))
  end.
Proof.
  intros cf b Hb. apply comp_list_body_aux; [|exact Hb].
  induction b as [|a r IH]; constructor.
  - cbn in Hb. apply andb_prop in Hb as [Ha _]. intros cb cs fs. now apply comp_stmt_body.
  - cbn in Hb. apply andb_prop in Hb as [_ Hr]. now apply IH.
Qed.

(* ------------------------------------------------------------------------------------------ *)
(* Part 3: structural facts about the pure body-level compiler (needed for the script level):
   script locals keep names and depths, is_captured only rises; the upvalue list only grows and each of its new
   entries is (slot, true) for a captured, initialised script local *)

Lemma flags_up_refl : forall L, flags_up L L.
Proof. unfold flags_up. induction L as [|l r IH]; constructor; auto. Qed.

Lemma flags_up_trans : forall A B C, flags_up A B -> flags_up B C -> flags_up A C.
Proof.
  unfold flags_up. intros A B C H. revert C.
  induction H as [|a b A B (Hn & Hd & Hc) H IH]; intros C HC; inversion HC as [|b' c B' C' (Hn' & Hd' & Hc') HC']; subst;
    constructor.
  - repeat split; try congruence. auto.
  - apply IH. exact HC'.
Qed.

Lemma flags_up_length : forall L L', flags_up L L' -> List.length L' = List.length L.
Proof. intros L L' H. induction H as [|l l' L L' _ H IH]; cbn; [reflexivity|now rewrite IH]. Qed.

Lemma flags_up_resolve_local : forall L L' x, flags_up L L' -> resolve_local L' x = resolve_local L x.
Proof.
  intros L L' x H. induction H as [|l l' L L' (Hn & Hd & Hc) H IH]; [reflexivity|].
  cbn [resolve_local]. unfold name_is. rewrite <- Hn, <- Hd, IH.
  fold (flags_up L L') in H. now rewrite (flags_up_length _ _ H).
Qed.

Lemma flags_up_dup_in_scope : forall L L' x d, flags_up L L' -> dup_in_scope L' x d = dup_in_scope L x d.
Proof.
  intros L L' x d H. induction H as [|l l' L L' (Hn & Hd & Hc) H IH]; [reflexivity|].
  cbn [dup_in_scope]. unfold name_is. now rewrite <- Hn, <- Hd, IH.
Qed.

(* the scope-end code of L' pops as many locals (Pop may become CloseUpvalue) *)
Lemma flags_up_scope_end_len : forall L L' d, flags_up L L' ->
  List.length (scope_end_ops L' d) = List.length (scope_end_ops L d).
Proof.
  intros L L' d H. induction H as [|l l' L L' (Hn & Hd & Hc) H IH]; [reflexivity|].
  cbn [scope_end_ops]. rewrite <- Hd. destruct (l_depth l) as [ld|]; [|reflexivity].
  destruct (d <? ld); [|reflexivity]. cbn [List.length]. now rewrite IH.
Qed.

Lemma flags_up_depth_le : forall L L' d, flags_up L L' -> depth_le d L -> depth_le d L'.
Proof.
  unfold depth_le. intros L L' d H. induction H as [|l l' L L' (Hn & Hd & Hc) H IH]; intros HL; [constructor|].
  inversion HL as [|? ? H1 H2]; subst. constructor; [now rewrite <- Hd|now apply IH].
Qed.

Lemma flags_up_mark_captured : forall L slot, flags_up L (mark_captured L slot).
Proof.
  unfold flags_up. induction L as [|l r IH]; intros slot; cbn [mark_captured]; [constructor|].
  destruct (List.length r =? slot).
  - constructor; [cbn; auto|apply flags_up_refl].
  - constructor; [auto|apply IH].
Qed.

Lemma flags_up_app_inv : forall N L M, flags_up (N ++ L)%list M ->
  exists N' L', M = (N' ++ L')%list /\ flags_up N N' /\ flags_up L L'.
Proof. intros N L M H. apply Forall2_app_inv_l in H. destruct H as (N' & L' & H1 & H2 & ->). eauto. Qed.

Lemma flags_up_app : forall N N' L L', flags_up N N' -> flags_up L L' -> flags_up (N ++ L)%list (N' ++ L')%list.
Proof. intros. now apply Forall2_app. Qed.

Lemma Forall2_rev_loc : forall (A B : Type) (R : A -> B -> Prop) l l', Forall2 R l l' -> Forall2 R (rev l) (rev l').
Proof.
  intros A B R l l' H. induction H as [|a b l l' Hab H IH]; [constructor|].
  cbn [rev]. apply Forall2_app; [exact IH|]. constructor; [exact Hab|constructor].
Qed.

Lemma Forall2_nth_error_loc : forall (A B : Type) (R : A -> B -> Prop) l l' k a,
  Forall2 R l l' -> nth_error l k = Some a -> exists b, nth_error l' k = Some b /\ R a b.
Proof.
  intros A B R l l' k a H. revert k. induction H as [|x y l l' Hxy H IH]; intros k E.
  - destruct k; discriminate.
  - destruct k as [|k]; cbn in E |- *.
    + inversion E; subst. eauto.
    + apply IH. exact E.
Qed.

(* every upvalue entry is (slot, true) and the script local in that slot is captured and initialised *)
Definition ups_ok (U : ups_t) (Ls : list local) : Prop :=
  Forall (fun u => snd u = true /\
                   exists l, nth_error (rev Ls) (fst u) = Some l /\ l_capt l = true /\ l_depth l <> None) U.

Lemma ups_ok_flags_up : forall U L L', flags_up L L' -> ups_ok U L -> ups_ok U L'.
Proof.
  intros U L L' H HU. unfold ups_ok in *. eapply Forall_impl; [|exact HU].
  intros u (Hs & l & Hn & Hc & Hd). split; [exact Hs|].
  destruct (Forall2_nth_error_loc _ _ _ _ _ _ _ (Forall2_rev_loc _ _ _ _ _ H) Hn) as (l' & Hn' & (E1 & E2 & E3)).
  exists l'. repeat split; auto. now rewrite <- E2.
Qed.

Lemma ups_ok_app : forall U V L, ups_ok U L -> ups_ok V L -> ups_ok (U ++ V)%list L.
Proof. intros U V L HU HV. apply Forall_app. split; assumption. Qed.

Lemma ups_ok_slot_lt : forall U L, ups_ok U L -> Forall (fun u => fst u < List.length L) U.
Proof.
  intros U L H. eapply Forall_impl; [|exact H]. intros u (_ & l & Hn & _).
  rewrite <- rev_length. apply nth_error_Some. congruence.
Qed.

(* the slot of a local counted from the oldest: nth (length Ls - 1 - slot) of the newest-first list *)
Lemma ups_ok_nth : forall U L, ups_ok U L ->
  Forall (fun u => snd u = true /\ fst u < List.length L /\
                   l_capt (nth (List.length L - 1 - fst u) L (mkLocal None None false)) = true /\
                   l_depth (nth (List.length L - 1 - fst u) L (mkLocal None None false)) <> None) U.
Proof.
  intros U L H. eapply Forall_impl; [|exact H]. intros u (Hs & l & Hn & Hc & Hd).
  assert (Hlt : fst u < List.length L).
  { rewrite <- rev_length. apply nth_error_Some. congruence. }
  apply nth_error_nth with (d := mkLocal None None false) in Hn.
  rewrite rev_nth in Hn by exact Hlt.
  replace (List.length L - S (fst u)) with (List.length L - 1 - fst u) in Hn by lia.
  rewrite Hn. auto.
Qed.

Lemma resolve_local_capture : forall L x slot, resolve_local L x = Some (slot, true) ->
  exists l, nth_error (rev (mark_captured L slot)) slot = Some l /\ l_capt l = true /\ l_depth l <> None.
Proof.
  induction L as [|l r IH]; intros x slot; cbn [resolve_local mark_captured]; [discriminate|].
  destruct (name_is l x).
  - intros E. injection E as E1 E2. subst slot. rewrite Nat.eqb_refl. cbn [rev].
    exists (mkLocal (l_name l) (l_depth l) true). split.
    + rewrite nth_error_app2 by (rewrite rev_length; lia). rewrite rev_length, Nat.sub_diag. reflexivity.
    + cbn. split; [reflexivity|]. destruct (l_depth l); discriminate.
  - intros E. destruct (IH x slot E) as (l0 & Hn & Hc & Hd).
    assert (Hlt : slot < List.length r).
    { rewrite <- (flags_up_length _ _ (flags_up_mark_captured r slot)), <- rev_length. apply nth_error_Some. congruence. }
    destruct (List.length r =? slot) eqn:E0; [apply Nat.eqb_eq in E0; lia|].
    cbn [rev]. exists l0. split; [|auto].
    rewrite nth_error_app1; [exact Hn|].
    rewrite rev_length, (flags_up_length _ _ (flags_up_mark_captured r slot)). exact Hlt.
Qed.

Definition bstep_ok (U : ups_t) (Ls : list local) (U' : ups_t) (Ls' : list local) : Prop :=
  flags_up Ls Ls' /\ exists ext, U' = (U ++ ext)%list /\ ups_ok ext Ls'.

Lemma bstep_ok_refl : forall U Ls, bstep_ok U Ls U Ls.
Proof. intros U Ls. split; [apply flags_up_refl|]. exists []. split; [now rewrite app_nil_r|constructor]. Qed.

Lemma bstep_ok_trans : forall U Ls U1 Ls1 U2 Ls2,
  bstep_ok U Ls U1 Ls1 -> bstep_ok U1 Ls1 U2 Ls2 -> bstep_ok U Ls U2 Ls2.
Proof.
  intros U Ls U1 Ls1 U2 Ls2 (F1 & e1 & -> & O1) (F2 & e2 & -> & O2). split; [eapply flags_up_trans; eauto|].
  exists (e1 ++ e2)%list. split; [now rewrite app_assoc|]. apply ups_ok_app; [|exact O2].
  eapply ups_ok_flags_up; eauto.
Qed.

Lemma bstep_ok_ups : forall U Ls U' Ls', bstep_ok U Ls U' Ls' -> ups_ok U Ls -> ups_ok U' Ls'.
Proof.
  intros U Ls U' Ls' (F & e & -> & O) H. apply ups_ok_app; [|exact O]. eapply ups_ok_flags_up; eauto.
Qed.

Lemma rvb_ok : forall cf Lb Ls U x r U' Ls', rvb cf Lb Ls U x = Some (r, U', Ls') -> bstep_ok U Ls U' Ls'.
Proof.
  intros cf Lb Ls U x r U' Ls'. unfold rvb.
  destruct (resolve_local Lb x) as [[s [|]]|].
  - intros [= <- <- <-]. apply bstep_ok_refl.
  - discriminate.
  - destruct (resolve_local Ls x) as [[slot [|]]|] eqn:E.
    + destruct (add_upvalue (c_upvalues_max cf) U slot true) as [[U1 k] ovf] eqn:Ea.
      destruct ovf; [discriminate|]. intros [= <- <- <-].
      split; [apply flags_up_mark_captured|].
      unfold add_upvalue in Ea. destruct (find_up U slot true 0) as [k0|].
      * inversion Ea; subst. exists []. split; [now rewrite app_nil_r|constructor].
      * destruct (List.length U =? c_upvalues_max cf); inversion Ea; subst.
        exists [(slot, true)]. split; [reflexivity|]. constructor; [|constructor].
        split; [reflexivity|]. cbn [fst]. eapply resolve_local_capture; eauto.
    + intros [= <- <- <-]. apply bstep_ok_refl.
    + intros [= <- <- <-]. apply bstep_ok_refl.
Qed.

Lemma bargs_ok_aux : forall cf Lb args,
  Forall (fun e => forall U Ls ce U' Ls', bexpr cf Lb e U Ls = Some (ce, U', Ls') -> bstep_ok U Ls U' Ls') args ->
  forall U Ls ca U' Ls', bargs cf Lb args U Ls = Some (ca, U', Ls') -> bstep_ok U Ls U' Ls'.
Proof.
  intros cf Lb args H. induction H as [|a r Ha Hr IH]; intros U Ls ca U' Ls'; cbn [bargs].
  - intros [= <- <- <-]. apply bstep_ok_refl.
  - destruct (bexpr cf Lb a U Ls) as [[[ca1 U1] Ls1]|] eqn:E1; [|discriminate].
    destruct (bargs cf Lb r U1 Ls1) as [[[ct U2] Ls2]|] eqn:E2; [|discriminate].
    intros [= <- <- <-]. eapply bstep_ok_trans; [eapply Ha; eauto|eapply IH; eauto].
Qed.

Lemma bexpr_ok : forall cf e, expr2 e = true ->
  forall Lb U Ls ce U' Ls', bexpr cf Lb e U Ls = Some (ce, U', Ls') -> bstep_ok U Ls U' Ls'.
Proof.
  intros cf e He Lb. revert e He. 
  apply (expr2_ind (fun e => forall U Ls ce U' Ls', bexpr cf Lb e U Ls = Some (ce, U', Ls') -> bstep_ok U Ls U' Ls')).
  - intros n U Ls ce U' Ls'. cbn [bexpr]. intros [= <- <- <-]. apply bstep_ok_refl.
  - intros x U Ls ce U' Ls'. cbn [bexpr]. destruct (rvb cf Lb Ls U x) as [[[r U1] Ls1]|] eqn:E; [|discriminate].
    intros [= <- <- <-]. eapply rvb_ok; eauto.
  - intros a b _ _ IHa IHb U Ls ce U' Ls'. cbn [bexpr].
    destruct (bexpr cf Lb a U Ls) as [[[ca U1] Ls1]|] eqn:E1; [|discriminate].
    destruct (bexpr cf Lb b U1 Ls1) as [[[cb U2] Ls2]|] eqn:E2; [|discriminate].
    intros [= <- <- <-]. eapply bstep_ok_trans; [eapply IHa; eauto|eapply IHb; eauto].
  - intros f args _ IH U Ls ce U' Ls'. rewrite bexpr_call.
    destruct (rvb cf Lb Ls U f) as [[[r U0] Ls0]|] eqn:E0; [|discriminate].
    destruct (bargs cf Lb args U0 Ls0) as [[[ca U3] Ls3]|] eqn:E1; [|discriminate].
    intros [= <- <- <-]. eapply bstep_ok_trans; [eapply rvb_ok; eauto|eapply bargs_ok_aux; eauto].
Qed.

Lemma bstmt_ok_aux : forall cf b,
  Forall (fun s => forall Lb d U Ls code Lb' U' Ls', bstmt cf s Lb d U Ls = Some (code, Lb', U', Ls') -> bstep_ok U Ls U' Ls') b ->
  forall Lb d U Ls code Lb' U' Ls', blist cf b Lb d U Ls = Some (code, Lb', U', Ls') -> bstep_ok U Ls U' Ls'.
Proof.
  intros cf b H. induction H as [|a r Ha Hr IH]; intros Lb d U Ls code Lb' U' Ls'; cbn [blist].
  - intros [= <- <- <- <-]. apply bstep_ok_refl.
  - destruct (bstmt cf a Lb d U Ls) as [[[[ca Lb1] U1] Ls1]|] eqn:E1; [|discriminate].
    destruct (blist cf r Lb1 d U1 Ls1) as [[[[cr Lb2] U2] Ls2]|] eqn:E2; [|discriminate].
    intros [= <- <- <- <-]. eapply bstep_ok_trans; [eapply Ha; eauto|eapply IH; eauto].
Qed.

Lemma bstmt_ok : forall cf s, bstmt2 s = true ->
  forall Lb d U Ls code Lb' U' Ls', bstmt cf s Lb d U Ls = Some (code, Lb', U', Ls') -> bstep_ok U Ls U' Ls'.
Proof.
  intros cf s Hs. pattern s. revert s Hs. apply bstmt2_ind.
  - intros x e He Lb d U Ls code Lb' U' Ls'. cbn [bstmt].
    destruct (dup_in_scope Lb x d); [discriminate|]. destruct (List.length Lb =? c_locals_max cf); [discriminate|].
    destruct (bexpr cf _ e U Ls) as [[[ce U1] Ls1]|] eqn:E; [|discriminate].
    intros [= <- <- <- <-]. eapply bexpr_ok; eauto.
  - intros x e He Lb d U Ls code Lb' U' Ls'. cbn [bstmt].
    destruct (rvb cf Lb Ls U x) as [[[r U0] Ls0]|] eqn:E0; [|discriminate].
    destruct (bexpr cf Lb e U0 Ls0) as [[[ce U1] Ls1]|] eqn:E; [|discriminate].
    intros [= <- <- <- <-]. eapply bstep_ok_trans; [eapply rvb_ok; eauto|eapply bexpr_ok; eauto].
  - intros e He Lb d U Ls code Lb' U' Ls'. cbn [bstmt].
    destruct (bexpr cf Lb e U Ls) as [[[ce U1] Ls1]|] eqn:E; [|discriminate].
    intros [= <- <- <- <-]. eapply bexpr_ok; eauto.
  - intros e He Lb d U Ls code Lb' U' Ls'. cbn [bstmt].
    destruct (bexpr cf Lb e U Ls) as [[[ce U1] Ls1]|] eqn:E; [|discriminate].
    intros [= <- <- <- <-]. eapply bexpr_ok; eauto.
  - intros e He Lb d U Ls code Lb' U' Ls'. cbn [bstmt].
    destruct (bexpr cf Lb e U Ls) as [[[ce U1] Ls1]|] eqn:E; [|discriminate].
    intros [= <- <- <- <-]. eapply bexpr_ok; eauto.
  - intros b Hb IH Lb d U Ls code Lb' U' Ls'. rewrite bstmt_block.
    destruct (blist cf b Lb (S d) U Ls) as [[[[cb Lb1] U1] Ls1]|] eqn:E; [|discriminate].
    cbv zeta. intros [= <- <- <- <-]. eapply bstmt_ok_aux; eauto.
Qed.

Lemma blist_ok : forall cf b, forallb bstmt2 b = true ->
  forall Lb d U Ls code Lb' U' Ls', blist cf b Lb d U Ls = Some (code, Lb', U', Ls') -> bstep_ok U Ls U' Ls'.
Proof.
  intros cf b Hb. apply bstmt_ok_aux.
  induction b as [|a r IH]; constructor.
  - cbn in Hb. apply andb_prop in Hb as [Ha _]. now apply bstmt_ok.
  - cbn in Hb. apply andb_prop in Hb as [_ Hr]. now apply IH.
Qed.

(* a whole function body: the script locals keep their shape, and every upvalue of the new function is a
   captured initialised script local *)
Lemma cbody_ok : forall cf ps b Ls code U Ls', forallb bstmt2 b = true ->
  cbody cf ps b Ls = Some (code, U, Ls') -> flags_up Ls Ls' /\ ups_ok U Ls'.
Proof.
  intros cf ps b Ls code U Ls' Hb. unfold cbody.
  destruct (bparams cf ps _) as [Lb0|]; [|discriminate].
  destruct (blist cf b Lb0 1 [] Ls) as [[[[c Lb'] U1] Ls1]|] eqn:E; [|discriminate].
  intros [= <- <- <-]. destruct (blist_ok cf b Hb _ _ _ _ _ _ _ _ E) as (F & ext & -> & O). split; [exact F|exact O].
Qed.

(* ------------------------------------------------------------------------------------------ *)
(* Part 4: script level - one compiler on the stack; function bodies go through Part 2 *)

Fixpoint cargs2 (L : list local) (l : list expr) : option (list instr) :=
  match l with
  | [] => Some []
  | a :: t => match cexpr2 L a, cargs2 L t with
              | Some ca, Some ct => Some (ca ++ ct)%list
              | _, _ => None
              end
  end.

Lemma cexpr2_call : forall L f args,
  cexpr2 L (ECall f args) =
  match rv L f with
  | Some r => match cargs2 L args with
              | Some cargs => Some (get_op r f :: cargs ++ [ICall (List.length args)])%list
              | None => None
              end
  | None => None
  end.
Proof.
  intros L f args. cbn [cexpr2]. destruct (rv L f) as [r|]; [|reflexivity].
  match goal with |- match ?g args with _ => _ end = _ =>
    assert (E : forall l, g l = cargs2 L l) end.
  { induction l as [|a t IH]; [reflexivity|]. cbn [cargs2]. now rewrite IH. }
  now rewrite E.
Qed.

Definition script_expr_goal (cf : cfg) (e : expr) : Prop := forall c fs,
  match cexpr2 (fc_locals c) e with
  | Some ce => comp_expr cf e (one c fs) = one (with_code_locals c (fc_code c ++ ce) (fc_locals c)) fs
  | None => errd (comp_expr cf e (one c fs))
  end.

Lemma comp_args_pure2_aux : forall cf args, Forall (script_expr_goal cf) args -> forallb expr2 args = true ->
  forall c fs,
  match cargs2 (fc_locals c) args with
  | Some ca => comp_args cf args (one c fs) = one (with_code_locals c (fc_code c ++ ca) (fc_locals c)) fs
  | None => errd (comp_args cf args (one c fs))
  end.
Proof.
  intros cf args H. induction H as [|a r Ha Hr IH]; intros Hb c fs.
  - cbn. rewrite app_nil_r. destruct c; reflexivity.
  - cbn in Hb. apply andb_prop in Hb as [Hb1 Hb2]. cbn [cargs2]. rewrite comp_args_cons.
    specialize (Ha c fs). destruct (cexpr2 (fc_locals c) a) as [ca|].
    + rewrite Ha. specialize (IH Hb2 (with_code_locals c (fc_code c ++ ca) (fc_locals c)) fs).
      cbn [fc_locals fc_code with_code_locals] in IH.
      destruct (cargs2 (fc_locals c) r) as [ct|].
      * rewrite IH. cbn. now rewrite <- app_assoc.
      * exact IH.
    + apply (errd_comp_args cf r Hb2). exact Ha.
Qed.

Lemma comp_expr_pure2 : forall cf e, expr2 e = true -> forall c fs,
  match cexpr2 (fc_locals c) e with
  | Some ce => comp_expr cf e (one c fs) = one (with_code_locals c (fc_code c ++ ce) (fc_locals c)) fs
  | None => errd (comp_expr cf e (one c fs))
  end.
Proof.
  intros cf e He. change (script_expr_goal cf e). pattern e. revert e He. apply expr2_ind.
  - intros n c fs. reflexivity.
  - intros x c fs. cbn [cexpr2 comp_expr]. unfold named_get.
    pose proof (resolve_variable_one cf x c fs) as H. destruct (rv (fc_locals c) x) as [r|].
    + rewrite H. reflexivity.
    + destruct (resolve_variable cf x (one c fs)) as [st1 r]. now apply errd_emit.
  - intros a b Ha Hb IHa IHb c fs. cbn [cexpr2 comp_expr].
    specialize (IHa c fs). destruct (cexpr2 (fc_locals c) a) as [ca|].
    + rewrite IHa.
      specialize (IHb (with_code_locals c (fc_code c ++ ca) (fc_locals c)) fs). cbn [fc_locals fc_code with_code_locals] in IHb.
      destruct (cexpr2 (fc_locals c) b) as [cb|].
      * rewrite IHb, emit_one. cbn. now rewrite <- !app_assoc.
      * now apply errd_emit.
    + apply errd_emit. apply errd_comp_expr2; auto.
  - intros f args Hargs IH c fs. rewrite cexpr2_call, comp_expr_call. unfold named_get.
    pose proof (resolve_variable_one cf f c fs) as H. destruct (rv (fc_locals c) f) as [r|].
    + rewrite H, emit_one.
      pose proof (comp_args_pure2_aux cf args IH Hargs (with_code_locals c (fc_code c ++ [get_op r f]) (fc_locals c)) fs) as Ha.
      cbn [fc_locals fc_code with_code_locals] in Ha.
      destruct (cargs2 (fc_locals c) args) as [ca|].
      * rewrite Ha, emit_one. cbn. now rewrite <- !app_assoc.
      * now apply errd_emit.
    + destruct (resolve_variable cf f (one c fs)) as [st1 r]. apply errd_emit.
      apply errd_comp_args; [exact Hargs|]. now apply errd_emit.
Qed.

(* open_function: the body compiler after the parameters *)
Definition fbody (a : nat) (Lb : list local) : fcomp := mkFC [] Lb [] 1 [] [] false a false.

Lemma param_step_two : forall cf p a Lb c fs,
  if dup_in_scope Lb p 1 then errd (param_step cf (two (fbody a Lb) c fs) p)
  else if List.length Lb =? c_locals_max cf then errd (param_step cf (two (fbody a Lb) c fs) p)
  else param_step cf (two (fbody a Lb) c fs) p = two (fbody (S a) (mkLocal (Some p) (Some 1) false :: Lb)) c fs.
Proof.
  intros cf p a Lb c fs. unfold param_step.
  change (on_top (fun c0 : fcomp => set_arity c0 (S (fc_arity c0))) (two (fbody a Lb) c fs)) with (two (fbody (S a) Lb) c fs).
  unfold declare_variable. rewrite top_of_two. cbn [fc_depth fbody Nat.eqb fc_locals].
  destruct (dup_in_scope Lb p 1) eqn:Edup.
  - apply errd_define_variable.
    unfold add_local. destruct (_ =? c_locals_max cf); [apply errd_fail|apply errd_on_top, errd_fail].
  - unfold add_local. rewrite top_of_two. cbn [fc_locals fbody].
    destruct (List.length Lb =? c_locals_max cf) eqn:Emax.
    + apply errd_define_variable, errd_fail.
    + reflexivity.
Qed.

Lemma open_params : forall cf ps a Lb c fs,
  match bparams cf ps Lb with
  | Some Lb' => fold_left (param_step cf) ps (two (fbody a Lb) c fs) = two (fbody (List.length ps + a) Lb') c fs
  | None => errd (fold_left (param_step cf) ps (two (fbody a Lb) c fs))
  end.
Proof.
  intros cf ps. induction ps as [|p r IH]; intros a Lb c fs; [reflexivity|].
  cbn [bparams fold_left]. pose proof (param_step_two cf p a Lb c fs) as Hp.
  destruct (dup_in_scope Lb p 1); [now apply errd_params|].
  destruct (List.length Lb =? c_locals_max cf); [now apply errd_params|].
  rewrite Hp. specialize (IH (S a) (mkLocal (Some p) (Some 1) false :: Lb) c fs).
  destruct (bparams cf r (mkLocal (Some p) (Some 1) false :: Lb)) as [Lb'|].
  - rewrite IH. cbn [List.length]. now rewrite Nat.add_succ_r.
  - exact IH.
Qed.

Lemma open_function_one : forall cf ps c fs,
  match bparams cf ps [mkLocal None (Some 0) false] with
  | Some Lb0 => open_function cf ps (one c fs) = two (fbody (List.length ps) Lb0) c fs
  | None => errd (open_function cf ps (one c fs))
  end.
Proof.
  intros cf ps c fs. rewrite open_function_params.
  change (begin_scope (mkCst (new_fcomp false :: cs_comps (one c fs)) (cs_funs (one c fs)) (cs_err (one c fs))))
    with (two (fbody 0 [mkLocal None (Some 0) false]) c fs).
  pose proof (open_params cf ps 0 [mkLocal None (Some 0) false] c fs) as H.
  destruct (bparams cf ps [mkLocal None (Some 0) false]) as [Lb0|]; [|exact H].
  rewrite H. now rewrite Nat.add_0_r.
Qed.

Lemma finalise_function_two : forall cb cs fs,
  finalise_function (two cb cs fs) =
  one (with_code_locals cs (fc_code cs ++ [clo_instr (List.length fs) (fc_ups cb)]) (fc_locals cs))
      (fs ++ [mkFunc (fc_code cb ++ [INil; IReturn]) (fc_arity cb) (List.length (fc_ups cb))]).
Proof.
  intros cb cs fs. unfold finalise_function. cbv zeta. rewrite emits_two. reflexivity.
Qed.

(* function() / lambda(): open_function, the body, finalise_function *)
Lemma comp_func_pure : forall cf ps b, forallb bstmt2 b = true -> forall c fs,
  match cbody cf ps b (fc_locals c) with
  | Some (cb, U, L') =>
      finalise_function (comp_list cf b (open_function cf ps (one c fs))) =
      one (with_code_locals c (fc_code c ++ [clo_instr (List.length fs) U]) L')
          (fs ++ [mkFunc cb (List.length ps) (List.length U)])
  | None => errd (finalise_function (comp_list cf b (open_function cf ps (one c fs))))
  end.
Proof.
  intros cf ps b Hb c fs. unfold cbody.
  pose proof (open_function_one cf ps c fs) as Ho.
  destruct (bparams cf ps [mkLocal None (Some 0) false]) as [Lb0|].
  - rewrite Ho.
    pose proof (comp_list_body cf b Hb (fbody (List.length ps) Lb0) c fs) as Hl.
    cbn [fc_depth fc_script fc_intry fc_locals fc_ups fc_code fbody] in Hl.
    specialize (Hl (Nat.neq_succ_0 0) eq_refl eq_refl).
    destruct (blist cf b Lb0 1 [] (fc_locals c)) as [[[[code Lb'] U] Ls']|].
    + rewrite Hl, finalise_function_two. reflexivity.
    + now apply errd_finalise_function.
  - apply errd_finalise_function. apply errd_comp_list_b; [exact Hb|exact Ho].
Qed.

Lemma cstmt2_block : forall cf b L d fs,
  cstmt2 cf (SBlock b) L d fs =
  match clist2 cf b L (S d) fs with
  | Some (cb, L', fs') => let ops := scope_end_ops L' d in Some ((cb ++ ops)%list, skipn (List.length ops) L', fs')
  | None => None
  end.
Proof.
  intros cf b L d fs. cbn [cstmt2].
  match goal with |- match ?g b L fs with _ => _ end = _ =>
    assert (E : forall l L1 fs1, g l L1 fs1 = clist2 cf l L1 (S d) fs1) end.
  { induction l as [|a r IH]; intros L1 fs1; [reflexivity|]. cbn [clist2].
    destruct (cstmt2 cf a L1 (S d) fs1) as [[[ca L2] fs2]|]; [|reflexivity]. now rewrite IH. }
  now rewrite E.
Qed.

Definition script_stmt_goal (cf : cfg) (s : stmt) : Prop := forall c fs,
  match cstmt2 cf s (fc_locals c) (fc_depth c) fs with
  | Some (code, L', fs') => comp_stmt cf s (one c fs) = one (with_code_locals c (fc_code c ++ code) L') fs'
  | None => errd (comp_stmt cf s (one c fs))
  end.

Lemma comp_list_pure2_aux : forall cf b, Forall (script_stmt_goal cf) b -> forallb stmt2 b = true ->
  forall c fs,
  match clist2 cf b (fc_locals c) (fc_depth c) fs with
  | Some (code, L', fs') => comp_list cf b (one c fs) = one (with_code_locals c (fc_code c ++ code) L') fs'
  | None => errd (comp_list cf b (one c fs))
  end.
Proof.
  intros cf b H. induction H as [|a r Ha Hr IH]; intros Hb c fs.
  - cbn. rewrite app_nil_r. destruct c; reflexivity.
  - cbn in Hb. apply andb_prop in Hb as [Hb1 Hb2]. cbn [clist2]. rewrite comp_list_cons.
    specialize (Ha c fs). destruct (cstmt2 cf a (fc_locals c) (fc_depth c) fs) as [[[ca L1] fs1]|].
    + rewrite Ha. specialize (IH Hb2 (with_code_locals c (fc_code c ++ ca) L1) fs1).
      cbn [fc_locals fc_depth fc_code with_code_locals] in IH.
      destruct (clist2 cf r L1 (fc_depth c) fs1) as [[[cr L2] fs2]|].
      * rewrite IH. cbn. now rewrite <- app_assoc.
      * exact IH.
    + apply (errd_comp_list2 cf r Hb2). exact Ha.
Qed.

Lemma cbody_cons : forall cf ps b l L code U L', forallb bstmt2 b = true ->
  cbody cf ps b (l :: L) = Some (code, U, L') ->
  exists l0 L0, L' = l0 :: L0 /\ l_name l0 = l_name l /\ l_depth l0 = l_depth l /\ flags_up L L0.
Proof.
  intros cf ps b l L code U L' Hb H. destruct (cbody_ok _ _ _ _ _ _ _ Hb H) as [F _].
  inversion F as [|? l0 ? L0 (E1 & E2 & _) F']; subst. exists l0, L0. repeat split; auto.
Qed.

Lemma comp_stmt_pure2 : forall cf s, stmt2 s = true -> forall c fs,
  match cstmt2 cf s (fc_locals c) (fc_depth c) fs with
  | Some (code, L', fs') => comp_stmt cf s (one c fs) = one (with_code_locals c (fc_code c ++ code) L') fs'
  | None => errd (comp_stmt cf s (one c fs))
  end.
Proof.
  intros cf s Hs. change (script_stmt_goal cf s). pattern s. revert s Hs. apply stmt2_ind.
  - (* SDecl *)
    intros x e He c fs. cbn [cstmt2 comp_stmt]. unfold declare_variable. rewrite top_of_one.
    destruct (fc_depth c =? 0) eqn:Ed.
    + pose proof (comp_expr_pure2 cf e He c fs) as Hc. destruct (cexpr2 (fc_locals c) e) as [ce|].
      * rewrite Hc. unfold define_variable, at_top_level. rewrite top_of_one. cbn [fc_depth with_code_locals]. rewrite Ed.
        rewrite emit_one. cbn. now rewrite <- app_assoc.
      * now apply errd_define_variable.
    + destruct (dup_in_scope (fc_locals c) x (fc_depth c)) eqn:Edup.
      * apply errd_define_variable. apply errd_comp_expr2; [exact He|].
        unfold add_local. destruct (_ =? c_locals_max cf); [apply errd_fail|apply errd_on_top, errd_fail].
      * unfold add_local. rewrite top_of_one.
        destruct (List.length (fc_locals c) =? c_locals_max cf) eqn:Emax.
        -- apply errd_define_variable. apply errd_comp_expr2; [exact He|apply errd_fail].
        -- pose proof (comp_expr_pure2 cf e He (set_locals c (mkLocal (Some x) None false :: fc_locals c)) fs) as Hc.
           cbn [fc_locals set_locals] in Hc.
           change (on_top (fun c0 : fcomp => set_locals c0 (mkLocal (Some x) None false :: fc_locals c0)) (one c fs))
             with (one (set_locals c (mkLocal (Some x) None false :: fc_locals c)) fs).
           destruct (cexpr2 (mkLocal (Some x) None false :: fc_locals c) e) as [ce|].
           ++ rewrite Hc. unfold define_variable, at_top_level. rewrite top_of_one. cbn [fc_depth with_code_locals set_locals]. rewrite Ed.
              unfold mark_initialised, on_top, one. cbn. rewrite Ed. reflexivity.
           ++ now apply errd_define_variable.
  - (* SAssign *)
    intros x e He c fs. cbn [cstmt2 comp_stmt].
    pose proof (resolve_variable_one cf x c fs) as Hr. destruct (rv (fc_locals c) x) as [r|].
    + rewrite Hr. pose proof (comp_expr_pure2 cf e He c fs) as Hc. destruct (cexpr2 (fc_locals c) e) as [ce|].
      * rewrite Hc, !emit_one. cbn. now rewrite <- !app_assoc.
      * now apply errd_emit, errd_emit.
    + destruct (resolve_variable cf x (one c fs)) as [st1 r]. apply errd_emit, errd_emit. apply errd_comp_expr2; [exact He|exact Hr].
  - (* SPrint *)
    intros e He c fs. cbn [cstmt2 comp_stmt]. rewrite emit_one.
    pose proof (comp_expr_pure2 cf e He (with_code_locals c (fc_code c ++ [IGetGlobal GPrint]) (fc_locals c)) fs) as Hc.
    cbn [fc_locals fc_code with_code_locals] in Hc. destruct (cexpr2 (fc_locals c) e) as [ce|].
    + rewrite Hc, !emit_one. cbn. rewrite <- !app_assoc. reflexivity.
    + now apply errd_emit, errd_emit.
  - (* SExpr *)
    intros e He c fs. cbn [cstmt2 comp_stmt].
    pose proof (comp_expr_pure2 cf e He c fs) as Hc. destruct (cexpr2 (fc_locals c) e) as [ce|].
    + rewrite Hc, !emit_one. cbn. rewrite <- !app_assoc. reflexivity.
    + now apply errd_emit.
  - (* SBlock *)
    intros b Hb IH c fs. rewrite cstmt2_block, comp_stmt_block.
    change (begin_scope (one c fs)) with (one (set_depth c (S (fc_depth c))) fs).
    pose proof (comp_list_pure2_aux cf b IH Hb (set_depth c (S (fc_depth c))) fs) as Hl.
    cbn [fc_locals fc_depth fc_code set_depth] in Hl.
    destruct (clist2 cf b (fc_locals c) (S (fc_depth c)) fs) as [[[cb L'] fs']|].
    + rewrite Hl. unfold end_scope, on_top, one. cbn [cs_comps cs_funs cs_err]. unfold top_of. cbn [cs_comps].
      cbn [fc_depth set_depth with_code_locals]. replace (S (fc_depth c) - 1) with (fc_depth c) by lia.
      unfold emit_scope_end, top_of. cbn [cs_comps fc_locals set_depth with_code_locals].
      pose proof (emits_one (scope_end_ops L' (fc_depth c))
                   (set_depth (with_code_locals (set_depth c (S (fc_depth c))) (fc_code c ++ cb) L') (fc_depth c)) fs') as He.
      unfold one in He. cbn [fc_depth set_depth with_code_locals fc_code fc_locals] in He |- *.
      rewrite He. unfold on_top. cbn. now rewrite <- app_assoc.
    + now apply errd_end_scope.
  - (* SFun *)
    intros f ps b Hb c fs. rewrite comp_stmt_fun. cbn [cstmt2]. unfold declare_variable. rewrite top_of_one.
    destruct (fc_depth c =? 0) eqn:Ed.
    + assert (Em : mark_initialised (one c fs) = one c fs).
      { unfold mark_initialised, on_top, one. cbn [cs_comps cs_funs cs_err]. now rewrite Ed. }
      rewrite Em. pose proof (comp_func_pure cf ps b Hb c fs) as Hf.
      destruct (cbody cf ps b (fc_locals c)) as [[[cb U] L']|].
      * rewrite Hf. unfold define_variable, at_top_level. rewrite top_of_one. cbn [fc_depth with_code_locals]. rewrite Ed.
        rewrite emit_one. cbn. now rewrite <- app_assoc.
      * now apply errd_define_variable.
    + destruct (dup_in_scope (fc_locals c) f (fc_depth c)) eqn:Edup.
      * apply errd_define_variable, errd_finalise_function. apply errd_comp_list_b; [exact Hb|].
        apply errd_open_function, errd_mark_initialised.
        unfold add_local. destruct (_ =? c_locals_max cf); [apply errd_fail|apply errd_on_top, errd_fail].
      * unfold add_local. rewrite top_of_one.
        destruct (List.length (fc_locals c) =? c_locals_max cf) eqn:Emax.
        -- apply errd_define_variable, errd_finalise_function. apply errd_comp_list_b; [exact Hb|].
           apply errd_open_function, errd_mark_initialised, errd_fail.
        -- assert (Em : mark_initialised (on_top (fun c0 : fcomp => set_locals c0 (mkLocal (Some f) None false :: fc_locals c0)) (one c fs))
                        = one (set_locals c (mkLocal (Some f) (Some (fc_depth c)) false :: fc_locals c)) fs).
           { unfold mark_initialised, on_top, one. cbn. now rewrite Ed. }
           rewrite Em.
           pose proof (comp_func_pure cf ps b Hb (set_locals c (mkLocal (Some f) (Some (fc_depth c)) false :: fc_locals c)) fs) as Hf.
           cbn [fc_locals fc_code set_locals] in Hf.
           destruct (cbody cf ps b (mkLocal (Some f) (Some (fc_depth c)) false :: fc_locals c)) as [[[cb U] L']|] eqn:Eb.
           ++ rewrite Hf. destruct (cbody_cons _ _ _ _ _ _ _ _ Hb Eb) as (l0 & L0 & -> & En & Edp & _).
              cbn [l_name l_depth] in En, Edp.
              unfold define_variable, at_top_level. rewrite top_of_one. cbn [fc_depth with_code_locals set_locals]. rewrite Ed.
              unfold mark_initialised, on_top, one. cbn. rewrite Ed.
              destruct l0 as [n0 d0 c0]. cbn in En, Edp |- *. subst n0 d0. reflexivity.
           ++ now apply errd_define_variable.
  - (* SLam *)
    intros x ps b Hb _ c fs. rewrite comp_stmt_lam. cbn [cstmt2]. unfold declare_variable. rewrite top_of_one.
    destruct (fc_depth c =? 0) eqn:Ed.
    + pose proof (comp_func_pure cf ps b Hb c fs) as Hf.
      destruct (cbody cf ps b (fc_locals c)) as [[[cb U] L']|].
      * rewrite Hf. unfold define_variable, at_top_level. rewrite top_of_one. cbn [fc_depth with_code_locals]. rewrite Ed.
        rewrite emit_one. cbn. now rewrite <- app_assoc.
      * now apply errd_define_variable.
    + destruct (dup_in_scope (fc_locals c) x (fc_depth c)) eqn:Edup.
      * apply errd_define_variable, errd_finalise_function. apply errd_comp_list_b; [exact Hb|].
        apply errd_open_function.
        unfold add_local. destruct (_ =? c_locals_max cf); [apply errd_fail|apply errd_on_top, errd_fail].
      * unfold add_local. rewrite top_of_one.
        destruct (List.length (fc_locals c) =? c_locals_max cf) eqn:Emax.
        -- apply errd_define_variable, errd_finalise_function. apply errd_comp_list_b; [exact Hb|].
           apply errd_open_function, errd_fail.
        -- change (on_top (fun c0 : fcomp => set_locals c0 (mkLocal (Some x) None false :: fc_locals c0)) (one c fs))
             with (one (set_locals c (mkLocal (Some x) None false :: fc_locals c)) fs).
           pose proof (comp_func_pure cf ps b Hb (set_locals c (mkLocal (Some x) None false :: fc_locals c)) fs) as Hf.
           cbn [fc_locals fc_code set_locals] in Hf.
           destruct (cbody cf ps b (mkLocal (Some x) None false :: fc_locals c)) as [[[cb U] L']|] eqn:Eb.
           ++ destruct (cbody_cons _ _ _ _ _ _ _ _ Hb Eb) as (l0 & L0 & -> & En & _ & _).
              cbn [l_name] in En. rewrite Hf.
              unfold define_variable, at_top_level. rewrite top_of_one. cbn [fc_depth with_code_locals set_locals]. rewrite Ed.
              unfold mark_initialised, on_top, one. cbn. rewrite Ed, En. reflexivity.
           ++ now apply errd_define_variable.
Qed.

Lemma comp_list_pure2 : forall cf b, forallb stmt2 b = true -> forall c fs,
  match clist2 cf b (fc_locals c) (fc_depth c) fs with
  | Some (code, L', fs') => comp_list cf b (one c fs) = one (with_code_locals c (fc_code c ++ code) L') fs'
  | None => errd (comp_list cf b (one c fs))
  end.
Proof.
  intros cf b Hb. apply comp_list_pure2_aux; [|exact Hb].
  induction b as [|a r IH]; constructor.
  - cbn in Hb. apply andb_prop in Hb as [Ha _]. intros c fs. now apply comp_stmt_pure2.
  - cbn in Hb. apply andb_prop in Hb as [_ Hr]. now apply IH.
Qed.

(* the whole program: the closures' functions in finalise order, then the script function = the pure code
   followed by Nil; Return *)
Theorem compile_scope_stage1_shape : forall cf p funs, forallb stmt2 p = true -> compile_scope cf p = Some funs ->
  exists code L' fs', clist2 cf p [mkLocal None (Some 0) false] 0 [] = Some (code, L', fs') /\
                      funs = (fs' ++ [mkFunc (code ++ [INil; IReturn]) 0 0])%list.
Proof.
  intros cf p funs Hp Hc. unfold compile_scope, comp_prog in Hc.
  change (fold_left (fun s a => comp_stmt cf a s) p (mkCst [new_fcomp true] [] None)) with (comp_list cf p (one (new_fcomp true) [])) in Hc.
  pose proof (comp_list_pure2 cf p Hp (new_fcomp true) []) as H. cbn [fc_locals fc_depth new_fcomp] in H.
  destruct (clist2 cf p [mkLocal None (Some 0) false] 0 []) as [[[code L'] fs']|].
  - rewrite H in Hc. rewrite emits_one in Hc. cbn in Hc. inversion Hc. exists code, L', fs'. split; reflexivity.
  - exfalso. apply (errd_emits [INil; IReturn]) in H. unfold errd in H. destruct (cs_err _); [discriminate|congruence].
Qed.

Print Assumptions comp_stmt_pure2.
Print Assumptions compile_scope_stage1_shape.

(* ------------------------------------------------------------------------------------------ *)
(* Part 5: structural facts, named *)

(* ---- (a, b) body level: flags only rise, the upvalue list only grows, ups_ok is kept ---- *)
Lemma bexpr_flags_up : forall cf e, expr2 e = true -> forall Lb U Ls ce U' Ls',
  bexpr cf Lb e U Ls = Some (ce, U', Ls') -> flags_up Ls Ls'.
Proof. intros cf e He Lb U Ls ce U' Ls' H. exact (proj1 (bexpr_ok cf e He _ _ _ _ _ _ H)). Qed.

Lemma bstmt_flags_up : forall cf s, bstmt2 s = true -> forall Lb d U Ls code Lb' U' Ls',
  bstmt cf s Lb d U Ls = Some (code, Lb', U', Ls') -> flags_up Ls Ls'.
Proof. intros cf s Hs Lb d U Ls code Lb' U' Ls' H. exact (proj1 (bstmt_ok cf s Hs _ _ _ _ _ _ _ _ H)). Qed.

Lemma blist_flags_up : forall cf b, forallb bstmt2 b = true -> forall Lb d U Ls code Lb' U' Ls',
  blist cf b Lb d U Ls = Some (code, Lb', U', Ls') -> flags_up Ls Ls'.
Proof. intros cf b Hb Lb d U Ls code Lb' U' Ls' H. exact (proj1 (blist_ok cf b Hb _ _ _ _ _ _ _ _ H)). Qed.

Lemma bexpr_ups_grow : forall cf e, expr2 e = true -> forall Lb U Ls ce U' Ls',
  bexpr cf Lb e U Ls = Some (ce, U', Ls') -> exists ext, U' = (U ++ ext)%list /\ ups_ok ext Ls'.
Proof. intros cf e He Lb U Ls ce U' Ls' H. exact (proj2 (bexpr_ok cf e He _ _ _ _ _ _ H)). Qed.

Lemma bstmt_ups_grow : forall cf s, bstmt2 s = true -> forall Lb d U Ls code Lb' U' Ls',
  bstmt cf s Lb d U Ls = Some (code, Lb', U', Ls') -> exists ext, U' = (U ++ ext)%list /\ ups_ok ext Ls'.
Proof. intros cf s Hs Lb d U Ls code Lb' U' Ls' H. exact (proj2 (bstmt_ok cf s Hs _ _ _ _ _ _ _ _ H)). Qed.

Lemma blist_ups_grow : forall cf b, forallb bstmt2 b = true -> forall Lb d U Ls code Lb' U' Ls',
  blist cf b Lb d U Ls = Some (code, Lb', U', Ls') -> exists ext, U' = (U ++ ext)%list /\ ups_ok ext Ls'.
Proof. intros cf b Hb Lb d U Ls code Lb' U' Ls' H. exact (proj2 (blist_ok cf b Hb _ _ _ _ _ _ _ _ H)). Qed.

Lemma bexpr_ups_ok : forall cf e, expr2 e = true -> forall Lb U Ls ce U' Ls',
  bexpr cf Lb e U Ls = Some (ce, U', Ls') -> ups_ok U Ls -> ups_ok U' Ls'.
Proof. intros cf e He Lb U Ls ce U' Ls' H. exact (bstep_ok_ups _ _ _ _ (bexpr_ok cf e He _ _ _ _ _ _ H)). Qed.

Lemma bstmt_ups_ok : forall cf s, bstmt2 s = true -> forall Lb d U Ls code Lb' U' Ls',
  bstmt cf s Lb d U Ls = Some (code, Lb', U', Ls') -> ups_ok U Ls -> ups_ok U' Ls'.
Proof. intros cf s Hs Lb d U Ls code Lb' U' Ls' H. exact (bstep_ok_ups _ _ _ _ (bstmt_ok cf s Hs _ _ _ _ _ _ _ _ H)). Qed.

Lemma blist_ups_ok : forall cf b, forallb bstmt2 b = true -> forall Lb d U Ls code Lb' U' Ls',
  blist cf b Lb d U Ls = Some (code, Lb', U', Ls') -> ups_ok U Ls -> ups_ok U' Ls'.
Proof. intros cf b Hb Lb d U Ls code Lb' U' Ls' H. exact (bstep_ok_ups _ _ _ _ (blist_ok cf b Hb _ _ _ _ _ _ _ _ H)). Qed.

Lemma cbody_flags_up : forall cf ps b Ls code U Ls', forallb bstmt2 b = true ->
  cbody cf ps b Ls = Some (code, U, Ls') -> flags_up Ls Ls'.
Proof. intros cf ps b Ls code U Ls' Hb H. exact (proj1 (cbody_ok _ _ _ _ _ _ _ Hb H)). Qed.

Lemma cbody_ups_ok : forall cf ps b Ls code U Ls', forallb bstmt2 b = true ->
  cbody cf ps b Ls = Some (code, U, Ls') -> ups_ok U Ls'.
Proof. intros cf ps b Ls code U Ls' Hb H. exact (proj2 (cbody_ok _ _ _ _ _ _ _ Hb H)). Qed.

(* ---- (d) body locals: a statement adds locals of the current depth, never captured ---- *)
Lemma scope_end_len : forall N L d, depth_le d L -> Forall (fun l => l_depth l = Some (S d)) N ->
  List.length (scope_end_ops (N ++ L) d) = List.length N.
Proof.
  induction N as [|l N IH]; intros L d HL HN.
  - destruct L as [|l0 L0]; [reflexivity|]. cbn [app scope_end_ops List.length]. inversion HL as [|? ? Hd _]; subst.
    destruct (l_depth l0) as [d'|]; [|contradiction]. destruct (d <? d') eqn:E; [apply Nat.ltb_lt in E; lia|reflexivity].
  - inversion HN as [|? ? Hd HN']; subst. cbn [app scope_end_ops List.length]. rewrite Hd.
    destruct (d <? S d) eqn:E; [|apply Nat.ltb_ge in E; lia]. cbn [List.length]. f_equal. now apply IH.
Qed.

Lemma depth_le_app_new : forall d N L, depth_le d L -> Forall (fun l => l_depth l = Some d) N -> depth_le d (N ++ L)%list.
Proof.
  intros d N L HL HN. unfold depth_le. apply Forall_app. split; [|exact HL].
  eapply Forall_impl; [|exact HN]. intros l Hl. cbn beta. rewrite Hl. lia.
Qed.

Definition body_locals_goal (cf : cfg) (s : stmt) : Prop := forall Lb d U Ls code Lb' U' Ls',
  depth_le d Lb -> bstmt cf s Lb d U Ls = Some (code, Lb', U', Ls') ->
  exists N, Lb' = (N ++ Lb)%list /\ Forall (fun l => l_depth l = Some d /\ l_capt l = false) N.

Lemma blist_locals_aux : forall cf b, Forall (body_locals_goal cf) b ->
  forall Lb d U Ls code Lb' U' Ls', depth_le d Lb -> blist cf b Lb d U Ls = Some (code, Lb', U', Ls') ->
  exists N, Lb' = (N ++ Lb)%list /\ Forall (fun l => l_depth l = Some d /\ l_capt l = false) N.
Proof.
  intros cf b H. induction H as [|a r Ha Hr IH]; intros Lb d U Ls code Lb' U' Ls' Hd; cbn [blist].
  - intros [= <- <- <- <-]. exists []. split; [reflexivity|constructor].
  - destruct (bstmt cf a Lb d U Ls) as [[[[ca Lb1] U1] Ls1]|] eqn:E1; [|discriminate].
    destruct (blist cf r Lb1 d U1 Ls1) as [[[[cr Lb2] U2] Ls2]|] eqn:E2; [|discriminate].
    intros [= <- <- <- <-]. destruct (Ha _ _ _ _ _ _ _ _ Hd E1) as (N1 & -> & F1).
    assert (Hd1 : depth_le d (N1 ++ Lb)%list).
    { apply depth_le_app_new; [exact Hd|]. eapply Forall_impl; [|exact F1]. intros l [Hl _]. exact Hl. }
    destruct (IH _ _ _ _ _ _ _ _ Hd1 E2) as (N2 & -> & F2).
    exists (N2 ++ N1)%list. split; [now rewrite app_assoc|]. apply Forall_app. split; assumption.
Qed.

Lemma bstmt_locals : forall cf s, bstmt2 s = true -> forall Lb d U Ls code Lb' U' Ls',
  depth_le d Lb -> bstmt cf s Lb d U Ls = Some (code, Lb', U', Ls') ->
  exists N, Lb' = (N ++ Lb)%list /\ Forall (fun l => l_depth l = Some d /\ l_capt l = false) N.
Proof.
  intros cf s Hs. change (body_locals_goal cf s). pattern s. revert s Hs. apply bstmt2_ind.
  - intros x e He Lb d U Ls code Lb' U' Ls' Hd. cbn [bstmt].
    destruct (dup_in_scope Lb x d); [discriminate|]. destruct (List.length Lb =? c_locals_max cf); [discriminate|].
    destruct (bexpr cf _ e U Ls) as [[[ce U1] Ls1]|]; [|discriminate].
    intros [= <- <- <- <-]. exists [mkLocal (Some x) (Some d) false]. split; [reflexivity|].
    constructor; [split; reflexivity|constructor].
  - intros x e He Lb d U Ls code Lb' U' Ls' Hd. cbn [bstmt].
    destruct (rvb cf Lb Ls U x) as [[[r U0] Ls0]|]; [|discriminate].
    destruct (bexpr cf Lb e U0 Ls0) as [[[ce U1] Ls1]|]; [|discriminate].
    intros [= <- <- <- <-]. exists []. split; [reflexivity|constructor].
  - intros e He Lb d U Ls code Lb' U' Ls' Hd. cbn [bstmt].
    destruct (bexpr cf Lb e U Ls) as [[[ce U1] Ls1]|]; [|discriminate].
    intros [= <- <- <- <-]. exists []. split; [reflexivity|constructor].
  - intros e He Lb d U Ls code Lb' U' Ls' Hd. cbn [bstmt].
    destruct (bexpr cf Lb e U Ls) as [[[ce U1] Ls1]|]; [|discriminate].
    intros [= <- <- <- <-]. exists []. split; [reflexivity|constructor].
  - intros e He Lb d U Ls code Lb' U' Ls' Hd. cbn [bstmt].
    destruct (bexpr cf Lb e U Ls) as [[[ce U1] Ls1]|]; [|discriminate].
    intros [= <- <- <- <-]. exists []. split; [reflexivity|constructor].
  - intros b Hb IH Lb d U Ls code Lb' U' Ls' Hd. rewrite bstmt_block.
    destruct (blist cf b Lb (S d) U Ls) as [[[[cb Lb1] U1] Ls1]|] eqn:E; [|discriminate].
    cbv zeta. intros [= <- <- <- <-].
    destruct (blist_locals_aux cf b IH _ _ _ _ _ _ _ _ (depth_le_S _ _ Hd) E) as (N1 & -> & F1).
    rewrite scope_end_len; [|exact Hd|eapply Forall_impl; [|exact F1]; intros l [Hl _]; exact Hl].
    rewrite skipn_app_len. exists []. split; [reflexivity|constructor].
Qed.

Lemma blist_locals : forall cf b, forallb bstmt2 b = true -> forall Lb d U Ls code Lb' U' Ls',
  depth_le d Lb -> blist cf b Lb d U Ls = Some (code, Lb', U', Ls') ->
  exists N, Lb' = (N ++ Lb)%list /\ Forall (fun l => l_depth l = Some d /\ l_capt l = false) N.
Proof.
  intros cf b Hb. apply blist_locals_aux.
  induction b as [|a r IH]; constructor.
  - cbn in Hb. apply andb_prop in Hb as [Ha _]. unfold body_locals_goal. now apply bstmt_locals.
  - cbn in Hb. apply andb_prop in Hb as [_ Hr]. now apply IH.
Qed.

(* the parameters: locals of depth 1, never captured; so a whole body never has a captured local *)
Lemma bparams_locals : forall cf ps Lb Lb', bparams cf ps Lb = Some Lb' ->
  exists N, Lb' = (N ++ Lb)%list /\ Forall (fun l => l_depth l = Some 1 /\ l_capt l = false) N /\
            List.length N = List.length ps.
Proof.
  intros cf ps. induction ps as [|p r IH]; intros Lb Lb'; cbn [bparams].
  - intros [= <-]. exists []. repeat split. constructor.
  - destruct (dup_in_scope Lb p 1); [discriminate|]. destruct (List.length Lb =? c_locals_max cf); [discriminate|].
    intros H. destruct (IH _ _ H) as (N & -> & F & Hl).
    exists (N ++ [mkLocal (Some p) (Some 1) false])%list. split; [now rewrite <- app_assoc|]. split.
    + apply Forall_app. split; [exact F|]. constructor; [split; reflexivity|constructor].
    + rewrite app_length. cbn. lia.
Qed.

Lemma cbody_body_locals : forall cf ps b Ls Lb0 code Lb' U Ls', forallb bstmt2 b = true ->
  bparams cf ps [mkLocal None (Some 0) false] = Some Lb0 -> blist cf b Lb0 1 [] Ls = Some (code, Lb', U, Ls') ->
  Forall (fun l => l_capt l = false) Lb'.
Proof.
  intros cf ps b Ls Lb0 code Lb' U Ls' Hb Hp Hl.
  destruct (bparams_locals _ _ _ _ Hp) as (N0 & -> & F0 & _).
  assert (Hd : depth_le 1 (N0 ++ [mkLocal None (Some 0) false])%list).
  { apply depth_le_app_new; [constructor; [cbn; lia|constructor]|]. eapply Forall_impl; [|exact F0]. intros l [H _]. exact H. }
  destruct (blist_locals cf b Hb _ _ _ _ _ _ _ _ Hd Hl) as (N & -> & F).
  apply Forall_app. split; [eapply Forall_impl; [|exact F]; intros l [_ H]; exact H|].
  apply Forall_app. split; [eapply Forall_impl; [|exact F0]; intros l [_ H]; exact H|].
  constructor; [reflexivity|constructor].
Qed.

(* ---- (a, c) script level: a statement declares at most one local (of the current depth), the older locals
        keep names and depths and their flags only rise, the function table only grows ---- *)
Definition sstep_ok (d : nat) (L : list local) (fs : list func) (L' : list local) (fs' : list func) : Prop :=
  (exists ext, fs' = (fs ++ ext)%list) /\
  exists N L0, L' = (N ++ L0)%list /\ flags_up L L0 /\ Forall (fun l => l_depth l = Some d) N.

Definition sstep_ok1 (d : nat) (L : list local) (fs : list func) (L' : list local) (fs' : list func) : Prop :=
  (exists ext, fs' = (fs ++ ext)%list) /\
  exists N L0, L' = (N ++ L0)%list /\ flags_up L L0 /\ Forall (fun l => l_depth l = Some d) N /\ List.length N <= 1.

Lemma sstep_ok1_ok : forall d L fs L' fs', sstep_ok1 d L fs L' fs' -> sstep_ok d L fs L' fs'.
Proof. intros d L fs L' fs' (H1 & N & L0 & H2 & H3 & H4 & _). split; [exact H1|]. exists N, L0. auto. Qed.

Lemma sstep_ok_refl : forall d L fs, sstep_ok d L fs L fs.
Proof.
  intros d L fs. split; [exists []; now rewrite app_nil_r|]. exists [], L. repeat split; [apply flags_up_refl|constructor].
Qed.

Lemma sstep_ok1_refl : forall d L fs, sstep_ok1 d L fs L fs.
Proof.
  intros d L fs. split; [exists []; now rewrite app_nil_r|]. exists [], L.
  repeat split; [apply flags_up_refl|constructor|cbn; lia].
Qed.

Lemma sstep_ok_depth_le : forall d L fs L' fs', sstep_ok d L fs L' fs' -> depth_le d L -> depth_le d L'.
Proof.
  intros d L fs L' fs' (_ & N & L0 & -> & F & HN) Hd. apply depth_le_app_new; [|exact HN].
  eapply flags_up_depth_le; eauto.
Qed.

Lemma flags_up_depths : forall N N' d, flags_up N N' -> Forall (fun l => l_depth l = Some d) N ->
  Forall (fun l => l_depth l = Some d) N'.
Proof.
  intros N N' d H. induction H as [|l l' N N' (Hn & Hd & Hc) H IH]; intros HN; [constructor|].
  inversion HN as [|? ? H1 H2]; subst. constructor; [now rewrite <- Hd|now apply IH].
Qed.

Lemma sstep_ok_trans : forall d L fs L1 fs1 L2 fs2,
  sstep_ok d L fs L1 fs1 -> sstep_ok d L1 fs1 L2 fs2 -> sstep_ok d L fs L2 fs2.
Proof.
  intros d L fs L1 fs1 L2 fs2 ((e1 & ->) & N1 & L01 & -> & F1 & H1) ((e2 & ->) & N2 & L02 & -> & F2 & H2).
  split; [exists (e1 ++ e2)%list; now rewrite app_assoc|].
  destruct (flags_up_app_inv _ _ _ F2) as (N1' & L01' & -> & FN & FL).
  exists (N2 ++ N1')%list, L01'. split; [now rewrite app_assoc|]. split; [eapply flags_up_trans; eauto|].
  apply Forall_app. split; [exact H2|]. eapply flags_up_depths; eauto.
Qed.

Definition script_locals_goal (cf : cfg) (s : stmt) : Prop := forall L d fs code L' fs',
  depth_le d L -> cstmt2 cf s L d fs = Some (code, L', fs') -> sstep_ok1 d L fs L' fs'.

Lemma clist2_ok_aux : forall cf b, Forall (script_locals_goal cf) b ->
  forall L d fs code L' fs', depth_le d L -> clist2 cf b L d fs = Some (code, L', fs') -> sstep_ok d L fs L' fs'.
Proof.
  intros cf b H. induction H as [|a r Ha Hr IH]; intros L d fs code L' fs' Hd; cbn [clist2].
  - intros [= <- <- <-]. apply sstep_ok_refl.
  - destruct (cstmt2 cf a L d fs) as [[[ca L1] fs1]|] eqn:E1; [|discriminate].
    destruct (clist2 cf r L1 d fs1) as [[[cr L2] fs2]|] eqn:E2; [|discriminate].
    intros [= <- <- <-]. pose proof (sstep_ok1_ok _ _ _ _ _ (Ha _ _ _ _ _ _ Hd E1)) as H1.
    eapply sstep_ok_trans; [exact H1|]. eapply IH; [|exact E2]. eapply sstep_ok_depth_le; eauto.
Qed.

Lemma sstep_ok1_new : forall d L fs l L0 ext, flags_up L L0 -> l_depth l = Some d ->
  sstep_ok1 d L fs (l :: L0) (fs ++ ext)%list.
Proof.
  intros d L fs l L0 ext F Hl. split; [now exists ext|]. exists [l], L0.
  repeat split; [exact F|constructor; [exact Hl|constructor]|cbn; lia].
Qed.

Lemma sstep_ok1_same : forall d L fs L0 ext, flags_up L L0 -> sstep_ok1 d L fs L0 (fs ++ ext)%list.
Proof.
  intros d L fs L0 ext F. split; [now exists ext|]. exists [], L0.
  repeat split; [exact F|constructor|cbn; lia].
Qed.

Lemma cstmt2_ok : forall cf s, stmt2 s = true -> forall L d fs code L' fs',
  depth_le d L -> cstmt2 cf s L d fs = Some (code, L', fs') ->
  (exists ext, fs' = (fs ++ ext)%list) /\
  exists N L0, L' = (N ++ L0)%list /\ flags_up L L0 /\ Forall (fun l => l_depth l = Some d) N /\ List.length N <= 1.
Proof.
  intros cf s Hs. change (script_locals_goal cf s). pattern s. revert s Hs. apply stmt2_ind.
  - (* SDecl *)
    intros x e He L d fs code L' fs' Hd. cbn [cstmt2]. destruct (d =? 0).
    + destruct (cexpr2 L e) as [ce|]; [|discriminate]. intros [= <- <- <-]. apply sstep_ok1_refl.
    + destruct (dup_in_scope L x d); [discriminate|]. destruct (List.length L =? c_locals_max cf); [discriminate|].
      destruct (cexpr2 _ e) as [ce|]; [|discriminate]. intros [= <- <- <-].
      rewrite <- (app_nil_r fs) at 2. apply sstep_ok1_new; [apply flags_up_refl|reflexivity].
  - (* SAssign *)
    intros x e He L d fs code L' fs' Hd. cbn [cstmt2]. destruct (rv L x) as [r|]; [|discriminate].
    destruct (cexpr2 L e) as [ce|]; [|discriminate]. intros [= <- <- <-]. apply sstep_ok1_refl.
  - intros e He L d fs code L' fs' Hd. cbn [cstmt2].
    destruct (cexpr2 L e) as [ce|]; [|discriminate]. intros [= <- <- <-]. apply sstep_ok1_refl.
  - intros e He L d fs code L' fs' Hd. cbn [cstmt2].
    destruct (cexpr2 L e) as [ce|]; [|discriminate]. intros [= <- <- <-]. apply sstep_ok1_refl.
  - (* SBlock *)
    intros b Hb IH L d fs code L' fs' Hd. rewrite cstmt2_block.
    destruct (clist2 cf b L (S d) fs) as [[[cb L1] fs1]|] eqn:E; [|discriminate].
    cbv zeta. intros [= <- <- <-].
    destruct (clist2_ok_aux cf b IH _ _ _ _ _ _ (depth_le_S _ _ Hd) E) as ((ext & ->) & N1 & L01 & -> & F & HN).
    rewrite scope_end_len; [|eapply flags_up_depth_le; eauto|exact HN].
    rewrite skipn_app_len. now apply sstep_ok1_same.
  - (* SFun *)
    intros f ps b Hb L d fs code L' fs' Hd. cbn [cstmt2]. destruct (d =? 0).
    + destruct (cbody cf ps b L) as [[[cb U] L1]|] eqn:Eb; [|discriminate]. intros [= <- <- <-].
      apply sstep_ok1_same. eapply cbody_flags_up; eauto.
    + destruct (dup_in_scope L f d); [discriminate|]. destruct (List.length L =? c_locals_max cf); [discriminate|].
      destruct (cbody cf ps b _) as [[[cb U] L1]|] eqn:Eb; [|discriminate]. intros [= <- <- <-].
      destruct (cbody_cons _ _ _ _ _ _ _ _ Hb Eb) as (l0 & L0 & -> & _ & Edp & F).
      apply sstep_ok1_new; [exact F|exact Edp].
  - (* SLam *)
    intros x ps b Hb _ L d fs code L' fs' Hd. cbn [cstmt2]. destruct (d =? 0).
    + destruct (cbody cf ps b L) as [[[cb U] L1]|] eqn:Eb; [|discriminate]. intros [= <- <- <-].
      apply sstep_ok1_same. eapply cbody_flags_up; eauto.
    + destruct (dup_in_scope L x d); [discriminate|]. destruct (List.length L =? c_locals_max cf); [discriminate|].
      destruct (cbody cf ps b _) as [[[cb U] L1]|] eqn:Eb; [|discriminate].
      destruct (cbody_cons _ _ _ _ _ _ _ _ Hb Eb) as (l0 & L0 & -> & _ & _ & F).
      intros [= <- <- <-]. apply sstep_ok1_new; [exact F|reflexivity].
Qed.

Lemma clist2_ok : forall cf b, forallb stmt2 b = true -> forall L d fs code L' fs',
  depth_le d L -> clist2 cf b L d fs = Some (code, L', fs') ->
  (exists ext, fs' = (fs ++ ext)%list) /\
  exists N L0, L' = (N ++ L0)%list /\ flags_up L L0 /\ Forall (fun l => l_depth l = Some d) N.
Proof.
  intros cf b Hb. apply clist2_ok_aux.
  induction b as [|a r IH]; constructor.
  - cbn in Hb. apply andb_prop in Hb as [Ha _]. unfold script_locals_goal. intros L d fs code L' fs'.
    now apply cstmt2_ok.
  - cbn in Hb. apply andb_prop in Hb as [_ Hr]. now apply IH.
Qed.

Lemma cstmt2_depth_le : forall cf s, stmt2 s = true -> forall L d fs code L' fs',
  depth_le d L -> cstmt2 cf s L d fs = Some (code, L', fs') -> depth_le d L'.
Proof.
  intros cf s Hs L d fs code L' fs' Hd H.
  eapply sstep_ok_depth_le; [|exact Hd]. apply sstep_ok1_ok. exact (cstmt2_ok cf s Hs _ _ _ _ _ _ Hd H).
Qed.

(* a whole program starts from the script's slot 0 at depth 0 *)
Lemma compile_scope_stage1_facts : forall cf p code L' fs', forallb stmt2 p = true ->
  clist2 cf p [mkLocal None (Some 0) false] 0 [] = Some (code, L', fs') ->
  exists N l0, L' = (N ++ [l0])%list /\ l_name l0 = None /\ l_depth l0 = Some 0 /\
               Forall (fun l => l_depth l = Some 0) N.
Proof.
  intros cf p code L' fs' Hp H.
  assert (Hd : depth_le 0 [mkLocal None (Some 0) false]) by (constructor; [cbn; lia|constructor]).
  destruct (clist2_ok cf p Hp _ _ _ _ _ _ Hd H) as (_ & N & L0 & -> & F & HN).
  inversion F as [|? l0 ? L00 (E1 & E2 & _) F']; subst. inversion F'; subst.
  exists N, l0. cbn in E1, E2. repeat split; auto.
Qed.

(* (c) alone: no hypothesis on the locals is needed for the function table *)
Definition funs_grow_goal (cf : cfg) (s : stmt) : Prop := forall L d fs code L' fs',
  cstmt2 cf s L d fs = Some (code, L', fs') -> exists ext, fs' = (fs ++ ext)%list.

Lemma clist2_funs_grow_aux : forall cf b, Forall (funs_grow_goal cf) b ->
  forall L d fs code L' fs', clist2 cf b L d fs = Some (code, L', fs') -> exists ext, fs' = (fs ++ ext)%list.
Proof.
  intros cf b H. induction H as [|a r Ha Hr IH]; intros L d fs code L' fs'; cbn [clist2].
  - intros [= <- <- <-]. exists []. now rewrite app_nil_r.
  - destruct (cstmt2 cf a L d fs) as [[[ca L1] fs1]|] eqn:E1; [|discriminate].
    destruct (clist2 cf r L1 d fs1) as [[[cr L2] fs2]|] eqn:E2; [|discriminate].
    intros [= <- <- <-]. destruct (Ha _ _ _ _ _ _ E1) as (e1 & ->). destruct (IH _ _ _ _ _ _ E2) as (e2 & ->).
    exists (e1 ++ e2)%list. now rewrite app_assoc.
Qed.

Lemma cstmt2_funs_grow : forall cf s, stmt2 s = true -> forall L d fs code L' fs',
  cstmt2 cf s L d fs = Some (code, L', fs') -> exists ext, fs' = (fs ++ ext)%list.
Proof.
  intros cf s Hs. change (funs_grow_goal cf s). pattern s. revert s Hs. apply stmt2_ind.
  - intros x e He L d fs code L' fs'. cbn [cstmt2]. destruct (d =? 0).
    + destruct (cexpr2 L e) as [ce|]; [|discriminate]. intros [= <- <- <-]. exists []. now rewrite app_nil_r.
    + destruct (dup_in_scope L x d); [discriminate|]. destruct (List.length L =? c_locals_max cf); [discriminate|].
      destruct (cexpr2 _ e) as [ce|]; [|discriminate]. intros [= <- <- <-]. exists []. now rewrite app_nil_r.
  - intros x e He L d fs code L' fs'. cbn [cstmt2]. destruct (rv L x) as [r|]; [|discriminate].
    destruct (cexpr2 L e) as [ce|]; [|discriminate]. intros [= <- <- <-]. exists []. now rewrite app_nil_r.
  - intros e He L d fs code L' fs'. cbn [cstmt2].
    destruct (cexpr2 L e) as [ce|]; [|discriminate]. intros [= <- <- <-]. exists []. now rewrite app_nil_r.
  - intros e He L d fs code L' fs'. cbn [cstmt2].
    destruct (cexpr2 L e) as [ce|]; [|discriminate]. intros [= <- <- <-]. exists []. now rewrite app_nil_r.
  - intros b Hb IH L d fs code L' fs'. rewrite cstmt2_block.
    destruct (clist2 cf b L (S d) fs) as [[[cb L1] fs1]|] eqn:E; [|discriminate].
    cbv zeta. intros [= <- <- <-]. eapply clist2_funs_grow_aux; eauto.
  - intros f ps b Hb L d fs code L' fs'. cbn [cstmt2]. destruct (d =? 0).
    + destruct (cbody cf ps b L) as [[[cb U] L1]|]; [|discriminate]. intros [= <- <- <-]. eauto.
    + destruct (dup_in_scope L f d); [discriminate|]. destruct (List.length L =? c_locals_max cf); [discriminate|].
      destruct (cbody cf ps b _) as [[[cb U] L1]|]; [|discriminate]. intros [= <- <- <-]. eauto.
  - intros x ps b Hb _ L d fs code L' fs'. cbn [cstmt2]. destruct (d =? 0).
    + destruct (cbody cf ps b L) as [[[cb U] L1]|]; [|discriminate]. intros [= <- <- <-]. eauto.
    + destruct (dup_in_scope L x d); [discriminate|]. destruct (List.length L =? c_locals_max cf); [discriminate|].
      destruct (cbody cf ps b _) as [[[cb U] [|l0 L1]]|]; try discriminate. intros [= <- <- <-]. eauto.
Qed.

Lemma clist2_funs_grow : forall cf b, forallb stmt2 b = true -> forall L d fs code L' fs',
  clist2 cf b L d fs = Some (code, L', fs') -> exists ext, fs' = (fs ++ ext)%list.
Proof.
  intros cf b Hb. apply clist2_funs_grow_aux.
  induction b as [|a r IH]; constructor.
  - cbn in Hb. apply andb_prop in Hb as [Ha _]. unfold funs_grow_goal. now apply cstmt2_funs_grow.
  - cbn in Hb. apply andb_prop in Hb as [_ Hr]. now apply IH.
Qed.

(* ------------------------------------------------------------------------------------------ *)
(* Examples: the hypotheses are satisfiable by programs that do capture.
     { var x1 = 5; var x2 = |x3| { return x1 + x3; }; fn x4() { x2(x1); } print(x2(1)); }  *)
Definition ex_cf : cfg := mkCfg 256 256 true true false.
Definition ex_prog : prog :=
  [SBlock [SDecl 1 (ELit 5);
           SLam 2 [3] [SReturn (EAdd (EVar 1) (EVar 3))];
           SFun 4 [] [SExpr (ECall 2 [EVar 1])];
           SPrint (ECall 2 [ELit 1])]].

Example ex_stage1_shape :
  forallb stmt2 ex_prog = true /\
  exists funs, compile_scope ex_cf ex_prog = Some funs /\ List.length funs = 3 /\
               map f_nups funs = [1; 2; 0].
Proof. split; [reflexivity|]. eexists. split; [vm_compute; reflexivity|]. split; reflexivity. Qed.

(* body level: the state after open_function satisfies the hypotheses of comp_stmt_body, and the body captures
   the script local in slot 1; afterwards that local is flagged and ups_ok holds *)
Example ex_body :
  let cb := fbody 1 [mkLocal (Some 3) (Some 1) false; mkLocal None (Some 0) false] in
  let Ls := [mkLocal (Some 1) (Some 1) false; mkLocal None (Some 0) false] in
  (fc_depth cb <> 0 /\ fc_script cb = false /\ fc_intry cb = false) /\
  bstmt ex_cf (SReturn (EAdd (EVar 1) (EVar 3))) (fc_locals cb) (fc_depth cb) (fc_ups cb) Ls =
    Some ([IGetUpvalue 0; IGetLocal 1; IAdd; IReturn], fc_locals cb, [(1, true)],
          [mkLocal (Some 1) (Some 1) true; mkLocal None (Some 0) false]) /\
  ups_ok [(1, true)] [mkLocal (Some 1) (Some 1) true; mkLocal None (Some 0) false] /\
  depth_le 1 Ls.
Proof.
  cbv zeta. split; [repeat split; discriminate|]. split; [reflexivity|]. split.
  - constructor; [|constructor]. split; [reflexivity|]. eexists. split; [reflexivity|]. split; [reflexivity|discriminate].
  - constructor; [cbn; lia|constructor; [cbn; lia|constructor]].
Qed.

Print Assumptions comp_stmt_body.
Print Assumptions cstmt2_ok.
Print Assumptions bstmt_locals.
Print Assumptions cbody_ok.

(* The hypothesis depth_le d L of cstmt2_ok / bstmt_locals cannot be dropped: a block's scope end pops every
   local deeper than the current depth, also one that was there before the block. *)
Lemma cstmt2_ok_without_depth_le_refuted :
  exists cf s L d fs code L' fs', stmt2 s = true /\ cstmt2 cf s L d fs = Some (code, L', fs') /\
    ~ (exists N L0, L' = (N ++ L0)%list /\ flags_up L L0).
Proof.
  exists ex_cf, (SBlock []), [mkLocal (Some 1) (Some 5) false], 0, [], [IPop], [], [].
  split; [reflexivity|]. split; [reflexivity|].
  intros (N & L0 & E & F). destruct N; destruct L0; try discriminate. inversion F.
Qed.

Lemma bstmt_locals_without_depth_le_refuted :
  exists cf s Lb d U Ls code Lb' U' Ls', bstmt2 s = true /\ bstmt cf s Lb d U Ls = Some (code, Lb', U', Ls') /\
    ~ (exists N, Lb' = (N ++ Lb)%list).
Proof.
  exists ex_cf, (SBlock []), [mkLocal (Some 1) (Some 5) false], 0, [], [], [IPop], [], [], [].
  split; [reflexivity|]. split; [reflexivity|].
  intros (N & E). destruct N; discriminate.
Qed.
