(* C06 - general stage 1: the compile correspondence of ScopeComp2.v restated for the wider fragment stmt2w
   (stmt2 without the "closure body does not mention its own name" restriction).  PROOFS ONLY.
   The proofs are those of ScopeComp2.v; the restriction was never used there. *)
From Coq Require Import List Arith Bool String ZArith NArith Lia.
From YV Require Import Show Upvalues Cells ScopeLang ScopeComp ScopeSim ScopeDefs2 ScopeComp2.
Import ListNotations.
Import Gen.
Open Scope nat_scope.

Lemma stmt2_ind_w : forall P : stmt -> Prop,
  (forall x e, expr2 e = true -> P (SDecl x e)) -> (forall x e, expr2 e = true -> P (SAssign x e)) ->
  (forall e, expr2 e = true -> P (SPrint e)) -> (forall e, expr2 e = true -> P (SExpr e)) ->
  (forall b, forallb stmt2w b = true -> Forall P b -> P (SBlock b)) ->
  (forall f ps b, forallb bstmt2 b = true -> P (SFun f ps b)) ->
  (forall x ps b, forallb bstmt2 b = true -> P (SLam x ps b)) ->
  forall s, stmt2w s = true -> P s.
Proof.
  intros P Hd Ha Hp He Hb Hf Hl. fix IH 1. intros s H. destruct s; cbn in H; try discriminate.
  1: apply Hd; exact H. 1: apply Ha; exact H. 1: apply Hp; exact H. 1: apply He; exact H.
  2: apply Hf; exact H.
  2: apply Hl; exact H.
  apply Hb; [exact H|].
  refine ((fix go (l : list stmt) : forallb stmt2w l = true -> Forall P l :=
             match l with
             | [] => fun _ => Forall_nil P
             | a :: r => fun H0 => _
             end) b H).
  cbn in H0. apply andb_prop in H0. destruct H0 as [H1 H2].
  constructor; [apply IH; exact H1|apply go; exact H2].
Qed.

Lemma errd_comp_stmt2w : forall cf s, stmt2w s = true -> forall st, errd st -> errd (comp_stmt cf s st).
Proof.
  intros cf s Hs. pattern s. revert s Hs. apply stmt2_ind_w.
  - intros x e He st H. cbn [comp_stmt]. apply errd_define_variable. apply errd_comp_expr2; [exact He|].
    apply errd_declare_variable; exact H.
  - intros x e He st H. cbn [comp_stmt]. pose proof (errd_resolve_variable cf x st H) as H1.
    destruct (resolve_variable cf x st) as [st1 r]. apply errd_emit, errd_emit. apply errd_comp_expr2; [exact He|exact H1].
  - intros e He st H. cbn [comp_stmt]. apply errd_emit, errd_emit. apply errd_comp_expr2; [exact He|]. apply errd_emit; exact H.
  - intros e He st H. cbn [comp_stmt]. apply errd_emit. apply errd_comp_expr2; [exact He|exact H].
  - intros b Hb IH st H. rewrite comp_stmt_block. apply errd_end_scope.
    apply errd_comp_list_aux; [exact IH|]. now apply errd_on_top.
  - intros f ps b Hb st H. rewrite comp_stmt_fun. apply errd_define_variable, errd_finalise_function.
    apply errd_comp_list_b; [exact Hb|]. apply errd_open_function, errd_mark_initialised, errd_declare_variable, H.
  - intros x ps b Hb st H. rewrite comp_stmt_lam. apply errd_define_variable, errd_finalise_function.
    apply errd_comp_list_b; [exact Hb|]. apply errd_open_function, errd_declare_variable, H.
Qed.

Lemma errd_comp_list2_w : forall cf b, forallb stmt2w b = true -> forall st, errd st -> errd (comp_list cf b st).
Proof.
  intros cf b. induction b as [|a r IH]; intros Hb st H; [exact H|].
  cbn in Hb. apply andb_prop in Hb as [Ha Hr]. rewrite comp_list_cons. apply IH; auto. now apply errd_comp_stmt2w.
Qed.

Lemma comp_list_pure2_aux_w : forall cf b, Forall (script_stmt_goal cf) b -> forallb stmt2w b = true ->
  forall c fs,
  match clist2 cf b (fc_locals c) (fc_depth c) fs with
  | Some (code, L', fs') => comp_list cf b (one c fs) = one (with_code_locals c (fc_code c ++ code) L') fs'
  | None => errd (comp_list cf b (one c fs))
  end.
Proof.
  intros cf b H. induction H as [|a r Ha Hr IH]; intros Hb c fs.
  - cbn. rewrite app_nil_r. destruct c; reflexivity.
  - cbn in Hb. apply andb_prop in Hb as [Hb1 Hb2]. cbn [clist2]. rewrite comp_list_cons.
    specialize (Ha c fs). destruct (cstmt2 cf a (fc_locals c) (fc_depth c) fs) as [[[ca L1] fs1]|].
    + rewrite Ha. specialize (IH Hb2 (with_code_locals c (fc_code c ++ ca) L1) fs1).
      cbn [fc_locals fc_depth fc_code with_code_locals] in IH.
      destruct (clist2 cf r L1 (fc_depth c) fs1) as [[[cr L2] fs2]|].
      * rewrite IH. cbn. now rewrite <- app_assoc.
      * exact IH.
    + apply (errd_comp_list2_w cf r Hb2). exact Ha.
Qed.

Lemma comp_stmt_pure2_w : forall cf s, stmt2w s = true -> forall c fs,
  match cstmt2 cf s (fc_locals c) (fc_depth c) fs with
  | Some (code, L', fs') => comp_stmt cf s (one c fs) = one (with_code_locals c (fc_code c ++ code) L') fs'
  | None => errd (comp_stmt cf s (one c fs))
  end.
Proof.
  intros cf s Hs. change (script_stmt_goal cf s). pattern s. revert s Hs. apply stmt2_ind_w.
  - (* SDecl *)
    intros x e He c fs. cbn [cstmt2 comp_stmt]. unfold declare_variable. rewrite top_of_one.
    destruct (fc_depth c =? 0) eqn:Ed.
    + pose proof (comp_expr_pure2 cf e He c fs) as Hc. destruct (cexpr2 (fc_locals c) e) as [ce|].
      * rewrite Hc. unfold define_variable, at_top_level. rewrite top_of_one. cbn [fc_depth with_code_locals]. rewrite Ed.
        rewrite emit_one. cbn. now rewrite <- app_assoc.
      * now apply errd_define_variable.
    + destruct (dup_in_scope (fc_locals c) x (fc_depth c)) eqn:Edup.
      * apply errd_define_variable. apply errd_comp_expr2; [exact He|].
        unfold add_local. destruct (_ =? c_locals_max cf); [apply errd_fail|apply errd_on_top, errd_fail].
      * unfold add_local. rewrite top_of_one.
        destruct (List.length (fc_locals c) =? c_locals_max cf) eqn:Emax.
        -- apply errd_define_variable. apply errd_comp_expr2; [exact He|apply errd_fail].
        -- pose proof (comp_expr_pure2 cf e He (set_locals c (mkLocal (Some x) None false :: fc_locals c)) fs) as Hc.
           cbn [fc_locals set_locals] in Hc.
           change (on_top (fun c0 : fcomp => set_locals c0 (mkLocal (Some x) None false :: fc_locals c0)) (one c fs))
             with (one (set_locals c (mkLocal (Some x) None false :: fc_locals c)) fs).
           destruct (cexpr2 (mkLocal (Some x) None false :: fc_locals c) e) as [ce|].
           ++ rewrite Hc. unfold define_variable, at_top_level. rewrite top_of_one. cbn [fc_depth with_code_locals set_locals]. rewrite Ed.
              unfold mark_initialised, on_top, one. cbn. rewrite Ed. reflexivity.
           ++ now apply errd_define_variable.
  - (* SAssign *)
    intros x e He c fs. cbn [cstmt2 comp_stmt].
    pose proof (resolve_variable_one cf x c fs) as Hr. destruct (rv (fc_locals c) x) as [r|].
    + rewrite Hr. pose proof (comp_expr_pure2 cf e He c fs) as Hc. destruct (cexpr2 (fc_locals c) e) as [ce|].
      * rewrite Hc, !emit_one. cbn. now rewrite <- !app_assoc.
      * now apply errd_emit, errd_emit.
    + destruct (resolve_variable cf x (one c fs)) as [st1 r]. apply errd_emit, errd_emit. apply errd_comp_expr2; [exact He|exact Hr].
  - (* SPrint *)
    intros e He c fs. cbn [cstmt2 comp_stmt]. rewrite emit_one.
    pose proof (comp_expr_pure2 cf e He (with_code_locals c (fc_code c ++ [IGetGlobal GPrint]) (fc_locals c)) fs) as Hc.
    cbn [fc_locals fc_code with_code_locals] in Hc. destruct (cexpr2 (fc_locals c) e) as [ce|].
    + rewrite Hc, !emit_one. cbn. rewrite <- !app_assoc. reflexivity.
    + now apply errd_emit, errd_emit.
  - (* SExpr *)
    intros e He c fs. cbn [cstmt2 comp_stmt].
    pose proof (comp_expr_pure2 cf e He c fs) as Hc. destruct (cexpr2 (fc_locals c) e) as [ce|].
    + rewrite Hc, !emit_one. cbn. rewrite <- !app_assoc. reflexivity.
    + now apply errd_emit.
  - (* SBlock *)
    intros b Hb IH c fs. rewrite cstmt2_block, comp_stmt_block.
    change (begin_scope (one c fs)) with (one (set_depth c (S (fc_depth c))) fs).
    pose proof (comp_list_pure2_aux_w cf b IH Hb (set_depth c (S (fc_depth c))) fs) as Hl.
    cbn [fc_locals fc_depth fc_code set_depth] in Hl.
    destruct (clist2 cf b (fc_locals c) (S (fc_depth c)) fs) as [[[cb L'] fs']|].
    + rewrite Hl. unfold end_scope, on_top, one. cbn [cs_comps cs_funs cs_err]. unfold top_of. cbn [cs_comps].
      cbn [fc_depth set_depth with_code_locals]. replace (S (fc_depth c) - 1) with (fc_depth c) by lia.
      unfold emit_scope_end, top_of. cbn [cs_comps fc_locals set_depth with_code_locals].
      pose proof (emits_one (scope_end_ops L' (fc_depth c))
                   (set_depth (with_code_locals (set_depth c (S (fc_depth c))) (fc_code c ++ cb) L') (fc_depth c)) fs') as He.
      unfold one in He. cbn [fc_depth set_depth with_code_locals fc_code fc_locals] in He |- *.
      rewrite He. unfold on_top. cbn. now rewrite <- app_assoc.
    + now apply errd_end_scope.
  - (* SFun *)
    intros f ps b Hb c fs. rewrite comp_stmt_fun. cbn [cstmt2]. unfold declare_variable. rewrite top_of_one.
    destruct (fc_depth c =? 0) eqn:Ed.
    + assert (Em : mark_initialised (one c fs) = one c fs).
      { unfold mark_initialised, on_top, one. cbn [cs_comps cs_funs cs_err]. now rewrite Ed. }
      rewrite Em. pose proof (comp_func_pure cf ps b Hb c fs) as Hf.
      destruct (cbody cf ps b (fc_locals c)) as [[[cb U] L']|].
      * rewrite Hf. unfold define_variable, at_top_level. rewrite top_of_one. cbn [fc_depth with_code_locals]. rewrite Ed.
        rewrite emit_one. cbn. now rewrite <- app_assoc.
      * now apply errd_define_variable.
    + destruct (dup_in_scope (fc_locals c) f (fc_depth c)) eqn:Edup.
      * apply errd_define_variable, errd_finalise_function. apply errd_comp_list_b; [exact Hb|].
        apply errd_open_function, errd_mark_initialised.
        unfold add_local. destruct (_ =? c_locals_max cf); [apply errd_fail|apply errd_on_top, errd_fail].
      * unfold add_local. rewrite top_of_one.
        destruct (List.length (fc_locals c) =? c_locals_max cf) eqn:Emax.
        -- apply errd_define_variable, errd_finalise_function. apply errd_comp_list_b; [exact Hb|].
           apply errd_open_function, errd_mark_initialised, errd_fail.
        -- assert (Em : mark_initialised (on_top (fun c0 : fcomp => set_locals c0 (mkLocal (Some f) None false :: fc_locals c0)) (one c fs))
                        = one (set_locals c (mkLocal (Some f) (Some (fc_depth c)) false :: fc_locals c)) fs).
           { unfold mark_initialised, on_top, one. cbn. now rewrite Ed. }
           rewrite Em.
           pose proof (comp_func_pure cf ps b Hb (set_locals c (mkLocal (Some f) (Some (fc_depth c)) false :: fc_locals c)) fs) as Hf.
           cbn [fc_locals fc_code set_locals] in Hf.
           destruct (cbody cf ps b (mkLocal (Some f) (Some (fc_depth c)) false :: fc_locals c)) as [[[cb U] L']|] eqn:Eb.
           ++ rewrite Hf. destruct (cbody_cons _ _ _ _ _ _ _ _ Hb Eb) as (l0 & L0 & -> & En & Edp & _).
              cbn [l_name l_depth] in En, Edp.
              unfold define_variable, at_top_level. rewrite top_of_one. cbn [fc_depth with_code_locals set_locals]. rewrite Ed.
              unfold mark_initialised, on_top, one. cbn. rewrite Ed.
              destruct l0 as [n0 d0 c0]. cbn in En, Edp |- *. subst n0 d0. reflexivity.
           ++ now apply errd_define_variable.
  - (* SLam *)
    intros x ps b Hb c fs. rewrite comp_stmt_lam. cbn [cstmt2]. unfold declare_variable. rewrite top_of_one.
    destruct (fc_depth c =? 0) eqn:Ed.
    + pose proof (comp_func_pure cf ps b Hb c fs) as Hf.
      destruct (cbody cf ps b (fc_locals c)) as [[[cb U] L']|].
      * rewrite Hf. unfold define_variable, at_top_level. rewrite top_of_one. cbn [fc_depth with_code_locals]. rewrite Ed.
        rewrite emit_one. cbn. now rewrite <- app_assoc.
      * now apply errd_define_variable.
    + destruct (dup_in_scope (fc_locals c) x (fc_depth c)) eqn:Edup.
      * apply errd_define_variable, errd_finalise_function. apply errd_comp_list_b; [exact Hb|].
        apply errd_open_function.
        unfold add_local. destruct (_ =? c_locals_max cf); [apply errd_fail|apply errd_on_top, errd_fail].
      * unfold add_local. rewrite top_of_one.
        destruct (List.length (fc_locals c) =? c_locals_max cf) eqn:Emax.
        -- apply errd_define_variable, errd_finalise_function. apply errd_comp_list_b; [exact Hb|].
           apply errd_open_function, errd_fail.
        -- change (on_top (fun c0 : fcomp => set_locals c0 (mkLocal (Some x) None false :: fc_locals c0)) (one c fs))
             with (one (set_locals c (mkLocal (Some x) None false :: fc_locals c)) fs).
           pose proof (comp_func_pure cf ps b Hb (set_locals c (mkLocal (Some x) None false :: fc_locals c)) fs) as Hf.
           cbn [fc_locals fc_code set_locals] in Hf.
           destruct (cbody cf ps b (mkLocal (Some x) None false :: fc_locals c)) as [[[cb U] L']|] eqn:Eb.
           ++ destruct (cbody_cons _ _ _ _ _ _ _ _ Hb Eb) as (l0 & L0 & -> & En & _ & _).
              cbn [l_name] in En. rewrite Hf.
              unfold define_variable, at_top_level. rewrite top_of_one. cbn [fc_depth with_code_locals set_locals]. rewrite Ed.
              unfold mark_initialised, on_top, one. cbn. rewrite Ed, En. reflexivity.
           ++ now apply errd_define_variable.
Qed.

Lemma comp_list_pure2_w : forall cf b, forallb stmt2w b = true -> forall c fs,
  match clist2 cf b (fc_locals c) (fc_depth c) fs with
  | Some (code, L', fs') => comp_list cf b (one c fs) = one (with_code_locals c (fc_code c ++ code) L') fs'
  | None => errd (comp_list cf b (one c fs))
  end.
Proof.
  intros cf b Hb. apply comp_list_pure2_aux_w; [|exact Hb].
  induction b as [|a r IH]; constructor.
  - cbn in Hb. apply andb_prop in Hb as [Ha _]. intros c fs. now apply comp_stmt_pure2_w.
  - cbn in Hb. apply andb_prop in Hb as [_ Hr]. now apply IH.
Qed.

Theorem compile_scope_stage1_shape_w : forall cf p funs, forallb stmt2w p = true -> compile_scope cf p = Some funs ->
  exists code L' fs', clist2 cf p [mkLocal None (Some 0) false] 0 [] = Some (code, L', fs') /\
                      funs = (fs' ++ [mkFunc (code ++ [INil; IReturn]) 0 0])%list.
Proof.
  intros cf p funs Hp Hc. unfold compile_scope, comp_prog in Hc.
  change (fold_left (fun s a => comp_stmt cf a s) p (mkCst [new_fcomp true] [] None)) with (comp_list cf p (one (new_fcomp true) [])) in Hc.
  pose proof (comp_list_pure2_w cf p Hp (new_fcomp true) []) as H. cbn [fc_locals fc_depth new_fcomp] in H.
  destruct (clist2 cf p [mkLocal None (Some 0) false] 0 []) as [[[code L'] fs']|].
  - rewrite H in Hc. rewrite emits_one in Hc. cbn in Hc. inversion Hc. exists code, L', fs'. split; reflexivity.
  - exfalso. apply (errd_emits [INil; IReturn]) in H. unfold errd in H. destruct (cs_err _); [discriminate|congruence].
Qed.

