(* C06 - stage 5 of compile_scope_correct (stage 4 + `throw e` + `try { .. } catch x { .. }`): the stateful compiler
   compile_scope (ScopeComp.v) equals the pure compiler nstmt / nlist of ScopeDefs5.v on the fragment stmt7w, for an
   arbitrary stack of enclosing compilers.  PROOFS ONLY (auxiliary definitions: the weak fragment stmt7w, the side
   conditions `noret7` = no return outside a function body, `nobrk7` = no break, `tryok` = no return inside a try
   block unless inside a nested function; the pieces `try_st3` / `try_st4` / `try_st6` / `try_tail` of the stateful
   compilation of a try statement).  The file re-proves for the compiler of ScopeDefs5.v what ScopeCompN.v proves for
   the compiler of ScopeDefsN.v (same lemma names: they shadow the imported ones) and re-uses every lemma of
   ScopeCompN.v that does not mention the pure statement compiler (the resolver, expressions, open / finalise
   function, the pending-break bookkeeping ixs / bpm / res_ok, the stateful primitives on explicit records). *)
From Coq Require Import List Arith Bool String ZArith NArith Lia.
From YV Require Import Show Upvalues Cells ScopeLang ScopeComp ScopeSim ScopeDefs2 ScopeComp2 ScopeDefsN ScopeCompN ScopeDefs5.
Import ListNotations.
Import Gen.
Open Scope nat_scope.

(* ------------------------------------------------------------------------------------------ *)
(* Part 0: the fragment without side restrictions, its nested induction principle, the side conditions *)

Fixpoint stmt7w (s : stmt) : bool :=
  match s with
  | SDecl _ e | SAssign _ e | SPrint e | SExpr e | SReturn e | SThrow e => expr2 e
  | SBlock b => forallb stmt7w b
  | SFun _ _ b | SLam _ _ b => forallb stmt7w b
  | SLoop _ _ b => forallb stmt7w b
  | SIf a c t e => expr2 a && expr2 c && forallb stmt7w t && forallb stmt7w e
  | SBreak | SContinue => true
  | STry b _ h => forallb stmt7w b && forallb stmt7w h
  | _ => false
  end.

(* no `return` outside a function body *)
Fixpoint noret7 (s : stmt) : bool :=
  match s with
  | SReturn _ => false
  | SBlock b => forallb noret7 b
  | SLoop _ _ b => forallb noret7 b
  | SIf _ _ t e => forallb noret7 t && forallb noret7 e
  | STry b _ h => forallb noret7 b && forallb noret7 h
  | _ => true
  end.

(* no `break` at all (function bodies included) *)
Fixpoint nobrk7 (s : stmt) : bool :=
  match s with
  | SBreak => false
  | SBlock b | SFun _ _ b | SLam _ _ b | SLoop _ _ b => forallb nobrk7 b
  | SIf _ _ t e => forallb nobrk7 t && forallb nobrk7 e
  | STry b _ h => forallb nobrk7 b && forallb nobrk7 h
  | _ => true
  end.

(* no `return` inside a try block, unless inside a function nested in the block (compile_scope sets fc_intry while it
   compiles the block and rejects a `return` there) *)
Fixpoint tryok (s : stmt) : bool :=
  match s with
  | SBlock b | SFun _ _ b | SLam _ _ b | SLoop _ _ b => forallb tryok b
  | SIf _ _ t e => forallb tryok t && forallb tryok e
  | STry b _ h => forallb noret7 b && forallb tryok b && forallb tryok h
  | _ => true
  end.

Lemma stmt7w_ind : forall P : stmt -> Prop,
  (forall x e, expr2 e = true -> P (SDecl x e)) -> (forall x e, expr2 e = true -> P (SAssign x e)) ->
  (forall e, expr2 e = true -> P (SPrint e)) -> (forall e, expr2 e = true -> P (SExpr e)) ->
  (forall e, expr2 e = true -> P (SReturn e)) ->
  (forall b, forallb stmt7w b = true -> Forall P b -> P (SBlock b)) ->
  (forall f ps b, forallb stmt7w b = true -> Forall P b -> P (SFun f ps b)) ->
  (forall x ps b, forallb stmt7w b = true -> Forall P b -> P (SLam x ps b)) ->
  (forall i n b, forallb stmt7w b = true -> Forall P b -> P (SLoop i n b)) ->
  (forall a c t e, expr2 a = true -> expr2 c = true -> forallb stmt7w t = true -> forallb stmt7w e = true ->
                   Forall P t -> Forall P e -> P (SIf a c t e)) ->
  P SBreak -> P SContinue ->
  (forall e, expr2 e = true -> P (SThrow e)) ->
  (forall b x h, forallb stmt7w b = true -> forallb stmt7w h = true -> Forall P b -> Forall P h -> P (STry b x h)) ->
  forall s, stmt7w s = true -> P s.
Proof.
  intros P Hd Ha Hp He Hr Hb Hf Hl Hlo Hif Hbr Hco Hth Htry s.
  induction s using stmt_nind; cbn [stmt7w]; intros Hs; try discriminate.
  - now apply Hd. - now apply Ha. - now apply Hp. - now apply He.
  - apply Hb; [exact Hs|]. eapply forallb_Forall_P; eauto.
  - apply Hf; [exact Hs|]. eapply forallb_Forall_P; eauto.
  - apply Hl; [exact Hs|]. eapply forallb_Forall_P; eauto.
  - apply Hlo; [exact Hs|]. eapply forallb_Forall_P; eauto.
  - apply andb_prop in Hs as [Hs He']. apply andb_prop in Hs as [Hs Ht]. apply andb_prop in Hs as [Ha' Hc'].
    apply Hif; auto; eapply forallb_Forall_P; eauto.
  - exact Hbr. - exact Hco.
  - now apply Hr.
  - now apply Hth.
  - apply andb_prop in Hs as [Hs1 Hs2]. apply Htry; auto; eapply forallb_Forall_P; eauto.
Qed.

Lemma stmt7_stmt7w : forall s j i t l, stmt7 j i t l s = true -> stmt7w s = true.
Proof.
  induction s using stmt_nind; intros j0 i0 t0 l0 Hs; cbn [stmt7 stmt7w] in *; try discriminate; try exact Hs; try reflexivity.
  - fb_imp Hs.
  - fb_imp Hs.
  - apply andb_prop in Hs as [Hs _]. fb_imp Hs.
  - fb_imp Hs.
  - apply andb_prop in Hs as [Hs He']. apply andb_prop in Hs as [Hs Ht]. rewrite Hs. cbn [andb].
    apply andb_true_intro. split; [fb_imp Ht|fb_imp He'].
  - apply andb_prop in Hs as [_ Hs]. exact Hs.
  - apply andb_prop in Hs as [Hs1 Hs2]. apply andb_true_intro. split; [fb_imp Hs1|fb_imp Hs2].
Qed.

(* the script-level fragment has no `return` outside a function body *)
Lemma stmt7_noret7 : forall s j t l, stmt7 j false t l s = true -> noret7 s = true.
Proof.
  induction s using stmt_nind; intros j0 t0 l0 Hs; cbn [stmt7 noret7] in *; try discriminate; try reflexivity.
  - fb_imp Hs.
  - fb_imp Hs.
  - apply andb_prop in Hs as [Hs He']. apply andb_prop in Hs as [Hs Ht].
    apply andb_true_intro. split; [fb_imp Ht|fb_imp He'].
  - apply andb_prop in Hs as [Hs1 Hs2]. apply andb_true_intro. split; [fb_imp Hs1|fb_imp Hs2].
Qed.

(* in the fragment a try block has no `return` of the enclosing function *)
Lemma stmt7_tryok : forall s j i t l, stmt7 j i t l s = true -> tryok s = true.
Proof.
  induction s using stmt_nind; intros j0 i0 t0 l0 Hs; cbn [stmt7 tryok] in *; try discriminate; try reflexivity.
  - fb_imp Hs.
  - fb_imp Hs.
  - apply andb_prop in Hs as [Hs _]. fb_imp Hs.
  - fb_imp Hs.
  - apply andb_prop in Hs as [Hs He']. apply andb_prop in Hs as [Hs Ht].
    apply andb_true_intro. split; [fb_imp Ht|fb_imp He'].
  - apply andb_prop in Hs as [Hs1 Hs2]. apply andb_true_intro. split; [apply andb_true_intro; split|].
    + revert Hs1. apply forallb_imp. intros a. apply stmt7_noret7.
    + fb_imp Hs1.
    + fb_imp Hs2.
Qed.

(* without `jumps`, no break *)
Lemma stmt7_nobrk7 : forall s i t l, stmt7 false i t l s = true -> nobrk7 s = true.
Proof.
  induction s using stmt_nind; intros i0 t0 l0 Hs; cbn [stmt7 nobrk7] in *; try discriminate; try reflexivity.
  - fb_imp Hs.
  - fb_imp Hs.
  - apply andb_prop in Hs as [Hs _]. fb_imp Hs.
  - fb_imp Hs.
  - apply andb_prop in Hs as [Hs He']. apply andb_prop in Hs as [Hs Ht].
    apply andb_true_intro. split; [fb_imp Ht|fb_imp He'].
  - apply andb_prop in Hs as [Hs1 Hs2]. apply andb_true_intro. split; [fb_imp Hs1|fb_imp Hs2].
Qed.

(* the old weak fragment is part of the new one, with the same side conditions *)
Lemma stmt6w_stmt7w : forall s, stmt6w s = true -> stmt7w s = true.
Proof.
  induction s using stmt_nind; intros Hs; cbn [stmt6w stmt7w] in *; try discriminate; try exact Hs; try fb_imp Hs.
  apply andb_prop in Hs as [Hs He']. apply andb_prop in Hs as [Hs Ht]. rewrite Hs. cbn [andb].
  apply andb_true_intro. split; [fb_imp Ht|fb_imp He'].
Qed.

(* ------------------------------------------------------------------------------------------ *)
(* Part 2: the pure compiler of ScopeDefs5.v unfolded over the named nlist / nblk / nfunc; its invariant *)

(* the local `fix` nl of nstmt = nlist, the local nblock = nblk, the local nfun = nfunc *)
Lemma nl_eq : forall cf l dd L U E fs pos lc,
  (fix go (l : list stmt) (dd : nat) (L : list local) (U : ups_t) (E : list lev) (fs : list func)
          (pos : nat) (lc : option lctx) : option nres :=
    match l with
    | [] => Some ([], L, U, E, fs)
    | a :: r => match nstmt cf a L dd U E fs pos lc with
                | Some (ca, L1, U1, E1, fs1) =>
                    match go r dd L1 U1 E1 fs1 (pos + code_size ca) lc with
                    | Some (cr, L2, U2, E2, fs2) => Some ((ca ++ cr)%list, L2, U2, E2, fs2)
                    | None => None
                    end
                | None => None
                end
    end) l dd L U E fs pos lc = nlist cf l dd L U E fs pos lc.
Proof.
  intros cf l. induction l as [|a r IH]; intros dd L U E fs pos lc; [reflexivity|]. cbn [nlist].
  destruct (nstmt cf a L dd U E fs pos lc) as [[[[[ca L1] U1] E1] fs1]|]; [|reflexivity]. now rewrite IH.
Qed.

Lemma nstmt_block : forall cf b L d U E fs pos lc,
  nstmt cf (SBlock b) L d U E fs pos lc = nblk cf b d L U E fs pos lc.
Proof. intros. unfold nblk. cbn [nstmt]. rewrite nl_eq. reflexivity. Qed.

Lemma nstmt_fun : forall cf f ps b L d U E fs pos lc,
  nstmt cf (SFun f ps b) L d U E fs pos lc =
  if d =? 0 then
    match nfunc cf ps b L U E fs with
    | Some (ci, L', U', E', fs') => Some ([ci; IDefineGlobal f], L', U', E', fs')
    | None => None
    end
  else if dup_in_scope L f d then None
  else if List.length L =? c_locals_max cf then None
  else
    match nfunc cf ps b (mkLocal (Some f) (Some d) false :: L) U E fs with
    | Some (ci, L', U', E', fs') => Some ([ci], L', U', E', fs')
    | None => None
    end.
Proof.
  intros cf f ps b L d U E fs pos lc. cbn [nstmt]. unfold nfunc.
  destruct (bparams cf ps [mkLocal None (Some 0) false]) as [Lp|]; [|reflexivity].
  rewrite !nl_eq. reflexivity.
Qed.

Lemma nstmt_lam : forall cf x ps b L d U E fs pos lc,
  nstmt cf (SLam x ps b) L d U E fs pos lc =
  if d =? 0 then
    match nfunc cf ps b L U E fs with
    | Some (ci, L', U', E', fs') => Some ([ci; IDefineGlobal x], L', U', E', fs')
    | None => None
    end
  else if dup_in_scope L x d then None
  else if List.length L =? c_locals_max cf then None
  else
    match nfunc cf ps b (mkLocal (Some x) None false :: L) U E fs with
    | Some (ci, l0 :: L', U', E', fs') => Some ([ci], mkLocal (Some x) (Some d) (l_capt l0) :: L', U', E', fs')
    | _ => None
    end.
Proof.
  intros cf x ps b L d U E fs pos lc. cbn [nstmt]. unfold nfunc.
  destruct (bparams cf ps [mkLocal None (Some 0) false]) as [Lp|]; [|reflexivity].
  rewrite !nl_eq. reflexivity.
Qed.

Lemma nstmt_loop : forall cf i n b L d U E fs pos lc,
  nstmt cf (SLoop i n b) L d U E fs pos lc =
  if dup_in_scope L i (S d) then None
  else if List.length L =? c_locals_max cf then None
  else if S (List.length L) =? c_locals_max cf then None
  else
    let lv := List.length L in
    let start := pos + code_size (loop_pre n) in
    let posb := start + code_size (loop_head lv 0) in
    match nblk cf b (S d) (loop_locals i d L) U E fs posb (Some (mkLctx start (S d) 0)) with
    | Some (c0, _, _, _, _) =>
        let szb := code_size c0 in
        match nblk cf b (S d) (loop_locals i d L) U E fs posb (Some (mkLctx start (S d) (posb + szb + 3 + 1))) with
        | Some (cblock, L1, U', E', fs') =>
            let ops := scope_end_ops L1 d in
            Some ((loop_pre n ++ loop_head lv (1 + szb + 3) ++ cblock
                   ++ [ILoop (code_size (loop_head lv 0) + szb + 3); IPop] ++ ops)%list,
                  skipn (List.length ops) L1, U', E', fs')
        | None => None
        end
    | None => None
    end.
Proof.
  intros cf i n b L d U E fs pos lc. unfold nblk, loop_locals. cbn [nstmt]. rewrite !nl_eq. reflexivity.
Qed.

Lemma nstmt_if : forall cf a c t e L d U E fs pos lc,
  nstmt cf (SIf a c t e) L d U E fs pos lc =
  match nexpr cf L a U E with
  | Some (ca, U1, E1) =>
      match nexpr cf L c U1 E1 with
      | Some (cc, U2, E2) =>
          let post := pos + code_size ca + code_size cc + code_size [ILess; IJumpIfFalse 0; IPop] in
          match nblk cf t d L U2 E2 fs post lc with
          | Some (ct, L1, U3, E3, fs1) =>
              let pose := post + code_size ct + code_size [IJump 0; IPop] in
              match nblk cf e d L1 U3 E3 fs1 pose lc with
              | Some (cel, L2, U4, E4, fs2) =>
                  Some ((ca ++ cc ++ [ILess; IJumpIfFalse (1 + code_size ct + 3); IPop] ++ ct
                         ++ [IJump (1 + code_size cel); IPop] ++ cel)%list, L2, U4, E4, fs2)
              | None => None
              end
          | None => None
          end
      | None => None
      end
  | None => None
  end.
Proof.
  intros cf a c t e L d U E fs pos lc. unfold nblk. cbn [nstmt].
  destruct (nexpr cf L a U E) as [[[ca U1] E1]|]; [|reflexivity].
  destruct (nexpr cf L c U1 E1) as [[[cc U2] E2]|]; [|reflexivity].
  rewrite nl_eq. destruct (nlist cf t (S d) L U2 E2 fs _ lc) as [[[[[ct L1] U3] E3] fs1]|]; [|reflexivity].
  rewrite nl_eq. reflexivity.
Qed.

Lemma nstmt_throw : forall cf e L d U E fs pos lc,
  nstmt cf (SThrow e) L d U E fs pos lc =
  match nexpr cf L e U E with
  | Some (ce, U', E') => Some ((ce ++ [IThrow])%list, L, U', E', fs)
  | None => None
  end.
Proof. reflexivity. Qed.

(* the PopExcHandler at the start of a catch clause (as shipped) *)
Definition cpops (cf : cfg) : list instr := if c_catch_pops cf then [IPopExc] else [].

Lemma nstmt_try : forall cf b x h L d U E fs pos lc,
  nstmt cf (STry b x h) L d U E fs pos lc =
  match nblk cf b d L U E fs (pos + 5) lc with
  | Some (cb, L1, U1, E1, fs1) =>
      if dup_in_scope L1 x (S d) then None
      else if List.length L1 =? c_locals_max cf then None
      else
        let posh := pos + 5 + code_size cb + 4 + code_size (cpops cf) in
        match nlist cf h (S d) (mkLocal (Some x) (Some (S d)) false :: L1) U1 E1 fs1 posh lc with
        | Some (ch, L2, U2, E2, fs2) =>
            let ops := scope_end_ops L2 d in
            let chh := (cpops cf ++ ch ++ ops)%list in
            Some ((IPushExc (code_size cb + 4) (code_size chh) :: cb ++ [IPopExc; IJump (code_size chh)] ++ chh)%list,
                  skipn (List.length ops) L2, U2, E2, fs2)
        | None => None
        end
  | None => None
  end.
Proof.
  intros cf b x h L d U E fs pos lc. unfold nblk, cpops. cbn [nstmt]. rewrite nl_eq.
  destruct (nlist cf b (S d) L U E fs (pos + 5) lc) as [[[[[cb L1] U1] E1] fs1]|]; [|reflexivity].
  cbv beta iota zeta.
  destruct (dup_in_scope _ x (S d)); [reflexivity|]. destruct (_ =? c_locals_max cf); [reflexivity|].
  rewrite nl_eq. reflexivity.
Qed.

Definition inv_goal (cf : cfg) (s : stmt) : Prop := forall L d U E fs pos lc code L' U' E' fs',
  nstmt cf s L d U E fs pos lc = Some (code, L', U', E', fs') -> ninv U E U' E'.

Lemma nlist_inv_aux : forall cf b, Forall (inv_goal cf) b ->
  forall d L U E fs pos lc code L' U' E' fs', nlist cf b d L U E fs pos lc = Some (code, L', U', E', fs') -> ninv U E U' E'.
Proof.
  intros cf b H. induction H as [|a r Ha Hr IH]; intros d L U E fs pos lc code L' U' E' fs'; cbn [nlist].
  - intros [= <- <- <- <- <-]. apply ninv_refl.
  - destruct (nstmt cf a L d U E fs pos lc) as [[[[[ca L1] U1] E1] fs1]|] eqn:E1'; [|discriminate].
    destruct (nlist cf r d L1 U1 E1 fs1 (pos + code_size ca) lc) as [[[[[cr L2] U2] E2] fs2]|] eqn:E2'; [|discriminate].
    intros [= <- <- <- <- <-]. eapply ninv_trans; [eapply Ha; eauto|eapply IH; eauto].
Qed.

Lemma nblk_inv_aux : forall cf b, Forall (inv_goal cf) b ->
  forall d L U E fs pos lc code L' U' E' fs', nblk cf b d L U E fs pos lc = Some (code, L', U', E', fs') -> ninv U E U' E'.
Proof.
  intros cf b H d L U E fs pos lc code L' U' E' fs'. unfold nblk.
  destruct (nlist cf b (S d) L U E fs pos lc) as [[[[[cb L1] U1] E1] fs1]|] eqn:El; [|discriminate].
  cbv zeta. intros [= <- <- <- <- <-]. eapply nlist_inv_aux; eauto.
Qed.

(* a function: the invariant for the levels enclosing the definition, and the locals of the function the definition
   stands in keep names and depths *)
Lemma nfunc_inv_aux : forall cf ps b, Forall (inv_goal cf) b ->
  forall L1 U E fs ci L' U' E' fs', nfunc cf ps b L1 U E fs = Some (ci, L', U', E', fs') ->
  ninv U E U' E' /\ flags_up L1 L'.
Proof.
  intros cf ps b Hb L1 U E fs ci L' U' E' fs'. unfold nfunc.
  destruct (bparams cf ps [mkLocal None (Some 0) false]) as [Lp|]; [|discriminate].
  destruct (nlist cf b 1 Lp [] (mkLev L1 U :: E) fs 0 None) as [[[[[cb Lb] Ub] Eb] fs1]|] eqn:El; [|discriminate].
  cbn [nclose]. destruct Eb as [|lv E1]; [discriminate|]. intros [= <- <- <- <- <-].
  destruct (nlist_inv_aux cf b Hb _ _ _ _ _ _ _ _ _ _ _ _ El) as [A B].
  inversion A as [|? ? ? ? Hh Ht]; subst. cbn [outer_ups lv_ups lv_locals] in *.
  split; [split; [exact Ht|exact B]|exact Hh].
Qed.

Lemma nstmt_inv : forall cf s, stmt7w s = true -> forall L d U E fs pos lc code L' U' E' fs',
  nstmt cf s L d U E fs pos lc = Some (code, L', U', E', fs') -> ninv U E U' E'.
Proof.
  intros cf s Hs. change (inv_goal cf s). pattern s. revert s Hs. apply stmt7w_ind.
  - intros x e He L d U E fs pos lc code L' U' E' fs'. cbn [nstmt]. destruct (d =? 0).
    + destruct (nexpr cf L e U E) as [[[ce U1] E1]|] eqn:Ee; [|discriminate].
      intros [= <- <- <- <- <-]. eapply nexpr_inv; eauto.
    + destruct (dup_in_scope L x d); [discriminate|]. destruct (List.length L =? c_locals_max cf); [discriminate|].
      destruct (nexpr cf _ e U E) as [[[ce U1] E1]|] eqn:Ee; [|discriminate].
      intros [= <- <- <- <- <-]. eapply nexpr_inv; eauto.
  - intros x e He L d U E fs pos lc code L' U' E' fs'. cbn [nstmt].
    destruct (rvn cf L U E x) as [[[r U0] E0]|] eqn:Er; [|discriminate].
    destruct (nexpr cf L e U0 E0) as [[[ce U1] E1]|] eqn:Ee; [|discriminate].
    intros [= <- <- <- <- <-]. eapply ninv_trans; [eapply rvn_inv; eauto|eapply nexpr_inv; eauto].
  - intros e He L d U E fs pos lc code L' U' E' fs'. cbn [nstmt].
    destruct (nexpr cf L e U E) as [[[ce U1] E1]|] eqn:Ee; [|discriminate].
    intros [= <- <- <- <- <-]. eapply nexpr_inv; eauto.
  - intros e He L d U E fs pos lc code L' U' E' fs'. cbn [nstmt].
    destruct (nexpr cf L e U E) as [[[ce U1] E1]|] eqn:Ee; [|discriminate].
    intros [= <- <- <- <- <-]. eapply nexpr_inv; eauto.
  - intros e He L d U E fs pos lc code L' U' E' fs'. cbn [nstmt].
    destruct (nexpr cf L e U E) as [[[ce U1] E1]|] eqn:Ee; [|discriminate].
    intros [= <- <- <- <- <-]. eapply nexpr_inv; eauto.
  - intros b Hb IH L d U E fs pos lc code L' U' E' fs'. rewrite nstmt_block. apply nblk_inv_aux; exact IH.
  - intros f ps b Hb IH L d U E fs pos lc code L' U' E' fs'. rewrite nstmt_fun. destruct (d =? 0).
    + destruct (nfunc cf ps b L U E fs) as [[[[[ci L1] U1] E1] fs1]|] eqn:Ef; [|discriminate].
      intros [= <- <- <- <- <-]. eapply nfunc_inv_aux; eauto.
    + destruct (dup_in_scope L f d); [discriminate|]. destruct (List.length L =? c_locals_max cf); [discriminate|].
      destruct (nfunc cf ps b _ U E fs) as [[[[[ci L1] U1] E1] fs1]|] eqn:Ef; [|discriminate].
      intros [= <- <- <- <- <-]. eapply nfunc_inv_aux; eauto.
  - intros x ps b Hb IH L d U E fs pos lc code L' U' E' fs'. rewrite nstmt_lam. destruct (d =? 0).
    + destruct (nfunc cf ps b L U E fs) as [[[[[ci L1] U1] E1] fs1]|] eqn:Ef; [|discriminate].
      intros [= <- <- <- <- <-]. eapply nfunc_inv_aux; eauto.
    + destruct (dup_in_scope L x d); [discriminate|]. destruct (List.length L =? c_locals_max cf); [discriminate|].
      destruct (nfunc cf ps b _ U E fs) as [[[[[ci L1] U1] E1] fs1]|] eqn:Ef; [|discriminate].
      destruct L1 as [|l0 L1]; [discriminate|].
      intros [= <- <- <- <- <-]. eapply nfunc_inv_aux; eauto.
  - (* SLoop *)
    intros i n b Hb IH L d U E fs pos lc code L' U' E' fs'. rewrite nstmt_loop.
    destruct (dup_in_scope L i (S d)); [discriminate|]. destruct (List.length L =? c_locals_max cf); [discriminate|].
    destruct (S (List.length L) =? c_locals_max cf); [discriminate|]. cbv zeta.
    destruct (nblk cf b (S d) _ U E fs _ (Some (mkLctx _ _ 0))) as [[[[[c0 L0] U0] E0] fs0]|]; [|discriminate].
    destruct (nblk cf b (S d) _ U E fs _ (Some (mkLctx _ _ (_ + 1)))) as [[[[[cb L1] U1] E1] fs1]|] eqn:E2; [|discriminate].
    intros [= <- <- <- <- <-]. eapply nblk_inv_aux; eauto.
  - (* SIf *)
    intros a c t e Ha Hc Ht He IHt IHe L d U E fs pos lc code L' U' E' fs'. rewrite nstmt_if.
    destruct (nexpr cf L a U E) as [[[ca U1] E1]|] eqn:Ea; [|discriminate].
    destruct (nexpr cf L c U1 E1) as [[[cc U2] E2]|] eqn:Ec; [|discriminate]. cbv zeta.
    destruct (nblk cf t d L U2 E2 fs _ lc) as [[[[[ct L1] U3] E3] fs1]|] eqn:Et; [|discriminate].
    destruct (nblk cf e d L1 U3 E3 fs1 _ lc) as [[[[[cel L2] U4] E4] fs2]|] eqn:Ee; [|discriminate].
    intros [= <- <- <- <- <-].
    eapply ninv_trans; [exact (nexpr_inv cf a Ha _ _ _ _ _ _ Ea)|]. eapply ninv_trans; [exact (nexpr_inv cf c Hc _ _ _ _ _ _ Ec)|].
    eapply ninv_trans; [exact (nblk_inv_aux cf t IHt _ _ _ _ _ _ _ _ _ _ _ _ Et)|exact (nblk_inv_aux cf e IHe _ _ _ _ _ _ _ _ _ _ _ _ Ee)].
  - (* SBreak *)
    intros L d U E fs pos lc code L' U' E' fs'. cbn [nstmt]. destruct lc as [l|]; [|discriminate].
    intros [= <- <- <- <- <-]. apply ninv_refl.
  - (* SContinue *)
    intros L d U E fs pos lc code L' U' E' fs'. cbn [nstmt]. destruct lc as [l|]; [|discriminate].
    intros [= <- <- <- <- <-]. apply ninv_refl.
  - (* SThrow *)
    intros e He L d U E fs pos lc code L' U' E' fs'. rewrite nstmt_throw.
    destruct (nexpr cf L e U E) as [[[ce U1] E1]|] eqn:Ee; [|discriminate].
    intros [= <- <- <- <- <-]. eapply nexpr_inv; eauto.
  - (* STry *)
    intros b x h Hb Hh IHb IHh L d U E fs pos lc code L' U' E' fs'. rewrite nstmt_try.
    destruct (nblk cf b d L U E fs (pos + 5) lc) as [[[[[cb L1] U1] E1] fs1]|] eqn:Eb; [|discriminate].
    destruct (dup_in_scope L1 x (S d)); [discriminate|]. destruct (List.length L1 =? c_locals_max cf); [discriminate|].
    cbv zeta.
    destruct (nlist cf h (S d) _ U1 E1 fs1 _ lc) as [[[[[ch L2] U2] E2] fs2]|] eqn:Eh; [|discriminate].
    intros [= <- <- <- <- <-].
    eapply ninv_trans; [exact (nblk_inv_aux cf b IHb _ _ _ _ _ _ _ _ _ _ _ _ Eb)|exact (nlist_inv_aux cf h IHh _ _ _ _ _ _ _ _ _ _ _ _ Eh)].
Qed.

Lemma stmt7w_all_inv : forall cf b, forallb stmt7w b = true -> Forall (inv_goal cf) b.
Proof.
  intros cf b Hb. induction b as [|a r IH]; constructor.
  - cbn in Hb. apply andb_prop in Hb as [Ha _]. unfold inv_goal. now apply nstmt_inv.
  - cbn in Hb. apply andb_prop in Hb as [_ Hr]. now apply IH.
Qed.

Lemma nlist_inv : forall cf b, forallb stmt7w b = true -> forall d L U E fs pos lc code L' U' E' fs',
  nlist cf b d L U E fs pos lc = Some (code, L', U', E', fs') -> ninv U E U' E'.
Proof. intros cf b Hb. apply nlist_inv_aux. now apply stmt7w_all_inv. Qed.

Lemma nblk_inv : forall cf b, forallb stmt7w b = true -> forall d L U E fs pos lc code L' U' E' fs',
  nblk cf b d L U E fs pos lc = Some (code, L', U', E', fs') -> ninv U E U' E'.
Proof. intros cf b Hb. apply nblk_inv_aux. now apply stmt7w_all_inv. Qed.

Lemma nfunc_inv : forall cf ps b, forallb stmt7w b = true ->
  forall L1 U E fs ci L' U' E' fs', nfunc cf ps b L1 U E fs = Some (ci, L', U', E', fs') ->
  ninv U E U' E' /\ flags_up L1 L'.
Proof. intros cf ps b Hb. apply nfunc_inv_aux. now apply stmt7w_all_inv. Qed.

(* the number of enclosing levels is kept *)
Lemma nstmt_len : forall cf s, stmt7w s = true -> forall L d U E fs pos lc code L' U' E' fs',
  nstmt cf s L d U E fs pos lc = Some (code, L', U', E', fs') -> List.length E' = List.length E.
Proof. intros cf s Hs L d U E fs pos lc code L' U' E' fs' H. eapply ninv_length, nstmt_inv; eauto. Qed.

Lemma nlist_len : forall cf b, forallb stmt7w b = true -> forall d L U E fs pos lc code L' U' E' fs',
  nlist cf b d L U E fs pos lc = Some (code, L', U', E', fs') -> List.length E' = List.length E.
Proof. intros cf b Hb d L U E fs pos lc code L' U' E' fs' H. eapply ninv_length, nlist_inv; eauto. Qed.

Lemma nblk_len : forall cf b, forallb stmt7w b = true -> forall d L U E fs pos lc code L' U' E' fs',
  nblk cf b d L U E fs pos lc = Some (code, L', U', E', fs') -> List.length E' = List.length E.
Proof. intros cf b Hb d L U E fs pos lc code L' U' E' fs' H. eapply ninv_length, nblk_inv; eauto. Qed.

(* with no enclosing level the upvalue list never changes *)
Lemma nstmt_nil : forall cf s, stmt7w s = true -> forall L d U fs pos lc code L' U' E' fs',
  nstmt cf s L d U [] fs pos lc = Some (code, L', U', E', fs') -> U' = U /\ E' = [].
Proof. intros cf s Hs L d U fs pos lc code L' U' E' fs' H. eapply ninv_nil, nstmt_inv; eauto. Qed.

Lemma nlist_nil : forall cf b, forallb stmt7w b = true -> forall d L U fs pos lc code L' U' E' fs',
  nlist cf b d L U [] fs pos lc = Some (code, L', U', E', fs') -> U' = U /\ E' = [].
Proof. intros cf b Hb d L U fs pos lc code L' U' E' fs' H. eapply ninv_nil, nlist_inv; eauto. Qed.

(* ------------------------------------------------------------------------------------------ *)
(* Part 3: the try statement unfolded over the named comp_list; the error flag is sticky through the fragment *)

(* after the try block: the handler is popped, the jump over the catch clause *)
Definition try_st3 (prev : bool) (st2 : cst) : cst := emit IPopExc (on_top (fun c => set_intry c prev) st2).
Definition try_st4 (prev : bool) (st2 : cst) : cst := emit (IJump 0) (try_st3 prev st2).
(* the catch clause up to its first statement: the scope and the local that receives the exception *)
Definition try_st6 (cf : cfg) (x : name) (prev : bool) (st2 : cst) : cst :=
  mark_initialised (declare_variable cf x
    (begin_scope (if c_catch_pops cf then emit IPopExc (try_st4 prev st2) else try_st4 prev st2))).

Definition try_tail (cf : cfg) (x : name) (h : list stmt) (prev : bool) (push_ix : nat) (st2 : cst) : cst :=
  let st7 := patch_jump (here_ix (try_st3 prev st2)) (end_scope (comp_list cf h (try_st6 cf x prev st2))) in
  on_top (fun c => set_code c (set_nth (fc_code c) push_ix
            (IPushExc (bytes_after (fc_code (top_of (try_st4 prev st2))) push_ix)
                      (here_bytes st7 - here_bytes (try_st4 prev st2))))) st7.

Lemma comp_stmt_try : forall cf b x h st,
  comp_stmt cf (STry b x h) st =
  try_tail cf x h (fc_intry (top_of st)) (here_ix (on_top (fun c => set_intry c true) st))
    (blockS cf b (emit (IPushExc 0 0) (on_top (fun c => set_intry c true) st))).
Proof. intros. cbn [comp_stmt]. unfold try_tail, try_st6, try_st4, try_st3, blockS, comp_list. reflexivity. Qed.

Lemma errd_try_st4 : forall prev st, errd st -> errd (try_st4 prev st).
Proof. intros prev st H. unfold try_st4, try_st3. now apply errd_emit, errd_emit, errd_on_top. Qed.

Lemma errd_try_st6 : forall cf x prev st, errd st -> errd (try_st6 cf x prev st).
Proof.
  intros cf x prev st H. unfold try_st6. apply errd_mark_initialised, errd_declare_variable. unfold begin_scope.
  apply errd_on_top. pose proof (errd_try_st4 prev st H) as H4.
  destruct (c_catch_pops cf); [now apply errd_emit|exact H4].
Qed.

(* whatever the catch clause starts from, an error there stays *)
Lemma errd_try_tail_from : forall cf x h, Forall (sticky cf) h -> forall prev pix st,
  errd (try_st6 cf x prev st) -> errd (try_tail cf x h prev pix st).
Proof.
  intros cf x h IH prev pix st H. unfold try_tail. cbv zeta.
  apply errd_on_top, errd_patch_jump, errd_end_scope. apply errd_comp_list_aux; [exact IH|exact H].
Qed.

Lemma errd_try_tail : forall cf x h, Forall (sticky cf) h -> forall prev pix st,
  errd st -> errd (try_tail cf x h prev pix st).
Proof. intros cf x h IH prev pix st H. apply errd_try_tail_from; [exact IH|]. now apply errd_try_st6. Qed.

Lemma errd_comp_stmt7w : forall cf s, stmt7w s = true -> forall st, errd st -> errd (comp_stmt cf s st).
Proof.
  intros cf s Hs. change (sticky cf s). pattern s. revert s Hs. apply stmt7w_ind; unfold sticky.
  - intros x e He st H. cbn [comp_stmt]. apply errd_define_variable. apply errd_comp_expr2; [exact He|].
    apply errd_declare_variable; exact H.
  - intros x e He st H. cbn [comp_stmt]. pose proof (errd_resolve_variable cf x st H) as H1.
    destruct (resolve_variable cf x st) as [st1 r]. apply errd_emit, errd_emit. apply errd_comp_expr2; [exact He|exact H1].
  - intros e He st H. cbn [comp_stmt]. apply errd_emit, errd_emit. apply errd_comp_expr2; [exact He|]. apply errd_emit; exact H.
  - intros e He st H. cbn [comp_stmt]. apply errd_emit. apply errd_comp_expr2; [exact He|exact H].
  - intros e He st H. cbn [comp_stmt]. cbv zeta.
    assert (H0 : errd (if fc_script (top_of st) then fail st "Cannot return from top-level code." else st)).
    { destruct (fc_script (top_of st)); [apply errd_fail|exact H]. }
    pose proof (errd_comp_expr2 cf e He _ H0) as H1.
    destruct (fc_intry _); [apply errd_fail|now apply errd_emit].
  - intros b Hb IH st H. rewrite comp_stmt_block. now apply (errd_blockS cf b IH).
  - intros f ps b Hb IH st H. rewrite comp_stmt_fun. apply errd_define_variable, errd_finalise_function.
    apply errd_comp_list_aux; [exact IH|]. apply errd_open_function, errd_mark_initialised, errd_declare_variable, H.
  - intros x ps b Hb IH st H. rewrite comp_stmt_lam. apply errd_define_variable, errd_finalise_function.
    apply errd_comp_list_aux; [exact IH|]. apply errd_open_function, errd_declare_variable, H.
  - intros i n b Hb IH st H. rewrite comp_stmt_loop. apply errd_loop_mid; [exact IH|].
    apply errd_declare_variable. now apply errd_on_top.
  - intros a c t e Ha Hc Ht He IHt IHe st H. rewrite comp_stmt_if. cbv zeta. apply errd_if_tail; [exact IHe|].
    apply errd_blockS; [exact IHt|]. apply errd_emits, errd_emit. apply errd_comp_expr2; [exact Hc|].
    now apply errd_comp_expr2.
  - intros st H. cbn [comp_stmt]. destruct (fc_loops (top_of st)) as [|[s0 d0] r]; [apply errd_fail|].
    destruct (c_break_pops_first cf).
    + apply errd_push_break, errd_emit. now apply errd_emit_scope_end.
    + apply errd_emit_scope_end, errd_push_break. now apply errd_emit.
  - intros st H. cbn [comp_stmt]. destruct (fc_loops (top_of st)) as [|[s0 d0] r]; [apply errd_fail|].
    apply errd_emit_loop. now apply errd_emit_scope_end.
  - intros e He st H. cbn [comp_stmt]. apply errd_emit. apply errd_comp_expr2; [exact He|exact H].
  - intros b x h Hb Hh IHb IHh st H. rewrite comp_stmt_try. apply errd_try_tail; [exact IHh|].
    apply errd_blockS; [exact IHb|]. now apply errd_emit, errd_on_top.
Qed.

Lemma stmt7w_all_sticky : forall cf b, forallb stmt7w b = true -> Forall (sticky cf) b.
Proof.
  intros cf b Hb. induction b as [|a r IH]; constructor.
  - cbn in Hb. apply andb_prop in Hb as [Ha _]. unfold sticky. now apply errd_comp_stmt7w.
  - cbn in Hb. apply andb_prop in Hb as [_ Hr]. now apply IH.
Qed.

Lemma errd_comp_list7w : forall cf b, forallb stmt7w b = true -> forall st, errd st -> errd (comp_list cf b st).
Proof. intros cf b Hb. apply errd_comp_list_aux. now apply stmt7w_all_sticky. Qed.

(* ------------------------------------------------------------------------------------------ *)
(* Part 6: the stateful primitives of a try statement on an explicit compiler record *)

Lemma try_st3_stk : forall prev code L U d lo br it ar sc cs fs,
  try_st3 prev (stk (mkFC code L U d lo br it ar sc) cs fs) = stk (mkFC (code ++ [IPopExc]) L U d lo br prev ar sc) cs fs.
Proof. reflexivity. Qed.

Lemma try_st4_stk : forall prev code L U d lo br it ar sc cs fs,
  try_st4 prev (stk (mkFC code L U d lo br it ar sc) cs fs) =
  stk (mkFC (code ++ [IPopExc; IJump 0]) L U d lo br prev ar sc) cs fs.
Proof. intros. unfold try_st4. rewrite try_st3_stk, emit_mk, <- app_assoc. reflexivity. Qed.

(* the start of the catch clause, before the local of the exception is declared *)
Lemma try_st5_stk : forall cf prev code L U d lo br it ar sc cs fs,
  begin_scope (if c_catch_pops cf then emit IPopExc (try_st4 prev (stk (mkFC code L U d lo br it ar sc) cs fs))
               else try_st4 prev (stk (mkFC code L U d lo br it ar sc) cs fs)) =
  stk (mkFC (code ++ [IPopExc; IJump 0] ++ cpops cf) L U (S d) lo br prev ar sc) cs fs.
Proof.
  intros. rewrite try_st4_stk. unfold cpops. destruct (c_catch_pops cf).
  - rewrite emit_mk, <- app_assoc. reflexivity.
  - rewrite app_nil_r. reflexivity.
Qed.

Lemma try_st6_stk : forall cf x prev code L U d lo br it ar sc cs fs,
  dup_in_scope L x (S d) = false -> (List.length L =? c_locals_max cf) = false ->
  try_st6 cf x prev (stk (mkFC code L U d lo br it ar sc) cs fs) =
  stk (mkFC (code ++ [IPopExc; IJump 0] ++ cpops cf) (mkLocal (Some x) (Some (S d)) false :: L) U (S d) lo br prev ar sc) cs fs.
Proof.
  intros cf x prev code L U d lo br it ar sc cs fs Hdup Hmax. unfold try_st6. rewrite try_st5_stk.
  unfold declare_variable. rewrite top_of_stk. cbn [fc_depth fc_locals]. change (S d =? 0) with false. cbv iota.
  rewrite Hdup. unfold add_local. rewrite top_of_stk. cbn [fc_locals]. rewrite Hmax. rewrite on_top_stk.
  unfold set_locals. cbn [fc_code fc_locals fc_ups fc_depth fc_loops fc_breaks fc_intry fc_arity fc_script].
  unfold mark_initialised. rewrite on_top_stk. cbn [fc_depth Nat.eqb fc_locals l_name l_capt].
  unfold set_locals. cbn [fc_code fc_locals fc_ups fc_depth fc_loops fc_breaks fc_intry fc_arity fc_script]. reflexivity.
Qed.

Lemma try_st6_err : forall cf x prev code L U d lo br it ar sc cs fs,
  dup_in_scope L x (S d) = true \/ (List.length L =? c_locals_max cf) = true ->
  errd (try_st6 cf x prev (stk (mkFC code L U d lo br it ar sc) cs fs)).
Proof.
  intros cf x prev code L U d lo br it ar sc cs fs H. unfold try_st6. rewrite try_st5_stk. apply errd_mark_initialised.
  unfold declare_variable. rewrite top_of_stk. cbn [fc_depth fc_locals]. change (S d =? 0) with false. cbv iota.
  destruct (dup_in_scope L x (S d)).
  - apply errd_add_local, errd_fail.
  - destruct H as [H|H]; [discriminate|]. unfold add_local. rewrite top_of_stk. cbn [fc_locals]. rewrite H. apply errd_fail.
Qed.

(* the end of a try statement: the try block has been compiled (code cb), the catch clause compiles to ch *)
Lemma try_tail_stk : forall cf x h code cb L1 U1 d lo br1 it it' ar sc cs1 fs1 ch L2 U2 br2 cs2 fs2,
  dup_in_scope L1 x (S d) = false -> (List.length L1 =? c_locals_max cf) = false ->
  comp_list cf h (stk (mkFC (((code ++ [IPushExc 0 0]) ++ cb) ++ [IPopExc; IJump 0] ++ cpops cf)
                            (mkLocal (Some x) (Some (S d)) false :: L1) U1 (S d) lo br1 it ar sc) cs1 fs1) =
    stk (mkFC ((((code ++ [IPushExc 0 0]) ++ cb) ++ [IPopExc; IJump 0] ++ cpops cf) ++ ch) L2 U2 (S d) lo br2 it ar sc) cs2 fs2 ->
  try_tail cf x h it (List.length code) (stk (mkFC ((code ++ [IPushExc 0 0]) ++ cb) L1 U1 d lo br1 it' ar sc) cs1 fs1) =
  stk (mkFC (code ++ IPushExc (code_size cb + 4) (code_size (cpops cf ++ ch ++ scope_end_ops L2 d))
                  :: cb ++ [IPopExc; IJump (code_size (cpops cf ++ ch ++ scope_end_ops L2 d))]
                  ++ cpops cf ++ ch ++ scope_end_ops L2 d)
            (skipn (List.length (scope_end_ops L2 d)) L2) U2 d lo br2 it ar sc) cs2 fs2.
Proof.
  intros cf x h code cb L1 U1 d lo br1 it it' ar sc cs1 fs1 ch L2 U2 br2 cs2 fs2 Hdup Hmax Hh.
  unfold try_tail. cbv zeta. rewrite (try_st6_stk cf x it _ L1 U1 d lo br1 it' ar sc cs1 fs1 Hdup Hmax).
  rewrite Hh, try_st3_stk, try_st4_stk. unfold here_ix, here_bytes. rewrite end_scope_mk. rewrite !top_of_stk. cbn [fc_code].
  set (ops := scope_end_ops L2 d).
  rewrite (patch_jump_at' _ _ (((code ++ [IPushExc 0 0]) ++ cb) ++ [IPopExc]) (IJump 0) (cpops cf ++ ch ++ ops));
    [| norm_app; reflexivity | reflexivity].
  rewrite top_of_stk, on_top_stk. cbn [fc_code patch_instr]. unfold set_code.
  cbn [fc_code fc_locals fc_ups fc_depth fc_loops fc_breaks fc_intry fc_arity fc_script].
  f_equal. f_equal.
  set (post := (cpops cf ++ ch ++ ops)%list).
  replace (((code ++ [IPushExc 0 0]) ++ cb) ++ [IPopExc; IJump 0])%list
    with (code ++ IPushExc 0 0 :: cb ++ [IPopExc; IJump 0])%list by (norm_app; reflexivity).
  replace ((((code ++ [IPushExc 0 0]) ++ cb) ++ [IPopExc]) ++ IJump (code_size post) :: post)%list
    with (code ++ IPushExc 0 0 :: cb ++ [IPopExc; IJump (code_size post)] ++ post)%list by (norm_app; reflexivity).
  unfold bytes_after. rewrite skipn_S_mid, set_nth_mid. f_equal. f_equal.
  f_equal.
  - rewrite code_size_app. reflexivity.
  - rewrite !code_size_app. cbn [code_size isize]. rewrite !code_size_app. cbn [code_size isize]. lia.
Qed.

Lemma loop_mid_max : forall cf n b code i L U d lo br it ar sc cs fs, Forall (sticky cf) b ->
  (S (List.length L) =? c_locals_max cf) = true ->
  errd (loop_mid cf n b (stk (mkFC code (mkLocal (Some i) None false :: L) U (S d) lo br it ar sc) cs fs)).
Proof.
  intros cf n b code i L U d lo br it ar sc cs fs Hb Hmax. unfold loop_mid. cbv zeta.
  apply errd_loop_tail; [exact Hb|].
  apply errd_emits, errd_emits, errd_push_loop, errd_mark_initialised, errd_emit.
  rewrite emits_mk. unfold mark_initialised. rewrite on_top_stk. cbn [fc_depth Nat.eqb fc_locals l_name l_capt].
  unfold set_locals. cbn [fc_code fc_locals fc_ups fc_depth fc_loops fc_breaks fc_intry fc_arity fc_script].
  unfold add_local. rewrite top_of_stk. cbn [fc_locals List.length]. rewrite Hmax. apply errd_fail.
Qed.

(* ------------------------------------------------------------------------------------------ *)
(* Part 7: statements.  A function definition pushes a compiler: the body is compiled on the stack new :: c :: cs
   (no loop is open there, fc_intry = false); a loop pushes a loop context on the same compiler; a try block is
   compiled with fc_intry = true on the same compiler, the catch clause with the previous value. *)

Definition stmt_goalN (cf : cfg) (s : stmt) : Prop := forall c cs fs,
  noret7 s || retok c = true -> tryok s = true -> c_break_pops_first cf || nobrk7 s = true ->
  res_ok c cs (nstmt cf s (fc_locals c) (fc_depth c) (fc_ups c) (map lev_of cs) fs (code_size (fc_code c)))
         (comp_stmt cf s (stk c cs fs)).

Lemma comp_list_N_aux : forall cf b, Forall (stmt_goalN cf) b -> forallb stmt7w b = true ->
  forall c cs fs, forallb noret7 b || retok c = true -> forallb tryok b = true ->
  c_break_pops_first cf || forallb nobrk7 b = true ->
  res_ok c cs (nlist cf b (fc_depth c) (fc_locals c) (fc_ups c) (map lev_of cs) fs (code_size (fc_code c)))
         (comp_list cf b (stk c cs fs)).
Proof.
  intros cf b H. induction H as [|a r Ha Hr IH]; intros Hb c cs fs Hn Ht Hk.
  - apply res_ok_simple; [reflexivity|]. cbn. rewrite app_nil_r, put_levs_id. destruct c; reflexivity.
  - cbn in Hb. apply andb_prop in Hb as [Hb1 Hb2]. cbn [forallb] in Ht. apply andb_prop in Ht as [Ht1 Ht2].
    apply orb_forallb_cons in Hn as [Hn1 Hn2]. apply orb_forallb_cons' in Hk as [Hk1 Hk2].
    specialize (Ha c cs fs Hn1 Ht1 Hk1). unfold res_ok in Ha |- *. cbn [nlist]. rewrite comp_list_cons.
    destruct (nstmt cf a (fc_locals c) (fc_depth c) (fc_ups c) (map lev_of cs) fs (code_size (fc_code c)) (lc_of c 0))
      as [[[[[ca L1] U1] E1] fs1]|] eqn:Ea.
    + destruct Ha as (ma & Hma & Hst & HXa). rewrite Hst.
      pose proof (nstmt_len cf a Hb1 _ _ _ _ _ _ _ _ _ _ _ _ Ea) as Hl1. rewrite map_length in Hl1.
      specialize (IH Hb2 (with_club c (fc_code c ++ ca) L1 U1 (ixs (List.length (fc_code c)) ma)) (put_levs cs E1) fs1 Hn2 Ht2 Hk2).
      unfold res_ok in IH.
      change (lc_of (with_club c (fc_code c ++ ca) L1 U1 (ixs (List.length (fc_code c)) ma))) with (lc_of c) in IH.
      cbn [with_club fc_locals fc_depth fc_ups fc_code] in IH.
      rewrite (map_lev_of_put_levs cs E1 Hl1), code_size_app in IH.
      destruct (nlist cf r (fc_depth c) L1 U1 E1 fs1 (code_size (fc_code c) + code_size ca) (lc_of c 0))
        as [[[[[cr L2] U2] E2] fs2]|] eqn:Er.
      * destruct IH as (mr & Hmr & Hstr & HXr). exists (ma ++ mr)%list. split; [rewrite !app_length; lia|]. split.
        -- rewrite Hstr. pose proof (nlist_len cf r Hb2 _ _ _ _ _ _ _ _ _ _ _ _ Er) as Hl2.
           rewrite put_levs_put_levs by lia. unfold with_club.
           cbn [fc_code fc_locals fc_ups fc_depth fc_loops fc_breaks fc_intry fc_arity fc_script].
           rewrite add_brks_add, ixs_app, app_length, Hma, app_assoc. reflexivity.
        -- intros X. rewrite HXa. cbv beta iota. rewrite bpm_size, HXr. rewrite bpm_app by exact Hma. reflexivity.
      * exact IH.
    + apply (errd_comp_list7w cf r Hb2). exact Ha.
Qed.

Lemma comp_blk_N_aux : forall cf b, Forall (stmt_goalN cf) b -> forallb stmt7w b = true ->
  forall c cs fs, forallb noret7 b || retok c = true -> forallb tryok b = true ->
  c_break_pops_first cf || forallb nobrk7 b = true ->
  res_ok c cs (nblk cf b (fc_depth c) (fc_locals c) (fc_ups c) (map lev_of cs) fs (code_size (fc_code c)))
         (blockS cf b (stk c cs fs)).
Proof.
  intros cf b IH Hb c cs fs Hn Ht Hk. destruct c as [code L U d lo br it ar sc].
  pose proof (comp_list_N_aux cf b IH Hb (mkFC code L U (S d) lo br it ar sc) cs fs Hn Ht Hk) as Hl.
  unfold res_ok in Hl |- *. unfold nblk.
  change (lc_of (mkFC code L U (S d) lo br it ar sc)) with (lc_of (mkFC code L U d lo br it ar sc)) in Hl.
  cbn [fc_code fc_locals fc_ups fc_depth] in Hl |- *.
  destruct (nlist cf b (S d) L U (map lev_of cs) fs (code_size code) (lc_of (mkFC code L U d lo br it ar sc) 0))
    as [[[[[cb L'] U'] E'] fs']|] eqn:El.
  - destruct Hl as (m & Hm & Hst & HX). cbv zeta.
    exists (m ++ repeat false (List.length (scope_end_ops L' d)))%list. split; [rewrite !app_length, repeat_length; lia|]. split.
    + unfold blockS. change (begin_scope (stk (mkFC code L U d lo br it ar sc) cs fs)) with (stk (mkFC code L U (S d) lo br it ar sc) cs fs).
      rewrite Hst. unfold with_club. cbn [fc_code fc_locals fc_ups fc_depth fc_loops fc_breaks fc_intry fc_arity fc_script].
      rewrite end_scope_mk. rewrite ixs_app, ixs_nomask, app_nil_r, app_assoc. reflexivity.
    + intros X. rewrite HX. rewrite bpm_app by exact Hm. rewrite bpm_nomask. reflexivity.
  - unfold blockS. now apply errd_end_scope.
Qed.

(* function() / lambda(): open_function, the body, finalise_function *)
Lemma comp_func_N_aux : forall cf ps b, Forall (stmt_goalN cf) b -> forallb stmt7w b = true ->
  forallb tryok b = true -> c_break_pops_first cf || forallb nobrk7 b = true -> forall c cs fs,
  match nfunc cf ps b (fc_locals c) (fc_ups c) (map lev_of cs) fs with
  | Some (ci, L', U', E', fs') =>
      finalise_function (comp_list cf b (open_function cf ps (stk c cs fs))) =
      stk (with_clu c (fc_code c ++ [ci]) L' U') (put_levs cs E') fs'
  | None => errd (finalise_function (comp_list cf b (open_function cf ps (stk c cs fs))))
  end.
Proof.
  intros cf ps b IH Hb Ht Hk c cs fs. unfold nfunc.
  pose proof (open_function_stk cf ps c cs fs) as Ho.
  destruct (bparams cf ps [mkLocal None (Some 0) false]) as [Lb0|].
  - rewrite Ho.
    pose proof (comp_list_N_aux cf b IH Hb (fbody (List.length ps) Lb0) (c :: cs) fs (orb_true_r _) Ht Hk) as Hl.
    unfold res_ok in Hl. cbn [fc_depth fc_locals fc_ups fc_code fbody map code_size] in Hl.
    change (lc_of (fbody (List.length ps) Lb0) 0) with (@None lctx) in Hl.
    change (lev_of c) with (mkLev (fc_locals c) (fc_ups c)) in Hl.
    destruct (nlist cf b 1 Lb0 [] (mkLev (fc_locals c) (fc_ups c) :: map lev_of cs) fs 0 None) as [[[[[cb Lb'] Ub] Eb] fs1]|] eqn:El.
    + pose proof (nlist_len cf b Hb _ _ _ _ _ _ _ _ _ _ _ _ El) as Hlen. cbn [List.length] in Hlen.
      destruct Eb as [|lv E1]; [discriminate|]. cbn [nclose]. destruct Hl as (m & Hm & Hst & _). rewrite Hst. cbn [put_levs].
      rewrite finalise_function_stk. reflexivity.
    + cbn [nclose]. now apply errd_finalise_function.
  - apply errd_finalise_function. apply errd_comp_list7w; [exact Hb|exact Ho].
Qed.

Lemma comp_stmt_N : forall cf s, stmt7w s = true -> forall c cs fs,
  noret7 s || retok c = true -> tryok s = true -> c_break_pops_first cf || nobrk7 s = true ->
  res_ok c cs (nstmt cf s (fc_locals c) (fc_depth c) (fc_ups c) (map lev_of cs) fs (code_size (fc_code c)))
         (comp_stmt cf s (stk c cs fs)).
Proof.
  intros cf s Hs. change (stmt_goalN cf s). pattern s. revert s Hs. apply stmt7w_ind.
  - (* SDecl *)
    intros x e He c cs fs _ _ _. apply res_ok_simple; [reflexivity|].
    cbn [nstmt comp_stmt]. unfold declare_variable. rewrite top_of_stk.
    destruct (fc_depth c =? 0) eqn:Ed.
    + pose proof (comp_expr_N cf e He c cs fs) as Hc.
      destruct (nexpr cf (fc_locals c) e (fc_ups c) (map lev_of cs)) as [[[ce U'] E']|].
      * rewrite Hc. unfold define_variable, at_top_level. rewrite top_of_stk. cbn [fc_depth set_ups set_code]. rewrite Ed.
        rewrite emit_stk. cbn. now rewrite <- app_assoc.
      * now apply errd_define_variable.
    + destruct (dup_in_scope (fc_locals c) x (fc_depth c)) eqn:Edup.
      * apply errd_define_variable. apply errd_comp_expr2; [exact He|].
        unfold add_local. destruct (_ =? c_locals_max cf); [apply errd_fail|apply errd_on_top, errd_fail].
      * unfold add_local. rewrite top_of_stk.
        destruct (List.length (fc_locals c) =? c_locals_max cf) eqn:Emax.
        -- apply errd_define_variable. apply errd_comp_expr2; [exact He|apply errd_fail].
        -- pose proof (comp_expr_N cf e He (set_locals c (mkLocal (Some x) None false :: fc_locals c)) cs fs) as Hc.
           cbn [fc_locals fc_ups fc_code set_locals] in Hc.
           change (on_top (fun c0 : fcomp => set_locals c0 (mkLocal (Some x) None false :: fc_locals c0)) (stk c cs fs))
             with (stk (set_locals c (mkLocal (Some x) None false :: fc_locals c)) cs fs).
           destruct (nexpr cf (mkLocal (Some x) None false :: fc_locals c) e (fc_ups c) (map lev_of cs)) as [[[ce U'] E']|].
           ++ rewrite Hc. unfold define_variable, at_top_level. rewrite top_of_stk.
              cbn [fc_depth set_ups set_code set_locals]. rewrite Ed.
              unfold mark_initialised, on_top, stk. cbn. rewrite Ed. reflexivity.
           ++ now apply errd_define_variable.
  - (* SAssign *)
    intros x e He c cs fs _ _ _. apply res_ok_simple; [reflexivity|]. cbn [nstmt comp_stmt].
    pose proof (resolve_variable_stk cf x c cs fs) as Hr.
    destruct (rvn cf (fc_locals c) (fc_ups c) (map lev_of cs) x) as [[[r U0] E0]|] eqn:Er.
    + rewrite Hr. pose proof (ninv_length _ _ _ _ (rvn_inv _ _ _ _ _ _ _ _ Er)) as Hl0. rewrite map_length in Hl0.
      pose proof (comp_expr_N cf e He (set_ups c U0) (put_levs cs E0) fs) as Hc.
      cbn [fc_locals fc_ups fc_code set_ups] in Hc. rewrite (map_lev_of_put_levs cs E0 Hl0) in Hc.
      destruct (nexpr cf (fc_locals c) e U0 E0) as [[[ce U'] E']|] eqn:Ee.
      * rewrite Hc, !emit_stk. pose proof (nexpr_len cf e He _ _ _ _ _ _ Ee) as Hl1.
        rewrite put_levs_put_levs by lia. cbn. now rewrite <- !app_assoc.
      * now apply errd_emit, errd_emit.
    + destruct (resolve_variable cf x (stk c cs fs)) as [st1 r]. apply errd_emit, errd_emit.
      apply errd_comp_expr2; [exact He|exact Hr].
  - (* SPrint *)
    intros e He c cs fs _ _ _. apply res_ok_simple; [reflexivity|]. cbn [nstmt comp_stmt]. rewrite emit_stk.
    pose proof (comp_expr_N cf e He (set_code c (fc_code c ++ [IGetGlobal GPrint])) cs fs) as Hc.
    cbn [fc_locals fc_ups fc_code set_code] in Hc.
    destruct (nexpr cf (fc_locals c) e (fc_ups c) (map lev_of cs)) as [[[ce U'] E']|].
    + rewrite Hc, !emit_stk. cbn. rewrite <- !app_assoc. reflexivity.
    + now apply errd_emit, errd_emit.
  - (* SExpr *)
    intros e He c cs fs _ _ _. apply res_ok_simple; [reflexivity|]. cbn [nstmt comp_stmt].
    pose proof (comp_expr_N cf e He c cs fs) as Hc.
    destruct (nexpr cf (fc_locals c) e (fc_ups c) (map lev_of cs)) as [[[ce U'] E']|].
    + rewrite Hc, !emit_stk. cbn. rewrite <- !app_assoc. reflexivity.
    + now apply errd_emit.
  - (* SReturn *)
    intros e He c cs fs Hn _ _. apply res_ok_simple; [reflexivity|].
    cbn [noret7 orb] in Hn. unfold retok in Hn. apply andb_prop in Hn as [Hsc Ht].
    apply negb_true_iff in Hsc. apply negb_true_iff in Ht.
    cbn [nstmt comp_stmt]. cbv zeta. rewrite top_of_stk, Hsc.
    pose proof (comp_expr_N cf e He c cs fs) as Hc.
    destruct (nexpr cf (fc_locals c) e (fc_ups c) (map lev_of cs)) as [[[ce U'] E']|].
    + rewrite Hc, top_of_stk. cbn [fc_intry set_ups set_code]. rewrite Ht.
      rewrite emit_stk. cbn. rewrite <- !app_assoc. reflexivity.
    + destruct (fc_intry (top_of _)); [apply errd_fail|now apply errd_emit].
  - (* SBlock *)
    intros b Hb IH c cs fs Hn Ht Hk. rewrite comp_stmt_block.
    eapply res_ok_ext; [intros lc; apply nstmt_block|]. apply comp_blk_N_aux; assumption.
  - (* SFun *)
    intros f ps b Hb IH c cs fs _ Ht Hk. apply res_ok_simple; [intros X; rewrite !nstmt_fun; reflexivity|].
    cbn [nobrk7] in Hk. cbn [tryok] in Ht.
    rewrite comp_stmt_fun, nstmt_fun. unfold declare_variable. rewrite top_of_stk.
    destruct (fc_depth c =? 0) eqn:Ed.
    + assert (Em : mark_initialised (stk c cs fs) = stk c cs fs).
      { unfold mark_initialised, on_top, stk. cbn [cs_comps cs_funs cs_err]. now rewrite Ed. }
      rewrite Em. pose proof (comp_func_N_aux cf ps b IH Hb Ht Hk c cs fs) as Hf.
      destruct (nfunc cf ps b (fc_locals c) (fc_ups c) (map lev_of cs) fs) as [[[[[ci L'] U'] E'] fs']|].
      * rewrite Hf. unfold define_variable, at_top_level. rewrite top_of_stk. cbn [fc_depth with_clu]. rewrite Ed.
        rewrite emit_stk. cbn. now rewrite <- app_assoc.
      * now apply errd_define_variable.
    + destruct (dup_in_scope (fc_locals c) f (fc_depth c)) eqn:Edup.
      * apply errd_define_variable, errd_finalise_function. apply errd_comp_list7w; [exact Hb|].
        apply errd_open_function, errd_mark_initialised.
        unfold add_local. destruct (_ =? c_locals_max cf); [apply errd_fail|apply errd_on_top, errd_fail].
      * unfold add_local. rewrite top_of_stk.
        destruct (List.length (fc_locals c) =? c_locals_max cf) eqn:Emax.
        -- apply errd_define_variable, errd_finalise_function. apply errd_comp_list7w; [exact Hb|].
           apply errd_open_function, errd_mark_initialised, errd_fail.
        -- assert (Em : mark_initialised (on_top (fun c0 : fcomp => set_locals c0 (mkLocal (Some f) None false :: fc_locals c0)) (stk c cs fs))
                        = stk (set_locals c (mkLocal (Some f) (Some (fc_depth c)) false :: fc_locals c)) cs fs).
           { unfold mark_initialised, on_top, stk. cbn. now rewrite Ed. }
           rewrite Em.
           pose proof (comp_func_N_aux cf ps b IH Hb Ht Hk (set_locals c (mkLocal (Some f) (Some (fc_depth c)) false :: fc_locals c)) cs fs) as Hf.
           cbn [fc_locals fc_ups fc_code set_locals] in Hf.
           destruct (nfunc cf ps b (mkLocal (Some f) (Some (fc_depth c)) false :: fc_locals c) (fc_ups c) (map lev_of cs) fs)
             as [[[[[ci L'] U'] E'] fs']|] eqn:Ef.
           ++ destruct (nfunc_inv cf ps b Hb _ _ _ _ _ _ _ _ _ Ef) as [_ F].
              inversion F as [|? l0 ? L0 (En & Edp & _) F']; subst. cbn [l_name l_depth] in En, Edp.
              rewrite Hf.
              unfold define_variable, at_top_level. rewrite top_of_stk. cbn [fc_depth with_clu set_locals]. rewrite Ed.
              unfold mark_initialised, on_top, stk. cbn. rewrite Ed.
              destruct l0 as [n0 d0 c0]. cbn in En, Edp |- *. subst n0 d0. reflexivity.
           ++ now apply errd_define_variable.
  - (* SLam *)
    intros x ps b Hb IH c cs fs _ Ht Hk. apply res_ok_simple; [intros X; rewrite !nstmt_lam; reflexivity|].
    cbn [nobrk7] in Hk. cbn [tryok] in Ht.
    rewrite comp_stmt_lam, nstmt_lam. unfold declare_variable. rewrite top_of_stk.
    destruct (fc_depth c =? 0) eqn:Ed.
    + pose proof (comp_func_N_aux cf ps b IH Hb Ht Hk c cs fs) as Hf.
      destruct (nfunc cf ps b (fc_locals c) (fc_ups c) (map lev_of cs) fs) as [[[[[ci L'] U'] E'] fs']|].
      * rewrite Hf. unfold define_variable, at_top_level. rewrite top_of_stk. cbn [fc_depth with_clu]. rewrite Ed.
        rewrite emit_stk. cbn. now rewrite <- app_assoc.
      * now apply errd_define_variable.
    + destruct (dup_in_scope (fc_locals c) x (fc_depth c)) eqn:Edup.
      * apply errd_define_variable, errd_finalise_function. apply errd_comp_list7w; [exact Hb|].
        apply errd_open_function.
        unfold add_local. destruct (_ =? c_locals_max cf); [apply errd_fail|apply errd_on_top, errd_fail].
      * unfold add_local. rewrite top_of_stk.
        destruct (List.length (fc_locals c) =? c_locals_max cf) eqn:Emax.
        -- apply errd_define_variable, errd_finalise_function. apply errd_comp_list7w; [exact Hb|].
           apply errd_open_function, errd_fail.
        -- change (on_top (fun c0 : fcomp => set_locals c0 (mkLocal (Some x) None false :: fc_locals c0)) (stk c cs fs))
             with (stk (set_locals c (mkLocal (Some x) None false :: fc_locals c)) cs fs).
           pose proof (comp_func_N_aux cf ps b IH Hb Ht Hk (set_locals c (mkLocal (Some x) None false :: fc_locals c)) cs fs) as Hf.
           cbn [fc_locals fc_ups fc_code set_locals] in Hf.
           destruct (nfunc cf ps b (mkLocal (Some x) None false :: fc_locals c) (fc_ups c) (map lev_of cs) fs)
             as [[[[[ci L'] U'] E'] fs']|] eqn:Ef.
           ++ destruct (nfunc_inv cf ps b Hb _ _ _ _ _ _ _ _ _ Ef) as [_ F].
              inversion F as [|? l0 ? L0 (En & _ & _) F']; subst. cbn [l_name] in En.
              rewrite Hf.
              unfold define_variable, at_top_level. rewrite top_of_stk. cbn [fc_depth with_clu set_locals]. rewrite Ed.
              unfold mark_initialised, on_top, stk. cbn. rewrite Ed, <- En. reflexivity.
           ++ now apply errd_define_variable.
  - (* SLoop *)
    intros i n b Hb IH c cs fs Hn Ht Hk. apply res_ok_simple; [intros X; rewrite !nstmt_loop; reflexivity|].
    cbn [noret7 nobrk7] in Hn, Hk. cbn [tryok] in Ht.
    pose proof (stmt7w_all_sticky cf b Hb) as Sb.
    rewrite nstmt_loop, comp_stmt_loop. destruct c as [code L U d lo br it ar sc].
    cbn [fc_locals fc_depth fc_ups fc_code].
    change (begin_scope (stk (mkFC code L U d lo br it ar sc) cs fs)) with (stk (mkFC code L U (S d) lo br it ar sc) cs fs).
    unfold declare_variable. rewrite top_of_stk. cbn [fc_depth fc_locals]. change (S d =? 0) with false. cbv iota.
    destruct (dup_in_scope L i (S d)) eqn:Edup.
    { apply errd_loop_mid; [exact Sb|]. apply errd_add_local, errd_fail. }
    unfold add_local. rewrite top_of_stk. cbn [fc_locals].
    destruct (List.length L =? c_locals_max cf) eqn:Emax.
    { apply errd_loop_mid; [exact Sb|]. apply errd_fail. }
    rewrite on_top_stk. unfold set_locals. cbn [fc_code fc_locals fc_ups fc_depth fc_loops fc_breaks fc_intry fc_arity fc_script].
    destruct (S (List.length L) =? c_locals_max cf) eqn:Emax2.
    { now apply loop_mid_max. }
    rewrite (loop_mid_stk cf n b code i L U d lo br it ar sc cs fs Emax2). cbv zeta.
    set (start := code_size (code ++ loop_pre n)).
    set (c7 := mkFC (code ++ loop_pre n ++ loop_head (List.length L) 0) (loop_locals i d L) U (S d) ((start, S d) :: lo) ([] :: br) it ar sc).
    pose proof (comp_blk_N_aux cf b IH Hb c7 cs fs Hn Ht Hk) as Hblk. unfold res_ok in Hblk.
    change (lc_of c7) with (fun X => Some (mkLctx start (S d) X)) in Hblk. cbv beta in Hblk.
    cbn [c7 fc_code fc_locals fc_ups fc_depth] in Hblk.
    assert (Hstart : start = code_size code + code_size (loop_pre n)) by (unfold start; apply code_size_app).
    assert (Hposb : code_size (code ++ loop_pre n ++ loop_head (List.length L) 0) =
                    start + code_size (loop_head (List.length L) 0)).
    { unfold start. rewrite app_assoc. apply code_size_app. }
    rewrite Hposb in Hblk. rewrite <- Hstart.
    destruct (nblk cf b (S d) (loop_locals i d L) U (map lev_of cs) fs
                (start + code_size (loop_head (List.length L) 0)) (Some (mkLctx start (S d) 0)))
      as [[[[[c0 L0] U0] E0] fs0]|] eqn:E0'.
    + destruct Hblk as (m & Hm & Hst & HX). rewrite HX.
      unfold with_club in Hst. subst c7. cbn [fc_code fc_locals fc_ups fc_depth fc_loops fc_breaks fc_intry fc_arity fc_script add_brks] in Hst.
      subst start.
      rewrite (loop_tail_stk cf b code (loop_pre n) (List.length L) (loop_locals i d L) U d lo br it ar sc cs fs c0 m L0 U0 (put_levs cs E0) fs0 Hst Hm).
      unfold with_clu. cbn [fc_code fc_locals fc_ups fc_depth fc_loops fc_breaks fc_intry fc_arity fc_script].
      rewrite Hstart. reflexivity.
    + unfold loop_tail. cbv zeta. now apply errd_end_scope, errd_pop_loop, errd_emit, errd_patch_jump, errd_emit_loop.
  - (* SIf *)
    intros a c0 t e Ha Hc Ht He IHt IHe c cs fs Hn Hto Hk. cbn [noret7 nobrk7] in Hn, Hk. cbn [tryok] in Hto.
    apply andb_prop in Hto as [Htt Hte].
    assert (Hnn : forallb noret7 t || retok c = true /\ forallb noret7 e || retok c = true).
    { destruct (forallb noret7 t), (forallb noret7 e), (retok c); cbn in Hn |- *; auto. }
    assert (Hkk : c_break_pops_first cf || forallb nobrk7 t = true /\ c_break_pops_first cf || forallb nobrk7 e = true).
    { destruct (forallb nobrk7 t), (forallb nobrk7 e), (c_break_pops_first cf); cbn in Hk |- *; auto. }
    destruct Hnn as [Hnt Hne]. destruct Hkk as [Hkt Hke].
    pose proof (stmt7w_all_sticky cf t Ht) as St. pose proof (stmt7w_all_sticky cf e He) as Se.
    rewrite comp_stmt_if. eapply res_ok_ext; [intros lc; apply nstmt_if|]. cbv zeta.
    destruct c as [code L U d lo br it ar sc]. set (c := mkFC code L U d lo br it ar sc) in *.
    unfold res_ok. cbn [c fc_code fc_locals fc_ups fc_depth].
    pose proof (comp_expr_N cf a Ha c cs fs) as Hca. cbn [c fc_code fc_locals fc_ups] in Hca.
    destruct (nexpr cf L a U (map lev_of cs)) as [[[ca U1] E1]|] eqn:Ea.
    2:{ apply errd_if_tail; [exact Se|]. apply errd_blockS; [exact St|]. apply errd_emits, errd_emit.
        apply errd_comp_expr2; [exact Hc|exact Hca]. }
    fold c. rewrite Hca. unfold set_ups, set_code. cbn [c fc_code fc_locals fc_ups fc_depth fc_loops fc_breaks fc_intry fc_arity fc_script].
    pose proof (nexpr_len cf a Ha _ _ _ _ _ _ Ea) as Hl1. rewrite map_length in Hl1.
    pose proof (comp_expr_N cf c0 Hc (mkFC (code ++ ca) L U1 d lo br it ar sc) (put_levs cs E1) fs) as Hcc.
    cbn [fc_code fc_locals fc_ups] in Hcc. rewrite (map_lev_of_put_levs cs E1 Hl1) in Hcc.
    destruct (nexpr cf L c0 U1 E1) as [[[cc U2] E2]|] eqn:Ec.
    2:{ apply errd_if_tail; [exact Se|]. apply errd_blockS; [exact St|]. apply errd_emits, errd_emit. exact Hcc. }
    rewrite Hcc. unfold set_ups, set_code. cbn [fc_code fc_locals fc_ups fc_depth fc_loops fc_breaks fc_intry fc_arity fc_script].
    pose proof (nexpr_len cf c0 Hc _ _ _ _ _ _ Ec) as Hl2.
    rewrite put_levs_put_levs by lia.
    rewrite emit_mk. unfold here_ix. rewrite top_of_stk. cbn [fc_code]. rewrite emits_mk.
    set (pre := (ca ++ cc ++ [ILess])%list).
    replace (((code ++ ca) ++ cc) ++ [ILess])%list with (code ++ pre)%list by (unfold pre; now rewrite !app_assoc).
    replace ((code ++ pre) ++ [IJumpIfFalse 0; IPop])%list with (code ++ pre ++ [IJumpIfFalse 0; IPop])%list by (now rewrite app_assoc).
    set (c2 := mkFC (code ++ pre ++ [IJumpIfFalse 0; IPop]) L U2 d lo br it ar sc).
    pose proof (comp_blk_N_aux cf t IHt Ht c2 (put_levs cs E2) fs Hnt Htt Hkt) as Hbt. unfold res_ok in Hbt.
    change (lc_of c2) with (lc_of c) in Hbt. cbn [c2 fc_code fc_locals fc_ups fc_depth] in Hbt.
    rewrite (map_lev_of_put_levs cs E2) in Hbt by lia.
    assert (Hpost : code_size (code ++ pre ++ [IJumpIfFalse 0; IPop]) =
                    code_size code + code_size ca + code_size cc + code_size [ILess; IJumpIfFalse 0; IPop]).
    { unfold pre. rewrite !code_size_app. cbn [code_size isize]. lia. }
    rewrite Hpost in Hbt.
    destruct (nblk cf t d L U2 E2 fs (code_size code + code_size ca + code_size cc + code_size [ILess; IJumpIfFalse 0; IPop]) (lc_of c 0))
      as [[[[[ct L1] U3] E3] fs1]|] eqn:Et.
    2:{ apply errd_if_tail; [exact Se|exact Hbt]. }
    destruct Hbt as (mt & Hmt & Hstt & HXt). rewrite Hstt. unfold with_club.
    cbn [c2 fc_code fc_locals fc_ups fc_depth fc_loops fc_breaks fc_intry fc_arity fc_script].
    pose proof (nblk_len cf t Ht _ _ _ _ _ _ _ _ _ _ _ _ Et) as Hl3.
    rewrite put_levs_put_levs by lia.
    set (br1 := add_brks (ixs (List.length (code ++ pre ++ [IJumpIfFalse 0; IPop])) mt) br).
    set (c3 := mkFC (code ++ pre ++ [IJumpIfFalse (1 + code_size ct + 3); IPop] ++ ct ++ [IJump 0; IPop]) L1 U3 d lo br1 it ar sc).
    pose proof (comp_blk_N_aux cf e IHe He c3 (put_levs cs E3) fs1 Hne Hte Hke) as Hbe. unfold res_ok in Hbe.
    change (lc_of c3) with (lc_of c) in Hbe. cbn [c3 fc_code fc_locals fc_ups fc_depth] in Hbe.
    rewrite (map_lev_of_put_levs cs E3) in Hbe by lia.
    assert (Hpose : code_size (code ++ pre ++ [IJumpIfFalse (1 + code_size ct + 3); IPop] ++ ct ++ [IJump 0; IPop]) =
                    code_size code + code_size ca + code_size cc + code_size [ILess; IJumpIfFalse 0; IPop]
                    + code_size ct + code_size [IJump 0; IPop]).
    { unfold pre. rewrite !code_size_app. cbn [code_size isize]. lia. }
    rewrite Hpose in Hbe.
    destruct (nblk cf e d L1 U3 E3 fs1 (code_size code + code_size ca + code_size cc + code_size [ILess; IJumpIfFalse 0; IPop]
                                       + code_size ct + code_size [IJump 0; IPop]) (lc_of c 0))
      as [[[[[cel L2] U4] E4] fs2]|] eqn:Ee.
    2:{ unfold if_tail. cbv zeta. apply errd_patch_jump. rewrite if_mid_stk. exact Hbe. }
    destruct Hbe as (me & Hme & Hste & HXe). unfold with_club in Hste.
    cbn [c3 fc_code fc_locals fc_ups fc_depth fc_loops fc_breaks fc_intry fc_arity fc_script] in Hste.
    rewrite (if_tail_stk cf e code pre ct L1 U3 d lo br1 it ar sc (put_levs cs E3) fs1 cel L2 U4 _ _ _ Hste).
    pose proof (nblk_len cf e He _ _ _ _ _ _ _ _ _ _ _ _ Ee) as Hl4.
    rewrite put_levs_put_levs by lia.
    exists (repeat false (List.length (ca ++ cc ++ [ILess; IJumpIfFalse 0; IPop])) ++ mt ++ repeat false 2 ++ me)%list.
    split; [rewrite !app_length, !repeat_length; cbn [List.length]; lia|]. split.
    + unfold with_club. cbn [c fc_code fc_locals fc_ups fc_depth fc_loops fc_breaks fc_intry fc_arity fc_script].
      f_equal. f_equal.
      * unfold pre. norm_app. reflexivity.
      * unfold br1. rewrite add_brks_add. f_equal.
        rewrite !ixs_app, !ixs_nomask, !repeat_length. cbn [app]. f_equal; f_equal.
        -- unfold pre. repeat (rewrite app_length || cbn [List.length]). lia.
        -- unfold pre. repeat (rewrite app_length || cbn [List.length]). lia.
    + intros X. rewrite HXt. cbv beta iota. rewrite bpm_size, HXe. cbv beta iota. rewrite !bpm_size.
      f_equal. f_equal. f_equal. f_equal. f_equal.
      replace (ca ++ cc ++ [ILess; IJumpIfFalse (1 + code_size ct + 3); IPop] ++ ct ++ [IJump (1 + code_size cel); IPop] ++ cel)%list
        with ((ca ++ cc ++ [ILess; IJumpIfFalse (1 + code_size ct + 3); IPop]) ++ ct ++ [IJump (1 + code_size cel); IPop] ++ cel)%list
        by (norm_app; reflexivity).
      rewrite bpm_app by (rewrite repeat_length, !app_length; reflexivity).
      rewrite bpm_nomask. rewrite bpm_app by exact Hmt. rewrite (bpm_app X (repeat false 2)) by reflexivity.
      rewrite bpm_nomask. norm_app.
      assert (P1 : code_size code + code_size (ca ++ cc ++ [ILess; IJumpIfFalse (1 + code_size ct + 3); IPop]) =
                   code_size code + code_size ca + code_size cc + code_size [ILess; IJumpIfFalse 0; IPop]).
      { rewrite !code_size_app. cbn [code_size isize]. lia. }
      rewrite P1. change (code_size [IJump (1 + code_size cel); IPop]) with (code_size [IJump 0; IPop]). reflexivity.
  - (* SBreak *)
    intros c cs fs _ _ Hk. cbn [nobrk7] in Hk. rewrite orb_false_r in Hk.
    unfold res_ok, lc_of. cbn [nstmt comp_stmt]. rewrite top_of_stk.
    destruct (fc_loops c) as [|[s0 d0] r] eqn:El; [apply errd_fail|].
    rewrite Hk. cbn [lc_depth lc_exit Nat.sub].
    set (ops := scope_end_ops (fc_locals c) d0).
    exists (repeat false (List.length ops) ++ [true])%list.
    split; [rewrite !app_length, repeat_length; reflexivity|]. split.
    + unfold emit_scope_end. cbv zeta. rewrite top_of_stk. fold ops. rewrite emits_stk, emit_stk.
      unfold here_ix. rewrite top_of_stk. rewrite put_levs_id, ixs_app, ixs_nomask, repeat_length.
      unfold push_break. rewrite on_top_stk. unfold with_club. destruct c as [code L U d lo br it ar sc].
      cbn [set_code set_loops fc_code fc_locals fc_ups fc_depth fc_loops fc_breaks fc_intry fc_arity fc_script ixs app].
      destruct br as [|b0 r0]; unfold set_loops, add_brks;
        cbn [fc_code fc_locals fc_ups fc_depth fc_loops fc_breaks fc_intry fc_arity fc_script];
        rewrite ?app_length, <- ?app_assoc; reflexivity.
    + intros X. rewrite bpm_app by (apply repeat_length). rewrite bpm_nomask. reflexivity.
  - (* SContinue *)
    intros c cs fs _ _ _. apply res_ok_simple.
    { intros X. unfold lc_of. destruct (fc_loops c) as [|[s0 d0] r]; reflexivity. }
    unfold lc_of. cbn [nstmt comp_stmt]. rewrite top_of_stk.
    destruct (fc_loops c) as [|[s0 d0] r] eqn:El; [apply errd_fail|].
    cbn [lc_depth lc_start].
    unfold emit_scope_end. cbv zeta. rewrite top_of_stk. rewrite emits_stk.
    unfold emit_loop, here_bytes. rewrite top_of_stk, emit_stk. rewrite put_levs_id.
    destruct c as [code L U d lo br it ar sc]. unfold with_clu.
    cbn [set_code fc_code fc_locals fc_ups fc_depth fc_loops fc_breaks fc_intry fc_arity fc_script].
    rewrite code_size_app, <- app_assoc. reflexivity.
  - (* SThrow *)
    intros e He c cs fs _ _ _. apply res_ok_simple; [reflexivity|]. cbn [nstmt comp_stmt].
    pose proof (comp_expr_N cf e He c cs fs) as Hc.
    destruct (nexpr cf (fc_locals c) e (fc_ups c) (map lev_of cs)) as [[[ce U'] E']|].
    + rewrite Hc, !emit_stk. cbn. rewrite <- !app_assoc. reflexivity.
    + now apply errd_emit.
  - (* STry *)
    intros b x h Hb Hh IHb IHh c cs fs Hn Ht Hk. cbn [noret7 nobrk7] in Hn, Hk. cbn [tryok] in Ht.
    apply andb_prop in Ht as [Ht Hth]. apply andb_prop in Ht as [Hnb Htb].
    assert (Hnh : forallb noret7 h || retok c = true).
    { destruct (forallb noret7 h); [reflexivity|]. rewrite andb_false_r in Hn. exact Hn. }
    assert (Hkk : c_break_pops_first cf || forallb nobrk7 b = true /\ c_break_pops_first cf || forallb nobrk7 h = true).
    { destruct (forallb nobrk7 b), (forallb nobrk7 h), (c_break_pops_first cf); cbn in Hk |- *; auto. }
    destruct Hkk as [Hkb Hkh].
    pose proof (stmt7w_all_sticky cf b Hb) as Sb. pose proof (stmt7w_all_sticky cf h Hh) as Sh.
    rewrite comp_stmt_try. eapply res_ok_ext; [intros lc; apply nstmt_try|]. cbv zeta.
    destruct c as [code L U d lo br it ar sc]. set (c := mkFC code L U d lo br it ar sc) in *.
    unfold res_ok. cbn [c fc_code fc_locals fc_ups fc_depth].
    rewrite top_of_stk, on_top_stk. unfold here_ix. rewrite top_of_stk. unfold set_intry.
    cbn [c fc_code fc_locals fc_ups fc_depth fc_loops fc_breaks fc_intry fc_arity fc_script]. rewrite emit_mk.
    set (c1 := mkFC (code ++ [IPushExc 0 0]) L U d lo br true ar sc).
    assert (Hn1 : forallb noret7 b || retok c1 = true) by (rewrite Hnb; reflexivity).
    pose proof (comp_blk_N_aux cf b IHb Hb c1 cs fs Hn1 Htb Hkb) as Hbb. unfold res_ok in Hbb.
    change (lc_of c1) with (lc_of c) in Hbb. cbn [c1 fc_code fc_locals fc_ups fc_depth] in Hbb.
    assert (Hp1 : code_size (code ++ [IPushExc 0 0]) = code_size code + 5) by (rewrite code_size_app; reflexivity).
    rewrite Hp1 in Hbb.
    destruct (nblk cf b d L U (map lev_of cs) fs (code_size code + 5) (lc_of c 0)) as [[[[[cb L1] U1] E1] fs1]|] eqn:Eb.
    2:{ apply errd_try_tail; [exact Sh|exact Hbb]. }
    destruct Hbb as (mb & Hmb & Hstb & HXb). rewrite Hstb. unfold with_club.
    cbn [c1 fc_code fc_locals fc_ups fc_depth fc_loops fc_breaks fc_intry fc_arity fc_script].
    pose proof (nblk_len cf b Hb _ _ _ _ _ _ _ _ _ _ _ _ Eb) as Hl1. rewrite map_length in Hl1.
    set (br1 := add_brks (ixs (List.length (code ++ [IPushExc 0 0])) mb) br).
    destruct (dup_in_scope L1 x (S d)) eqn:Edup.
    { apply errd_try_tail_from; [exact Sh|]. apply try_st6_err. now left. }
    destruct (List.length L1 =? c_locals_max cf) eqn:Emax.
    { apply errd_try_tail_from; [exact Sh|]. apply try_st6_err. now right. }
    set (c6 := mkFC (((code ++ [IPushExc 0 0]) ++ cb) ++ [IPopExc; IJump 0] ++ cpops cf)
                    (mkLocal (Some x) (Some (S d)) false :: L1) U1 (S d) lo br1 it ar sc).
    assert (Hn6 : forallb noret7 h || retok c6 = true) by exact Hnh.
    pose proof (comp_list_N_aux cf h IHh Hh c6 (put_levs cs E1) fs1 Hn6 Hth Hkh) as Hhh. unfold res_ok in Hhh.
    change (lc_of c6) with (lc_of c) in Hhh. cbn [c6 fc_code fc_locals fc_ups fc_depth] in Hhh.
    rewrite (map_lev_of_put_levs cs E1) in Hhh by lia.
    assert (Hp6 : code_size (((code ++ [IPushExc 0 0]) ++ cb) ++ [IPopExc; IJump 0] ++ cpops cf) =
                  code_size code + 5 + code_size cb + 4 + code_size (cpops cf)).
    { rewrite !code_size_app. cbn [code_size isize]. lia. }
    rewrite Hp6 in Hhh.
    destruct (nlist cf h (S d) (mkLocal (Some x) (Some (S d)) false :: L1) U1 E1 fs1
                (code_size code + 5 + code_size cb + 4 + code_size (cpops cf)) (lc_of c 0))
      as [[[[[ch L2] U2] E2] fs2]|] eqn:Eh.
    2:{ unfold try_tail. cbv zeta. apply errd_on_top, errd_patch_jump, errd_end_scope.
        rewrite (try_st6_stk cf x it _ L1 U1 d lo br1 true ar sc (put_levs cs E1) fs1 Edup Emax). exact Hhh. }
    destruct Hhh as (mh & Hmh & Hsth & HXh). unfold with_club in Hsth.
    cbn [c6 fc_code fc_locals fc_ups fc_depth fc_loops fc_breaks fc_intry fc_arity fc_script] in Hsth.
    rewrite (try_tail_stk cf x h code cb L1 U1 d lo br1 it true ar sc (put_levs cs E1) fs1 ch L2 U2 _ _ _ Edup Emax Hsth).
    pose proof (nlist_len cf h Hh _ _ _ _ _ _ _ _ _ _ _ _ Eh) as Hl2.
    rewrite put_levs_put_levs by lia.
    set (ops := scope_end_ops L2 d).
    exists (false :: mb ++ repeat false 2 ++ repeat false (List.length (cpops cf)) ++ mh ++ repeat false (List.length ops))%list.
    split; [cbn [List.length]; rewrite !app_length, !repeat_length; cbn [List.length]; lia|]. split.
    + unfold with_club. cbn [c fc_code fc_locals fc_ups fc_depth fc_loops fc_breaks fc_intry fc_arity fc_script].
      f_equal. f_equal.
      unfold br1. rewrite add_brks_add. f_equal. cbn [ixs].
      rewrite !ixs_app, !ixs_nomask, !repeat_length. cbn [app]. rewrite app_nil_r. f_equal; f_equal.
      * rewrite app_length. cbn [List.length]. lia.
      * repeat (rewrite app_length || cbn [List.length]). lia.
    + intros X. rewrite HXb. cbv beta iota. rewrite Edup, Emax. rewrite bpm_size, HXh. cbv beta iota.
      fold ops.
      assert (Hsz : code_size (cpops cf ++ bpm X (code_size code + 5 + code_size cb + 4 + code_size (cpops cf)) mh ch ++ ops) =
                    code_size (cpops cf ++ ch ++ ops)) by (rewrite !code_size_app, bpm_size; reflexivity).
      rewrite Hsz. do 5 f_equal. cbn [bpm isize]. f_equal.
      rewrite bpm_app by exact Hmb. f_equal.
      rewrite (bpm_app X (repeat false 2)) by reflexivity. rewrite bpm_nomask. f_equal.
      rewrite (bpm_app X (repeat false (List.length (cpops cf)))) by apply repeat_length. rewrite bpm_nomask. f_equal.
      rewrite bpm_app by exact Hmh. rewrite bpm_nomask.
      repeat f_equal; cbn [code_size isize]; lia.
Qed.

Lemma stmt7w_all_goalN : forall cf b, forallb stmt7w b = true -> Forall (stmt_goalN cf) b.
Proof.
  intros cf b Hb. induction b as [|a r IH]; constructor.
  - cbn in Hb. apply andb_prop in Hb as [Ha _]. intros c cs fs. now apply comp_stmt_N.
  - cbn in Hb. apply andb_prop in Hb as [_ Hr]. now apply IH.
Qed.

Lemma comp_list_N : forall cf b, forallb stmt7w b = true -> forall c cs fs,
  forallb noret7 b || retok c = true -> forallb tryok b = true -> c_break_pops_first cf || forallb nobrk7 b = true ->
  res_ok c cs (nlist cf b (fc_depth c) (fc_locals c) (fc_ups c) (map lev_of cs) fs (code_size (fc_code c)))
         (comp_list cf b (stk c cs fs)).
Proof. intros cf b Hb. apply comp_list_N_aux; [now apply stmt7w_all_goalN|exact Hb]. Qed.

Lemma comp_blk_N : forall cf b, forallb stmt7w b = true -> forall c cs fs,
  forallb noret7 b || retok c = true -> forallb tryok b = true -> c_break_pops_first cf || forallb nobrk7 b = true ->
  res_ok c cs (nblk cf b (fc_depth c) (fc_locals c) (fc_ups c) (map lev_of cs) fs (code_size (fc_code c)))
         (end_scope (comp_list cf b (begin_scope (stk c cs fs)))).
Proof. intros cf b Hb. apply comp_blk_N_aux; [now apply stmt7w_all_goalN|exact Hb]. Qed.

Lemma comp_func_N : forall cf ps b, forallb stmt7w b = true -> forallb tryok b = true ->
  c_break_pops_first cf || forallb nobrk7 b = true -> forall c cs fs,
  match nfunc cf ps b (fc_locals c) (fc_ups c) (map lev_of cs) fs with
  | Some (ci, L', U', E', fs') =>
      finalise_function (comp_list cf b (open_function cf ps (stk c cs fs))) =
      stk (with_clu c (fc_code c ++ [ci]) L' U') (put_levs cs E') fs'
  | None => errd (finalise_function (comp_list cf b (open_function cf ps (stk c cs fs))))
  end.
Proof. intros cf ps b Hb. apply comp_func_N_aux; [now apply stmt7w_all_goalN|exact Hb]. Qed.

(* a try statement on its own: the try block is compiled by the compiler `set_intry c true`, the catch clause by a
   compiler with the fc_intry of c; the result keeps the fc_intry of c (with_club) *)
Lemma comp_try_N : forall cf b x h, forallb stmt7w b = true -> forallb stmt7w h = true -> forall c cs fs,
  forallb noret7 b = true -> forallb noret7 h || retok c = true ->
  forallb tryok b = true -> forallb tryok h = true ->
  c_break_pops_first cf || (forallb nobrk7 b && forallb nobrk7 h) = true ->
  res_ok c cs (nstmt cf (STry b x h) (fc_locals c) (fc_depth c) (fc_ups c) (map lev_of cs) fs (code_size (fc_code c)))
         (comp_stmt cf (STry b x h) (stk c cs fs)).
Proof.
  intros cf b x h Hb Hh c cs fs Hnb Hnh Htb Hth Hk. apply comp_stmt_N.
  - cbn [stmt7w]. now rewrite Hb, Hh.
  - cbn [noret7]. rewrite Hnb. exact Hnh.
  - cbn [tryok]. now rewrite Hnb, Htb, Hth.
  - exact Hk.
Qed.

(* outside a loop (in particular at script level and at the start of a function body) nothing is pending: the
   correspondence in its plain form *)
Lemma comp_list_N_noloop : forall cf b, forallb stmt7w b = true -> forall c cs fs,
  forallb noret7 b || retok c = true -> forallb tryok b = true -> c_break_pops_first cf || forallb nobrk7 b = true ->
  fc_loops c = [] ->
  match nlist cf b (fc_depth c) (fc_locals c) (fc_ups c) (map lev_of cs) fs (code_size (fc_code c)) None with
  | Some (code, L', U', E', fs') => exists bs,
      comp_list cf b (stk c cs fs) = stk (with_club c (fc_code c ++ code) L' U' bs) (put_levs cs E') fs'
  | None => errd (comp_list cf b (stk c cs fs))
  end.
Proof.
  intros cf b Hb c cs fs Hn Ht Hk Hl. pose proof (comp_list_N cf b Hb c cs fs Hn Ht Hk) as H. unfold res_ok, lc_of in H.
  rewrite Hl in H.
  destruct (nlist cf b (fc_depth c) (fc_locals c) (fc_ups c) (map lev_of cs) fs (code_size (fc_code c)) None)
    as [[[[[code L'] U'] E'] fs']|]; [|exact H].
  destruct H as (m & _ & Hst & _). eexists. exact Hst.
Qed.

(* ------------------------------------------------------------------------------------------ *)
(* Part 8: the whole program: the functions in finalise order, then the script function = the pure code followed
   by Nil; Return.  The script has no enclosing level: its upvalue list stays empty; it is in no loop. *)
Theorem compile_scope_shape7w : forall cf p funs,
  forallb stmt7w p = true -> forallb noret7 p = true -> forallb tryok p = true ->
  c_break_pops_first cf || forallb nobrk7 p = true ->
  compile_scope cf p = Some funs ->
  exists code L' fs', nlist cf p 0 [mkLocal None (Some 0) false] [] [] [] 0 None = Some (code, L', [], [], fs') /\
                      funs = (fs' ++ [mkFunc (code ++ [INil; IReturn]) 0 0])%list.
Proof.
  intros cf p funs Hp Hn Ht Hk Hc. unfold compile_scope, comp_prog in Hc.
  change (fold_left (fun s a => comp_stmt cf a s) p (mkCst [new_fcomp true] [] None))
    with (comp_list cf p (stk (new_fcomp true) [] [])) in Hc.
  pose proof (comp_list_N_noloop cf p Hp (new_fcomp true) [] []) as H. rewrite Hn in H. specialize (H eq_refl Ht Hk eq_refl).
  cbn [fc_locals fc_depth fc_ups fc_code new_fcomp map code_size] in H.
  destruct (nlist cf p 0 [mkLocal None (Some 0) false] [] [] [] 0 None) as [[[[[code L'] U'] E'] fs']|] eqn:El.
  - destruct (nlist_nil cf p Hp _ _ _ _ _ _ _ _ _ _ _ El) as [-> ->]. destruct H as (bs & H).
    rewrite H in Hc. rewrite emits_stk in Hc. cbn in Hc. inversion Hc. exists code, L', fs'. split; reflexivity.
  - exfalso. apply (errd_emits [INil; IReturn]) in H. unfold errd in H. destruct (cs_err _); [discriminate|congruence].
Qed.

(* stage 5: stage 4 + throw + try / catch (the repaired order of break: scope-end operations, then the jump) *)
Theorem compile_scope_stage5_shape : forall cf p funs, c_break_pops_first cf = true ->
  forallb (stmt7 true false true false) p = true -> compile_scope cf p = Some funs ->
  exists code L' fs', nlist cf p 0 [mkLocal None (Some 0) false] [] [] [] 0 None = Some (code, L', [], [], fs') /\
                      funs = (fs' ++ [mkFunc (code ++ [INil; IReturn]) 0 0])%list.
Proof.
  intros cf p funs Hcf Hp. apply compile_scope_shape7w.
  - revert Hp. apply forallb_imp. intros a. apply stmt7_stmt7w.
  - revert Hp. apply forallb_imp. intros a. apply stmt7_noret7.
  - revert Hp. apply forallb_imp. intros a. apply stmt7_tryok.
  - now rewrite Hcf.
Qed.

(* without break / continue: whichever order break is compiled in *)
Corollary compile_scope_stage5_shape_nojumps : forall cf p funs,
  forallb (stmt7 false false true false) p = true -> compile_scope cf p = Some funs ->
  exists code L' fs', nlist cf p 0 [mkLocal None (Some 0) false] [] [] [] 0 None = Some (code, L', [], [], fs') /\
                      funs = (fs' ++ [mkFunc (code ++ [INil; IReturn]) 0 0])%list.
Proof.
  intros cf p funs Hp. apply compile_scope_shape7w.
  - revert Hp. apply forallb_imp. intros a. apply stmt7_stmt7w.
  - revert Hp. apply forallb_imp. intros a. apply stmt7_noret7.
  - revert Hp. apply forallb_imp. intros a. apply stmt7_tryok.
  - apply orb_true_intro. right. revert Hp. apply forallb_imp. intros a. apply stmt7_nobrk7.
Qed.

(* and conversely: when the pure compiler succeeds on a program without a script-level return and without a return
   in a try block, so does compile_scope *)
Theorem compile_scope_shape7w_complete : forall cf p code L' U' E' fs',
  forallb stmt7w p = true -> forallb noret7 p = true -> forallb tryok p = true ->
  c_break_pops_first cf || forallb nobrk7 p = true ->
  nlist cf p 0 [mkLocal None (Some 0) false] [] [] [] 0 None = Some (code, L', U', E', fs') ->
  compile_scope cf p = Some (fs' ++ [mkFunc (code ++ [INil; IReturn]) 0 0])%list.
Proof.
  intros cf p code L' U' E' fs' Hp Hn Ht Hk El. unfold compile_scope, comp_prog.
  change (fold_left (fun s a => comp_stmt cf a s) p (mkCst [new_fcomp true] [] None))
    with (comp_list cf p (stk (new_fcomp true) [] [])).
  pose proof (comp_list_N_noloop cf p Hp (new_fcomp true) [] []) as H. rewrite Hn in H. specialize (H eq_refl Ht Hk eq_refl).
  cbn [fc_locals fc_depth fc_ups fc_code new_fcomp map code_size] in H. rewrite El in H. destruct H as (bs & H).
  rewrite H, emits_stk. reflexivity.
Qed.

Theorem compile_scope_stage5_complete : forall cf p code L' U' E' fs', c_break_pops_first cf = true ->
  forallb (stmt7 true false true false) p = true ->
  nlist cf p 0 [mkLocal None (Some 0) false] [] [] [] 0 None = Some (code, L', U', E', fs') ->
  compile_scope cf p = Some (fs' ++ [mkFunc (code ++ [INil; IReturn]) 0 0])%list.
Proof.
  intros cf p code L' U' E' fs' Hcf Hp. apply compile_scope_shape7w_complete.
  - revert Hp. apply forallb_imp. intros a. apply stmt7_stmt7w.
  - revert Hp. apply forallb_imp. intros a. apply stmt7_noret7.
  - revert Hp. apply forallb_imp. intros a. apply stmt7_tryok.
  - now rewrite Hcf.
Qed.

(* on the fragment the two compilers succeed on the same programs, with the same result *)
Corollary compile_scope_stage5_iff : forall cf p funs, c_break_pops_first cf = true ->
  forallb (stmt7 true false true false) p = true ->
  (compile_scope cf p = Some funs <->
   exists code L' fs', nlist cf p 0 [mkLocal None (Some 0) false] [] [] [] 0 None = Some (code, L', [], [], fs') /\
                       funs = (fs' ++ [mkFunc (code ++ [INil; IReturn]) 0 0])%list).
Proof.
  intros cf p funs Hcf Hp. split.
  - now apply compile_scope_stage5_shape.
  - intros (code & L' & fs' & El & ->). eapply compile_scope_stage5_complete; eauto.
Qed.

(* The side condition `tryok` of comp_stmt_N cannot be dropped: the pure compiler compiles a `return` wherever it
   stands, the stateful one reports an error for a `return` in a try block, also inside a function body *)
Lemma comp_stmt_N_tryok_needed :
  exists cf s c cs fs, stmt7w s = true /\ noret7 s || retok c = true /\
    nstmt cf s (fc_locals c) (fc_depth c) (fc_ups c) (map lev_of cs) fs (code_size (fc_code c)) (lc_of c 0) <> None /\
    errd (comp_stmt cf s (stk c cs fs)).
Proof.
  exists ex_cf, (STry [SReturn (ELit 0)] 1 []), (new_fcomp false), [], [].
  split; [reflexivity|]. split; [reflexivity|]. split; [discriminate|]. unfold errd. cbn. discriminate.
Qed.

(* try / catch / throw inside a loop (break / continue in the catch clause, and in a loop inside the try block), a try
   nested in a try block and in a catch clause, inside a function (with a return in the catch clause), a closure
   capturing the exception: the hypotheses of stage 5 are satisfiable, and both compilers agree on the program, for
   both settings of c_catch_pops *)
Definition ex5_prog : list stmt :=
  [ SDecl 40 (ELit 0);
    SFun 30 [31] [ SDecl 32 (ELit 0);
                   STry [ SIf (EVar 31) (ELit 1) [SThrow (EAdd (EVar 31) (ELit 5))] [];
                          SAssign 32 (ELit 1) ]
                        33
                        [ SLam 34 [] [SReturn (EAdd (EVar 33) (EVar 32))];
                          SReturn (ECall 34 []) ];
                   SReturn (EVar 32) ];
    SLoop 1 4 [ SDecl 2 (EAdd (EVar 1) (ELit 10));
                STry [ SDecl 3 (ELit 7);
                       STry [ SPrint (ECall 30 [EVar 1]); SThrow (EVar 3) ] 4 [ SThrow (EAdd (EVar 4) (EVar 2)) ];
                       SLoop 5 2 [ STry [ SIf (EVar 5) (ELit 1) [SThrow (ELit 9)] [] ] 6 [ SIf (EVar 6) (ELit 10) [SContinue] [SBreak] ];
                                   SIf (EVar 5) (ELit 1) [SBreak] [] ];
                       SPrint (EVar 3) ]
                     7
                     [ SLam 8 [] [SReturn (EAdd (EVar 7) (EVar 2))];
                       SAssign 40 (ECall 8 []);
                       SIf (ELit 2) (EVar 1) [SBreak] [SContinue] ];
                SPrint (EVar 2) ];
    SPrint (EVar 40) ].

Example ex_stage5_shape :
  forallb (stmt7 true false true false) ex5_prog = true /\
  (exists funs, compile_scope (mkCfg 256 256 true true false) ex5_prog = Some funs /\ List.length funs = 4 /\
     option_map (fun r => (snd r ++ [mkFunc (fst (fst (fst (fst r))) ++ [INil; IReturn]) 0 0])%list)
                (nlist (mkCfg 256 256 true true false) ex5_prog 0 [mkLocal None (Some 0) false] [] [] [] 0 None)
     = Some funs) /\
  (exists funs, compile_scope (mkCfg 256 256 true true true) ex5_prog = Some funs /\ List.length funs = 4 /\
     option_map (fun r => (snd r ++ [mkFunc (fst (fst (fst (fst r))) ++ [INil; IReturn]) 0 0])%list)
                (nlist (mkCfg 256 256 true true true) ex5_prog 0 [mkLocal None (Some 0) false] [] [] [] 0 None)
     = Some funs).
Proof.
  split; [vm_compute; reflexivity|]. split.
  - eexists. split; [vm_compute; reflexivity|]. split; vm_compute; reflexivity.
  - eexists. split; [vm_compute; reflexivity|]. split; vm_compute; reflexivity.
Qed.

Print Assumptions comp_stmt_N.
Print Assumptions comp_list_N.
Print Assumptions comp_func_N.
Print Assumptions nstmt_len.
Print Assumptions nlist_len.
Print Assumptions compile_scope_stage5_complete.
Print Assumptions compile_scope_stage5_shape.
