(* C06 - stages 2-4 of compile_scope_correct (any number of nested function levels; `for` loops, if / else, break,
   continue): the stateful compiler compile_scope (ScopeComp.v) equals the pure n-level compiler nstmt / nlist of
   ScopeDefsN.v on the fragment stmt6w, for an ARBITRARY stack of enclosing compilers.  PROOFS ONLY (auxiliary
   definitions: the fragments stmt5w / stmt6w, `noret` = no return outside a function body, `nobrk` = no break,
   `retok` = the innermost compiler may compile a return, the invariant `ninv` of the pure compiler, the record updates
   `with_clu` / `with_club`, the pending-break bookkeeping `ixs` / `bpm`).

   break is a forward jump that the stateful compiler patches at the end of the loop (pop_loop); the pure compiler
   is given the landing offset (lc_exit) in advance.  With lc_exit = 0 the pure compiler emits exactly the unpatched
   code (`IJump (0 - ..) = IJump 0`); `res_ok` below says: the stateful code is the pure code for exit 0, the head of
   fc_breaks grows by the instruction indices `ixs` of a mask over that code, and for EVERY exit X the pure code is
   the exit-0 code patched at the mask (`bpm X`): this is what pop_loop computes. *)
From Coq Require Import List Arith Bool String ZArith NArith Lia.
From YV Require Import Show Upvalues Cells ScopeLang ScopeComp ScopeSim ScopeDefs2 ScopeComp2 ScopeDefsN.
Import ListNotations.
Import Gen.
Open Scope nat_scope.

(* ------------------------------------------------------------------------------------------ *)
(* Part 0: the fragments without side restrictions, their nested induction principles *)

(* nested induction over all statements *)
Lemma stmt_nind : forall P : stmt -> Prop,
  (forall x e, P (SDecl x e)) -> (forall x e, P (SAssign x e)) -> (forall e, P (SPrint e)) -> (forall e, P (SExpr e)) ->
  (forall b, Forall P b -> P (SBlock b)) ->
  (forall f ps b, Forall P b -> P (SFun f ps b)) -> (forall x ps b, Forall P b -> P (SLam x ps b)) ->
  (forall i n b, Forall P b -> P (SLoop i n b)) ->
  (forall a c t e, Forall P t -> Forall P e -> P (SIf a c t e)) ->
  P SBreak -> P SContinue -> (forall e, P (SReturn e)) -> (forall e, P (SThrow e)) ->
  (forall b x h, Forall P b -> Forall P h -> P (STry b x h)) -> (forall b, Forall P b -> P (SFiber b)) ->
  (forall v e, P (SVPush v e)) -> forall s, P s.
Proof.
  intros P H1 H2 H3 H4 H5 H6 H7 H8 H9 H10 H11 H12 H13 H14 H15 H16. fix IH 1. intros s.
  assert (G : forall l, Forall P l).
  { refine (fix go (l : list stmt) : Forall P l := match l with [] => Forall_nil P | a :: r => _ end).
    constructor; [apply IH|apply go]. }
  destruct s.
  - apply H1. - apply H2. - apply H3. - apply H4. - apply H5, G. - apply H6, G. - apply H7, G. - apply H8, G.
  - apply H9; apply G. - apply H10. - apply H11. - apply H12. - apply H13. - apply H14; apply G. - apply H15, G. - apply H16.
Qed.

Lemma forallb_Forall_imp : forall (A : Type) (f g : A -> bool) l,
  Forall (fun a => f a = true -> g a = true) l -> forallb f l = true -> forallb g l = true.
Proof.
  intros A f g l H. induction H as [|a r Ha Hr IH]; intros Hf; [reflexivity|].
  cbn in Hf |- *. apply andb_prop in Hf as [H1 H2]. apply andb_true_intro. split; auto.
Qed.

Lemma forallb_Forall_P : forall (A : Type) (f : A -> bool) (P : A -> Prop) l,
  Forall (fun a => f a = true -> P a) l -> forallb f l = true -> Forall P l.
Proof.
  intros A f P l H. induction H as [|a r Ha Hr IH]; intros Hf; [constructor|].
  cbn in Hf. apply andb_prop in Hf as [H1 H2]. constructor; auto.
Qed.

Fixpoint stmt5w (s : stmt) : bool :=
  match s with
  | SDecl _ e | SAssign _ e | SPrint e | SExpr e | SReturn e => expr2 e
  | SBlock b => forallb stmt5w b
  | SFun _ _ b | SLam _ _ b => forallb stmt5w b
  | _ => false
  end.

(* stages 3 and 4: loops, if / else, break, continue *)
Fixpoint stmt6w (s : stmt) : bool :=
  match s with
  | SDecl _ e | SAssign _ e | SPrint e | SExpr e | SReturn e => expr2 e
  | SBlock b => forallb stmt6w b
  | SFun _ _ b | SLam _ _ b => forallb stmt6w b
  | SLoop _ _ b => forallb stmt6w b
  | SIf a c t e => expr2 a && expr2 c && forallb stmt6w t && forallb stmt6w e
  | SBreak | SContinue => true
  | _ => false
  end.

(* no `return` outside a function body (a return at script level is a compile error) *)
Fixpoint noret (s : stmt) : bool :=
  match s with
  | SReturn _ => false
  | SBlock b => forallb noret b
  | SLoop _ _ b => forallb noret b
  | SIf _ _ t e => forallb noret t && forallb noret e
  | _ => true
  end.

(* no `break` at all (function bodies included) *)
Fixpoint nobrk (s : stmt) : bool :=
  match s with
  | SBreak => false
  | SBlock b | SFun _ _ b | SLam _ _ b | SLoop _ _ b => forallb nobrk b
  | SIf _ _ t e => forallb nobrk t && forallb nobrk e
  | _ => true
  end.

(* the innermost compiler accepts a `return` *)
Definition retok (c : fcomp) : bool := negb (fc_script c) && negb (fc_intry c).

Lemma stmt5w_ind : forall P : stmt -> Prop,
  (forall x e, expr2 e = true -> P (SDecl x e)) -> (forall x e, expr2 e = true -> P (SAssign x e)) ->
  (forall e, expr2 e = true -> P (SPrint e)) -> (forall e, expr2 e = true -> P (SExpr e)) ->
  (forall e, expr2 e = true -> P (SReturn e)) ->
  (forall b, forallb stmt5w b = true -> Forall P b -> P (SBlock b)) ->
  (forall f ps b, forallb stmt5w b = true -> Forall P b -> P (SFun f ps b)) ->
  (forall x ps b, forallb stmt5w b = true -> Forall P b -> P (SLam x ps b)) ->
  forall s, stmt5w s = true -> P s.
Proof.
  intros P Hd Ha Hp He Hr Hb Hf Hl s. induction s using stmt_nind; cbn [stmt5w]; intros Hs; try discriminate.
  - now apply Hd. - now apply Ha. - now apply Hp. - now apply He.
  - apply Hb; [exact Hs|]. eapply forallb_Forall_P; eauto.
  - apply Hf; [exact Hs|]. eapply forallb_Forall_P; eauto.
  - apply Hl; [exact Hs|]. eapply forallb_Forall_P; eauto.
  - now apply Hr.
Qed.

Lemma stmt6w_ind : forall P : stmt -> Prop,
  (forall x e, expr2 e = true -> P (SDecl x e)) -> (forall x e, expr2 e = true -> P (SAssign x e)) ->
  (forall e, expr2 e = true -> P (SPrint e)) -> (forall e, expr2 e = true -> P (SExpr e)) ->
  (forall e, expr2 e = true -> P (SReturn e)) ->
  (forall b, forallb stmt6w b = true -> Forall P b -> P (SBlock b)) ->
  (forall f ps b, forallb stmt6w b = true -> Forall P b -> P (SFun f ps b)) ->
  (forall x ps b, forallb stmt6w b = true -> Forall P b -> P (SLam x ps b)) ->
  (forall i n b, forallb stmt6w b = true -> Forall P b -> P (SLoop i n b)) ->
  (forall a c t e, expr2 a = true -> expr2 c = true -> forallb stmt6w t = true -> forallb stmt6w e = true ->
                   Forall P t -> Forall P e -> P (SIf a c t e)) ->
  P SBreak -> P SContinue ->
  forall s, stmt6w s = true -> P s.
Proof.
  intros P Hd Ha Hp He Hr Hb Hf Hl Hlo Hif Hbr Hco s. induction s using stmt_nind; cbn [stmt6w]; intros Hs; try discriminate.
  - now apply Hd. - now apply Ha. - now apply Hp. - now apply He.
  - apply Hb; [exact Hs|]. eapply forallb_Forall_P; eauto.
  - apply Hf; [exact Hs|]. eapply forallb_Forall_P; eauto.
  - apply Hl; [exact Hs|]. eapply forallb_Forall_P; eauto.
  - apply Hlo; [exact Hs|]. eapply forallb_Forall_P; eauto.
  - apply andb_prop in Hs as [Hs He']. apply andb_prop in Hs as [Hs Ht]. apply andb_prop in Hs as [Ha' Hc'].
    apply Hif; auto; eapply forallb_Forall_P; eauto.
  - exact Hbr. - exact Hco.
  - now apply Hr.
Qed.

Ltac fb_imp H := eapply forallb_Forall_imp; [|exact H]; eapply Forall_impl; [|eassumption]; cbv beta; intros; eauto.

Lemma stmt5_stmt5w : forall s i t, stmt5 i t s = true -> stmt5w s = true.
Proof.
  induction s using stmt_nind; intros i0 t0 Hs; cbn [stmt5 stmt5w] in *; try discriminate; try exact Hs.
  - fb_imp Hs.
  - fb_imp Hs.
  - apply andb_prop in Hs as [Hs _]. fb_imp Hs.
  - apply andb_prop in Hs as [_ Hs]. exact Hs.
Qed.

Lemma stmt5w_stmt6w : forall s, stmt5w s = true -> stmt6w s = true.
Proof.
  induction s using stmt_nind; intros Hs; cbn [stmt5w stmt6w] in *; try discriminate; try exact Hs; fb_imp Hs.
Qed.

Lemma stmt5w_nobrk : forall s, stmt5w s = true -> nobrk s = true.
Proof.
  induction s using stmt_nind; intros Hs; cbn [stmt5w nobrk] in *; try discriminate; try reflexivity; fb_imp Hs.
Qed.

Lemma stmt6_stmt6w : forall s j i t l, stmt6 j i t l s = true -> stmt6w s = true.
Proof.
  induction s using stmt_nind; intros j0 i0 t0 l0 Hs; cbn [stmt6 stmt6w] in *; try discriminate; try exact Hs; try reflexivity.
  - fb_imp Hs.
  - fb_imp Hs.
  - apply andb_prop in Hs as [Hs _]. fb_imp Hs.
  - fb_imp Hs.
  - apply andb_prop in Hs as [Hs He']. apply andb_prop in Hs as [Hs Ht]. rewrite Hs. cbn [andb].
    apply andb_true_intro. split; [fb_imp Ht|fb_imp He'].
  - apply andb_prop in Hs as [_ Hs]. exact Hs.
Qed.

Lemma stmt5_stmt6 : forall s i t j l, stmt5 i t s = true -> stmt6 j i t l s = true.
Proof.
  induction s using stmt_nind; intros i0 t0 j0 l0 Hs; cbn [stmt5 stmt6] in *; try discriminate; try exact Hs.
  - fb_imp Hs.
  - fb_imp Hs.
  - apply andb_prop in Hs as [Hs Hm]. rewrite Hm, andb_true_r. fb_imp Hs.
Qed.

(* the script-level fragments have no `return` outside a function body; without `jumps`, no break *)
Lemma stmt6_noret : forall s j t l, stmt6 j false t l s = true -> noret s = true.
Proof.
  induction s using stmt_nind; intros j0 t0 l0 Hs; cbn [stmt6 noret] in *; try discriminate; try reflexivity.
  - fb_imp Hs.
  - fb_imp Hs.
  - apply andb_prop in Hs as [Hs He']. apply andb_prop in Hs as [Hs Ht].
    apply andb_true_intro. split; [fb_imp Ht|fb_imp He'].
Qed.

Lemma stmt5_noret : forall s t, stmt5 false t s = true -> noret s = true.
Proof. intros s t H. eapply stmt6_noret. apply (stmt5_stmt6 s false t false false H). Qed.

Lemma stmt6_nobrk : forall s i t l, stmt6 false i t l s = true -> nobrk s = true.
Proof.
  induction s using stmt_nind; intros i0 t0 l0 Hs; cbn [stmt6 nobrk] in *; try discriminate; try reflexivity.
  - fb_imp Hs.
  - fb_imp Hs.
  - apply andb_prop in Hs as [Hs _]. fb_imp Hs.
  - fb_imp Hs.
  - apply andb_prop in Hs as [Hs He']. apply andb_prop in Hs as [Hs Ht].
    apply andb_true_intro. split; [fb_imp Ht|fb_imp He'].
Qed.

Lemma forallb_imp : forall (A : Type) (f g : A -> bool) l, (forall a, f a = true -> g a = true) ->
  forallb f l = true -> forallb g l = true.
Proof.
  intros A f g l H. induction l as [|a r IH]; intros Hf; [reflexivity|].
  cbn in Hf |- *. apply andb_prop in Hf as [H1 H2]. apply andb_true_intro. split; auto.
Qed.

(* ------------------------------------------------------------------------------------------ *)
(* Part 1: the resolver.  resolve_variable walks the compilers iteratively (find_enclosing, chain_ups, put_ups);
   rup is recursive, level by level. *)

Lemma top_of_stk : forall c cs fs, top_of (stk c cs fs) = c.
Proof. reflexivity. Qed.

Lemma put_lev_id : forall c, put_lev c (lev_of c) = c.
Proof. intros c. destruct c; reflexivity. Qed.

Lemma put_levs_id : forall cs, put_levs cs (map lev_of cs) = cs.
Proof. induction cs as [|c r IH]; [reflexivity|]. cbn [map put_levs]. now rewrite put_lev_id, IH. Qed.

Lemma lev_of_put_lev : forall c l, lev_of (put_lev c l) = l.
Proof. intros c l. destruct l; reflexivity. Qed.

Lemma map_lev_of_put_levs : forall cs E, List.length E = List.length cs -> map lev_of (put_levs cs E) = E.
Proof.
  induction cs as [|c r IH]; intros E H; destruct E as [|l E]; try discriminate; [reflexivity|].
  cbn [put_levs map]. rewrite lev_of_put_lev, IH; [reflexivity|]. cbn in H. lia.
Qed.

Lemma put_lev_put_lev : forall c l1 l2, put_lev (put_lev c l1) l2 = put_lev c l2.
Proof. reflexivity. Qed.

Lemma put_levs_put_levs : forall cs E1 E2, List.length E1 <= List.length E2 ->
  put_levs (put_levs cs E1) E2 = put_levs cs E2.
Proof.
  induction cs as [|c r IH]; intros E1 E2 H; [reflexivity|].
  destruct E1 as [|l1 E1]; [reflexivity|]. destruct E2 as [|l2 E2]; [cbn in H; lia|].
  cbn [put_levs]. rewrite put_lev_put_lev, IH; [reflexivity|]. cbn in H. lia.
Qed.

Lemma put_lev_locals : forall c L, put_lev c (mkLev L (fc_ups c)) = set_locals c L.
Proof. intros c L. destruct c; reflexivity. Qed.

Lemma put_lev_ups : forall c U, put_lev c (mkLev (fc_locals c) U) = set_ups c U.
Proof. intros c U. destruct c; reflexivity. Qed.

Lemma chain_ups_cons2 : forall m u u2 r slot,
  chain_ups m (u :: u2 :: r) slot =
  let '(rest', k1, e1) := chain_ups m (u2 :: r) slot in
  let '(u', k, e) := add_upvalue m u k1 false in (u' :: rest', k, e1 || e).
Proof. reflexivity. Qed.

Lemma chain_ups_one : forall m u slot,
  chain_ups m [u] slot = let '(u', k, e) := add_upvalue m u slot true in ([u'], k, e).
Proof. reflexivity. Qed.

(* the loop of resolve_upvalue = the recursion *)
Lemma rup_find : forall cf x cs U,
  match find_enclosing cs x with
  | None => rup cf x U (map lev_of cs) = Some (None, U, map lev_of cs)
  | Some (k, slot) =>
      let '(uss, idx, ovf) := chain_ups (c_upvalues_max cf) (U :: map fc_ups (firstn k cs)) slot in
      if ovf then rup cf x U (map lev_of cs) = None
      else match uss with
           | [] => False
           | U' :: uss' =>
               exists E', rup cf x U (map lev_of cs) = Some (Some idx, U', E') /\
                 put_levs cs E' =
                 (put_ups (firstn k cs) uss' ++
                  set_locals (nth k cs (new_fcomp true)) (mark_captured (fc_locals (nth k cs (new_fcomp true))) slot)
                  :: skipn (S k) cs)%list
           end
  end.
Proof.
  intros cf x cs. induction cs as [|c1 r IH]; intros U; [reflexivity|].
  cbn [find_enclosing map rup lev_of lv_locals lv_ups].
  assert (Hrec :
    match match find_enclosing r x with Some (k, slot) => Some (S k, slot) | None => None end with
    | None => match rup cf x (fc_ups c1) (map lev_of r) with
              | None => None
              | Some (None, _, _) => Some (None, U, mkLev (fc_locals c1) (fc_ups c1) :: map lev_of r)
              | Some (Some k1, Ul, E1) =>
                  let '(U1, k, ovf) := add_upvalue (c_upvalues_max cf) U k1 false in
                  if ovf then None else Some (Some k, U1, mkLev (fc_locals c1) Ul :: E1)
              end = Some (None, U, mkLev (fc_locals c1) (fc_ups c1) :: map lev_of r)
    | Some (k, slot) =>
      let '(uss, idx, ovf) := chain_ups (c_upvalues_max cf) (U :: map fc_ups (firstn k (c1 :: r))) slot in
      if ovf then match rup cf x (fc_ups c1) (map lev_of r) with
              | None => None
              | Some (None, _, _) => Some (None, U, mkLev (fc_locals c1) (fc_ups c1) :: map lev_of r)
              | Some (Some k1, Ul, E1) =>
                  let '(U1, k, ovf) := add_upvalue (c_upvalues_max cf) U k1 false in
                  if ovf then None else Some (Some k, U1, mkLev (fc_locals c1) Ul :: E1)
              end = None
      else match uss with
           | [] => False
           | U' :: uss' =>
               exists E', match rup cf x (fc_ups c1) (map lev_of r) with
              | None => None
              | Some (None, _, _) => Some (None, U, mkLev (fc_locals c1) (fc_ups c1) :: map lev_of r)
              | Some (Some k1, Ul, E1) =>
                  let '(U1, k, ovf) := add_upvalue (c_upvalues_max cf) U k1 false in
                  if ovf then None else Some (Some k, U1, mkLev (fc_locals c1) Ul :: E1)
              end = Some (Some idx, U', E') /\
                 put_levs (c1 :: r) E' =
                 (put_ups (firstn k (c1 :: r)) uss' ++
                  set_locals (nth k (c1 :: r) (new_fcomp true)) (mark_captured (fc_locals (nth k (c1 :: r) (new_fcomp true))) slot)
                  :: skipn (S k) (c1 :: r))%list
           end
    end).
  { specialize (IH (fc_ups c1)). destruct (find_enclosing r x) as [[k slot]|].
    - cbn [firstn map]. rewrite chain_ups_cons2.
      destruct (chain_ups (c_upvalues_max cf) (fc_ups c1 :: map fc_ups (firstn k r)) slot) as [[uss1 k1] e1].
      destruct e1.
      + rewrite IH. destruct (add_upvalue (c_upvalues_max cf) U k1 false) as [[u' k'] e]. reflexivity.
      + destruct uss1 as [|Ul uss]; [contradiction|]. destruct IH as (E1 & IH1 & IH2). rewrite IH1.
        destruct (add_upvalue (c_upvalues_max cf) U k1 false) as [[u' k'] e]. cbn [orb].
        destruct e; [reflexivity|].
        exists (mkLev (fc_locals c1) Ul :: E1). split; [reflexivity|].
        cbn [put_levs put_ups nth skipn app]. rewrite put_lev_ups, IH2. reflexivity.
    - rewrite IH. reflexivity. }
  destruct (resolve_local (fc_locals c1) x) as [[slot [|]]|]; [|exact Hrec|exact Hrec].
  cbn [firstn map]. rewrite chain_ups_one.
  destruct (add_upvalue (c_upvalues_max cf) U slot true) as [[U1 k] ovf]. destruct ovf; [reflexivity|].
  exists (mkLev (mark_captured (fc_locals c1) slot) (fc_ups c1) :: map lev_of r). split; [reflexivity|].
  cbn [put_levs put_ups nth skipn app]. rewrite put_lev_locals, put_levs_id. reflexivity.
Qed.

Lemma resolve_variable_stk : forall cf x c cs fs,
  match rvn cf (fc_locals c) (fc_ups c) (map lev_of cs) x with
  | Some (r, U', E') => resolve_variable cf x (stk c cs fs) = (stk (set_ups c U') (put_levs cs E') fs, r)
  | None => errd (fst (resolve_variable cf x (stk c cs fs)))
  end.
Proof.
  intros cf x c cs fs. unfold rvn, resolve_variable, stk. cbn [cs_comps cs_funs cs_err].
  destruct (resolve_local (fc_locals c) x) as [[s [|]]|].
  - rewrite set_ups_id, put_levs_id. reflexivity.
  - cbn [fst]. apply errd_fail.
  - pose proof (rup_find cf x cs (fc_ups c)) as H.
    destruct (find_enclosing cs x) as [[k slot]|].
    + change (map fc_ups (c :: firstn k cs)) with (fc_ups c :: map fc_ups (firstn k cs)).
      destruct (chain_ups (c_upvalues_max cf) (fc_ups c :: map fc_ups (firstn k cs)) slot) as [[uss idx] ovf].
      destruct ovf.
      * rewrite H. cbn [fst]. apply errd_fail.
      * destruct uss as [|U' uss']; [contradiction|]. destruct H as (E' & H1 & H2). rewrite H1.
        cbn [put_ups app]. rewrite H2. reflexivity.
    + rewrite H. rewrite set_ups_id, put_levs_id. reflexivity.
Qed.

(* ------------------------------------------------------------------------------------------ *)
(* Part 2: an invariant of the pure compiler: the locals of the enclosing levels keep names and depths (their
   is_captured flags only rise; in particular the number of levels is kept), and the upvalue list of the outermost
   function never changes (nothing encloses it) *)

Definition levs_up (E E' : list lev) : Prop :=
  Forall2 (fun l l' => flags_up (lv_locals l) (lv_locals l')) E E'.

Fixpoint outer_ups (U : ups_t) (E : list lev) : ups_t :=
  match E with [] => U | l :: E' => outer_ups (lv_ups l) E' end.

Definition ninv (U : ups_t) (E : list lev) (U' : ups_t) (E' : list lev) : Prop :=
  levs_up E E' /\ outer_ups U' E' = outer_ups U E.

Lemma levs_up_refl : forall E, levs_up E E.
Proof. unfold levs_up. induction E as [|l E IH]; constructor; [apply flags_up_refl|exact IH]. Qed.

Lemma levs_up_trans : forall A B C, levs_up A B -> levs_up B C -> levs_up A C.
Proof.
  unfold levs_up. intros A B C H. revert C.
  induction H as [|a b A B Hab H IH]; intros C HC; inversion HC as [|b' c B' C' Hbc HC']; subst; constructor.
  - eapply flags_up_trans; eauto.
  - apply IH. exact HC'.
Qed.

Lemma levs_up_length : forall E E', levs_up E E' -> List.length E' = List.length E.
Proof. intros E E' H. induction H as [|l l' E E' _ H IH]; cbn; [reflexivity|now rewrite IH]. Qed.

Lemma ninv_refl : forall U E, ninv U E U E.
Proof. intros U E. split; [apply levs_up_refl|reflexivity]. Qed.

Lemma ninv_trans : forall U E U1 E1 U2 E2, ninv U E U1 E1 -> ninv U1 E1 U2 E2 -> ninv U E U2 E2.
Proof.
  intros U E U1 E1 U2 E2 [A1 B1] [A2 B2]. split; [eapply levs_up_trans; eauto|congruence].
Qed.

Lemma ninv_length : forall U E U' E', ninv U E U' E' -> List.length E' = List.length E.
Proof. intros U E U' E' [H _]. now apply levs_up_length. Qed.

Lemma ninv_nil : forall U U' E', ninv U [] U' E' -> U' = U /\ E' = [].
Proof. intros U U' E' [A B]. inversion A; subst. cbn in B. auto. Qed.

Lemma rup_inv : forall cf x E U r U' E', rup cf x U E = Some (r, U', E') -> ninv U E U' E'.
Proof.
  intros cf x E. induction E as [|l E0 IH]; intros U r U' E'; cbn [rup].
  - intros [= <- <- <-]. apply ninv_refl.
  - assert (Hrec :
      match rup cf x (lv_ups l) E0 with
      | None => None
      | Some (None, _, _) => Some (None, U, l :: E0)
      | Some (Some k1, Ul, E1) =>
          let '(U1, k, ovf) := add_upvalue (c_upvalues_max cf) U k1 false in
          if ovf then None else Some (Some k, U1, mkLev (lv_locals l) Ul :: E1)
      end = Some (r, U', E') -> ninv U (l :: E0) U' E').
    { destruct (rup cf x (lv_ups l) E0) as [[[[k1|] Ul] E1]|] eqn:Er; [| |discriminate].
      - destruct (add_upvalue (c_upvalues_max cf) U k1 false) as [[U1 k] ovf]. destruct ovf; [discriminate|].
        intros [= <- <- <-]. destruct (IH _ _ _ _ Er) as [A B]. split.
        + constructor; [apply flags_up_refl|exact A].
        + cbn [outer_ups lv_ups]. exact B.
      - intros [= <- <- <-]. apply ninv_refl. }
    destruct (resolve_local (lv_locals l) x) as [[slot [|]]|]; [|exact Hrec|exact Hrec].
    destruct (add_upvalue (c_upvalues_max cf) U slot true) as [[U1 k] ovf]. destruct ovf; [discriminate|].
    intros [= <- <- <-]. split.
    + constructor; [apply flags_up_mark_captured|apply levs_up_refl].
    + reflexivity.
Qed.

Lemma rvn_inv : forall cf L U E x r U' E', rvn cf L U E x = Some (r, U', E') -> ninv U E U' E'.
Proof.
  intros cf L U E x r U' E'. unfold rvn. destruct (resolve_local L x) as [[s [|]]|].
  - intros [= <- <- <-]. apply ninv_refl.
  - discriminate.
  - destruct (rup cf x U E) as [[[[k|] U1] E1]|] eqn:Er; [| |discriminate].
    + intros [= <- <- <-]. eapply rup_inv; eauto.
    + intros [= <- <- <-]. apply ninv_refl.
Qed.

Lemma nexpr_call : forall cf L f args U E,
  nexpr cf L (ECall f args) U E =
  match rvn cf L U E f with
  | Some (r, U0, E0) =>
      match nargs cf L args U0 E0 with
      | Some (cargs, U3, E3) => Some ((get_op r f :: cargs ++ [ICall (List.length args)])%list, U3, E3)
      | None => None
      end
  | None => None
  end.
Proof.
  intros cf L f args U E. cbn [nexpr].
  destruct (rvn cf L U E f) as [[[r U0] E0]|]; [|reflexivity].
  match goal with |- match ?g args U0 E0 with _ => _ end = _ =>
    assert (Eq : forall l U1 E1, g l U1 E1 = nargs cf L l U1 E1) end.
  { induction l as [|a t IH]; intros U1 E1; [reflexivity|]. cbn [nargs].
    destruct (nexpr cf L a U1 E1) as [[[ca U2] E2]|]; [|reflexivity]. now rewrite IH. }
  now rewrite Eq.
Qed.

Lemma nargs_inv_aux : forall cf L args,
  Forall (fun e => forall U E ce U' E', nexpr cf L e U E = Some (ce, U', E') -> ninv U E U' E') args ->
  forall U E ca U' E', nargs cf L args U E = Some (ca, U', E') -> ninv U E U' E'.
Proof.
  intros cf L args H. induction H as [|a r Ha Hr IH]; intros U E ca U' E'; cbn [nargs].
  - intros [= <- <- <-]. apply ninv_refl.
  - destruct (nexpr cf L a U E) as [[[ca1 U1] E1]|] eqn:E1'; [|discriminate].
    destruct (nargs cf L r U1 E1) as [[[ct U2] E2]|] eqn:E2'; [|discriminate].
    intros [= <- <- <-]. eapply ninv_trans; [eapply Ha; eauto|eapply IH; eauto].
Qed.

Lemma nexpr_inv : forall cf e, expr2 e = true ->
  forall L U E ce U' E', nexpr cf L e U E = Some (ce, U', E') -> ninv U E U' E'.
Proof.
  intros cf e He L. revert e He.
  apply (expr2_ind (fun e => forall U E ce U' E', nexpr cf L e U E = Some (ce, U', E') -> ninv U E U' E')).
  - intros n U E ce U' E'. cbn [nexpr]. intros [= <- <- <-]. apply ninv_refl.
  - intros x U E ce U' E'. cbn [nexpr]. destruct (rvn cf L U E x) as [[[r U1] E1]|] eqn:Er; [|discriminate].
    intros [= <- <- <-]. eapply rvn_inv; eauto.
  - intros a b _ _ IHa IHb U E ce U' E'. cbn [nexpr].
    destruct (nexpr cf L a U E) as [[[ca U1] E1]|] eqn:E1'; [|discriminate].
    destruct (nexpr cf L b U1 E1) as [[[cb U2] E2]|] eqn:E2'; [|discriminate].
    intros [= <- <- <-]. eapply ninv_trans; [eapply IHa; eauto|eapply IHb; eauto].
  - intros f args _ IH U E ce U' E'. rewrite nexpr_call.
    destruct (rvn cf L U E f) as [[[r U0] E0]|] eqn:E0'; [|discriminate].
    destruct (nargs cf L args U0 E0) as [[[ca U3] E3]|] eqn:E1'; [|discriminate].
    intros [= <- <- <-]. eapply ninv_trans; [eapply rvn_inv; eauto|eapply nargs_inv_aux; eauto].
Qed.

Lemma nargs_inv : forall cf args, forallb expr2 args = true ->
  forall L U E ca U' E', nargs cf L args U E = Some (ca, U', E') -> ninv U E U' E'.
Proof.
  intros cf args Hb L. apply nargs_inv_aux.
  induction args as [|a r IH]; constructor.
  - cbn in Hb. apply andb_prop in Hb as [Ha _]. intros U E ce U' E'. now apply nexpr_inv.
  - cbn in Hb. apply andb_prop in Hb as [_ Hr]. now apply IH.
Qed.

(* the local `fix` nl of nstmt = nlist, the local nblock = nblk, the local nfun = nfunc *)
Lemma nl_eq : forall cf l dd L U E fs pos lc,
  (fix go (l : list stmt) (dd : nat) (L : list local) (U : ups_t) (E : list lev) (fs : list func)
          (pos : nat) (lc : option lctx) : option nres :=
    match l with
    | [] => Some ([], L, U, E, fs)
    | a :: r => match nstmt cf a L dd U E fs pos lc with
                | Some (ca, L1, U1, E1, fs1) =>
                    match go r dd L1 U1 E1 fs1 (pos + code_size ca) lc with
                    | Some (cr, L2, U2, E2, fs2) => Some ((ca ++ cr)%list, L2, U2, E2, fs2)
                    | None => None
                    end
                | None => None
                end
    end) l dd L U E fs pos lc = nlist cf l dd L U E fs pos lc.
Proof.
  intros cf l. induction l as [|a r IH]; intros dd L U E fs pos lc; [reflexivity|]. cbn [nlist].
  destruct (nstmt cf a L dd U E fs pos lc) as [[[[[ca L1] U1] E1] fs1]|]; [|reflexivity]. now rewrite IH.
Qed.

Lemma nstmt_block : forall cf b L d U E fs pos lc,
  nstmt cf (SBlock b) L d U E fs pos lc = nblk cf b d L U E fs pos lc.
Proof. intros. unfold nblk. cbn [nstmt]. rewrite nl_eq. reflexivity. Qed.

Lemma nstmt_fun : forall cf f ps b L d U E fs pos lc,
  nstmt cf (SFun f ps b) L d U E fs pos lc =
  if d =? 0 then
    match nfunc cf ps b L U E fs with
    | Some (ci, L', U', E', fs') => Some ([ci; IDefineGlobal f], L', U', E', fs')
    | None => None
    end
  else if dup_in_scope L f d then None
  else if List.length L =? c_locals_max cf then None
  else
    match nfunc cf ps b (mkLocal (Some f) (Some d) false :: L) U E fs with
    | Some (ci, L', U', E', fs') => Some ([ci], L', U', E', fs')
    | None => None
    end.
Proof.
  intros cf f ps b L d U E fs pos lc. cbn [nstmt]. unfold nfunc.
  destruct (bparams cf ps [mkLocal None (Some 0) false]) as [Lp|]; [|reflexivity].
  rewrite !nl_eq. reflexivity.
Qed.

Lemma nstmt_lam : forall cf x ps b L d U E fs pos lc,
  nstmt cf (SLam x ps b) L d U E fs pos lc =
  if d =? 0 then
    match nfunc cf ps b L U E fs with
    | Some (ci, L', U', E', fs') => Some ([ci; IDefineGlobal x], L', U', E', fs')
    | None => None
    end
  else if dup_in_scope L x d then None
  else if List.length L =? c_locals_max cf then None
  else
    match nfunc cf ps b (mkLocal (Some x) None false :: L) U E fs with
    | Some (ci, l0 :: L', U', E', fs') => Some ([ci], mkLocal (Some x) (Some d) (l_capt l0) :: L', U', E', fs')
    | _ => None
    end.
Proof.
  intros cf x ps b L d U E fs pos lc. cbn [nstmt]. unfold nfunc.
  destruct (bparams cf ps [mkLocal None (Some 0) false]) as [Lp|]; [|reflexivity].
  rewrite !nl_eq. reflexivity.
Qed.

(* the loop: locals of the hidden iterator and the loop variable, where the body block starts *)
Definition loop_locals (i : name) (d : nat) (L : list local) : list local :=
  mkLocal None (Some (S d)) false :: mkLocal (Some i) (Some (S d)) false :: L.

Lemma nstmt_loop : forall cf i n b L d U E fs pos lc,
  nstmt cf (SLoop i n b) L d U E fs pos lc =
  if dup_in_scope L i (S d) then None
  else if List.length L =? c_locals_max cf then None
  else if S (List.length L) =? c_locals_max cf then None
  else
    let lv := List.length L in
    let start := pos + code_size (loop_pre n) in
    let posb := start + code_size (loop_head lv 0) in
    match nblk cf b (S d) (loop_locals i d L) U E fs posb (Some (mkLctx start (S d) 0)) with
    | Some (c0, _, _, _, _) =>
        let szb := code_size c0 in
        match nblk cf b (S d) (loop_locals i d L) U E fs posb (Some (mkLctx start (S d) (posb + szb + 3 + 1))) with
        | Some (cblock, L1, U', E', fs') =>
            let ops := scope_end_ops L1 d in
            Some ((loop_pre n ++ loop_head lv (1 + szb + 3) ++ cblock
                   ++ [ILoop (code_size (loop_head lv 0) + szb + 3); IPop] ++ ops)%list,
                  skipn (List.length ops) L1, U', E', fs')
        | None => None
        end
    | None => None
    end.
Proof.
  intros cf i n b L d U E fs pos lc. unfold nblk, loop_locals. cbn [nstmt]. rewrite !nl_eq. reflexivity.
Qed.

Lemma nstmt_if : forall cf a c t e L d U E fs pos lc,
  nstmt cf (SIf a c t e) L d U E fs pos lc =
  match nexpr cf L a U E with
  | Some (ca, U1, E1) =>
      match nexpr cf L c U1 E1 with
      | Some (cc, U2, E2) =>
          let post := pos + code_size ca + code_size cc + code_size [ILess; IJumpIfFalse 0; IPop] in
          match nblk cf t d L U2 E2 fs post lc with
          | Some (ct, L1, U3, E3, fs1) =>
              let pose := post + code_size ct + code_size [IJump 0; IPop] in
              match nblk cf e d L1 U3 E3 fs1 pose lc with
              | Some (cel, L2, U4, E4, fs2) =>
                  Some ((ca ++ cc ++ [ILess; IJumpIfFalse (1 + code_size ct + 3); IPop] ++ ct
                         ++ [IJump (1 + code_size cel); IPop] ++ cel)%list, L2, U4, E4, fs2)
              | None => None
              end
          | None => None
          end
      | None => None
      end
  | None => None
  end.
Proof.
  intros cf a c t e L d U E fs pos lc. unfold nblk. cbn [nstmt].
  destruct (nexpr cf L a U E) as [[[ca U1] E1]|]; [|reflexivity].
  destruct (nexpr cf L c U1 E1) as [[[cc U2] E2]|]; [|reflexivity].
  rewrite nl_eq. destruct (nlist cf t (S d) L U2 E2 fs _ lc) as [[[[[ct L1] U3] E3] fs1]|]; [|reflexivity].
  rewrite nl_eq. reflexivity.
Qed.

Definition inv_goal (cf : cfg) (s : stmt) : Prop := forall L d U E fs pos lc code L' U' E' fs',
  nstmt cf s L d U E fs pos lc = Some (code, L', U', E', fs') -> ninv U E U' E'.

Lemma nlist_inv_aux : forall cf b, Forall (inv_goal cf) b ->
  forall d L U E fs pos lc code L' U' E' fs', nlist cf b d L U E fs pos lc = Some (code, L', U', E', fs') -> ninv U E U' E'.
Proof.
  intros cf b H. induction H as [|a r Ha Hr IH]; intros d L U E fs pos lc code L' U' E' fs'; cbn [nlist].
  - intros [= <- <- <- <- <-]. apply ninv_refl.
  - destruct (nstmt cf a L d U E fs pos lc) as [[[[[ca L1] U1] E1] fs1]|] eqn:E1'; [|discriminate].
    destruct (nlist cf r d L1 U1 E1 fs1 (pos + code_size ca) lc) as [[[[[cr L2] U2] E2] fs2]|] eqn:E2'; [|discriminate].
    intros [= <- <- <- <- <-]. eapply ninv_trans; [eapply Ha; eauto|eapply IH; eauto].
Qed.

Lemma nblk_inv_aux : forall cf b, Forall (inv_goal cf) b ->
  forall d L U E fs pos lc code L' U' E' fs', nblk cf b d L U E fs pos lc = Some (code, L', U', E', fs') -> ninv U E U' E'.
Proof.
  intros cf b H d L U E fs pos lc code L' U' E' fs'. unfold nblk.
  destruct (nlist cf b (S d) L U E fs pos lc) as [[[[[cb L1] U1] E1] fs1]|] eqn:El; [|discriminate].
  cbv zeta. intros [= <- <- <- <- <-]. eapply nlist_inv_aux; eauto.
Qed.

(* a function: the invariant for the levels enclosing the definition, and the locals of the function the definition
   stands in keep names and depths *)
Lemma nfunc_inv_aux : forall cf ps b, Forall (inv_goal cf) b ->
  forall L1 U E fs ci L' U' E' fs', nfunc cf ps b L1 U E fs = Some (ci, L', U', E', fs') ->
  ninv U E U' E' /\ flags_up L1 L'.
Proof.
  intros cf ps b Hb L1 U E fs ci L' U' E' fs'. unfold nfunc.
  destruct (bparams cf ps [mkLocal None (Some 0) false]) as [Lp|]; [|discriminate].
  destruct (nlist cf b 1 Lp [] (mkLev L1 U :: E) fs 0 None) as [[[[[cb Lb] Ub] Eb] fs1]|] eqn:El; [|discriminate].
  cbn [nclose]. destruct Eb as [|lv E1]; [discriminate|]. intros [= <- <- <- <- <-].
  destruct (nlist_inv_aux cf b Hb _ _ _ _ _ _ _ _ _ _ _ _ El) as [A B].
  inversion A as [|? ? ? ? Hh Ht]; subst. cbn [outer_ups lv_ups lv_locals] in *.
  split; [split; [exact Ht|exact B]|exact Hh].
Qed.

Lemma nstmt_inv : forall cf s, stmt6w s = true -> forall L d U E fs pos lc code L' U' E' fs',
  nstmt cf s L d U E fs pos lc = Some (code, L', U', E', fs') -> ninv U E U' E'.
Proof.
  intros cf s Hs. change (inv_goal cf s). pattern s. revert s Hs. apply stmt6w_ind.
  - intros x e He L d U E fs pos lc code L' U' E' fs'. cbn [nstmt]. destruct (d =? 0).
    + destruct (nexpr cf L e U E) as [[[ce U1] E1]|] eqn:Ee; [|discriminate].
      intros [= <- <- <- <- <-]. eapply nexpr_inv; eauto.
    + destruct (dup_in_scope L x d); [discriminate|]. destruct (List.length L =? c_locals_max cf); [discriminate|].
      destruct (nexpr cf _ e U E) as [[[ce U1] E1]|] eqn:Ee; [|discriminate].
      intros [= <- <- <- <- <-]. eapply nexpr_inv; eauto.
  - intros x e He L d U E fs pos lc code L' U' E' fs'. cbn [nstmt].
    destruct (rvn cf L U E x) as [[[r U0] E0]|] eqn:Er; [|discriminate].
    destruct (nexpr cf L e U0 E0) as [[[ce U1] E1]|] eqn:Ee; [|discriminate].
    intros [= <- <- <- <- <-]. eapply ninv_trans; [eapply rvn_inv; eauto|eapply nexpr_inv; eauto].
  - intros e He L d U E fs pos lc code L' U' E' fs'. cbn [nstmt].
    destruct (nexpr cf L e U E) as [[[ce U1] E1]|] eqn:Ee; [|discriminate].
    intros [= <- <- <- <- <-]. eapply nexpr_inv; eauto.
  - intros e He L d U E fs pos lc code L' U' E' fs'. cbn [nstmt].
    destruct (nexpr cf L e U E) as [[[ce U1] E1]|] eqn:Ee; [|discriminate].
    intros [= <- <- <- <- <-]. eapply nexpr_inv; eauto.
  - intros e He L d U E fs pos lc code L' U' E' fs'. cbn [nstmt].
    destruct (nexpr cf L e U E) as [[[ce U1] E1]|] eqn:Ee; [|discriminate].
    intros [= <- <- <- <- <-]. eapply nexpr_inv; eauto.
  - intros b Hb IH L d U E fs pos lc code L' U' E' fs'. rewrite nstmt_block. apply nblk_inv_aux; exact IH.
  - intros f ps b Hb IH L d U E fs pos lc code L' U' E' fs'. rewrite nstmt_fun. destruct (d =? 0).
    + destruct (nfunc cf ps b L U E fs) as [[[[[ci L1] U1] E1] fs1]|] eqn:Ef; [|discriminate].
      intros [= <- <- <- <- <-]. eapply nfunc_inv_aux; eauto.
    + destruct (dup_in_scope L f d); [discriminate|]. destruct (List.length L =? c_locals_max cf); [discriminate|].
      destruct (nfunc cf ps b _ U E fs) as [[[[[ci L1] U1] E1] fs1]|] eqn:Ef; [|discriminate].
      intros [= <- <- <- <- <-]. eapply nfunc_inv_aux; eauto.
  - intros x ps b Hb IH L d U E fs pos lc code L' U' E' fs'. rewrite nstmt_lam. destruct (d =? 0).
    + destruct (nfunc cf ps b L U E fs) as [[[[[ci L1] U1] E1] fs1]|] eqn:Ef; [|discriminate].
      intros [= <- <- <- <- <-]. eapply nfunc_inv_aux; eauto.
    + destruct (dup_in_scope L x d); [discriminate|]. destruct (List.length L =? c_locals_max cf); [discriminate|].
      destruct (nfunc cf ps b _ U E fs) as [[[[[ci L1] U1] E1] fs1]|] eqn:Ef; [|discriminate].
      destruct L1 as [|l0 L1]; [discriminate|].
      intros [= <- <- <- <- <-]. eapply nfunc_inv_aux; eauto.
  - (* SLoop *)
    intros i n b Hb IH L d U E fs pos lc code L' U' E' fs'. rewrite nstmt_loop.
    destruct (dup_in_scope L i (S d)); [discriminate|]. destruct (List.length L =? c_locals_max cf); [discriminate|].
    destruct (S (List.length L) =? c_locals_max cf); [discriminate|]. cbv zeta.
    destruct (nblk cf b (S d) _ U E fs _ (Some (mkLctx _ _ 0))) as [[[[[c0 L0] U0] E0] fs0]|]; [|discriminate].
    destruct (nblk cf b (S d) _ U E fs _ (Some (mkLctx _ _ (_ + 1)))) as [[[[[cb L1] U1] E1] fs1]|] eqn:E2; [|discriminate].
    intros [= <- <- <- <- <-]. eapply nblk_inv_aux; eauto.
  - (* SIf *)
    intros a c t e Ha Hc Ht He IHt IHe L d U E fs pos lc code L' U' E' fs'. rewrite nstmt_if.
    destruct (nexpr cf L a U E) as [[[ca U1] E1]|] eqn:Ea; [|discriminate].
    destruct (nexpr cf L c U1 E1) as [[[cc U2] E2]|] eqn:Ec; [|discriminate]. cbv zeta.
    destruct (nblk cf t d L U2 E2 fs _ lc) as [[[[[ct L1] U3] E3] fs1]|] eqn:Et; [|discriminate].
    destruct (nblk cf e d L1 U3 E3 fs1 _ lc) as [[[[[cel L2] U4] E4] fs2]|] eqn:Ee; [|discriminate].
    intros [= <- <- <- <- <-].
    eapply ninv_trans; [exact (nexpr_inv cf a Ha _ _ _ _ _ _ Ea)|]. eapply ninv_trans; [exact (nexpr_inv cf c Hc _ _ _ _ _ _ Ec)|].
    eapply ninv_trans; [exact (nblk_inv_aux cf t IHt _ _ _ _ _ _ _ _ _ _ _ _ Et)|exact (nblk_inv_aux cf e IHe _ _ _ _ _ _ _ _ _ _ _ _ Ee)].
  - (* SBreak *)
    intros L d U E fs pos lc code L' U' E' fs'. cbn [nstmt]. destruct lc as [l|]; [|discriminate].
    intros [= <- <- <- <- <-]. apply ninv_refl.
  - (* SContinue *)
    intros L d U E fs pos lc code L' U' E' fs'. cbn [nstmt]. destruct lc as [l|]; [|discriminate].
    intros [= <- <- <- <- <-]. apply ninv_refl.
Qed.

Lemma stmt6w_all_inv : forall cf b, forallb stmt6w b = true -> Forall (inv_goal cf) b.
Proof.
  intros cf b Hb. induction b as [|a r IH]; constructor.
  - cbn in Hb. apply andb_prop in Hb as [Ha _]. unfold inv_goal. now apply nstmt_inv.
  - cbn in Hb. apply andb_prop in Hb as [_ Hr]. now apply IH.
Qed.

Lemma nlist_inv : forall cf b, forallb stmt6w b = true -> forall d L U E fs pos lc code L' U' E' fs',
  nlist cf b d L U E fs pos lc = Some (code, L', U', E', fs') -> ninv U E U' E'.
Proof. intros cf b Hb. apply nlist_inv_aux. now apply stmt6w_all_inv. Qed.

Lemma nblk_inv : forall cf b, forallb stmt6w b = true -> forall d L U E fs pos lc code L' U' E' fs',
  nblk cf b d L U E fs pos lc = Some (code, L', U', E', fs') -> ninv U E U' E'.
Proof. intros cf b Hb. apply nblk_inv_aux. now apply stmt6w_all_inv. Qed.

Lemma nfunc_inv : forall cf ps b, forallb stmt6w b = true ->
  forall L1 U E fs ci L' U' E' fs', nfunc cf ps b L1 U E fs = Some (ci, L', U', E', fs') ->
  ninv U E U' E' /\ flags_up L1 L'.
Proof. intros cf ps b Hb. apply nfunc_inv_aux. now apply stmt6w_all_inv. Qed.

(* the number of enclosing levels is kept *)
Lemma nexpr_len : forall cf e, expr2 e = true -> forall L U E ce U' E',
  nexpr cf L e U E = Some (ce, U', E') -> List.length E' = List.length E.
Proof. intros cf e He L U E ce U' E' H. eapply ninv_length, nexpr_inv; eauto. Qed.

Lemma nstmt_len : forall cf s, stmt6w s = true -> forall L d U E fs pos lc code L' U' E' fs',
  nstmt cf s L d U E fs pos lc = Some (code, L', U', E', fs') -> List.length E' = List.length E.
Proof. intros cf s Hs L d U E fs pos lc code L' U' E' fs' H. eapply ninv_length, nstmt_inv; eauto. Qed.

Lemma nlist_len : forall cf b, forallb stmt6w b = true -> forall d L U E fs pos lc code L' U' E' fs',
  nlist cf b d L U E fs pos lc = Some (code, L', U', E', fs') -> List.length E' = List.length E.
Proof. intros cf b Hb d L U E fs pos lc code L' U' E' fs' H. eapply ninv_length, nlist_inv; eauto. Qed.

Lemma nblk_len : forall cf b, forallb stmt6w b = true -> forall d L U E fs pos lc code L' U' E' fs',
  nblk cf b d L U E fs pos lc = Some (code, L', U', E', fs') -> List.length E' = List.length E.
Proof. intros cf b Hb d L U E fs pos lc code L' U' E' fs' H. eapply ninv_length, nblk_inv; eauto. Qed.

(* with no enclosing level the upvalue list never changes *)
Lemma rup_nil : forall cf x U, rup cf x U [] = Some (None, U, []).
Proof. reflexivity. Qed.

Lemma nstmt_nil : forall cf s, stmt6w s = true -> forall L d U fs pos lc code L' U' E' fs',
  nstmt cf s L d U [] fs pos lc = Some (code, L', U', E', fs') -> U' = U /\ E' = [].
Proof. intros cf s Hs L d U fs pos lc code L' U' E' fs' H. eapply ninv_nil, nstmt_inv; eauto. Qed.

Lemma nlist_nil : forall cf b, forallb stmt6w b = true -> forall d L U fs pos lc code L' U' E' fs',
  nlist cf b d L U [] fs pos lc = Some (code, L', U', E', fs') -> U' = U /\ E' = [].
Proof. intros cf b Hb d L U fs pos lc code L' U' E' fs' H. eapply ninv_nil, nlist_inv; eauto. Qed.

(* ------------------------------------------------------------------------------------------ *)
(* Part 3: the statements of stages 3 / 4 unfolded over the named comp_list; the error flag is sticky through the
   fragment, whatever the stack *)

Definition blockS (cf : cfg) (b : list stmt) (st : cst) : cst := end_scope (comp_list cf b (begin_scope st)).

Definition loop_tail (cf : cfg) (b : list stmt) (loop_start exit_ix : nat) (st7 : cst) : cst :=
  let st8 := emit_loop loop_start (blockS cf b st7) in
  let st9 := emit IPop (patch_jump exit_ix st8) in
  end_scope (pop_loop st9).

Definition loop_mid (cf : cfg) (n : nat) (b : list stmt) (st1 : cst) : cst :=
  let loop_var := List.length (fc_locals (top_of st1)) - 1 in
  let st2 := emits [INil; IConst 0; IConst (N.of_nat n); IBuildRange] st1 in
  let st3 := mark_initialised st2 in
  let st4 := mark_initialised (emit (IInvoke MIter 0) (add_local cf None st3)) in
  let st5 := push_loop st4 in
  let loop_start := here_bytes st4 in
  let st6 := emits [IIterNext; ISetLocal loop_var] st5 in
  let exit_ix := here_ix st6 in
  let st7 := emits [IJumpIfStopIter 0; IPop] st6 in
  loop_tail cf b loop_start exit_ix st7.

Lemma comp_stmt_loop : forall cf i n b st,
  comp_stmt cf (SLoop i n b) st = loop_mid cf n b (declare_variable cf i (begin_scope st)).
Proof. intros. cbn [comp_stmt]. unfold loop_mid, loop_tail, blockS, comp_list. reflexivity. Qed.

Definition if_tail (cf : cfg) (e : list stmt) (then_ix : nat) (st2 : cst) : cst :=
  let else_ix := here_ix st2 in
  let st3 := emit IPop (patch_jump then_ix (emit (IJump 0) st2)) in
  patch_jump else_ix (blockS cf e st3).

Lemma comp_stmt_if : forall cf a c t e st,
  comp_stmt cf (SIf a c t e) st =
  let st1 := emit ILess (comp_expr cf c (comp_expr cf a st)) in
  if_tail cf e (here_ix st1) (blockS cf t (emits [IJumpIfFalse 0; IPop] st1)).
Proof. intros. cbn [comp_stmt]. unfold if_tail, blockS, comp_list. reflexivity. Qed.

Lemma errd_add_local : forall cf nm st, errd st -> errd (add_local cf nm st).
Proof.
  intros cf nm st H. unfold add_local. destruct (_ =? c_locals_max cf); [apply errd_fail|now apply errd_on_top].
Qed.

Lemma errd_patch_jump : forall ix st, errd st -> errd (patch_jump ix st).
Proof. intros ix st H. now apply errd_on_top. Qed.

Lemma errd_emit_loop : forall s st, errd st -> errd (emit_loop s st).
Proof. intros s st H. now apply errd_emit. Qed.

Lemma errd_push_loop : forall st, errd st -> errd (push_loop st).
Proof. intros st H. now apply errd_on_top. Qed.

Lemma errd_push_break : forall ix st, errd st -> errd (push_break ix st).
Proof. intros ix st H. now apply errd_on_top. Qed.

Lemma errd_pop_loop : forall st, errd st -> errd (pop_loop st).
Proof.
  intros st H. unfold pop_loop. apply errd_on_top.
  generalize (match fc_breaks (top_of st) with b :: _ => b | [] => [] end). intros pend. revert st H.
  induction pend as [|ix r IH]; intros st H; [exact H|]. cbn [fold_left]. apply IH. now apply errd_patch_jump.
Qed.

Definition sticky (cf : cfg) (s : stmt) : Prop := forall st, errd st -> errd (comp_stmt cf s st).

Lemma errd_blockS : forall cf b, Forall (sticky cf) b -> forall st, errd st -> errd (blockS cf b st).
Proof.
  intros cf b IH st H. unfold blockS. apply errd_end_scope. apply errd_comp_list_aux; [exact IH|]. now apply errd_on_top.
Qed.

Lemma errd_loop_tail : forall cf b, Forall (sticky cf) b -> forall s x st, errd st -> errd (loop_tail cf b s x st).
Proof.
  intros cf b IH s x st H. unfold loop_tail. cbv zeta.
  apply errd_end_scope, errd_pop_loop, errd_emit, errd_patch_jump, errd_emit_loop. now apply errd_blockS.
Qed.

Lemma errd_loop_mid : forall cf n b, Forall (sticky cf) b -> forall st, errd st -> errd (loop_mid cf n b st).
Proof.
  intros cf n b IH st H. unfold loop_mid. cbv zeta. apply errd_loop_tail; [exact IH|].
  apply errd_emits, errd_emits, errd_push_loop, errd_mark_initialised, errd_emit, errd_add_local, errd_mark_initialised.
  now apply errd_emits.
Qed.

Lemma errd_if_tail : forall cf e, Forall (sticky cf) e -> forall x st, errd st -> errd (if_tail cf e x st).
Proof.
  intros cf e IH x st H. unfold if_tail. cbv zeta. apply errd_patch_jump, errd_blockS; [exact IH|].
  now apply errd_emit, errd_patch_jump, errd_emit.
Qed.

Lemma errd_comp_stmt6w : forall cf s, stmt6w s = true -> forall st, errd st -> errd (comp_stmt cf s st).
Proof.
  intros cf s Hs. change (sticky cf s). pattern s. revert s Hs. apply stmt6w_ind; unfold sticky.
  - intros x e He st H. cbn [comp_stmt]. apply errd_define_variable. apply errd_comp_expr2; [exact He|].
    apply errd_declare_variable; exact H.
  - intros x e He st H. cbn [comp_stmt]. pose proof (errd_resolve_variable cf x st H) as H1.
    destruct (resolve_variable cf x st) as [st1 r]. apply errd_emit, errd_emit. apply errd_comp_expr2; [exact He|exact H1].
  - intros e He st H. cbn [comp_stmt]. apply errd_emit, errd_emit. apply errd_comp_expr2; [exact He|]. apply errd_emit; exact H.
  - intros e He st H. cbn [comp_stmt]. apply errd_emit. apply errd_comp_expr2; [exact He|exact H].
  - intros e He st H. cbn [comp_stmt]. cbv zeta.
    assert (H0 : errd (if fc_script (top_of st) then fail st "Cannot return from top-level code." else st)).
    { destruct (fc_script (top_of st)); [apply errd_fail|exact H]. }
    pose proof (errd_comp_expr2 cf e He _ H0) as H1.
    destruct (fc_intry _); [apply errd_fail|now apply errd_emit].
  - intros b Hb IH st H. rewrite comp_stmt_block. now apply (errd_blockS cf b IH).
  - intros f ps b Hb IH st H. rewrite comp_stmt_fun. apply errd_define_variable, errd_finalise_function.
    apply errd_comp_list_aux; [exact IH|]. apply errd_open_function, errd_mark_initialised, errd_declare_variable, H.
  - intros x ps b Hb IH st H. rewrite comp_stmt_lam. apply errd_define_variable, errd_finalise_function.
    apply errd_comp_list_aux; [exact IH|]. apply errd_open_function, errd_declare_variable, H.
  - intros i n b Hb IH st H. rewrite comp_stmt_loop. apply errd_loop_mid; [exact IH|].
    apply errd_declare_variable. now apply errd_on_top.
  - intros a c t e Ha Hc Ht He IHt IHe st H. rewrite comp_stmt_if. cbv zeta. apply errd_if_tail; [exact IHe|].
    apply errd_blockS; [exact IHt|]. apply errd_emits, errd_emit. apply errd_comp_expr2; [exact Hc|].
    now apply errd_comp_expr2.
  - intros st H. cbn [comp_stmt]. destruct (fc_loops (top_of st)) as [|[s0 d0] r]; [apply errd_fail|].
    destruct (c_break_pops_first cf).
    + apply errd_push_break, errd_emit. now apply errd_emit_scope_end.
    + apply errd_emit_scope_end, errd_push_break. now apply errd_emit.
  - intros st H. cbn [comp_stmt]. destruct (fc_loops (top_of st)) as [|[s0 d0] r]; [apply errd_fail|].
    apply errd_emit_loop. now apply errd_emit_scope_end.
Qed.

Lemma stmt6w_all_sticky : forall cf b, forallb stmt6w b = true -> Forall (sticky cf) b.
Proof.
  intros cf b Hb. induction b as [|a r IH]; constructor.
  - cbn in Hb. apply andb_prop in Hb as [Ha _]. unfold sticky. now apply errd_comp_stmt6w.
  - cbn in Hb. apply andb_prop in Hb as [_ Hr]. now apply IH.
Qed.

Lemma errd_comp_list6w : forall cf b, forallb stmt6w b = true -> forall st, errd st -> errd (comp_list cf b st).
Proof. intros cf b Hb. apply errd_comp_list_aux. now apply stmt6w_all_sticky. Qed.

Lemma errd_comp_stmt5w : forall cf s, stmt5w s = true -> forall st, errd st -> errd (comp_stmt cf s st).
Proof. intros cf s Hs. apply errd_comp_stmt6w. now apply stmt5w_stmt6w. Qed.

Lemma errd_comp_list5w : forall cf b, forallb stmt5w b = true -> forall st, errd st -> errd (comp_list cf b st).
Proof. intros cf b Hb. apply errd_comp_list6w. revert Hb. apply forallb_imp. apply stmt5w_stmt6w. Qed.

(* ------------------------------------------------------------------------------------------ *)
(* Part 4: expressions *)

(* c with new code, locals and upvalue list *)
Definition with_clu (c : fcomp) (code : list instr) (L : list local) (U : ups_t) : fcomp :=
  mkFC code L U (fc_depth c) (fc_loops c) (fc_breaks c) (fc_intry c) (fc_arity c) (fc_script c).

Lemma with_clu_set : forall c ce U, set_ups (set_code c (fc_code c ++ ce)) U = with_clu c (fc_code c ++ ce) (fc_locals c) U.
Proof. reflexivity. Qed.

Lemma emit_stk : forall c cs fs i, emit i (stk c cs fs) = stk (set_code c (fc_code c ++ [i])) cs fs.
Proof. reflexivity. Qed.

Lemma emits_stk : forall l c cs fs, emits l (stk c cs fs) = stk (set_code c (fc_code c ++ l)) cs fs.
Proof.
  induction l as [|i r IH]; intros c cs fs; cbn [emits].
  - rewrite app_nil_r. destruct c; reflexivity.
  - rewrite emit_stk, IH. cbn. now rewrite <- app_assoc.
Qed.

Definition expr_goalN (cf : cfg) (e : expr) : Prop := forall c cs fs,
  match nexpr cf (fc_locals c) e (fc_ups c) (map lev_of cs) with
  | Some (ce, U', E') => comp_expr cf e (stk c cs fs) =
       stk (set_ups (set_code c (fc_code c ++ ce)) U') (put_levs cs E') fs
  | None => errd (comp_expr cf e (stk c cs fs))
  end.

Lemma comp_args_N_aux : forall cf args, Forall (expr_goalN cf) args -> forallb expr2 args = true ->
  forall c cs fs,
  match nargs cf (fc_locals c) args (fc_ups c) (map lev_of cs) with
  | Some (ca, U', E') => comp_args cf args (stk c cs fs) =
       stk (set_ups (set_code c (fc_code c ++ ca)) U') (put_levs cs E') fs
  | None => errd (comp_args cf args (stk c cs fs))
  end.
Proof.
  intros cf args H. induction H as [|a r Ha Hr IH]; intros Hb c cs fs.
  - cbn. rewrite app_nil_r, put_levs_id. destruct c; reflexivity.
  - cbn in Hb. apply andb_prop in Hb as [Hb1 Hb2]. cbn [nargs]. rewrite comp_args_cons.
    specialize (Ha c cs fs).
    destruct (nexpr cf (fc_locals c) a (fc_ups c) (map lev_of cs)) as [[[ca U1] E1]|] eqn:Ea.
    + rewrite Ha. pose proof (nexpr_len cf a Hb1 _ _ _ _ _ _ Ea) as Hl1. rewrite map_length in Hl1.
      specialize (IH Hb2 (set_ups (set_code c (fc_code c ++ ca)) U1) (put_levs cs E1) fs).
      cbn [fc_locals fc_ups fc_code set_ups set_code] in IH. rewrite (map_lev_of_put_levs cs E1 Hl1) in IH.
      destruct (nargs cf (fc_locals c) r U1 E1) as [[[ct U2] E2]|] eqn:Et.
      * rewrite IH. pose proof (ninv_length _ _ _ _ (nargs_inv cf r Hb2 _ _ _ _ _ _ Et)) as Hl2.
        rewrite put_levs_put_levs by lia. cbn. now rewrite <- app_assoc.
      * exact IH.
    + apply (errd_comp_args cf r Hb2). exact Ha.
Qed.

Lemma comp_expr_N : forall cf e, expr2 e = true -> forall c cs fs,
  match nexpr cf (fc_locals c) e (fc_ups c) (map lev_of cs) with
  | Some (ce, U', E') => comp_expr cf e (stk c cs fs) =
       stk (set_ups (set_code c (fc_code c ++ ce)) U') (put_levs cs E') fs
  | None => errd (comp_expr cf e (stk c cs fs))
  end.
Proof.
  intros cf e He. change (expr_goalN cf e). pattern e. revert e He. apply expr2_ind.
  - intros n c cs fs. cbn [nexpr comp_expr]. rewrite emit_stk, put_levs_id. destruct c; reflexivity.
  - intros x c cs fs. cbn [nexpr comp_expr]. unfold named_get.
    pose proof (resolve_variable_stk cf x c cs fs) as H.
    destruct (rvn cf (fc_locals c) (fc_ups c) (map lev_of cs) x) as [[[r U'] E']|].
    + rewrite H, emit_stk. reflexivity.
    + destruct (resolve_variable cf x (stk c cs fs)) as [st1 r]. now apply errd_emit.
  - intros a b Ha Hb IHa IHb c cs fs. cbn [nexpr comp_expr].
    specialize (IHa c cs fs).
    destruct (nexpr cf (fc_locals c) a (fc_ups c) (map lev_of cs)) as [[[ca U1] E1]|] eqn:Ea.
    + rewrite IHa. pose proof (nexpr_len cf a Ha _ _ _ _ _ _ Ea) as Hl1. rewrite map_length in Hl1.
      specialize (IHb (set_ups (set_code c (fc_code c ++ ca)) U1) (put_levs cs E1) fs).
      cbn [fc_locals fc_ups fc_code set_ups set_code] in IHb. rewrite (map_lev_of_put_levs cs E1 Hl1) in IHb.
      destruct (nexpr cf (fc_locals c) b U1 E1) as [[[cb0 U2] E2]|] eqn:Eb.
      * rewrite IHb, emit_stk. pose proof (nexpr_len cf b Hb _ _ _ _ _ _ Eb) as Hl2.
        rewrite put_levs_put_levs by lia. cbn. now rewrite <- !app_assoc.
      * now apply errd_emit.
    + apply errd_emit. apply errd_comp_expr2; auto.
  - intros f args Hargs IH c cs fs. rewrite nexpr_call, comp_expr_call. unfold named_get.
    pose proof (resolve_variable_stk cf f c cs fs) as H.
    destruct (rvn cf (fc_locals c) (fc_ups c) (map lev_of cs) f) as [[[r U0] E0]|] eqn:Er.
    + rewrite H, emit_stk. pose proof (ninv_length _ _ _ _ (rvn_inv _ _ _ _ _ _ _ _ Er)) as Hl0.
      rewrite map_length in Hl0.
      pose proof (comp_args_N_aux cf args IH Hargs
                    (set_code (set_ups c U0) (fc_code (set_ups c U0) ++ [get_op r f])) (put_levs cs E0) fs) as Ha.
      cbn [fc_locals fc_ups fc_code set_ups set_code] in Ha |- *. rewrite (map_lev_of_put_levs cs E0 Hl0) in Ha.
      destruct (nargs cf (fc_locals c) args U0 E0) as [[[ca U3] E3]|] eqn:Ea.
      * rewrite Ha, emit_stk. pose proof (ninv_length _ _ _ _ (nargs_inv cf args Hargs _ _ _ _ _ _ Ea)) as Hl3.
        rewrite put_levs_put_levs by lia. cbn. now rewrite <- !app_assoc.
      * now apply errd_emit.
    + destruct (resolve_variable cf f (stk c cs fs)) as [st1 r]. apply errd_emit.
      apply errd_comp_args; [exact Hargs|]. now apply errd_emit.
Qed.

Lemma expr2_all_goalN : forall cf args, forallb expr2 args = true -> Forall (expr_goalN cf) args.
Proof.
  intros cf args Hb. induction args as [|a r IH]; constructor.
  - cbn in Hb. apply andb_prop in Hb as [Ha _]. intros c cs fs. now apply comp_expr_N.
  - cbn in Hb. apply andb_prop in Hb as [_ Hr]. now apply IH.
Qed.

Lemma comp_args_N : forall cf args, forallb expr2 args = true -> forall c cs fs,
  match nargs cf (fc_locals c) args (fc_ups c) (map lev_of cs) with
  | Some (ca, U', E') => comp_args cf args (stk c cs fs) =
       stk (set_ups (set_code c (fc_code c ++ ca)) U') (put_levs cs E') fs
  | None => errd (comp_args cf args (stk c cs fs))
  end.
Proof. intros cf args Hb. apply comp_args_N_aux; [now apply expr2_all_goalN|exact Hb]. Qed.

(* ------------------------------------------------------------------------------------------ *)
(* Part 4b: opening a function (open_function pushes a fresh compiler, no loop open) and closing it *)

Lemma param_step_stk : forall cf p a Lb cs fs,
  if dup_in_scope Lb p 1 then errd (param_step cf (stk (fbody a Lb) cs fs) p)
  else if List.length Lb =? c_locals_max cf then errd (param_step cf (stk (fbody a Lb) cs fs) p)
  else param_step cf (stk (fbody a Lb) cs fs) p = stk (fbody (S a) (mkLocal (Some p) (Some 1) false :: Lb)) cs fs.
Proof.
  intros cf p a Lb cs fs. unfold param_step.
  change (on_top (fun c0 : fcomp => set_arity c0 (S (fc_arity c0))) (stk (fbody a Lb) cs fs)) with (stk (fbody (S a) Lb) cs fs).
  unfold declare_variable. rewrite top_of_stk. cbn [fc_depth fbody Nat.eqb fc_locals].
  destruct (dup_in_scope Lb p 1) eqn:Edup.
  - apply errd_define_variable.
    unfold add_local. destruct (_ =? c_locals_max cf); [apply errd_fail|apply errd_on_top, errd_fail].
  - unfold add_local. rewrite top_of_stk. cbn [fc_locals fbody].
    destruct (List.length Lb =? c_locals_max cf) eqn:Emax.
    + apply errd_define_variable, errd_fail.
    + reflexivity.
Qed.

Lemma open_params_stk : forall cf ps a Lb cs fs,
  match bparams cf ps Lb with
  | Some Lb' => fold_left (param_step cf) ps (stk (fbody a Lb) cs fs) = stk (fbody (List.length ps + a) Lb') cs fs
  | None => errd (fold_left (param_step cf) ps (stk (fbody a Lb) cs fs))
  end.
Proof.
  intros cf ps. induction ps as [|p r IH]; intros a Lb cs fs; [reflexivity|].
  cbn [bparams fold_left]. pose proof (param_step_stk cf p a Lb cs fs) as Hp.
  destruct (dup_in_scope Lb p 1); [now apply errd_params|].
  destruct (List.length Lb =? c_locals_max cf); [now apply errd_params|].
  rewrite Hp. specialize (IH (S a) (mkLocal (Some p) (Some 1) false :: Lb) cs fs).
  destruct (bparams cf r (mkLocal (Some p) (Some 1) false :: Lb)) as [Lb'|].
  - rewrite IH. cbn [List.length]. now rewrite Nat.add_succ_r.
  - exact IH.
Qed.

Lemma open_function_stk : forall cf ps c cs fs,
  match bparams cf ps [mkLocal None (Some 0) false] with
  | Some Lb0 => open_function cf ps (stk c cs fs) = stk (fbody (List.length ps) Lb0) (c :: cs) fs
  | None => errd (open_function cf ps (stk c cs fs))
  end.
Proof.
  intros cf ps c cs fs. rewrite open_function_params.
  change (begin_scope (mkCst (new_fcomp false :: cs_comps (stk c cs fs)) (cs_funs (stk c cs fs)) (cs_err (stk c cs fs))))
    with (stk (fbody 0 [mkLocal None (Some 0) false]) (c :: cs) fs).
  pose proof (open_params_stk cf ps 0 [mkLocal None (Some 0) false] (c :: cs) fs) as H.
  destruct (bparams cf ps [mkLocal None (Some 0) false]) as [Lb0|]; [|exact H].
  rewrite H. now rewrite Nat.add_0_r.
Qed.

Lemma finalise_function_stk : forall cb c cs fs,
  finalise_function (stk cb (c :: cs) fs) =
  stk (set_code c (fc_code c ++ [clo_instr (List.length fs) (fc_ups cb)])) cs
      (fs ++ [mkFunc (fc_code cb ++ [INil; IReturn]) (fc_arity cb) (List.length (fc_ups cb))]).
Proof.
  intros cb c cs fs. unfold finalise_function. cbv zeta. rewrite emits_stk. reflexivity.
Qed.

(* ------------------------------------------------------------------------------------------ *)
(* Part 5: pending breaks.  A mask over a piece of code marks the break jumps of the innermost loop that are still
   to be patched: ixs = their instruction indices (what the stateful compiler keeps in fc_breaks), bpm X = the code
   with those jumps landing at byte offset X (what pop_loop produces, and what the pure compiler emits at once). *)

Fixpoint ixs (k : nat) (mask : list bool) : list nat :=
  match mask with
  | [] => []
  | m :: r => if m then k :: ixs (S k) r else ixs (S k) r
  end.

Fixpoint bpm (X pos : nat) (mask : list bool) (c : list instr) : list instr :=
  match mask, c with
  | m :: mr, i :: r => (if m then patch_instr i (X - (pos + isize i)) else i) :: bpm X (pos + isize i) mr r
  | _, _ => c
  end.

Lemma ixs_app : forall a b k, ixs k (a ++ b) = (ixs k a ++ ixs (k + List.length a) b)%list.
Proof.
  induction a as [|m r IH]; intros b k; cbn [ixs app List.length].
  - now rewrite Nat.add_0_r.
  - rewrite IH. replace (S k + List.length r) with (k + S (List.length r)) by lia. destruct m; reflexivity.
Qed.

Lemma ixs_nomask : forall n k, ixs k (repeat false n) = [].
Proof. induction n as [|n IH]; intros k; cbn [repeat ixs]; [reflexivity|apply IH]. Qed.

Lemma isize_patch : forall i v, isize (patch_instr i v) = isize i.
Proof. intros i v. destruct i; reflexivity. Qed.

Lemma bpm_nil : forall X pos c, bpm X pos [] c = c.
Proof. reflexivity. Qed.

Lemma bpm_size : forall X mask c pos, code_size (bpm X pos mask c) = code_size c.
Proof.
  intros X mask. induction mask as [|m mr IH]; intros c pos; [reflexivity|]. destruct c as [|i r]; [reflexivity|].
  cbn [bpm code_size]. rewrite IH. destruct m; [now rewrite isize_patch|reflexivity].
Qed.

Lemma bpm_length : forall X mask c pos, List.length (bpm X pos mask c) = List.length c.
Proof.
  intros X mask. induction mask as [|m mr IH]; intros c pos; [reflexivity|]. destruct c as [|i r]; [reflexivity|].
  cbn [bpm List.length]. now rewrite IH.
Qed.

Lemma bpm_app : forall X ma a mb b pos, List.length ma = List.length a ->
  bpm X pos (ma ++ mb) (a ++ b) = (bpm X pos ma a ++ bpm X (pos + code_size a) mb b)%list.
Proof.
  intros X ma. induction ma as [|m mr IH]; intros a mb b pos H; destruct a as [|i r]; try discriminate.
  - cbn [app code_size bpm]. now rewrite Nat.add_0_r.
  - cbn [app bpm code_size]. rewrite IH by (cbn in H; lia). now rewrite Nat.add_assoc.
Qed.

Lemma bpm_nomask : forall X n c pos, bpm X pos (repeat false n) c = c.
Proof.
  intros X n. induction n as [|n IH]; intros c pos; [reflexivity|]. destruct c as [|i r]; [reflexivity|].
  cbn [repeat bpm]. now rewrite IH.
Qed.

(* patch_jump on a known position *)
Lemma set_nth_mid : forall (A : Type) (pre : list A) j post v, set_nth (pre ++ j :: post) (List.length pre) v = (pre ++ v :: post)%list.
Proof. intros A pre. induction pre as [|a r IH]; intros j post v; [reflexivity|]. cbn [app List.length set_nth]. now rewrite IH. Qed.

Lemma skipn_S_mid : forall (A : Type) (pre : list A) j post, skipn (S (List.length pre)) (pre ++ j :: post) = post.
Proof. intros A pre. induction pre as [|a r IH]; intros j post; [reflexivity|]. cbn [app List.length]. rewrite skipn_cons. apply IH. Qed.

Lemma patch_jump_at : forall pre j post L U d lo br it ar sc cs fs,
  patch_jump (List.length pre) (stk (mkFC (pre ++ j :: post) L U d lo br it ar sc) cs fs) =
  stk (mkFC (pre ++ patch_instr j (code_size post) :: post) L U d lo br it ar sc) cs fs.
Proof.
  intros. unfold patch_jump, on_top, stk. cbn [cs_comps cs_funs cs_err fc_code set_code fc_locals fc_ups fc_depth fc_loops fc_breaks fc_intry fc_arity fc_script].
  rewrite set_nth_mid, nth_middle. unfold bytes_after. rewrite skipn_S_mid. reflexivity.
Qed.

Lemma patch_jump_at' : forall ix code pre j post L U d lo br it ar sc cs fs,
  code = (pre ++ j :: post)%list -> ix = List.length pre ->
  patch_jump ix (stk (mkFC code L U d lo br it ar sc) cs fs) =
  stk (mkFC (pre ++ patch_instr j (code_size post) :: post) L U d lo br it ar sc) cs fs.
Proof. intros; subst. apply patch_jump_at. Qed.

(* pop_loop: all the pending jumps of a piece `mid` of the code *)
Lemma patch_fold : forall mask mid pre post L U d lo br it ar sc cs fs,
  List.length mask = List.length mid ->
  fold_left (fun s ix => patch_jump ix s) (ixs (List.length pre) mask) (stk (mkFC (pre ++ mid ++ post) L U d lo br it ar sc) cs fs) =
  stk (mkFC (pre ++ bpm (code_size (pre ++ mid ++ post)) (code_size pre) mask mid ++ post) L U d lo br it ar sc) cs fs.
Proof.
  induction mask as [|m ms IH]; intros mid pre post L U d lo br it ar sc cs fs H; destruct mid as [|i r]; try discriminate.
  - reflexivity.
  - assert (Hr : List.length ms = List.length r) by (cbn in H; lia).
    cbn [ixs bpm]. destruct m.
    + cbn [fold_left app]. rewrite patch_jump_at.
      set (i' := patch_instr i (code_size (r ++ post))).
      replace (S (List.length pre)) with (List.length (pre ++ [i'])) by (rewrite app_length; cbn; lia).
      replace (pre ++ i' :: r ++ post)%list with ((pre ++ [i']) ++ r ++ post)%list by (now rewrite <- app_assoc).
      rewrite IH by exact Hr.
      assert (Hs : code_size ((pre ++ [i']) ++ r ++ post) = code_size (pre ++ i :: r ++ post)).
      { rewrite !code_size_app. cbn [code_size]. rewrite !code_size_app. unfold i'. rewrite isize_patch. lia. }
      assert (Hp : code_size (pre ++ [i']) = code_size pre + isize i).
      { rewrite code_size_app. cbn [code_size]. unfold i'. rewrite isize_patch. lia. }
      rewrite Hs, Hp. rewrite <- app_assoc. cbn [app].
      replace (code_size (pre ++ i :: r ++ post) - (code_size pre + isize i)) with (code_size (r ++ post)).
      * reflexivity.
      * rewrite !code_size_app. cbn [code_size]. rewrite ?code_size_app. lia.
    + replace (S (List.length pre)) with (List.length (pre ++ [i])) by (rewrite app_length; cbn; lia).
      cbn [app]. replace (pre ++ i :: r ++ post)%list with ((pre ++ [i]) ++ r ++ post)%list by (now rewrite <- app_assoc).
      rewrite IH by exact Hr.
      assert (Hp : code_size (pre ++ [i]) = code_size pre + isize i).
      { rewrite code_size_app. cbn [code_size]. lia. }
      rewrite Hp. rewrite <- app_assoc. reflexivity.
Qed.

(* c with new code, locals, upvalue list, and more pending breaks *)
Definition add_brks (bs : list nat) (B : list (list nat)) : list (list nat) :=
  match B with b :: r => (b ++ bs)%list :: r | [] => [] end.

Definition with_club (c : fcomp) (code : list instr) (L : list local) (U : ups_t) (bs : list nat) : fcomp :=
  mkFC code L U (fc_depth c) (fc_loops c) (add_brks bs (fc_breaks c)) (fc_intry c) (fc_arity c) (fc_script c).

Lemma add_brks_nil : forall B, add_brks [] B = B.
Proof. intros [|b r]; [reflexivity|]. cbn. now rewrite app_nil_r. Qed.

Lemma add_brks_add : forall a b B, add_brks b (add_brks a B) = add_brks (a ++ b) B.
Proof. intros a b [|x r]; [reflexivity|]. cbn. now rewrite app_assoc. Qed.

Lemma with_club_nil : forall c code L U, with_club c code L U [] = with_clu c code L U.
Proof. intros. unfold with_club, with_clu. now rewrite add_brks_nil. Qed.

(* the innermost loop of the compiler c, as the pure compiler sees it, were its breaks to land at X *)
Definition lc_of (c : fcomp) (X : nat) : option lctx :=
  match fc_loops c with [] => None | (s, d) :: _ => Some (mkLctx s d X) end.

(* the correspondence.  `pure` = the pure compiler applied to everything but the loop context *)
Definition res_ok (c : fcomp) (cs : list fcomp) (pure : option lctx -> option nres) (st : cst) : Prop :=
  match pure (lc_of c 0) with
  | Some (code0, L', U', E', fs') => exists mask,
      List.length mask = List.length code0 /\
      st = stk (with_club c (fc_code c ++ code0) L' U' (ixs (List.length (fc_code c)) mask)) (put_levs cs E') fs' /\
      forall X, pure (lc_of c X) = Some (bpm X (code_size (fc_code c)) mask code0, L', U', E', fs')
  | None => errd st
  end.

(* statements whose code does not depend on where a break lands *)
Lemma res_ok_simple : forall c cs (pure : option lctx -> option nres) st,
  (forall X, pure (lc_of c X) = pure (lc_of c 0)) ->
  match pure (lc_of c 0) with
  | Some (code, L', U', E', fs') => st = stk (with_clu c (fc_code c ++ code) L' U') (put_levs cs E') fs'
  | None => errd st
  end -> res_ok c cs pure st.
Proof.
  intros c cs pure st Hx H. unfold res_ok. destruct (pure (lc_of c 0)) as [[[[[code L'] U'] E'] fs']|] eqn:Ep; [|exact H].
  exists (repeat false (List.length code)). split; [apply repeat_length|]. split.
  - rewrite ixs_nomask, with_club_nil. exact H.
  - intros X. rewrite Hx, bpm_nomask. reflexivity.
Qed.

(* ------------------------------------------------------------------------------------------ *)
(* Part 6: the stateful primitives on an explicit compiler record *)

Ltac norm_app := repeat (progress (rewrite <- ?app_assoc; cbn [app])).

Lemma on_top_stk : forall f c cs fs, on_top f (stk c cs fs) = stk (f c) cs fs.
Proof. reflexivity. Qed.

Lemma emits_mk : forall l code L U d lo br it ar sc cs fs,
  emits l (stk (mkFC code L U d lo br it ar sc) cs fs) = stk (mkFC (code ++ l) L U d lo br it ar sc) cs fs.
Proof. intros. rewrite emits_stk. reflexivity. Qed.

Lemma emit_mk : forall i code L U d lo br it ar sc cs fs,
  emit i (stk (mkFC code L U d lo br it ar sc) cs fs) = stk (mkFC (code ++ [i]) L U d lo br it ar sc) cs fs.
Proof. reflexivity. Qed.

Lemma end_scope_mk : forall code L U d lo br it ar sc cs fs,
  end_scope (stk (mkFC code L U (S d) lo br it ar sc) cs fs) =
  stk (mkFC (code ++ scope_end_ops L d) (skipn (List.length (scope_end_ops L d)) L) U d lo br it ar sc) cs fs.
Proof.
  intros. unfold end_scope. rewrite on_top_stk. cbn [set_depth fc_depth fc_code fc_locals fc_ups fc_loops fc_breaks fc_intry fc_arity fc_script].
  rewrite top_of_stk. cbn [fc_depth]. replace (S d - 1) with d by lia.
  unfold emit_scope_end. cbv zeta. rewrite top_of_stk. unfold set_depth.
  cbn [fc_depth fc_code fc_locals fc_ups fc_loops fc_breaks fc_intry fc_arity fc_script]. rewrite emits_mk, on_top_stk. reflexivity.
Qed.

(* the end of a loop: the body block has been compiled, its pending breaks are `mask` *)
Lemma loop_tail_stk : forall cf b code pre lv Lh U d lo br it ar sc cs fs c0 mask L1 U' cs' fs',
  blockS cf b (stk (mkFC (code ++ pre ++ loop_head lv 0) Lh U (S d) ((code_size (code ++ pre), S d) :: lo) ([] :: br) it ar sc) cs fs) =
    stk (mkFC ((code ++ pre ++ loop_head lv 0) ++ c0) L1 U' (S d) ((code_size (code ++ pre), S d) :: lo)
              (([] ++ ixs (List.length (code ++ pre ++ loop_head lv 0)) mask)%list :: br) it ar sc) cs' fs' ->
  List.length mask = List.length c0 ->
  loop_tail cf b (code_size (code ++ pre)) (List.length (code ++ pre ++ [IIterNext; ISetLocal lv]))
    (stk (mkFC (code ++ pre ++ loop_head lv 0) Lh U (S d) ((code_size (code ++ pre), S d) :: lo) ([] :: br) it ar sc) cs fs) =
  stk (mkFC (code ++ pre ++ loop_head lv (1 + code_size c0 + 3)
               ++ bpm (code_size code + code_size pre + code_size (loop_head lv 0) + code_size c0 + 3 + 1)
                      (code_size code + code_size pre + code_size (loop_head lv 0)) mask c0
               ++ [ILoop (code_size (loop_head lv 0) + code_size c0 + 3); IPop] ++ scope_end_ops L1 d)
            (skipn (List.length (scope_end_ops L1 d)) L1) U' d lo br it ar sc) cs' fs'.
Proof.
  intros cf b code pre lv Lh U d lo br it ar sc cs fs c0 mask L1 U' cs' fs' Hb Hm.
  unfold loop_tail. cbv zeta. rewrite Hb. unfold emit_loop, here_bytes. rewrite top_of_stk. cbn [fc_code]. rewrite emit_mk.
  rewrite (patch_jump_at' _ _ (code ++ pre ++ [IIterNext; ISetLocal lv]) (IJumpIfStopIter 0)
             (IPop :: c0 ++ [ILoop (code_size ((code ++ pre ++ loop_head lv 0) ++ c0) + 3 - code_size (code ++ pre))]));
    [| unfold loop_head; rewrite <- !app_assoc; reflexivity | reflexivity].
  rewrite emit_mk. unfold pop_loop. rewrite top_of_stk. cbn [fc_breaks app patch_instr].
  set (lp := ILoop (code_size ((code ++ pre ++ loop_head lv 0) ++ c0) + 3 - code_size (code ++ pre))).
  set (hd := loop_head lv (code_size (IPop :: c0 ++ [lp]))).
  replace (((code ++ pre ++ [IIterNext; ISetLocal lv]) ++ IJumpIfStopIter (code_size (IPop :: c0 ++ [lp])) :: IPop :: c0 ++ [lp]) ++ [IPop])%list
    with ((code ++ pre ++ hd) ++ c0 ++ [lp; IPop])%list by (unfold hd, loop_head; norm_app; reflexivity).
  replace (List.length (code ++ pre ++ loop_head lv 0)) with (List.length (code ++ pre ++ hd))
    by (unfold hd, loop_head; rewrite !app_length; reflexivity).
  rewrite patch_fold by exact Hm. rewrite on_top_stk.
  unfold set_loops. cbn [tl fc_code fc_locals fc_ups fc_depth fc_loops fc_breaks fc_intry fc_arity fc_script].
  rewrite end_scope_mk. f_equal. f_equal.
  assert (Hlp : lp = ILoop (code_size (loop_head lv 0) + code_size c0 + 3)).
  { unfold lp. f_equal. rewrite !code_size_app. lia. }
  assert (Hhd : hd = loop_head lv (1 + code_size c0 + 3)).
  { unfold hd. f_equal. cbn [code_size isize]. rewrite code_size_app. rewrite Hlp. cbn [code_size isize]. lia. }
  assert (Hs1 : code_size ((code ++ pre ++ hd) ++ c0 ++ [lp; IPop]) =
                code_size code + code_size pre + code_size (loop_head lv 0) + code_size c0 + 3 + 1).
  { rewrite Hlp, Hhd. rewrite !code_size_app. cbn [code_size isize loop_head]. lia. }
  assert (Hs2 : code_size (code ++ pre ++ hd) = code_size code + code_size pre + code_size (loop_head lv 0)).
  { rewrite Hhd. rewrite !code_size_app. cbn [code_size isize loop_head]. lia. }
  rewrite Hs1, Hs2, Hhd, Hlp. rewrite <- !app_assoc. reflexivity.
Qed.

(* the middle of an if: the then-block has been compiled, up to the start of the else-block *)
Lemma if_mid_stk : forall code pre ct L1 U3 d lo br it ar sc cs2 fs1,
  emit IPop (patch_jump (List.length (code ++ pre))
    (emit (IJump 0) (stk (mkFC ((code ++ pre ++ [IJumpIfFalse 0; IPop]) ++ ct) L1 U3 d lo br it ar sc) cs2 fs1))) =
  stk (mkFC (code ++ pre ++ [IJumpIfFalse (1 + code_size ct + 3); IPop] ++ ct ++ [IJump 0; IPop]) L1 U3 d lo br it ar sc) cs2 fs1.
Proof.
  intros. rewrite emit_mk.
  rewrite (patch_jump_at' _ _ (code ++ pre) (IJumpIfFalse 0) (IPop :: ct ++ [IJump 0]));
    [| norm_app; reflexivity | reflexivity].
  rewrite emit_mk. cbn [patch_instr]. f_equal. f_equal.
  norm_app. do 4 f_equal. cbn [code_size isize]. rewrite code_size_app. cbn [code_size isize]. lia.
Qed.

(* the end of an if *)
Lemma if_tail_stk : forall cf e code pre ct L1 U3 d lo br it ar sc cs2 fs1 cel L2 U4 br' cs3 fs2,
  blockS cf e (stk (mkFC (code ++ pre ++ [IJumpIfFalse (1 + code_size ct + 3); IPop] ++ ct ++ [IJump 0; IPop]) L1 U3 d lo br it ar sc) cs2 fs1) =
    stk (mkFC ((code ++ pre ++ [IJumpIfFalse (1 + code_size ct + 3); IPop] ++ ct ++ [IJump 0; IPop]) ++ cel) L2 U4 d lo br' it ar sc) cs3 fs2 ->
  if_tail cf e (List.length (code ++ pre)) (stk (mkFC ((code ++ pre ++ [IJumpIfFalse 0; IPop]) ++ ct) L1 U3 d lo br it ar sc) cs2 fs1) =
  stk (mkFC (code ++ pre ++ [IJumpIfFalse (1 + code_size ct + 3); IPop] ++ ct ++ [IJump (1 + code_size cel); IPop] ++ cel)
            L2 U4 d lo br' it ar sc) cs3 fs2.
Proof.
  intros cf e code pre ct L1 U3 d lo br it ar sc cs2 fs1 cel L2 U4 br' cs3 fs2 Hb.
  unfold if_tail. cbv zeta. unfold here_ix. rewrite top_of_stk. cbn [fc_code]. rewrite if_mid_stk, Hb.
  rewrite (patch_jump_at' _ _ (code ++ pre ++ [IJumpIfFalse (1 + code_size ct + 3); IPop] ++ ct) (IJump 0) (IPop :: cel));
    [| norm_app; reflexivity | rewrite !app_length; cbn [List.length]; lia].
  cbn [patch_instr code_size isize]. f_equal. f_equal. norm_app. reflexivity.
Qed.

(* the beginning of a loop, after the loop variable has been declared *)
Lemma loop_st4 : forall cf n code i L U d lo br it ar sc cs fs,
  (S (List.length L) =? c_locals_max cf) = false ->
  mark_initialised (emit (IInvoke MIter 0) (add_local cf None (mark_initialised
    (emits [INil; IConst 0; IConst (N.of_nat n); IBuildRange]
       (stk (mkFC code (mkLocal (Some i) None false :: L) U (S d) lo br it ar sc) cs fs))))) =
  stk (mkFC (code ++ loop_pre n) (loop_locals i d L) U (S d) lo br it ar sc) cs fs.
Proof.
  intros cf n code i L U d lo br it ar sc cs fs Hmax. rewrite emits_mk.
  unfold mark_initialised at 2. rewrite on_top_stk. cbn [fc_depth Nat.eqb fc_locals l_name l_capt].
  unfold set_locals. cbn [fc_code fc_locals fc_ups fc_depth fc_loops fc_breaks fc_intry fc_arity fc_script].
  unfold add_local. rewrite top_of_stk. cbn [fc_locals List.length]. rewrite Hmax. rewrite on_top_stk.
  unfold set_locals. cbn [fc_code fc_locals fc_ups fc_depth fc_loops fc_breaks fc_intry fc_arity fc_script].
  rewrite emit_mk. unfold mark_initialised. rewrite on_top_stk. cbn [fc_depth Nat.eqb fc_locals l_name l_capt].
  unfold set_locals. cbn [fc_code fc_locals fc_ups fc_depth fc_loops fc_breaks fc_intry fc_arity fc_script].
  unfold loop_pre, loop_locals. norm_app. reflexivity.
Qed.

Lemma loop_mid_stk : forall cf n b code i L U d lo br it ar sc cs fs,
  (S (List.length L) =? c_locals_max cf) = false ->
  loop_mid cf n b (stk (mkFC code (mkLocal (Some i) None false :: L) U (S d) lo br it ar sc) cs fs) =
  loop_tail cf b (code_size (code ++ loop_pre n)) (List.length (code ++ loop_pre n ++ [IIterNext; ISetLocal (List.length L)]))
    (stk (mkFC (code ++ loop_pre n ++ loop_head (List.length L) 0) (loop_locals i d L) U (S d)
               ((code_size (code ++ loop_pre n), S d) :: lo) ([] :: br) it ar sc) cs fs).
Proof.
  intros cf n b code i L U d lo br it ar sc cs fs Hmax. unfold loop_mid. cbv zeta.
  rewrite (loop_st4 cf n code i L U d lo br it ar sc cs fs Hmax).
  rewrite top_of_stk. cbn [fc_locals List.length]. replace (S (List.length L) - 1) with (List.length L) by lia.
  unfold push_loop. rewrite on_top_stk. unfold set_loops.
  cbn [fc_code fc_locals fc_ups fc_depth fc_loops fc_breaks fc_intry fc_arity fc_script].
  rewrite !emits_mk. unfold here_bytes, here_ix. rewrite !top_of_stk. cbn [fc_code].
  unfold loop_head. norm_app. reflexivity.
Qed.

Lemma loop_mid_max : forall cf n b code i L U d lo br it ar sc cs fs, forallb stmt6w b = true ->
  (S (List.length L) =? c_locals_max cf) = true ->
  errd (loop_mid cf n b (stk (mkFC code (mkLocal (Some i) None false :: L) U (S d) lo br it ar sc) cs fs)).
Proof.
  intros cf n b code i L U d lo br it ar sc cs fs Hb Hmax. unfold loop_mid. cbv zeta.
  apply errd_loop_tail; [now apply stmt6w_all_sticky|].
  apply errd_emits, errd_emits, errd_push_loop, errd_mark_initialised, errd_emit.
  rewrite emits_mk. unfold mark_initialised. rewrite on_top_stk. cbn [fc_depth Nat.eqb fc_locals l_name l_capt].
  unfold set_locals. cbn [fc_code fc_locals fc_ups fc_depth fc_loops fc_breaks fc_intry fc_arity fc_script].
  unfold add_local. rewrite top_of_stk. cbn [fc_locals List.length]. rewrite Hmax. apply errd_fail.
Qed.

(* ------------------------------------------------------------------------------------------ *)
(* Part 7: statements.  A function definition pushes a compiler: the body is compiled on the stack new :: c :: cs
   (no loop is open there: lc_of = None, position 0); a loop pushes a loop context on the same compiler. *)

Lemma res_ok_ext : forall c cs pure pure' st, (forall lc, pure lc = pure' lc) -> res_ok c cs pure' st -> res_ok c cs pure st.
Proof.
  intros c cs pure pure' st H. unfold res_ok. rewrite H.
  destruct (pure' (lc_of c 0)) as [[[[[code L'] U'] E'] fs']|]; [|auto].
  intros (m & A & B & C). exists m. split; [exact A|]. split; [exact B|]. intros X. rewrite H. apply C.
Qed.

Lemma orb_forallb_cons : forall (f : stmt -> bool) a r x,
  forallb f (a :: r) || x = true -> f a || x = true /\ forallb f r || x = true.
Proof. intros f a r x. cbn [forallb]. destruct (f a), (forallb f r), x; cbn; auto. Qed.

Lemma orb_forallb_cons' : forall (f : stmt -> bool) a r x,
  x || forallb f (a :: r) = true -> x || f a = true /\ x || forallb f r = true.
Proof. intros f a r x. cbn [forallb]. destruct (f a), (forallb f r), x; cbn; auto. Qed.

Definition stmt_goalN (cf : cfg) (s : stmt) : Prop := forall c cs fs,
  noret s || retok c = true -> c_break_pops_first cf || nobrk s = true ->
  res_ok c cs (nstmt cf s (fc_locals c) (fc_depth c) (fc_ups c) (map lev_of cs) fs (code_size (fc_code c)))
         (comp_stmt cf s (stk c cs fs)).

Lemma comp_list_N_aux : forall cf b, Forall (stmt_goalN cf) b -> forallb stmt6w b = true ->
  forall c cs fs, forallb noret b || retok c = true -> c_break_pops_first cf || forallb nobrk b = true ->
  res_ok c cs (nlist cf b (fc_depth c) (fc_locals c) (fc_ups c) (map lev_of cs) fs (code_size (fc_code c)))
         (comp_list cf b (stk c cs fs)).
Proof.
  intros cf b H. induction H as [|a r Ha Hr IH]; intros Hb c cs fs Hn Hk.
  - apply res_ok_simple; [reflexivity|]. cbn. rewrite app_nil_r, put_levs_id. destruct c; reflexivity.
  - cbn in Hb. apply andb_prop in Hb as [Hb1 Hb2].
    apply orb_forallb_cons in Hn as [Hn1 Hn2]. apply orb_forallb_cons' in Hk as [Hk1 Hk2].
    specialize (Ha c cs fs Hn1 Hk1). unfold res_ok in Ha |- *. cbn [nlist]. rewrite comp_list_cons.
    destruct (nstmt cf a (fc_locals c) (fc_depth c) (fc_ups c) (map lev_of cs) fs (code_size (fc_code c)) (lc_of c 0))
      as [[[[[ca L1] U1] E1] fs1]|] eqn:Ea.
    + destruct Ha as (ma & Hma & Hst & HXa). rewrite Hst.
      pose proof (nstmt_len cf a Hb1 _ _ _ _ _ _ _ _ _ _ _ _ Ea) as Hl1. rewrite map_length in Hl1.
      specialize (IH Hb2 (with_club c (fc_code c ++ ca) L1 U1 (ixs (List.length (fc_code c)) ma)) (put_levs cs E1) fs1 Hn2 Hk2).
      unfold res_ok in IH.
      change (lc_of (with_club c (fc_code c ++ ca) L1 U1 (ixs (List.length (fc_code c)) ma))) with (lc_of c) in IH.
      cbn [with_club fc_locals fc_depth fc_ups fc_code] in IH.
      rewrite (map_lev_of_put_levs cs E1 Hl1), code_size_app in IH.
      destruct (nlist cf r (fc_depth c) L1 U1 E1 fs1 (code_size (fc_code c) + code_size ca) (lc_of c 0))
        as [[[[[cr L2] U2] E2] fs2]|] eqn:Er.
      * destruct IH as (mr & Hmr & Hstr & HXr). exists (ma ++ mr)%list. split; [rewrite !app_length; lia|]. split.
        -- rewrite Hstr. pose proof (nlist_len cf r Hb2 _ _ _ _ _ _ _ _ _ _ _ _ Er) as Hl2.
           rewrite put_levs_put_levs by lia. unfold with_club.
           cbn [fc_code fc_locals fc_ups fc_depth fc_loops fc_breaks fc_intry fc_arity fc_script].
           rewrite add_brks_add, ixs_app, app_length, Hma, app_assoc. reflexivity.
        -- intros X. rewrite HXa. cbv beta iota. rewrite bpm_size, HXr. rewrite bpm_app by exact Hma. reflexivity.
      * exact IH.
    + apply (errd_comp_list6w cf r Hb2). exact Ha.
Qed.

Lemma comp_blk_N_aux : forall cf b, Forall (stmt_goalN cf) b -> forallb stmt6w b = true ->
  forall c cs fs, forallb noret b || retok c = true -> c_break_pops_first cf || forallb nobrk b = true ->
  res_ok c cs (nblk cf b (fc_depth c) (fc_locals c) (fc_ups c) (map lev_of cs) fs (code_size (fc_code c)))
         (blockS cf b (stk c cs fs)).
Proof.
  intros cf b IH Hb c cs fs Hn Hk. destruct c as [code L U d lo br it ar sc].
  pose proof (comp_list_N_aux cf b IH Hb (mkFC code L U (S d) lo br it ar sc) cs fs Hn Hk) as Hl.
  unfold res_ok in Hl |- *. unfold nblk.
  change (lc_of (mkFC code L U (S d) lo br it ar sc)) with (lc_of (mkFC code L U d lo br it ar sc)) in Hl.
  cbn [fc_code fc_locals fc_ups fc_depth] in Hl |- *.
  destruct (nlist cf b (S d) L U (map lev_of cs) fs (code_size code) (lc_of (mkFC code L U d lo br it ar sc) 0))
    as [[[[[cb L'] U'] E'] fs']|] eqn:El.
  - destruct Hl as (m & Hm & Hst & HX). cbv zeta.
    exists (m ++ repeat false (List.length (scope_end_ops L' d)))%list. split; [rewrite !app_length, repeat_length; lia|]. split.
    + unfold blockS. change (begin_scope (stk (mkFC code L U d lo br it ar sc) cs fs)) with (stk (mkFC code L U (S d) lo br it ar sc) cs fs).
      rewrite Hst. unfold with_club. cbn [fc_code fc_locals fc_ups fc_depth fc_loops fc_breaks fc_intry fc_arity fc_script].
      rewrite end_scope_mk. rewrite ixs_app, ixs_nomask, app_nil_r, app_assoc. reflexivity.
    + intros X. rewrite HX. rewrite bpm_app by exact Hm. rewrite bpm_nomask. reflexivity.
  - unfold blockS. now apply errd_end_scope.
Qed.

(* function() / lambda(): open_function, the body, finalise_function *)
Lemma comp_func_N_aux : forall cf ps b, Forall (stmt_goalN cf) b -> forallb stmt6w b = true ->
  c_break_pops_first cf || forallb nobrk b = true -> forall c cs fs,
  match nfunc cf ps b (fc_locals c) (fc_ups c) (map lev_of cs) fs with
  | Some (ci, L', U', E', fs') =>
      finalise_function (comp_list cf b (open_function cf ps (stk c cs fs))) =
      stk (with_clu c (fc_code c ++ [ci]) L' U') (put_levs cs E') fs'
  | None => errd (finalise_function (comp_list cf b (open_function cf ps (stk c cs fs))))
  end.
Proof.
  intros cf ps b IH Hb Hk c cs fs. unfold nfunc.
  pose proof (open_function_stk cf ps c cs fs) as Ho.
  destruct (bparams cf ps [mkLocal None (Some 0) false]) as [Lb0|].
  - rewrite Ho.
    pose proof (comp_list_N_aux cf b IH Hb (fbody (List.length ps) Lb0) (c :: cs) fs (orb_true_r _) Hk) as Hl.
    unfold res_ok in Hl. cbn [fc_depth fc_locals fc_ups fc_code fbody map code_size] in Hl.
    change (lc_of (fbody (List.length ps) Lb0) 0) with (@None lctx) in Hl.
    change (lev_of c) with (mkLev (fc_locals c) (fc_ups c)) in Hl.
    destruct (nlist cf b 1 Lb0 [] (mkLev (fc_locals c) (fc_ups c) :: map lev_of cs) fs 0 None) as [[[[[cb Lb'] Ub] Eb] fs1]|] eqn:El.
    + pose proof (nlist_len cf b Hb _ _ _ _ _ _ _ _ _ _ _ _ El) as Hlen. cbn [List.length] in Hlen.
      destruct Eb as [|lv E1]; [discriminate|]. cbn [nclose]. destruct Hl as (m & Hm & Hst & _). rewrite Hst. cbn [put_levs].
      rewrite finalise_function_stk. reflexivity.
    + cbn [nclose]. now apply errd_finalise_function.
  - apply errd_finalise_function. apply errd_comp_list6w; [exact Hb|exact Ho].
Qed.

Lemma comp_stmt_N : forall cf s, stmt6w s = true -> forall c cs fs,
  noret s || retok c = true -> c_break_pops_first cf || nobrk s = true ->
  res_ok c cs (nstmt cf s (fc_locals c) (fc_depth c) (fc_ups c) (map lev_of cs) fs (code_size (fc_code c)))
         (comp_stmt cf s (stk c cs fs)).
Proof.
  intros cf s Hs. change (stmt_goalN cf s). pattern s. revert s Hs. apply stmt6w_ind.
  - (* SDecl *)
    intros x e He c cs fs _ _. apply res_ok_simple; [reflexivity|].
    cbn [nstmt comp_stmt]. unfold declare_variable. rewrite top_of_stk.
    destruct (fc_depth c =? 0) eqn:Ed.
    + pose proof (comp_expr_N cf e He c cs fs) as Hc.
      destruct (nexpr cf (fc_locals c) e (fc_ups c) (map lev_of cs)) as [[[ce U'] E']|].
      * rewrite Hc. unfold define_variable, at_top_level. rewrite top_of_stk. cbn [fc_depth set_ups set_code]. rewrite Ed.
        rewrite emit_stk. cbn. now rewrite <- app_assoc.
      * now apply errd_define_variable.
    + destruct (dup_in_scope (fc_locals c) x (fc_depth c)) eqn:Edup.
      * apply errd_define_variable. apply errd_comp_expr2; [exact He|].
        unfold add_local. destruct (_ =? c_locals_max cf); [apply errd_fail|apply errd_on_top, errd_fail].
      * unfold add_local. rewrite top_of_stk.
        destruct (List.length (fc_locals c) =? c_locals_max cf) eqn:Emax.
        -- apply errd_define_variable. apply errd_comp_expr2; [exact He|apply errd_fail].
        -- pose proof (comp_expr_N cf e He (set_locals c (mkLocal (Some x) None false :: fc_locals c)) cs fs) as Hc.
           cbn [fc_locals fc_ups fc_code set_locals] in Hc.
           change (on_top (fun c0 : fcomp => set_locals c0 (mkLocal (Some x) None false :: fc_locals c0)) (stk c cs fs))
             with (stk (set_locals c (mkLocal (Some x) None false :: fc_locals c)) cs fs).
           destruct (nexpr cf (mkLocal (Some x) None false :: fc_locals c) e (fc_ups c) (map lev_of cs)) as [[[ce U'] E']|].
           ++ rewrite Hc. unfold define_variable, at_top_level. rewrite top_of_stk.
              cbn [fc_depth set_ups set_code set_locals]. rewrite Ed.
              unfold mark_initialised, on_top, stk. cbn. rewrite Ed. reflexivity.
           ++ now apply errd_define_variable.
  - (* SAssign *)
    intros x e He c cs fs _ _. apply res_ok_simple; [reflexivity|]. cbn [nstmt comp_stmt].
    pose proof (resolve_variable_stk cf x c cs fs) as Hr.
    destruct (rvn cf (fc_locals c) (fc_ups c) (map lev_of cs) x) as [[[r U0] E0]|] eqn:Er.
    + rewrite Hr. pose proof (ninv_length _ _ _ _ (rvn_inv _ _ _ _ _ _ _ _ Er)) as Hl0. rewrite map_length in Hl0.
      pose proof (comp_expr_N cf e He (set_ups c U0) (put_levs cs E0) fs) as Hc.
      cbn [fc_locals fc_ups fc_code set_ups] in Hc. rewrite (map_lev_of_put_levs cs E0 Hl0) in Hc.
      destruct (nexpr cf (fc_locals c) e U0 E0) as [[[ce U'] E']|] eqn:Ee.
      * rewrite Hc, !emit_stk. pose proof (nexpr_len cf e He _ _ _ _ _ _ Ee) as Hl1.
        rewrite put_levs_put_levs by lia. cbn. now rewrite <- !app_assoc.
      * now apply errd_emit, errd_emit.
    + destruct (resolve_variable cf x (stk c cs fs)) as [st1 r]. apply errd_emit, errd_emit.
      apply errd_comp_expr2; [exact He|exact Hr].
  - (* SPrint *)
    intros e He c cs fs _ _. apply res_ok_simple; [reflexivity|]. cbn [nstmt comp_stmt]. rewrite emit_stk.
    pose proof (comp_expr_N cf e He (set_code c (fc_code c ++ [IGetGlobal GPrint])) cs fs) as Hc.
    cbn [fc_locals fc_ups fc_code set_code] in Hc.
    destruct (nexpr cf (fc_locals c) e (fc_ups c) (map lev_of cs)) as [[[ce U'] E']|].
    + rewrite Hc, !emit_stk. cbn. rewrite <- !app_assoc. reflexivity.
    + now apply errd_emit, errd_emit.
  - (* SExpr *)
    intros e He c cs fs _ _. apply res_ok_simple; [reflexivity|]. cbn [nstmt comp_stmt].
    pose proof (comp_expr_N cf e He c cs fs) as Hc.
    destruct (nexpr cf (fc_locals c) e (fc_ups c) (map lev_of cs)) as [[[ce U'] E']|].
    + rewrite Hc, !emit_stk. cbn. rewrite <- !app_assoc. reflexivity.
    + now apply errd_emit.
  - (* SReturn *)
    intros e He c cs fs Hn _. apply res_ok_simple; [reflexivity|].
    cbn [noret orb] in Hn. unfold retok in Hn. apply andb_prop in Hn as [Hsc Ht].
    apply negb_true_iff in Hsc. apply negb_true_iff in Ht.
    cbn [nstmt comp_stmt]. cbv zeta. rewrite top_of_stk, Hsc.
    pose proof (comp_expr_N cf e He c cs fs) as Hc.
    destruct (nexpr cf (fc_locals c) e (fc_ups c) (map lev_of cs)) as [[[ce U'] E']|].
    + rewrite Hc, top_of_stk. cbn [fc_intry set_ups set_code]. rewrite Ht.
      rewrite emit_stk. cbn. rewrite <- !app_assoc. reflexivity.
    + destruct (fc_intry (top_of _)); [apply errd_fail|now apply errd_emit].
  - (* SBlock *)
    intros b Hb IH c cs fs Hn Hk. rewrite comp_stmt_block.
    eapply res_ok_ext; [intros lc; apply nstmt_block|]. apply comp_blk_N_aux; assumption.
  - (* SFun *)
    intros f ps b Hb IH c cs fs _ Hk. apply res_ok_simple; [intros X; rewrite !nstmt_fun; reflexivity|].
    cbn [nobrk] in Hk.
    rewrite comp_stmt_fun, nstmt_fun. unfold declare_variable. rewrite top_of_stk.
    destruct (fc_depth c =? 0) eqn:Ed.
    + assert (Em : mark_initialised (stk c cs fs) = stk c cs fs).
      { unfold mark_initialised, on_top, stk. cbn [cs_comps cs_funs cs_err]. now rewrite Ed. }
      rewrite Em. pose proof (comp_func_N_aux cf ps b IH Hb Hk c cs fs) as Hf.
      destruct (nfunc cf ps b (fc_locals c) (fc_ups c) (map lev_of cs) fs) as [[[[[ci L'] U'] E'] fs']|].
      * rewrite Hf. unfold define_variable, at_top_level. rewrite top_of_stk. cbn [fc_depth with_clu]. rewrite Ed.
        rewrite emit_stk. cbn. now rewrite <- app_assoc.
      * now apply errd_define_variable.
    + destruct (dup_in_scope (fc_locals c) f (fc_depth c)) eqn:Edup.
      * apply errd_define_variable, errd_finalise_function. apply errd_comp_list6w; [exact Hb|].
        apply errd_open_function, errd_mark_initialised.
        unfold add_local. destruct (_ =? c_locals_max cf); [apply errd_fail|apply errd_on_top, errd_fail].
      * unfold add_local. rewrite top_of_stk.
        destruct (List.length (fc_locals c) =? c_locals_max cf) eqn:Emax.
        -- apply errd_define_variable, errd_finalise_function. apply errd_comp_list6w; [exact Hb|].
           apply errd_open_function, errd_mark_initialised, errd_fail.
        -- assert (Em : mark_initialised (on_top (fun c0 : fcomp => set_locals c0 (mkLocal (Some f) None false :: fc_locals c0)) (stk c cs fs))
                        = stk (set_locals c (mkLocal (Some f) (Some (fc_depth c)) false :: fc_locals c)) cs fs).
           { unfold mark_initialised, on_top, stk. cbn. now rewrite Ed. }
           rewrite Em.
           pose proof (comp_func_N_aux cf ps b IH Hb Hk (set_locals c (mkLocal (Some f) (Some (fc_depth c)) false :: fc_locals c)) cs fs) as Hf.
           cbn [fc_locals fc_ups fc_code set_locals] in Hf.
           destruct (nfunc cf ps b (mkLocal (Some f) (Some (fc_depth c)) false :: fc_locals c) (fc_ups c) (map lev_of cs) fs)
             as [[[[[ci L'] U'] E'] fs']|] eqn:Ef.
           ++ destruct (nfunc_inv cf ps b Hb _ _ _ _ _ _ _ _ _ Ef) as [_ F].
              inversion F as [|? l0 ? L0 (En & Edp & _) F']; subst. cbn [l_name l_depth] in En, Edp.
              rewrite Hf.
              unfold define_variable, at_top_level. rewrite top_of_stk. cbn [fc_depth with_clu set_locals]. rewrite Ed.
              unfold mark_initialised, on_top, stk. cbn. rewrite Ed.
              destruct l0 as [n0 d0 c0]. cbn in En, Edp |- *. subst n0 d0. reflexivity.
           ++ now apply errd_define_variable.
  - (* SLam *)
    intros x ps b Hb IH c cs fs _ Hk. apply res_ok_simple; [intros X; rewrite !nstmt_lam; reflexivity|].
    cbn [nobrk] in Hk.
    rewrite comp_stmt_lam, nstmt_lam. unfold declare_variable. rewrite top_of_stk.
    destruct (fc_depth c =? 0) eqn:Ed.
    + pose proof (comp_func_N_aux cf ps b IH Hb Hk c cs fs) as Hf.
      destruct (nfunc cf ps b (fc_locals c) (fc_ups c) (map lev_of cs) fs) as [[[[[ci L'] U'] E'] fs']|].
      * rewrite Hf. unfold define_variable, at_top_level. rewrite top_of_stk. cbn [fc_depth with_clu]. rewrite Ed.
        rewrite emit_stk. cbn. now rewrite <- app_assoc.
      * now apply errd_define_variable.
    + destruct (dup_in_scope (fc_locals c) x (fc_depth c)) eqn:Edup.
      * apply errd_define_variable, errd_finalise_function. apply errd_comp_list6w; [exact Hb|].
        apply errd_open_function.
        unfold add_local. destruct (_ =? c_locals_max cf); [apply errd_fail|apply errd_on_top, errd_fail].
      * unfold add_local. rewrite top_of_stk.
        destruct (List.length (fc_locals c) =? c_locals_max cf) eqn:Emax.
        -- apply errd_define_variable, errd_finalise_function. apply errd_comp_list6w; [exact Hb|].
           apply errd_open_function, errd_fail.
        -- change (on_top (fun c0 : fcomp => set_locals c0 (mkLocal (Some x) None false :: fc_locals c0)) (stk c cs fs))
             with (stk (set_locals c (mkLocal (Some x) None false :: fc_locals c)) cs fs).
           pose proof (comp_func_N_aux cf ps b IH Hb Hk (set_locals c (mkLocal (Some x) None false :: fc_locals c)) cs fs) as Hf.
           cbn [fc_locals fc_ups fc_code set_locals] in Hf.
           destruct (nfunc cf ps b (mkLocal (Some x) None false :: fc_locals c) (fc_ups c) (map lev_of cs) fs)
             as [[[[[ci L'] U'] E'] fs']|] eqn:Ef.
           ++ destruct (nfunc_inv cf ps b Hb _ _ _ _ _ _ _ _ _ Ef) as [_ F].
              inversion F as [|? l0 ? L0 (En & _ & _) F']; subst. cbn [l_name] in En.
              rewrite Hf.
              unfold define_variable, at_top_level. rewrite top_of_stk. cbn [fc_depth with_clu set_locals]. rewrite Ed.
              unfold mark_initialised, on_top, stk. cbn. rewrite Ed, <- En. reflexivity.
           ++ now apply errd_define_variable.
  - (* SLoop *)
    intros i n b Hb IH c cs fs Hn Hk. apply res_ok_simple; [intros X; rewrite !nstmt_loop; reflexivity|].
    cbn [noret nobrk] in Hn, Hk.
    rewrite nstmt_loop, comp_stmt_loop. destruct c as [code L U d lo br it ar sc].
    cbn [fc_locals fc_depth fc_ups fc_code].
    change (begin_scope (stk (mkFC code L U d lo br it ar sc) cs fs)) with (stk (mkFC code L U (S d) lo br it ar sc) cs fs).
    unfold declare_variable. rewrite top_of_stk. cbn [fc_depth fc_locals]. change (S d =? 0) with false. cbv iota.
    destruct (dup_in_scope L i (S d)) eqn:Edup.
    { apply errd_loop_mid; [now apply stmt6w_all_sticky|]. apply errd_add_local, errd_fail. }
    unfold add_local. rewrite top_of_stk. cbn [fc_locals].
    destruct (List.length L =? c_locals_max cf) eqn:Emax.
    { apply errd_loop_mid; [now apply stmt6w_all_sticky|]. apply errd_fail. }
    rewrite on_top_stk. unfold set_locals. cbn [fc_code fc_locals fc_ups fc_depth fc_loops fc_breaks fc_intry fc_arity fc_script].
    destruct (S (List.length L) =? c_locals_max cf) eqn:Emax2.
    { now apply loop_mid_max. }
    rewrite (loop_mid_stk cf n b code i L U d lo br it ar sc cs fs Emax2). cbv zeta.
    set (start := code_size (code ++ loop_pre n)).
    set (c7 := mkFC (code ++ loop_pre n ++ loop_head (List.length L) 0) (loop_locals i d L) U (S d) ((start, S d) :: lo) ([] :: br) it ar sc).
    pose proof (comp_blk_N_aux cf b IH Hb c7 cs fs Hn Hk) as Hblk. unfold res_ok in Hblk.
    change (lc_of c7) with (fun X => Some (mkLctx start (S d) X)) in Hblk. cbv beta in Hblk.
    cbn [c7 fc_code fc_locals fc_ups fc_depth] in Hblk.
    assert (Hstart : start = code_size code + code_size (loop_pre n)) by (unfold start; apply code_size_app).
    assert (Hposb : code_size (code ++ loop_pre n ++ loop_head (List.length L) 0) =
                    start + code_size (loop_head (List.length L) 0)).
    { unfold start. rewrite app_assoc. apply code_size_app. }
    rewrite Hposb in Hblk. rewrite <- Hstart.
    destruct (nblk cf b (S d) (loop_locals i d L) U (map lev_of cs) fs
                (start + code_size (loop_head (List.length L) 0)) (Some (mkLctx start (S d) 0)))
      as [[[[[c0 L0] U0] E0] fs0]|] eqn:E0'.
    + destruct Hblk as (m & Hm & Hst & HX). rewrite HX.
      unfold with_club in Hst. subst c7. cbn [fc_code fc_locals fc_ups fc_depth fc_loops fc_breaks fc_intry fc_arity fc_script add_brks] in Hst.
      subst start.
      rewrite (loop_tail_stk cf b code (loop_pre n) (List.length L) (loop_locals i d L) U d lo br it ar sc cs fs c0 m L0 U0 (put_levs cs E0) fs0 Hst Hm).
      unfold with_clu. cbn [fc_code fc_locals fc_ups fc_depth fc_loops fc_breaks fc_intry fc_arity fc_script].
      rewrite Hstart. reflexivity.
    + unfold loop_tail. cbv zeta. now apply errd_end_scope, errd_pop_loop, errd_emit, errd_patch_jump, errd_emit_loop.
  - (* SIf *)
    intros a c0 t e Ha Hc Ht He IHt IHe c cs fs Hn Hk. cbn [noret nobrk] in Hn, Hk.
    assert (Hnn : forallb noret t || retok c = true /\ forallb noret e || retok c = true).
    { destruct (forallb noret t), (forallb noret e), (retok c); cbn in Hn |- *; auto. }
    assert (Hkk : c_break_pops_first cf || forallb nobrk t = true /\ c_break_pops_first cf || forallb nobrk e = true).
    { destruct (forallb nobrk t), (forallb nobrk e), (c_break_pops_first cf); cbn in Hk |- *; auto. }
    destruct Hnn as [Hnt Hne]. destruct Hkk as [Hkt Hke].
    pose proof (stmt6w_all_sticky cf t Ht) as St. pose proof (stmt6w_all_sticky cf e He) as Se.
    rewrite comp_stmt_if. eapply res_ok_ext; [intros lc; apply nstmt_if|]. cbv zeta.
    destruct c as [code L U d lo br it ar sc]. set (c := mkFC code L U d lo br it ar sc) in *.
    unfold res_ok. cbn [c fc_code fc_locals fc_ups fc_depth].
    pose proof (comp_expr_N cf a Ha c cs fs) as Hca. cbn [c fc_code fc_locals fc_ups] in Hca.
    destruct (nexpr cf L a U (map lev_of cs)) as [[[ca U1] E1]|] eqn:Ea.
    2:{ apply errd_if_tail; [exact Se|]. apply errd_blockS; [exact St|]. apply errd_emits, errd_emit.
        apply errd_comp_expr2; [exact Hc|exact Hca]. }
    fold c. rewrite Hca. unfold set_ups, set_code. cbn [c fc_code fc_locals fc_ups fc_depth fc_loops fc_breaks fc_intry fc_arity fc_script].
    pose proof (nexpr_len cf a Ha _ _ _ _ _ _ Ea) as Hl1. rewrite map_length in Hl1.
    pose proof (comp_expr_N cf c0 Hc (mkFC (code ++ ca) L U1 d lo br it ar sc) (put_levs cs E1) fs) as Hcc.
    cbn [fc_code fc_locals fc_ups] in Hcc. rewrite (map_lev_of_put_levs cs E1 Hl1) in Hcc.
    destruct (nexpr cf L c0 U1 E1) as [[[cc U2] E2]|] eqn:Ec.
    2:{ apply errd_if_tail; [exact Se|]. apply errd_blockS; [exact St|]. apply errd_emits, errd_emit. exact Hcc. }
    rewrite Hcc. unfold set_ups, set_code. cbn [fc_code fc_locals fc_ups fc_depth fc_loops fc_breaks fc_intry fc_arity fc_script].
    pose proof (nexpr_len cf c0 Hc _ _ _ _ _ _ Ec) as Hl2.
    rewrite put_levs_put_levs by lia.
    rewrite emit_mk. unfold here_ix. rewrite top_of_stk. cbn [fc_code]. rewrite emits_mk.
    set (pre := (ca ++ cc ++ [ILess])%list).
    replace (((code ++ ca) ++ cc) ++ [ILess])%list with (code ++ pre)%list by (unfold pre; now rewrite !app_assoc).
    replace ((code ++ pre) ++ [IJumpIfFalse 0; IPop])%list with (code ++ pre ++ [IJumpIfFalse 0; IPop])%list by (now rewrite app_assoc).
    set (c2 := mkFC (code ++ pre ++ [IJumpIfFalse 0; IPop]) L U2 d lo br it ar sc).
    pose proof (comp_blk_N_aux cf t IHt Ht c2 (put_levs cs E2) fs Hnt Hkt) as Hbt. unfold res_ok in Hbt.
    change (lc_of c2) with (lc_of c) in Hbt. cbn [c2 fc_code fc_locals fc_ups fc_depth] in Hbt.
    rewrite (map_lev_of_put_levs cs E2) in Hbt by lia.
    assert (Hpost : code_size (code ++ pre ++ [IJumpIfFalse 0; IPop]) =
                    code_size code + code_size ca + code_size cc + code_size [ILess; IJumpIfFalse 0; IPop]).
    { unfold pre. rewrite !code_size_app. cbn [code_size isize]. lia. }
    rewrite Hpost in Hbt.
    destruct (nblk cf t d L U2 E2 fs (code_size code + code_size ca + code_size cc + code_size [ILess; IJumpIfFalse 0; IPop]) (lc_of c 0))
      as [[[[[ct L1] U3] E3] fs1]|] eqn:Et.
    2:{ apply errd_if_tail; [exact Se|exact Hbt]. }
    destruct Hbt as (mt & Hmt & Hstt & HXt). rewrite Hstt. unfold with_club.
    cbn [c2 fc_code fc_locals fc_ups fc_depth fc_loops fc_breaks fc_intry fc_arity fc_script].
    pose proof (nblk_len cf t Ht _ _ _ _ _ _ _ _ _ _ _ _ Et) as Hl3.
    rewrite put_levs_put_levs by lia.
    set (br1 := add_brks (ixs (List.length (code ++ pre ++ [IJumpIfFalse 0; IPop])) mt) br).
    set (c3 := mkFC (code ++ pre ++ [IJumpIfFalse (1 + code_size ct + 3); IPop] ++ ct ++ [IJump 0; IPop]) L1 U3 d lo br1 it ar sc).
    pose proof (comp_blk_N_aux cf e IHe He c3 (put_levs cs E3) fs1 Hne Hke) as Hbe. unfold res_ok in Hbe.
    change (lc_of c3) with (lc_of c) in Hbe. cbn [c3 fc_code fc_locals fc_ups fc_depth] in Hbe.
    rewrite (map_lev_of_put_levs cs E3) in Hbe by lia.
    assert (Hpose : code_size (code ++ pre ++ [IJumpIfFalse (1 + code_size ct + 3); IPop] ++ ct ++ [IJump 0; IPop]) =
                    code_size code + code_size ca + code_size cc + code_size [ILess; IJumpIfFalse 0; IPop]
                    + code_size ct + code_size [IJump 0; IPop]).
    { unfold pre. rewrite !code_size_app. cbn [code_size isize]. lia. }
    rewrite Hpose in Hbe.
    destruct (nblk cf e d L1 U3 E3 fs1 (code_size code + code_size ca + code_size cc + code_size [ILess; IJumpIfFalse 0; IPop]
                                       + code_size ct + code_size [IJump 0; IPop]) (lc_of c 0))
      as [[[[[cel L2] U4] E4] fs2]|] eqn:Ee.
    2:{ unfold if_tail. cbv zeta. apply errd_patch_jump. rewrite if_mid_stk. exact Hbe. }
    destruct Hbe as (me & Hme & Hste & HXe). unfold with_club in Hste.
    cbn [c3 fc_code fc_locals fc_ups fc_depth fc_loops fc_breaks fc_intry fc_arity fc_script] in Hste.
    rewrite (if_tail_stk cf e code pre ct L1 U3 d lo br1 it ar sc (put_levs cs E3) fs1 cel L2 U4 _ _ _ Hste).
    pose proof (nblk_len cf e He _ _ _ _ _ _ _ _ _ _ _ _ Ee) as Hl4.
    rewrite put_levs_put_levs by lia.
    exists (repeat false (List.length (ca ++ cc ++ [ILess; IJumpIfFalse 0; IPop])) ++ mt ++ repeat false 2 ++ me)%list.
    split; [rewrite !app_length, !repeat_length; cbn [List.length]; lia|]. split.
    + unfold with_club. cbn [c fc_code fc_locals fc_ups fc_depth fc_loops fc_breaks fc_intry fc_arity fc_script].
      f_equal. f_equal.
      * unfold pre. norm_app. reflexivity.
      * unfold br1. rewrite add_brks_add. f_equal.
        rewrite !ixs_app, !ixs_nomask, !repeat_length. cbn [app]. f_equal; f_equal.
        -- unfold pre. repeat (rewrite app_length || cbn [List.length]). lia.
        -- unfold pre. repeat (rewrite app_length || cbn [List.length]). lia.
    + intros X. rewrite HXt. cbv beta iota. rewrite bpm_size, HXe. cbv beta iota. rewrite !bpm_size.
      f_equal. f_equal. f_equal. f_equal. f_equal.
      replace (ca ++ cc ++ [ILess; IJumpIfFalse (1 + code_size ct + 3); IPop] ++ ct ++ [IJump (1 + code_size cel); IPop] ++ cel)%list
        with ((ca ++ cc ++ [ILess; IJumpIfFalse (1 + code_size ct + 3); IPop]) ++ ct ++ [IJump (1 + code_size cel); IPop] ++ cel)%list
        by (norm_app; reflexivity).
      rewrite bpm_app by (rewrite repeat_length, !app_length; reflexivity).
      rewrite bpm_nomask. rewrite bpm_app by exact Hmt. rewrite (bpm_app X (repeat false 2)) by reflexivity.
      rewrite bpm_nomask. norm_app.
      assert (P1 : code_size code + code_size (ca ++ cc ++ [ILess; IJumpIfFalse (1 + code_size ct + 3); IPop]) =
                   code_size code + code_size ca + code_size cc + code_size [ILess; IJumpIfFalse 0; IPop]).
      { rewrite !code_size_app. cbn [code_size isize]. lia. }
      rewrite P1. change (code_size [IJump (1 + code_size cel); IPop]) with (code_size [IJump 0; IPop]). reflexivity.
  - (* SBreak *)
    intros c cs fs _ Hk. cbn [nobrk] in Hk. rewrite orb_false_r in Hk.
    unfold res_ok, lc_of. cbn [nstmt comp_stmt]. rewrite top_of_stk.
    destruct (fc_loops c) as [|[s0 d0] r] eqn:El; [apply errd_fail|].
    rewrite Hk. cbn [lc_depth lc_exit Nat.sub].
    set (ops := scope_end_ops (fc_locals c) d0).
    exists (repeat false (List.length ops) ++ [true])%list.
    split; [rewrite !app_length, repeat_length; reflexivity|]. split.
    + unfold emit_scope_end. cbv zeta. rewrite top_of_stk. fold ops. rewrite emits_stk, emit_stk.
      unfold here_ix. rewrite top_of_stk. rewrite put_levs_id, ixs_app, ixs_nomask, repeat_length.
      unfold push_break. rewrite on_top_stk. unfold with_club. destruct c as [code L U d lo br it ar sc].
      cbn [set_code set_loops fc_code fc_locals fc_ups fc_depth fc_loops fc_breaks fc_intry fc_arity fc_script ixs app].
      destruct br as [|b0 r0]; unfold set_loops, add_brks;
        cbn [fc_code fc_locals fc_ups fc_depth fc_loops fc_breaks fc_intry fc_arity fc_script];
        rewrite ?app_length, <- ?app_assoc; reflexivity.
    + intros X. rewrite bpm_app by (apply repeat_length). rewrite bpm_nomask. reflexivity.
  - (* SContinue *)
    intros c cs fs _ _. apply res_ok_simple.
    { intros X. unfold lc_of. destruct (fc_loops c) as [|[s0 d0] r]; reflexivity. }
    unfold lc_of. cbn [nstmt comp_stmt]. rewrite top_of_stk.
    destruct (fc_loops c) as [|[s0 d0] r] eqn:El; [apply errd_fail|].
    cbn [lc_depth lc_start].
    unfold emit_scope_end. cbv zeta. rewrite top_of_stk. rewrite emits_stk.
    unfold emit_loop, here_bytes. rewrite top_of_stk, emit_stk. rewrite put_levs_id.
    destruct c as [code L U d lo br it ar sc]. unfold with_clu.
    cbn [set_code fc_code fc_locals fc_ups fc_depth fc_loops fc_breaks fc_intry fc_arity fc_script].
    rewrite code_size_app, <- app_assoc. reflexivity.
Qed.

Lemma stmt6w_all_goalN : forall cf b, forallb stmt6w b = true -> Forall (stmt_goalN cf) b.
Proof.
  intros cf b Hb. induction b as [|a r IH]; constructor.
  - cbn in Hb. apply andb_prop in Hb as [Ha _]. intros c cs fs. now apply comp_stmt_N.
  - cbn in Hb. apply andb_prop in Hb as [_ Hr]. now apply IH.
Qed.

Lemma comp_list_N : forall cf b, forallb stmt6w b = true -> forall c cs fs,
  forallb noret b || retok c = true -> c_break_pops_first cf || forallb nobrk b = true ->
  res_ok c cs (nlist cf b (fc_depth c) (fc_locals c) (fc_ups c) (map lev_of cs) fs (code_size (fc_code c)))
         (comp_list cf b (stk c cs fs)).
Proof. intros cf b Hb. apply comp_list_N_aux; [now apply stmt6w_all_goalN|exact Hb]. Qed.

Lemma comp_blk_N : forall cf b, forallb stmt6w b = true -> forall c cs fs,
  forallb noret b || retok c = true -> c_break_pops_first cf || forallb nobrk b = true ->
  res_ok c cs (nblk cf b (fc_depth c) (fc_locals c) (fc_ups c) (map lev_of cs) fs (code_size (fc_code c)))
         (end_scope (comp_list cf b (begin_scope (stk c cs fs)))).
Proof. intros cf b Hb. apply comp_blk_N_aux; [now apply stmt6w_all_goalN|exact Hb]. Qed.

Lemma comp_func_N : forall cf ps b, forallb stmt6w b = true -> c_break_pops_first cf || forallb nobrk b = true ->
  forall c cs fs,
  match nfunc cf ps b (fc_locals c) (fc_ups c) (map lev_of cs) fs with
  | Some (ci, L', U', E', fs') =>
      finalise_function (comp_list cf b (open_function cf ps (stk c cs fs))) =
      stk (with_clu c (fc_code c ++ [ci]) L' U') (put_levs cs E') fs'
  | None => errd (finalise_function (comp_list cf b (open_function cf ps (stk c cs fs))))
  end.
Proof. intros cf ps b Hb. apply comp_func_N_aux; [now apply stmt6w_all_goalN|exact Hb]. Qed.

(* outside a loop (in particular at script level and at the start of a function body) nothing is pending: the
   correspondence in its plain form *)
Lemma comp_list_N_noloop : forall cf b, forallb stmt6w b = true -> forall c cs fs,
  forallb noret b || retok c = true -> c_break_pops_first cf || forallb nobrk b = true -> fc_loops c = [] ->
  match nlist cf b (fc_depth c) (fc_locals c) (fc_ups c) (map lev_of cs) fs (code_size (fc_code c)) None with
  | Some (code, L', U', E', fs') => exists bs,
      comp_list cf b (stk c cs fs) = stk (with_club c (fc_code c ++ code) L' U' bs) (put_levs cs E') fs'
  | None => errd (comp_list cf b (stk c cs fs))
  end.
Proof.
  intros cf b Hb c cs fs Hn Hk Hl. pose proof (comp_list_N cf b Hb c cs fs Hn Hk) as H. unfold res_ok, lc_of in H.
  rewrite Hl in H.
  destruct (nlist cf b (fc_depth c) (fc_locals c) (fc_ups c) (map lev_of cs) fs (code_size (fc_code c)) None)
    as [[[[[code L'] U'] E'] fs']|]; [|exact H].
  destruct H as (m & _ & Hst & _). eexists. exact Hst.
Qed.

(* the statements of the old fragment do not look at the position or at the loop context *)
Definition irr_goal (cf : cfg) (s : stmt) : Prop := forall L d U E fs pos lc pos' lc',
  nstmt cf s L d U E fs pos lc = nstmt cf s L d U E fs pos' lc'.

Lemma nlist_irr_aux : forall cf b, Forall (irr_goal cf) b -> forall d L U E fs pos lc pos' lc',
  nlist cf b d L U E fs pos lc = nlist cf b d L U E fs pos' lc'.
Proof.
  intros cf b H. induction H as [|a r Ha Hr IH]; intros d L U E fs pos lc pos' lc'; [reflexivity|].
  cbn [nlist]. rewrite (Ha L d U E fs pos lc pos' lc').
  destruct (nstmt cf a L d U E fs pos' lc') as [[[[[ca L1] U1] E1] fs1]|]; [|reflexivity].
  now rewrite (IH d L1 U1 E1 fs1 (pos + code_size ca) lc (pos' + code_size ca) lc').
Qed.

Lemma nstmt_pos_lc_irrelevant : forall cf s, stmt5w s = true -> forall L d U E fs pos lc pos' lc',
  nstmt cf s L d U E fs pos lc = nstmt cf s L d U E fs pos' lc'.
Proof.
  intros cf s Hs. change (irr_goal cf s). pattern s. revert s Hs. apply stmt5w_ind; unfold irr_goal; try reflexivity.
  - intros b Hb IH L d U E fs pos lc pos' lc'. rewrite !nstmt_block. unfold nblk.
    now rewrite (nlist_irr_aux cf b IH (S d) L U E fs pos lc pos' lc').
Qed.

Lemma nlist_pos_lc_irrelevant : forall cf b, forallb stmt5w b = true -> forall d L U E fs pos lc pos' lc',
  nlist cf b d L U E fs pos lc = nlist cf b d L U E fs pos' lc'.
Proof.
  intros cf b Hb. apply nlist_irr_aux. induction b as [|a r IH]; constructor.
  - cbn in Hb. apply andb_prop in Hb as [Ha _]. unfold irr_goal. now apply nstmt_pos_lc_irrelevant.
  - cbn in Hb. apply andb_prop in Hb as [_ Hr]. now apply IH.
Qed.

(* a `return` outside a function body (or inside a try) is a compile error: the side condition of comp_stmt_N
   cannot be dropped, and where it fails the stateful compiler reports an error (old fragment) *)
Definition ret_err_goal (cf : cfg) (s : stmt) : Prop := forall c cs fs,
  noret s = false -> retok c = false -> errd (comp_stmt cf s (stk c cs fs)).

Lemma ret_err_list_aux : forall cf b, Forall (ret_err_goal cf) b -> forallb stmt5w b = true ->
  forall c cs fs, forallb noret b = false -> retok c = false -> errd (comp_list cf b (stk c cs fs)).
Proof.
  intros cf b H. induction H as [|a r Ha Hr IH]; intros Hb c cs fs Hn Hk; [discriminate|].
  cbn in Hb. apply andb_prop in Hb as [Hb1 Hb2]. rewrite comp_list_cons. cbn [forallb] in Hn.
  destruct (noret a) eqn:Hna.
  - cbn [andb] in Hn.
    pose proof (comp_stmt_N cf a (stmt5w_stmt6w a Hb1) c cs fs) as Hc. rewrite Hna in Hc.
    specialize (Hc eq_refl). rewrite (stmt5w_nobrk a Hb1), orb_true_r in Hc. specialize (Hc eq_refl). unfold res_ok in Hc.
    destruct (nstmt cf a (fc_locals c) (fc_depth c) (fc_ups c) (map lev_of cs) fs (code_size (fc_code c)) (lc_of c 0))
      as [[[[[ca L1] U1] E1] fs1]|].
    + destruct Hc as (m & _ & Hst & _). rewrite Hst. apply IH; [exact Hb2|exact Hn|exact Hk].
    + apply (errd_comp_list5w cf r Hb2). exact Hc.
  - apply (errd_comp_list5w cf r Hb2). apply Ha; [exact Hna|exact Hk].
Qed.

Lemma comp_stmt_ret_err : forall cf s, stmt5w s = true -> forall c cs fs,
  noret s = false -> retok c = false -> errd (comp_stmt cf s (stk c cs fs)).
Proof.
  intros cf s Hs. change (ret_err_goal cf s). pattern s. revert s Hs. apply stmt5w_ind;
    try (intros; intros c cs fs Hn; discriminate Hn).
  - (* SReturn *)
    intros e He c cs fs _ Hk. cbn [comp_stmt]. cbv zeta. rewrite top_of_stk.
    destruct (fc_script c) eqn:Hsc.
    + pose proof (errd_comp_expr2 cf e He _ (errd_fail (stk c cs fs) "Cannot return from top-level code.")) as H1.
      destruct (fc_intry _); [apply errd_fail|now apply errd_emit].
    + unfold retok in Hk. rewrite Hsc in Hk. cbn [negb andb] in Hk. apply negb_false_iff in Hk.
      pose proof (comp_expr_N cf e He c cs fs) as Hc.
      destruct (nexpr cf (fc_locals c) e (fc_ups c) (map lev_of cs)) as [[[ce U'] E']|].
      * rewrite Hc, top_of_stk. cbn [fc_intry set_ups set_code]. rewrite Hk. apply errd_fail.
      * destruct (fc_intry (top_of _)); [apply errd_fail|now apply errd_emit].
  - (* SBlock *)
    intros b Hb IH c cs fs Hn Hk. rewrite comp_stmt_block. apply errd_end_scope.
    change (begin_scope (stk c cs fs)) with (stk (set_depth c (S (fc_depth c))) cs fs).
    apply ret_err_list_aux; [exact IH|exact Hb|exact Hn|exact Hk].
Qed.

Lemma comp_list_ret_err : forall cf b, forallb stmt5w b = true -> forall c cs fs,
  forallb noret b = false -> retok c = false -> errd (comp_list cf b (stk c cs fs)).
Proof.
  intros cf b Hb. apply ret_err_list_aux; [|exact Hb].
  induction b as [|a r IH]; constructor.
  - cbn in Hb. apply andb_prop in Hb as [Ha _]. intros c cs fs. now apply comp_stmt_ret_err.
  - cbn in Hb. apply andb_prop in Hb as [_ Hr]. now apply IH.
Qed.

(* ------------------------------------------------------------------------------------------ *)
(* Part 8: the whole program: the functions in finalise order, then the script function = the pure code followed
   by Nil; Return.  The script has no enclosing level: its upvalue list stays empty; it is in no loop. *)
Theorem compile_scope_shape6w : forall cf p funs,
  forallb stmt6w p = true -> forallb noret p = true -> c_break_pops_first cf || forallb nobrk p = true ->
  compile_scope cf p = Some funs ->
  exists code L' fs', nlist cf p 0 [mkLocal None (Some 0) false] [] [] [] 0 None = Some (code, L', [], [], fs') /\
                      funs = (fs' ++ [mkFunc (code ++ [INil; IReturn]) 0 0])%list.
Proof.
  intros cf p funs Hp Hn Hk Hc. unfold compile_scope, comp_prog in Hc.
  change (fold_left (fun s a => comp_stmt cf a s) p (mkCst [new_fcomp true] [] None))
    with (comp_list cf p (stk (new_fcomp true) [] [])) in Hc.
  pose proof (comp_list_N_noloop cf p Hp (new_fcomp true) [] []) as H. rewrite Hn in H. specialize (H eq_refl Hk eq_refl).
  cbn [fc_locals fc_depth fc_ups fc_code new_fcomp map code_size] in H.
  destruct (nlist cf p 0 [mkLocal None (Some 0) false] [] [] [] 0 None) as [[[[[code L'] U'] E'] fs']|] eqn:El.
  - destruct (nlist_nil cf p Hp _ _ _ _ _ _ _ _ _ _ _ El) as [-> ->]. destruct H as (bs & H).
    rewrite H in Hc. rewrite emits_stk in Hc. cbn in Hc. inversion Hc. exists code, L', fs'. split; reflexivity.
  - exfalso. apply (errd_emits [INil; IReturn]) in H. unfold errd in H. destruct (cs_err _); [discriminate|congruence].
Qed.

(* stage 4: loops, if / else, break, continue (the repaired order of break: scope-end operations, then the jump) *)
Theorem compile_scope_stage4_shape : forall cf p funs, c_break_pops_first cf = true ->
  forallb (stmt6 true false true false) p = true -> compile_scope cf p = Some funs ->
  exists code L' fs', nlist cf p 0 [mkLocal None (Some 0) false] [] [] [] 0 None = Some (code, L', [], [], fs') /\
                      funs = (fs' ++ [mkFunc (code ++ [INil; IReturn]) 0 0])%list.
Proof.
  intros cf p funs Hcf Hp. apply compile_scope_shape6w.
  - revert Hp. apply forallb_imp. intros a. apply stmt6_stmt6w.
  - revert Hp. apply forallb_imp. intros a. apply stmt6_noret.
  - now rewrite Hcf.
Qed.

(* stage 3: loops and if / else, no break / continue: whichever order break is compiled in *)
Corollary compile_scope_stage3_shape : forall cf p funs,
  forallb (stmt6 false false true false) p = true -> compile_scope cf p = Some funs ->
  exists code L' fs', nlist cf p 0 [mkLocal None (Some 0) false] [] [] [] 0 None = Some (code, L', [], [], fs') /\
                      funs = (fs' ++ [mkFunc (code ++ [INil; IReturn]) 0 0])%list.
Proof.
  intros cf p funs Hp. apply compile_scope_shape6w.
  - revert Hp. apply forallb_imp. intros a. apply stmt6_stmt6w.
  - revert Hp. apply forallb_imp. intros a. apply stmt6_noret.
  - apply orb_true_intro. right. revert Hp. apply forallb_imp. intros a. apply stmt6_nobrk.
Qed.

(* stage 2: the old fragment, with no hypothesis about `return` (a script-level return is a compile error) *)
Theorem compile_scope_stage2_shape : forall cf p funs, forallb stmt5w p = true -> compile_scope cf p = Some funs ->
  exists code L' fs', nlist cf p 0 [mkLocal None (Some 0) false] [] [] [] 0 None = Some (code, L', [], [], fs') /\
                      funs = (fs' ++ [mkFunc (code ++ [INil; IReturn]) 0 0])%list.
Proof.
  intros cf p funs Hp Hc. destruct (forallb noret p) eqn:Hn.
  - revert Hc. apply compile_scope_shape6w; [|exact Hn|].
    + revert Hp. apply forallb_imp. apply stmt5w_stmt6w.
    + apply orb_true_intro. right. revert Hp. apply forallb_imp. apply stmt5w_nobrk.
  - exfalso. unfold compile_scope, comp_prog in Hc.
    change (fold_left (fun s a => comp_stmt cf a s) p (mkCst [new_fcomp true] [] None))
      with (comp_list cf p (stk (new_fcomp true) [] [])) in Hc.
    pose proof (comp_list_ret_err cf p Hp (new_fcomp true) [] [] Hn eq_refl) as H.
    apply (errd_emits [INil; IReturn]) in H. unfold errd in H. destruct (cs_err _); [discriminate|congruence].
Qed.

(* the same for the fragment of ScopeDefsN.v *)
Corollary compile_scope_stage2_shape5 : forall cf p funs, forallb (stmt5 false true) p = true ->
  compile_scope cf p = Some funs ->
  exists code L' fs', nlist cf p 0 [mkLocal None (Some 0) false] [] [] [] 0 None = Some (code, L', [], [], fs') /\
                      funs = (fs' ++ [mkFunc (code ++ [INil; IReturn]) 0 0])%list.
Proof.
  intros cf p funs Hp. apply compile_scope_stage2_shape. revert Hp. apply forallb_imp. intros a. apply stmt5_stmt5w.
Qed.

(* and conversely: when the pure compiler succeeds on a program without a script-level return, so does compile_scope *)
Theorem compile_scope_stage4_complete : forall cf p code L' U' E' fs',
  forallb stmt6w p = true -> forallb noret p = true -> c_break_pops_first cf || forallb nobrk p = true ->
  nlist cf p 0 [mkLocal None (Some 0) false] [] [] [] 0 None = Some (code, L', U', E', fs') ->
  compile_scope cf p = Some (fs' ++ [mkFunc (code ++ [INil; IReturn]) 0 0])%list.
Proof.
  intros cf p code L' U' E' fs' Hp Hn Hk El. unfold compile_scope, comp_prog.
  change (fold_left (fun s a => comp_stmt cf a s) p (mkCst [new_fcomp true] [] None))
    with (comp_list cf p (stk (new_fcomp true) [] [])).
  pose proof (comp_list_N_noloop cf p Hp (new_fcomp true) [] []) as H. rewrite Hn in H. specialize (H eq_refl Hk eq_refl).
  cbn [fc_locals fc_depth fc_ups fc_code new_fcomp map code_size] in H. rewrite El in H. destruct H as (bs & H).
  rewrite H, emits_stk. reflexivity.
Qed.

Theorem compile_scope_stage2_complete : forall cf p code L' U' E' fs',
  forallb stmt5w p = true -> forallb noret p = true ->
  nlist cf p 0 [mkLocal None (Some 0) false] [] [] [] 0 None = Some (code, L', U', E', fs') ->
  compile_scope cf p = Some (fs' ++ [mkFunc (code ++ [INil; IReturn]) 0 0])%list.
Proof.
  intros cf p code L' U' E' fs' Hp Hn. apply compile_scope_stage4_complete; [|exact Hn|].
  - revert Hp. apply forallb_imp. apply stmt5w_stmt6w.
  - apply orb_true_intro. right. revert Hp. apply forallb_imp. apply stmt5w_nobrk.
Qed.

(* The side conditions of comp_stmt_N cannot be dropped: the pure compiler nstmt compiles a `return` wherever it
   stands, the stateful one reports "Cannot return from top-level code." in the script compiler; *)
Lemma comp_stmt_N_side_condition_needed :
  exists cf s c cs fs, stmt5w s = true /\
    nstmt cf s (fc_locals c) (fc_depth c) (fc_ups c) (map lev_of cs) fs (code_size (fc_code c)) (lc_of c 0) <> None /\
    errd (comp_stmt cf s (stk c cs fs)).
Proof.
  exists ex_cf, (SReturn (ELit 0)), (new_fcomp true), [], [].
  split; [reflexivity|]. split; [discriminate|]. unfold errd. cbn. discriminate.
Qed.

(* and with the shipped order of break (jump first, scope-end operations after it, where they are never executed)
   the two compilers emit different code for a break that leaves a scope with a local *)
Lemma comp_stmt_N_break_order_needed :
  exists p, forallb (stmt6 true false true false) p = true /\
    (exists funs, compile_scope (mkCfg 256 256 true true false) p = Some funs /\
       option_map (fun r => (fst (fst (fst (fst r))) ++ [INil; IReturn])%list)
                  (nlist (mkCfg 256 256 true true false) p 0 [mkLocal None (Some 0) false] [] [] [] 0 None)
       = Some (f_code (last funs dfunc))) /\
    (exists funs, compile_scope (mkCfg 256 256 false true false) p = Some funs /\
       option_map (fun r => (fst (fst (fst (fst r))) ++ [INil; IReturn])%list)
                  (nlist (mkCfg 256 256 false true false) p 0 [mkLocal None (Some 0) false] [] [] [] 0 None)
       <> Some (f_code (last funs dfunc))).
Proof.
  exists [SLoop 1 3 [SDecl 2 (ELit 7); SBreak]].
  split; [reflexivity|]. split.
  - eexists. split; [vm_compute; reflexivity|]. vm_compute. reflexivity.
  - eexists. split; [vm_compute; reflexivity|]. vm_compute. discriminate.
Qed.

(* a three-level example: the hypotheses are satisfiable by a program that captures through an enclosing function
     { var x1 = 10; fn x2(x3) { fn x5() { x1 = x1 + x3; var x6 = |x7| { return x1 + x7; }; return x6; } return x5; } }  *)
Example ex_stage2_shape :
  let p := [SBlock [SDecl 1 (ELit 10);
                    SFun 2 [3] [SFun 5 [] [SAssign 1 (EAdd (EVar 1) (EVar 3));
                                           SLam 6 [7] [SReturn (EAdd (EVar 1) (EVar 7))];
                                           SReturn (EVar 6)];
                                SReturn (EVar 5)]]] in
  forallb stmt5w p = true /\ forallb noret p = true /\
  exists funs, compile_scope ex_cf p = Some funs /\ map f_nups funs = [1; 2; 1; 0].
Proof. cbv zeta. split; [reflexivity|]. split; [reflexivity|]. eexists. split; [vm_compute; reflexivity|reflexivity]. Qed.

(* nested loops, if / else, break and continue out of scopes with captured locals, a loop inside a function:
   the hypotheses of stage 4 are satisfiable, and both compilers agree on it *)
Example ex_stage4_shape :
  let cfx := mkCfg 256 256 true true false in
  let p := [ SLam 20 [] [SReturn (ELit 0)]; SDecl 22 (ELit 0);
             SLoop 1 4 [ SDecl 2 (EAdd (EVar 1) (ELit 10));
                         SLam 3 [] [SAssign 2 (EAdd (EVar 2) (ELit 1)); SReturn (EAdd (EVar 2) (EVar 1))];
                         SIf (EVar 1) (ELit 1) [SAssign 20 (EVar 3)] [ SIf (EVar 1) (ELit 2) [SContinue] [] ];
                         SBlock [ SDecl 4 (ELit 7); SLam 5 [] [SReturn (EAdd (EVar 4) (EVar 2))];
                                  SIf (ELit 2) (EVar 1) [SAssign 22 (ECall 5 []); SBreak] [];
                                  SPrint (ECall 5 []) ];
                         SPrint (ECall 3 []) ];
             SFun 30 [31] [ SDecl 32 (ELit 0);
                            SLoop 33 3 [ SLoop 34 2 [ SIf (EVar 34) (ELit 1) [SContinue] [SBreak];
                                                      SAssign 32 (EAdd (EVar 32) (EAdd (EVar 33) (EVar 31))) ] ];
                            SReturn (EVar 32) ];
             SPrint (ECall 30 [ELit 100]) ] in
  forallb (stmt6 true false true false) p = true /\
  exists funs, compile_scope cfx p = Some funs /\ List.length funs = 5.
Proof. cbv zeta. split; [reflexivity|]. eexists. split; [vm_compute; reflexivity|reflexivity]. Qed.

Print Assumptions resolve_variable_stk.
Print Assumptions comp_expr_N.
Print Assumptions comp_stmt_N.
Print Assumptions comp_list_N.
Print Assumptions comp_func_N.
Print Assumptions nstmt_len.
Print Assumptions nlist_len.
Print Assumptions nstmt_pos_lc_irrelevant.
Print Assumptions comp_stmt_ret_err.
Print Assumptions compile_scope_stage4_shape.
Print Assumptions compile_scope_stage3_shape.
Print Assumptions compile_scope_stage2_shape.
Print Assumptions compile_scope_stage2_shape5.
Print Assumptions compile_scope_stage4_complete.
Print Assumptions compile_scope_stage2_complete.
