(* C06 - stage 2 of compile_scope_correct (any number of nested function levels): the stateful compiler
   compile_scope (ScopeComp.v) equals the pure n-level compiler nstmt / nlist of ScopeDefsN.v on the fragment
   stmt5w, for an ARBITRARY stack of enclosing compilers.  PROOFS ONLY (auxiliary definitions: the fragment stmt5w,
   `noret` = no return outside a function body, `retok` = the innermost compiler may compile a return, the invariant
   `ninv` of the pure compiler, the record update `with_clu`). *)
From Coq Require Import List Arith Bool String ZArith NArith Lia.
From YV Require Import Show Upvalues Cells ScopeLang ScopeComp ScopeSim ScopeDefs2 ScopeComp2 ScopeDefsN.
Import ListNotations.
Import Gen.
Open Scope nat_scope.

(* ------------------------------------------------------------------------------------------ *)
(* Part 0: the fragment without side restrictions, its nested induction principle *)

Fixpoint stmt5w (s : stmt) : bool :=
  match s with
  | SDecl _ e | SAssign _ e | SPrint e | SExpr e | SReturn e => expr2 e
  | SBlock b => forallb stmt5w b
  | SFun _ _ b | SLam _ _ b => forallb stmt5w b
  | _ => false
  end.

(* no `return` outside a function body (a return at script level is a compile error) *)
Fixpoint noret (s : stmt) : bool :=
  match s with
  | SReturn _ => false
  | SBlock b => forallb noret b
  | _ => true
  end.

(* the innermost compiler accepts a `return` *)
Definition retok (c : fcomp) : bool := negb (fc_script c) && negb (fc_intry c).

Lemma stmt5w_ind : forall P : stmt -> Prop,
  (forall x e, expr2 e = true -> P (SDecl x e)) -> (forall x e, expr2 e = true -> P (SAssign x e)) ->
  (forall e, expr2 e = true -> P (SPrint e)) -> (forall e, expr2 e = true -> P (SExpr e)) ->
  (forall e, expr2 e = true -> P (SReturn e)) ->
  (forall b, forallb stmt5w b = true -> Forall P b -> P (SBlock b)) ->
  (forall f ps b, forallb stmt5w b = true -> Forall P b -> P (SFun f ps b)) ->
  (forall x ps b, forallb stmt5w b = true -> Forall P b -> P (SLam x ps b)) ->
  forall s, stmt5w s = true -> P s.
Proof.
  intros P Hd Ha Hp He Hr Hb Hf Hl. fix IH 1. intros s H.
  assert (G : forall l, forallb stmt5w l = true -> Forall P l).
  { refine (fix go (l : list stmt) : forallb stmt5w l = true -> Forall P l :=
               match l with
               | [] => fun _ => Forall_nil P
               | a :: r => fun H0 => _
               end).
    cbn in H0. apply andb_prop in H0. destruct H0 as [H1 H2].
    constructor; [apply IH; exact H1|apply go; exact H2]. }
  destruct s; cbn in H; try discriminate.
  - apply Hd; exact H.
  - apply Ha; exact H.
  - apply Hp; exact H.
  - apply He; exact H.
  - apply Hb; [exact H|apply G; exact H].
  - apply Hf; [exact H|apply G; exact H].
  - apply Hl; [exact H|apply G; exact H].
  - apply Hr; exact H.
Qed.

Lemma stmt5_stmt5w : forall s i t, stmt5 i t s = true -> stmt5w s = true.
Proof.
  fix IH 1. intros s i t H.
  assert (G : forall l i t, forallb (stmt5 i t) l = true -> forallb stmt5w l = true).
  { refine (fix go (l : list stmt) : forall i t, forallb (stmt5 i t) l = true -> forallb stmt5w l = true :=
               match l with
               | [] => fun _ _ _ => eq_refl
               | a :: r => fun i0 t0 H0 => _
               end).
    cbn in H0 |- *. apply andb_prop in H0. destruct H0 as [H1 H2].
    apply andb_true_intro. split; [exact (IH a i0 t0 H1)|exact (go r i0 t0 H2)]. }
  destruct s; cbn in H |- *; try discriminate; try exact H.
  - exact (G _ _ _ H).
  - exact (G _ _ _ H).
  - apply andb_prop in H. destruct H as [H _]. exact (G _ _ _ H).
  - apply andb_prop in H. destruct H as [_ H]. exact H.
Qed.

Lemma stmt5_noret : forall s t, stmt5 false t s = true -> noret s = true.
Proof.
  fix IH 1. intros s t H.
  assert (G : forall l t, forallb (stmt5 false t) l = true -> forallb noret l = true).
  { refine (fix go (l : list stmt) : forall t, forallb (stmt5 false t) l = true -> forallb noret l = true :=
               match l with
               | [] => fun _ _ => eq_refl
               | a :: r => fun t0 H0 => _
               end).
    cbn in H0 |- *. apply andb_prop in H0. destruct H0 as [H1 H2].
    apply andb_true_intro. split; [exact (IH a t0 H1)|exact (go r t0 H2)]. }
  destruct s; cbn in H |- *; try discriminate; try reflexivity.
  exact (G _ _ H).
Qed.

(* ------------------------------------------------------------------------------------------ *)
(* Part 1: the resolver.  resolve_variable walks the compilers iteratively (find_enclosing, chain_ups, put_ups);
   rup is recursive, level by level. *)

Lemma top_of_stk : forall c cs fs, top_of (stk c cs fs) = c.
Proof. reflexivity. Qed.

Lemma put_lev_id : forall c, put_lev c (lev_of c) = c.
Proof. intros c. destruct c; reflexivity. Qed.

Lemma put_levs_id : forall cs, put_levs cs (map lev_of cs) = cs.
Proof. induction cs as [|c r IH]; [reflexivity|]. cbn [map put_levs]. now rewrite put_lev_id, IH. Qed.

Lemma lev_of_put_lev : forall c l, lev_of (put_lev c l) = l.
Proof. intros c l. destruct l; reflexivity. Qed.

Lemma map_lev_of_put_levs : forall cs E, List.length E = List.length cs -> map lev_of (put_levs cs E) = E.
Proof.
  induction cs as [|c r IH]; intros E H; destruct E as [|l E]; try discriminate; [reflexivity|].
  cbn [put_levs map]. rewrite lev_of_put_lev, IH; [reflexivity|]. cbn in H. lia.
Qed.

Lemma put_lev_put_lev : forall c l1 l2, put_lev (put_lev c l1) l2 = put_lev c l2.
Proof. reflexivity. Qed.

Lemma put_levs_put_levs : forall cs E1 E2, List.length E1 <= List.length E2 ->
  put_levs (put_levs cs E1) E2 = put_levs cs E2.
Proof.
  induction cs as [|c r IH]; intros E1 E2 H; [reflexivity|].
  destruct E1 as [|l1 E1]; [reflexivity|]. destruct E2 as [|l2 E2]; [cbn in H; lia|].
  cbn [put_levs]. rewrite put_lev_put_lev, IH; [reflexivity|]. cbn in H. lia.
Qed.

Lemma put_lev_locals : forall c L, put_lev c (mkLev L (fc_ups c)) = set_locals c L.
Proof. intros c L. destruct c; reflexivity. Qed.

Lemma put_lev_ups : forall c U, put_lev c (mkLev (fc_locals c) U) = set_ups c U.
Proof. intros c U. destruct c; reflexivity. Qed.

Lemma chain_ups_cons2 : forall m u u2 r slot,
  chain_ups m (u :: u2 :: r) slot =
  let '(rest', k1, e1) := chain_ups m (u2 :: r) slot in
  let '(u', k, e) := add_upvalue m u k1 false in (u' :: rest', k, e1 || e).
Proof. reflexivity. Qed.

Lemma chain_ups_one : forall m u slot,
  chain_ups m [u] slot = let '(u', k, e) := add_upvalue m u slot true in ([u'], k, e).
Proof. reflexivity. Qed.

(* the loop of resolve_upvalue = the recursion *)
Lemma rup_find : forall cf x cs U,
  match find_enclosing cs x with
  | None => rup cf x U (map lev_of cs) = Some (None, U, map lev_of cs)
  | Some (k, slot) =>
      let '(uss, idx, ovf) := chain_ups (c_upvalues_max cf) (U :: map fc_ups (firstn k cs)) slot in
      if ovf then rup cf x U (map lev_of cs) = None
      else match uss with
           | [] => False
           | U' :: uss' =>
               exists E', rup cf x U (map lev_of cs) = Some (Some idx, U', E') /\
                 put_levs cs E' =
                 (put_ups (firstn k cs) uss' ++
                  set_locals (nth k cs (new_fcomp true)) (mark_captured (fc_locals (nth k cs (new_fcomp true))) slot)
                  :: skipn (S k) cs)%list
           end
  end.
Proof.
  intros cf x cs. induction cs as [|c1 r IH]; intros U; [reflexivity|].
  cbn [find_enclosing map rup lev_of lv_locals lv_ups].
  assert (Hrec :
    match match find_enclosing r x with Some (k, slot) => Some (S k, slot) | None => None end with
    | None => match rup cf x (fc_ups c1) (map lev_of r) with
              | None => None
              | Some (None, _, _) => Some (None, U, mkLev (fc_locals c1) (fc_ups c1) :: map lev_of r)
              | Some (Some k1, Ul, E1) =>
                  let '(U1, k, ovf) := add_upvalue (c_upvalues_max cf) U k1 false in
                  if ovf then None else Some (Some k, U1, mkLev (fc_locals c1) Ul :: E1)
              end = Some (None, U, mkLev (fc_locals c1) (fc_ups c1) :: map lev_of r)
    | Some (k, slot) =>
      let '(uss, idx, ovf) := chain_ups (c_upvalues_max cf) (U :: map fc_ups (firstn k (c1 :: r))) slot in
      if ovf then match rup cf x (fc_ups c1) (map lev_of r) with
              | None => None
              | Some (None, _, _) => Some (None, U, mkLev (fc_locals c1) (fc_ups c1) :: map lev_of r)
              | Some (Some k1, Ul, E1) =>
                  let '(U1, k, ovf) := add_upvalue (c_upvalues_max cf) U k1 false in
                  if ovf then None else Some (Some k, U1, mkLev (fc_locals c1) Ul :: E1)
              end = None
      else match uss with
           | [] => False
           | U' :: uss' =>
               exists E', match rup cf x (fc_ups c1) (map lev_of r) with
              | None => None
              | Some (None, _, _) => Some (None, U, mkLev (fc_locals c1) (fc_ups c1) :: map lev_of r)
              | Some (Some k1, Ul, E1) =>
                  let '(U1, k, ovf) := add_upvalue (c_upvalues_max cf) U k1 false in
                  if ovf then None else Some (Some k, U1, mkLev (fc_locals c1) Ul :: E1)
              end = Some (Some idx, U', E') /\
                 put_levs (c1 :: r) E' =
                 (put_ups (firstn k (c1 :: r)) uss' ++
                  set_locals (nth k (c1 :: r) (new_fcomp true)) (mark_captured (fc_locals (nth k (c1 :: r) (new_fcomp true))) slot)
                  :: skipn (S k) (c1 :: r))%list
           end
    end).
  { specialize (IH (fc_ups c1)). destruct (find_enclosing r x) as [[k slot]|].
    - cbn [firstn map]. rewrite chain_ups_cons2.
      destruct (chain_ups (c_upvalues_max cf) (fc_ups c1 :: map fc_ups (firstn k r)) slot) as [[uss1 k1] e1].
      destruct e1.
      + rewrite IH. destruct (add_upvalue (c_upvalues_max cf) U k1 false) as [[u' k'] e]. reflexivity.
      + destruct uss1 as [|Ul uss]; [contradiction|]. destruct IH as (E1 & IH1 & IH2). rewrite IH1.
        destruct (add_upvalue (c_upvalues_max cf) U k1 false) as [[u' k'] e]. cbn [orb].
        destruct e; [reflexivity|].
        exists (mkLev (fc_locals c1) Ul :: E1). split; [reflexivity|].
        cbn [put_levs put_ups nth skipn app]. rewrite put_lev_ups, IH2. reflexivity.
    - rewrite IH. reflexivity. }
  destruct (resolve_local (fc_locals c1) x) as [[slot [|]]|]; [|exact Hrec|exact Hrec].
  cbn [firstn map]. rewrite chain_ups_one.
  destruct (add_upvalue (c_upvalues_max cf) U slot true) as [[U1 k] ovf]. destruct ovf; [reflexivity|].
  exists (mkLev (mark_captured (fc_locals c1) slot) (fc_ups c1) :: map lev_of r). split; [reflexivity|].
  cbn [put_levs put_ups nth skipn app]. rewrite put_lev_locals, put_levs_id. reflexivity.
Qed.

Lemma resolve_variable_stk : forall cf x c cs fs,
  match rvn cf (fc_locals c) (fc_ups c) (map lev_of cs) x with
  | Some (r, U', E') => resolve_variable cf x (stk c cs fs) = (stk (set_ups c U') (put_levs cs E') fs, r)
  | None => errd (fst (resolve_variable cf x (stk c cs fs)))
  end.
Proof.
  intros cf x c cs fs. unfold rvn, resolve_variable, stk. cbn [cs_comps cs_funs cs_err].
  destruct (resolve_local (fc_locals c) x) as [[s [|]]|].
  - rewrite set_ups_id, put_levs_id. reflexivity.
  - cbn [fst]. apply errd_fail.
  - pose proof (rup_find cf x cs (fc_ups c)) as H.
    destruct (find_enclosing cs x) as [[k slot]|].
    + change (map fc_ups (c :: firstn k cs)) with (fc_ups c :: map fc_ups (firstn k cs)).
      destruct (chain_ups (c_upvalues_max cf) (fc_ups c :: map fc_ups (firstn k cs)) slot) as [[uss idx] ovf].
      destruct ovf.
      * rewrite H. cbn [fst]. apply errd_fail.
      * destruct uss as [|U' uss']; [contradiction|]. destruct H as (E' & H1 & H2). rewrite H1.
        cbn [put_ups app]. rewrite H2. reflexivity.
    + rewrite H. rewrite set_ups_id, put_levs_id. reflexivity.
Qed.

(* ------------------------------------------------------------------------------------------ *)
(* Part 2: an invariant of the pure compiler: the locals of the enclosing levels keep names and depths (their
   is_captured flags only rise; in particular the number of levels is kept), and the upvalue list of the outermost
   function never changes (nothing encloses it) *)

Definition levs_up (E E' : list lev) : Prop :=
  Forall2 (fun l l' => flags_up (lv_locals l) (lv_locals l')) E E'.

Fixpoint outer_ups (U : ups_t) (E : list lev) : ups_t :=
  match E with [] => U | l :: E' => outer_ups (lv_ups l) E' end.

Definition ninv (U : ups_t) (E : list lev) (U' : ups_t) (E' : list lev) : Prop :=
  levs_up E E' /\ outer_ups U' E' = outer_ups U E.

Lemma levs_up_refl : forall E, levs_up E E.
Proof. unfold levs_up. induction E as [|l E IH]; constructor; [apply flags_up_refl|exact IH]. Qed.

Lemma levs_up_trans : forall A B C, levs_up A B -> levs_up B C -> levs_up A C.
Proof.
  unfold levs_up. intros A B C H. revert C.
  induction H as [|a b A B Hab H IH]; intros C HC; inversion HC as [|b' c B' C' Hbc HC']; subst; constructor.
  - eapply flags_up_trans; eauto.
  - apply IH. exact HC'.
Qed.

Lemma levs_up_length : forall E E', levs_up E E' -> List.length E' = List.length E.
Proof. intros E E' H. induction H as [|l l' E E' _ H IH]; cbn; [reflexivity|now rewrite IH]. Qed.

Lemma ninv_refl : forall U E, ninv U E U E.
Proof. intros U E. split; [apply levs_up_refl|reflexivity]. Qed.

Lemma ninv_trans : forall U E U1 E1 U2 E2, ninv U E U1 E1 -> ninv U1 E1 U2 E2 -> ninv U E U2 E2.
Proof.
  intros U E U1 E1 U2 E2 [A1 B1] [A2 B2]. split; [eapply levs_up_trans; eauto|congruence].
Qed.

Lemma ninv_length : forall U E U' E', ninv U E U' E' -> List.length E' = List.length E.
Proof. intros U E U' E' [H _]. now apply levs_up_length. Qed.

Lemma ninv_nil : forall U U' E', ninv U [] U' E' -> U' = U /\ E' = [].
Proof. intros U U' E' [A B]. inversion A; subst. cbn in B. auto. Qed.

Lemma rup_inv : forall cf x E U r U' E', rup cf x U E = Some (r, U', E') -> ninv U E U' E'.
Proof.
  intros cf x E. induction E as [|l E0 IH]; intros U r U' E'; cbn [rup].
  - intros [= <- <- <-]. apply ninv_refl.
  - assert (Hrec :
      match rup cf x (lv_ups l) E0 with
      | None => None
      | Some (None, _, _) => Some (None, U, l :: E0)
      | Some (Some k1, Ul, E1) =>
          let '(U1, k, ovf) := add_upvalue (c_upvalues_max cf) U k1 false in
          if ovf then None else Some (Some k, U1, mkLev (lv_locals l) Ul :: E1)
      end = Some (r, U', E') -> ninv U (l :: E0) U' E').
    { destruct (rup cf x (lv_ups l) E0) as [[[[k1|] Ul] E1]|] eqn:Er; [| |discriminate].
      - destruct (add_upvalue (c_upvalues_max cf) U k1 false) as [[U1 k] ovf]. destruct ovf; [discriminate|].
        intros [= <- <- <-]. destruct (IH _ _ _ _ Er) as [A B]. split.
        + constructor; [apply flags_up_refl|exact A].
        + cbn [outer_ups lv_ups]. exact B.
      - intros [= <- <- <-]. apply ninv_refl. }
    destruct (resolve_local (lv_locals l) x) as [[slot [|]]|]; [|exact Hrec|exact Hrec].
    destruct (add_upvalue (c_upvalues_max cf) U slot true) as [[U1 k] ovf]. destruct ovf; [discriminate|].
    intros [= <- <- <-]. split.
    + constructor; [apply flags_up_mark_captured|apply levs_up_refl].
    + reflexivity.
Qed.

Lemma rvn_inv : forall cf L U E x r U' E', rvn cf L U E x = Some (r, U', E') -> ninv U E U' E'.
Proof.
  intros cf L U E x r U' E'. unfold rvn. destruct (resolve_local L x) as [[s [|]]|].
  - intros [= <- <- <-]. apply ninv_refl.
  - discriminate.
  - destruct (rup cf x U E) as [[[[k|] U1] E1]|] eqn:Er; [| |discriminate].
    + intros [= <- <- <-]. eapply rup_inv; eauto.
    + intros [= <- <- <-]. apply ninv_refl.
Qed.

Lemma nexpr_call : forall cf L f args U E,
  nexpr cf L (ECall f args) U E =
  match rvn cf L U E f with
  | Some (r, U0, E0) =>
      match nargs cf L args U0 E0 with
      | Some (cargs, U3, E3) => Some ((get_op r f :: cargs ++ [ICall (List.length args)])%list, U3, E3)
      | None => None
      end
  | None => None
  end.
Proof.
  intros cf L f args U E. cbn [nexpr].
  destruct (rvn cf L U E f) as [[[r U0] E0]|]; [|reflexivity].
  match goal with |- match ?g args U0 E0 with _ => _ end = _ =>
    assert (Eq : forall l U1 E1, g l U1 E1 = nargs cf L l U1 E1) end.
  { induction l as [|a t IH]; intros U1 E1; [reflexivity|]. cbn [nargs].
    destruct (nexpr cf L a U1 E1) as [[[ca U2] E2]|]; [|reflexivity]. now rewrite IH. }
  now rewrite Eq.
Qed.

Lemma nargs_inv_aux : forall cf L args,
  Forall (fun e => forall U E ce U' E', nexpr cf L e U E = Some (ce, U', E') -> ninv U E U' E') args ->
  forall U E ca U' E', nargs cf L args U E = Some (ca, U', E') -> ninv U E U' E'.
Proof.
  intros cf L args H. induction H as [|a r Ha Hr IH]; intros U E ca U' E'; cbn [nargs].
  - intros [= <- <- <-]. apply ninv_refl.
  - destruct (nexpr cf L a U E) as [[[ca1 U1] E1]|] eqn:E1'; [|discriminate].
    destruct (nargs cf L r U1 E1) as [[[ct U2] E2]|] eqn:E2'; [|discriminate].
    intros [= <- <- <-]. eapply ninv_trans; [eapply Ha; eauto|eapply IH; eauto].
Qed.

Lemma nexpr_inv : forall cf e, expr2 e = true ->
  forall L U E ce U' E', nexpr cf L e U E = Some (ce, U', E') -> ninv U E U' E'.
Proof.
  intros cf e He L. revert e He.
  apply (expr2_ind (fun e => forall U E ce U' E', nexpr cf L e U E = Some (ce, U', E') -> ninv U E U' E')).
  - intros n U E ce U' E'. cbn [nexpr]. intros [= <- <- <-]. apply ninv_refl.
  - intros x U E ce U' E'. cbn [nexpr]. destruct (rvn cf L U E x) as [[[r U1] E1]|] eqn:Er; [|discriminate].
    intros [= <- <- <-]. eapply rvn_inv; eauto.
  - intros a b _ _ IHa IHb U E ce U' E'. cbn [nexpr].
    destruct (nexpr cf L a U E) as [[[ca U1] E1]|] eqn:E1'; [|discriminate].
    destruct (nexpr cf L b U1 E1) as [[[cb U2] E2]|] eqn:E2'; [|discriminate].
    intros [= <- <- <-]. eapply ninv_trans; [eapply IHa; eauto|eapply IHb; eauto].
  - intros f args _ IH U E ce U' E'. rewrite nexpr_call.
    destruct (rvn cf L U E f) as [[[r U0] E0]|] eqn:E0'; [|discriminate].
    destruct (nargs cf L args U0 E0) as [[[ca U3] E3]|] eqn:E1'; [|discriminate].
    intros [= <- <- <-]. eapply ninv_trans; [eapply rvn_inv; eauto|eapply nargs_inv_aux; eauto].
Qed.

Lemma nargs_inv : forall cf args, forallb expr2 args = true ->
  forall L U E ca U' E', nargs cf L args U E = Some (ca, U', E') -> ninv U E U' E'.
Proof.
  intros cf args Hb L. apply nargs_inv_aux.
  induction args as [|a r IH]; constructor.
  - cbn in Hb. apply andb_prop in Hb as [Ha _]. intros U E ce U' E'. now apply nexpr_inv.
  - cbn in Hb. apply andb_prop in Hb as [_ Hr]. now apply IH.
Qed.

(* the local `fix` nl of nstmt = nlist, the local nfun = nfunc *)
Lemma nl_eq : forall cf l dd L U E fs,
  (fix go (l : list stmt) (dd : nat) (L : list local) (U : ups_t) (E : list lev) (fs : list func) : option nres :=
    match l with
    | [] => Some ([], L, U, E, fs)
    | a :: r => match nstmt cf a L dd U E fs with
                | Some (ca, L1, U1, E1, fs1) =>
                    match go r dd L1 U1 E1 fs1 with
                    | Some (cr, L2, U2, E2, fs2) => Some ((ca ++ cr)%list, L2, U2, E2, fs2)
                    | None => None
                    end
                | None => None
                end
    end) l dd L U E fs = nlist cf l dd L U E fs.
Proof.
  intros cf l. induction l as [|a r IH]; intros dd L U E fs; [reflexivity|]. cbn [nlist].
  destruct (nstmt cf a L dd U E fs) as [[[[[ca L1] U1] E1] fs1]|]; [|reflexivity]. now rewrite IH.
Qed.

Lemma nstmt_block : forall cf b L d U E fs,
  nstmt cf (SBlock b) L d U E fs =
  match nlist cf b (S d) L U E fs with
  | Some (cb, L', U', E', fs') =>
      let ops := scope_end_ops L' d in Some ((cb ++ ops)%list, skipn (List.length ops) L', U', E', fs')
  | None => None
  end.
Proof. intros cf b L d U E fs. cbn [nstmt]. rewrite nl_eq. reflexivity. Qed.

Lemma nstmt_fun : forall cf f ps b L d U E fs,
  nstmt cf (SFun f ps b) L d U E fs =
  if d =? 0 then
    match nfunc cf ps b L U E fs with
    | Some (ci, L', U', E', fs') => Some ([ci; IDefineGlobal f], L', U', E', fs')
    | None => None
    end
  else if dup_in_scope L f d then None
  else if List.length L =? c_locals_max cf then None
  else
    match nfunc cf ps b (mkLocal (Some f) (Some d) false :: L) U E fs with
    | Some (ci, L', U', E', fs') => Some ([ci], L', U', E', fs')
    | None => None
    end.
Proof.
  intros cf f ps b L d U E fs. cbn [nstmt]. unfold nfunc.
  destruct (bparams cf ps [mkLocal None (Some 0) false]) as [Lp|]; [|reflexivity].
  rewrite !nl_eq. reflexivity.
Qed.

Lemma nstmt_lam : forall cf x ps b L d U E fs,
  nstmt cf (SLam x ps b) L d U E fs =
  if d =? 0 then
    match nfunc cf ps b L U E fs with
    | Some (ci, L', U', E', fs') => Some ([ci; IDefineGlobal x], L', U', E', fs')
    | None => None
    end
  else if dup_in_scope L x d then None
  else if List.length L =? c_locals_max cf then None
  else
    match nfunc cf ps b (mkLocal (Some x) None false :: L) U E fs with
    | Some (ci, l0 :: L', U', E', fs') => Some ([ci], mkLocal (Some x) (Some d) (l_capt l0) :: L', U', E', fs')
    | _ => None
    end.
Proof.
  intros cf x ps b L d U E fs. cbn [nstmt]. unfold nfunc.
  destruct (bparams cf ps [mkLocal None (Some 0) false]) as [Lp|]; [|reflexivity].
  rewrite !nl_eq. reflexivity.
Qed.

Definition inv_goal (cf : cfg) (s : stmt) : Prop := forall L d U E fs code L' U' E' fs',
  nstmt cf s L d U E fs = Some (code, L', U', E', fs') -> ninv U E U' E'.

Lemma nlist_inv_aux : forall cf b, Forall (inv_goal cf) b ->
  forall d L U E fs code L' U' E' fs', nlist cf b d L U E fs = Some (code, L', U', E', fs') -> ninv U E U' E'.
Proof.
  intros cf b H. induction H as [|a r Ha Hr IH]; intros d L U E fs code L' U' E' fs'; cbn [nlist].
  - intros [= <- <- <- <- <-]. apply ninv_refl.
  - destruct (nstmt cf a L d U E fs) as [[[[[ca L1] U1] E1] fs1]|] eqn:E1'; [|discriminate].
    destruct (nlist cf r d L1 U1 E1 fs1) as [[[[[cr L2] U2] E2] fs2]|] eqn:E2'; [|discriminate].
    intros [= <- <- <- <- <-]. eapply ninv_trans; [eapply Ha; eauto|eapply IH; eauto].
Qed.

(* a function: the invariant for the levels enclosing the definition, and the locals of the function the definition
   stands in keep names and depths *)
Lemma nfunc_inv_aux : forall cf ps b, Forall (inv_goal cf) b ->
  forall L1 U E fs ci L' U' E' fs', nfunc cf ps b L1 U E fs = Some (ci, L', U', E', fs') ->
  ninv U E U' E' /\ flags_up L1 L'.
Proof.
  intros cf ps b Hb L1 U E fs ci L' U' E' fs'. unfold nfunc.
  destruct (bparams cf ps [mkLocal None (Some 0) false]) as [Lp|]; [|discriminate].
  destruct (nlist cf b 1 Lp [] (mkLev L1 U :: E) fs) as [[[[[cb Lb] Ub] Eb] fs1]|] eqn:El; [|discriminate].
  cbn [nclose]. destruct Eb as [|lv E1]; [discriminate|]. intros [= <- <- <- <- <-].
  destruct (nlist_inv_aux cf b Hb _ _ _ _ _ _ _ _ _ _ El) as [A B].
  inversion A as [|? ? ? ? Hh Ht]; subst. cbn [outer_ups lv_ups lv_locals] in *.
  split; [split; [exact Ht|exact B]|exact Hh].
Qed.

Lemma nstmt_inv : forall cf s, stmt5w s = true -> forall L d U E fs code L' U' E' fs',
  nstmt cf s L d U E fs = Some (code, L', U', E', fs') -> ninv U E U' E'.
Proof.
  intros cf s Hs. change (inv_goal cf s). pattern s. revert s Hs. apply stmt5w_ind.
  - intros x e He L d U E fs code L' U' E' fs'. cbn [nstmt]. destruct (d =? 0).
    + destruct (nexpr cf L e U E) as [[[ce U1] E1]|] eqn:Ee; [|discriminate].
      intros [= <- <- <- <- <-]. eapply nexpr_inv; eauto.
    + destruct (dup_in_scope L x d); [discriminate|]. destruct (List.length L =? c_locals_max cf); [discriminate|].
      destruct (nexpr cf _ e U E) as [[[ce U1] E1]|] eqn:Ee; [|discriminate].
      intros [= <- <- <- <- <-]. eapply nexpr_inv; eauto.
  - intros x e He L d U E fs code L' U' E' fs'. cbn [nstmt].
    destruct (rvn cf L U E x) as [[[r U0] E0]|] eqn:Er; [|discriminate].
    destruct (nexpr cf L e U0 E0) as [[[ce U1] E1]|] eqn:Ee; [|discriminate].
    intros [= <- <- <- <- <-]. eapply ninv_trans; [eapply rvn_inv; eauto|eapply nexpr_inv; eauto].
  - intros e He L d U E fs code L' U' E' fs'. cbn [nstmt].
    destruct (nexpr cf L e U E) as [[[ce U1] E1]|] eqn:Ee; [|discriminate].
    intros [= <- <- <- <- <-]. eapply nexpr_inv; eauto.
  - intros e He L d U E fs code L' U' E' fs'. cbn [nstmt].
    destruct (nexpr cf L e U E) as [[[ce U1] E1]|] eqn:Ee; [|discriminate].
    intros [= <- <- <- <- <-]. eapply nexpr_inv; eauto.
  - intros e He L d U E fs code L' U' E' fs'. cbn [nstmt].
    destruct (nexpr cf L e U E) as [[[ce U1] E1]|] eqn:Ee; [|discriminate].
    intros [= <- <- <- <- <-]. eapply nexpr_inv; eauto.
  - intros b Hb IH L d U E fs code L' U' E' fs'. rewrite nstmt_block.
    destruct (nlist cf b (S d) L U E fs) as [[[[[cb L1] U1] E1] fs1]|] eqn:El; [|discriminate].
    cbv zeta. intros [= <- <- <- <- <-]. eapply nlist_inv_aux; eauto.
  - intros f ps b Hb IH L d U E fs code L' U' E' fs'. rewrite nstmt_fun. destruct (d =? 0).
    + destruct (nfunc cf ps b L U E fs) as [[[[[ci L1] U1] E1] fs1]|] eqn:Ef; [|discriminate].
      intros [= <- <- <- <- <-]. eapply nfunc_inv_aux; eauto.
    + destruct (dup_in_scope L f d); [discriminate|]. destruct (List.length L =? c_locals_max cf); [discriminate|].
      destruct (nfunc cf ps b _ U E fs) as [[[[[ci L1] U1] E1] fs1]|] eqn:Ef; [|discriminate].
      intros [= <- <- <- <- <-]. eapply nfunc_inv_aux; eauto.
  - intros x ps b Hb IH L d U E fs code L' U' E' fs'. rewrite nstmt_lam. destruct (d =? 0).
    + destruct (nfunc cf ps b L U E fs) as [[[[[ci L1] U1] E1] fs1]|] eqn:Ef; [|discriminate].
      intros [= <- <- <- <- <-]. eapply nfunc_inv_aux; eauto.
    + destruct (dup_in_scope L x d); [discriminate|]. destruct (List.length L =? c_locals_max cf); [discriminate|].
      destruct (nfunc cf ps b _ U E fs) as [[[[[ci L1] U1] E1] fs1]|] eqn:Ef; [|discriminate].
      destruct L1 as [|l0 L1]; [discriminate|].
      intros [= <- <- <- <- <-]. eapply nfunc_inv_aux; eauto.
Qed.

Lemma stmt5w_all_inv : forall cf b, forallb stmt5w b = true -> Forall (inv_goal cf) b.
Proof.
  intros cf b Hb. induction b as [|a r IH]; constructor.
  - cbn in Hb. apply andb_prop in Hb as [Ha _]. unfold inv_goal. now apply nstmt_inv.
  - cbn in Hb. apply andb_prop in Hb as [_ Hr]. now apply IH.
Qed.

Lemma nlist_inv : forall cf b, forallb stmt5w b = true -> forall d L U E fs code L' U' E' fs',
  nlist cf b d L U E fs = Some (code, L', U', E', fs') -> ninv U E U' E'.
Proof. intros cf b Hb. apply nlist_inv_aux. now apply stmt5w_all_inv. Qed.

Lemma nfunc_inv : forall cf ps b, forallb stmt5w b = true ->
  forall L1 U E fs ci L' U' E' fs', nfunc cf ps b L1 U E fs = Some (ci, L', U', E', fs') ->
  ninv U E U' E' /\ flags_up L1 L'.
Proof. intros cf ps b Hb. apply nfunc_inv_aux. now apply stmt5w_all_inv. Qed.

(* the number of enclosing levels is kept *)
Lemma nexpr_len : forall cf e, expr2 e = true -> forall L U E ce U' E',
  nexpr cf L e U E = Some (ce, U', E') -> List.length E' = List.length E.
Proof. intros cf e He L U E ce U' E' H. eapply ninv_length, nexpr_inv; eauto. Qed.

Lemma nstmt_len : forall cf s, stmt5w s = true -> forall L d U E fs code L' U' E' fs',
  nstmt cf s L d U E fs = Some (code, L', U', E', fs') -> List.length E' = List.length E.
Proof. intros cf s Hs L d U E fs code L' U' E' fs' H. eapply ninv_length, nstmt_inv; eauto. Qed.

Lemma nlist_len : forall cf b, forallb stmt5w b = true -> forall d L U E fs code L' U' E' fs',
  nlist cf b d L U E fs = Some (code, L', U', E', fs') -> List.length E' = List.length E.
Proof. intros cf b Hb d L U E fs code L' U' E' fs' H. eapply ninv_length, nlist_inv; eauto. Qed.

(* with no enclosing level the upvalue list never changes *)
Lemma rup_nil : forall cf x U, rup cf x U [] = Some (None, U, []).
Proof. reflexivity. Qed.

Lemma nstmt_nil : forall cf s, stmt5w s = true -> forall L d U fs code L' U' E' fs',
  nstmt cf s L d U [] fs = Some (code, L', U', E', fs') -> U' = U /\ E' = [].
Proof. intros cf s Hs L d U fs code L' U' E' fs' H. eapply ninv_nil, nstmt_inv; eauto. Qed.

Lemma nlist_nil : forall cf b, forallb stmt5w b = true -> forall d L U fs code L' U' E' fs',
  nlist cf b d L U [] fs = Some (code, L', U', E', fs') -> U' = U /\ E' = [].
Proof. intros cf b Hb d L U fs code L' U' E' fs' H. eapply ninv_nil, nlist_inv; eauto. Qed.

(* ------------------------------------------------------------------------------------------ *)
(* Part 3: the error flag is sticky through the fragment, whatever the stack *)

Lemma errd_comp_stmt5w : forall cf s, stmt5w s = true -> forall st, errd st -> errd (comp_stmt cf s st).
Proof.
  intros cf s Hs. pattern s. revert s Hs. apply stmt5w_ind.
  - intros x e He st H. cbn [comp_stmt]. apply errd_define_variable. apply errd_comp_expr2; [exact He|].
    apply errd_declare_variable; exact H.
  - intros x e He st H. cbn [comp_stmt]. pose proof (errd_resolve_variable cf x st H) as H1.
    destruct (resolve_variable cf x st) as [st1 r]. apply errd_emit, errd_emit. apply errd_comp_expr2; [exact He|exact H1].
  - intros e He st H. cbn [comp_stmt]. apply errd_emit, errd_emit. apply errd_comp_expr2; [exact He|]. apply errd_emit; exact H.
  - intros e He st H. cbn [comp_stmt]. apply errd_emit. apply errd_comp_expr2; [exact He|exact H].
  - intros e He st H. cbn [comp_stmt]. cbv zeta.
    assert (H0 : errd (if fc_script (top_of st) then fail st "Cannot return from top-level code." else st)).
    { destruct (fc_script (top_of st)); [apply errd_fail|exact H]. }
    pose proof (errd_comp_expr2 cf e He _ H0) as H1.
    destruct (fc_intry _); [apply errd_fail|now apply errd_emit].
  - intros b Hb IH st H. rewrite comp_stmt_block. apply errd_end_scope.
    apply errd_comp_list_aux; [exact IH|]. now apply errd_on_top.
  - intros f ps b Hb IH st H. rewrite comp_stmt_fun. apply errd_define_variable, errd_finalise_function.
    apply errd_comp_list_aux; [exact IH|]. apply errd_open_function, errd_mark_initialised, errd_declare_variable, H.
  - intros x ps b Hb IH st H. rewrite comp_stmt_lam. apply errd_define_variable, errd_finalise_function.
    apply errd_comp_list_aux; [exact IH|]. apply errd_open_function, errd_declare_variable, H.
Qed.

Lemma errd_comp_list5w : forall cf b, forallb stmt5w b = true -> forall st, errd st -> errd (comp_list cf b st).
Proof.
  intros cf b. induction b as [|a r IH]; intros Hb st H; [exact H|].
  cbn in Hb. apply andb_prop in Hb as [Ha Hr]. rewrite comp_list_cons. apply IH; auto. now apply errd_comp_stmt5w.
Qed.

(* ------------------------------------------------------------------------------------------ *)
(* Part 4: expressions *)

(* c with new code, locals and upvalue list *)
Definition with_clu (c : fcomp) (code : list instr) (L : list local) (U : ups_t) : fcomp :=
  mkFC code L U (fc_depth c) (fc_loops c) (fc_breaks c) (fc_intry c) (fc_arity c) (fc_script c).

Lemma with_clu_set : forall c ce U, set_ups (set_code c (fc_code c ++ ce)) U = with_clu c (fc_code c ++ ce) (fc_locals c) U.
Proof. reflexivity. Qed.

Lemma emit_stk : forall c cs fs i, emit i (stk c cs fs) = stk (set_code c (fc_code c ++ [i])) cs fs.
Proof. reflexivity. Qed.

Lemma emits_stk : forall l c cs fs, emits l (stk c cs fs) = stk (set_code c (fc_code c ++ l)) cs fs.
Proof.
  induction l as [|i r IH]; intros c cs fs; cbn [emits].
  - rewrite app_nil_r. destruct c; reflexivity.
  - rewrite emit_stk, IH. cbn. now rewrite <- app_assoc.
Qed.

Definition expr_goalN (cf : cfg) (e : expr) : Prop := forall c cs fs,
  match nexpr cf (fc_locals c) e (fc_ups c) (map lev_of cs) with
  | Some (ce, U', E') => comp_expr cf e (stk c cs fs) =
       stk (set_ups (set_code c (fc_code c ++ ce)) U') (put_levs cs E') fs
  | None => errd (comp_expr cf e (stk c cs fs))
  end.

Lemma comp_args_N_aux : forall cf args, Forall (expr_goalN cf) args -> forallb expr2 args = true ->
  forall c cs fs,
  match nargs cf (fc_locals c) args (fc_ups c) (map lev_of cs) with
  | Some (ca, U', E') => comp_args cf args (stk c cs fs) =
       stk (set_ups (set_code c (fc_code c ++ ca)) U') (put_levs cs E') fs
  | None => errd (comp_args cf args (stk c cs fs))
  end.
Proof.
  intros cf args H. induction H as [|a r Ha Hr IH]; intros Hb c cs fs.
  - cbn. rewrite app_nil_r, put_levs_id. destruct c; reflexivity.
  - cbn in Hb. apply andb_prop in Hb as [Hb1 Hb2]. cbn [nargs]. rewrite comp_args_cons.
    specialize (Ha c cs fs).
    destruct (nexpr cf (fc_locals c) a (fc_ups c) (map lev_of cs)) as [[[ca U1] E1]|] eqn:Ea.
    + rewrite Ha. pose proof (nexpr_len cf a Hb1 _ _ _ _ _ _ Ea) as Hl1. rewrite map_length in Hl1.
      specialize (IH Hb2 (set_ups (set_code c (fc_code c ++ ca)) U1) (put_levs cs E1) fs).
      cbn [fc_locals fc_ups fc_code set_ups set_code] in IH. rewrite (map_lev_of_put_levs cs E1 Hl1) in IH.
      destruct (nargs cf (fc_locals c) r U1 E1) as [[[ct U2] E2]|] eqn:Et.
      * rewrite IH. pose proof (ninv_length _ _ _ _ (nargs_inv cf r Hb2 _ _ _ _ _ _ Et)) as Hl2.
        rewrite put_levs_put_levs by lia. cbn. now rewrite <- app_assoc.
      * exact IH.
    + apply (errd_comp_args cf r Hb2). exact Ha.
Qed.

Lemma comp_expr_N : forall cf e, expr2 e = true -> forall c cs fs,
  match nexpr cf (fc_locals c) e (fc_ups c) (map lev_of cs) with
  | Some (ce, U', E') => comp_expr cf e (stk c cs fs) =
       stk (set_ups (set_code c (fc_code c ++ ce)) U') (put_levs cs E') fs
  | None => errd (comp_expr cf e (stk c cs fs))
  end.
Proof.
  intros cf e He. change (expr_goalN cf e). pattern e. revert e He. apply expr2_ind.
  - intros n c cs fs. cbn [nexpr comp_expr]. rewrite emit_stk, put_levs_id. destruct c; reflexivity.
  - intros x c cs fs. cbn [nexpr comp_expr]. unfold named_get.
    pose proof (resolve_variable_stk cf x c cs fs) as H.
    destruct (rvn cf (fc_locals c) (fc_ups c) (map lev_of cs) x) as [[[r U'] E']|].
    + rewrite H, emit_stk. reflexivity.
    + destruct (resolve_variable cf x (stk c cs fs)) as [st1 r]. now apply errd_emit.
  - intros a b Ha Hb IHa IHb c cs fs. cbn [nexpr comp_expr].
    specialize (IHa c cs fs).
    destruct (nexpr cf (fc_locals c) a (fc_ups c) (map lev_of cs)) as [[[ca U1] E1]|] eqn:Ea.
    + rewrite IHa. pose proof (nexpr_len cf a Ha _ _ _ _ _ _ Ea) as Hl1. rewrite map_length in Hl1.
      specialize (IHb (set_ups (set_code c (fc_code c ++ ca)) U1) (put_levs cs E1) fs).
      cbn [fc_locals fc_ups fc_code set_ups set_code] in IHb. rewrite (map_lev_of_put_levs cs E1 Hl1) in IHb.
      destruct (nexpr cf (fc_locals c) b U1 E1) as [[[cb0 U2] E2]|] eqn:Eb.
      * rewrite IHb, emit_stk. pose proof (nexpr_len cf b Hb _ _ _ _ _ _ Eb) as Hl2.
        rewrite put_levs_put_levs by lia. cbn. now rewrite <- !app_assoc.
      * now apply errd_emit.
    + apply errd_emit. apply errd_comp_expr2; auto.
  - intros f args Hargs IH c cs fs. rewrite nexpr_call, comp_expr_call. unfold named_get.
    pose proof (resolve_variable_stk cf f c cs fs) as H.
    destruct (rvn cf (fc_locals c) (fc_ups c) (map lev_of cs) f) as [[[r U0] E0]|] eqn:Er.
    + rewrite H, emit_stk. pose proof (ninv_length _ _ _ _ (rvn_inv _ _ _ _ _ _ _ _ Er)) as Hl0.
      rewrite map_length in Hl0.
      pose proof (comp_args_N_aux cf args IH Hargs
                    (set_code (set_ups c U0) (fc_code (set_ups c U0) ++ [get_op r f])) (put_levs cs E0) fs) as Ha.
      cbn [fc_locals fc_ups fc_code set_ups set_code] in Ha |- *. rewrite (map_lev_of_put_levs cs E0 Hl0) in Ha.
      destruct (nargs cf (fc_locals c) args U0 E0) as [[[ca U3] E3]|] eqn:Ea.
      * rewrite Ha, emit_stk. pose proof (ninv_length _ _ _ _ (nargs_inv cf args Hargs _ _ _ _ _ _ Ea)) as Hl3.
        rewrite put_levs_put_levs by lia. cbn. now rewrite <- !app_assoc.
      * now apply errd_emit.
    + destruct (resolve_variable cf f (stk c cs fs)) as [st1 r]. apply errd_emit.
      apply errd_comp_args; [exact Hargs|]. now apply errd_emit.
Qed.

Lemma expr2_all_goalN : forall cf args, forallb expr2 args = true -> Forall (expr_goalN cf) args.
Proof.
  intros cf args Hb. induction args as [|a r IH]; constructor.
  - cbn in Hb. apply andb_prop in Hb as [Ha _]. intros c cs fs. now apply comp_expr_N.
  - cbn in Hb. apply andb_prop in Hb as [_ Hr]. now apply IH.
Qed.

Lemma comp_args_N : forall cf args, forallb expr2 args = true -> forall c cs fs,
  match nargs cf (fc_locals c) args (fc_ups c) (map lev_of cs) with
  | Some (ca, U', E') => comp_args cf args (stk c cs fs) =
       stk (set_ups (set_code c (fc_code c ++ ca)) U') (put_levs cs E') fs
  | None => errd (comp_args cf args (stk c cs fs))
  end.
Proof. intros cf args Hb. apply comp_args_N_aux; [now apply expr2_all_goalN|exact Hb]. Qed.

(* ------------------------------------------------------------------------------------------ *)
(* Part 5: statements.  A function definition pushes a compiler: the body is compiled on the stack new :: c :: cs *)

Lemma param_step_stk : forall cf p a Lb cs fs,
  if dup_in_scope Lb p 1 then errd (param_step cf (stk (fbody a Lb) cs fs) p)
  else if List.length Lb =? c_locals_max cf then errd (param_step cf (stk (fbody a Lb) cs fs) p)
  else param_step cf (stk (fbody a Lb) cs fs) p = stk (fbody (S a) (mkLocal (Some p) (Some 1) false :: Lb)) cs fs.
Proof.
  intros cf p a Lb cs fs. unfold param_step.
  change (on_top (fun c0 : fcomp => set_arity c0 (S (fc_arity c0))) (stk (fbody a Lb) cs fs)) with (stk (fbody (S a) Lb) cs fs).
  unfold declare_variable. rewrite top_of_stk. cbn [fc_depth fbody Nat.eqb fc_locals].
  destruct (dup_in_scope Lb p 1) eqn:Edup.
  - apply errd_define_variable.
    unfold add_local. destruct (_ =? c_locals_max cf); [apply errd_fail|apply errd_on_top, errd_fail].
  - unfold add_local. rewrite top_of_stk. cbn [fc_locals fbody].
    destruct (List.length Lb =? c_locals_max cf) eqn:Emax.
    + apply errd_define_variable, errd_fail.
    + reflexivity.
Qed.

Lemma open_params_stk : forall cf ps a Lb cs fs,
  match bparams cf ps Lb with
  | Some Lb' => fold_left (param_step cf) ps (stk (fbody a Lb) cs fs) = stk (fbody (List.length ps + a) Lb') cs fs
  | None => errd (fold_left (param_step cf) ps (stk (fbody a Lb) cs fs))
  end.
Proof.
  intros cf ps. induction ps as [|p r IH]; intros a Lb cs fs; [reflexivity|].
  cbn [bparams fold_left]. pose proof (param_step_stk cf p a Lb cs fs) as Hp.
  destruct (dup_in_scope Lb p 1); [now apply errd_params|].
  destruct (List.length Lb =? c_locals_max cf); [now apply errd_params|].
  rewrite Hp. specialize (IH (S a) (mkLocal (Some p) (Some 1) false :: Lb) cs fs).
  destruct (bparams cf r (mkLocal (Some p) (Some 1) false :: Lb)) as [Lb'|].
  - rewrite IH. cbn [List.length]. now rewrite Nat.add_succ_r.
  - exact IH.
Qed.

Lemma open_function_stk : forall cf ps c cs fs,
  match bparams cf ps [mkLocal None (Some 0) false] with
  | Some Lb0 => open_function cf ps (stk c cs fs) = stk (fbody (List.length ps) Lb0) (c :: cs) fs
  | None => errd (open_function cf ps (stk c cs fs))
  end.
Proof.
  intros cf ps c cs fs. rewrite open_function_params.
  change (begin_scope (mkCst (new_fcomp false :: cs_comps (stk c cs fs)) (cs_funs (stk c cs fs)) (cs_err (stk c cs fs))))
    with (stk (fbody 0 [mkLocal None (Some 0) false]) (c :: cs) fs).
  pose proof (open_params_stk cf ps 0 [mkLocal None (Some 0) false] (c :: cs) fs) as H.
  destruct (bparams cf ps [mkLocal None (Some 0) false]) as [Lb0|]; [|exact H].
  rewrite H. now rewrite Nat.add_0_r.
Qed.

Lemma finalise_function_stk : forall cb c cs fs,
  finalise_function (stk cb (c :: cs) fs) =
  stk (set_code c (fc_code c ++ [clo_instr (List.length fs) (fc_ups cb)])) cs
      (fs ++ [mkFunc (fc_code cb ++ [INil; IReturn]) (fc_arity cb) (List.length (fc_ups cb))]).
Proof.
  intros cb c cs fs. unfold finalise_function. cbv zeta. rewrite emits_stk. reflexivity.
Qed.

Definition stmt_goalN (cf : cfg) (s : stmt) : Prop := forall c cs fs,
  noret s || retok c = true ->
  match nstmt cf s (fc_locals c) (fc_depth c) (fc_ups c) (map lev_of cs) fs with
  | Some (code, L', U', E', fs') => comp_stmt cf s (stk c cs fs) =
       stk (with_clu c (fc_code c ++ code) L' U') (put_levs cs E') fs'
  | None => errd (comp_stmt cf s (stk c cs fs))
  end.

Lemma comp_list_N_aux : forall cf b, Forall (stmt_goalN cf) b -> forallb stmt5w b = true ->
  forall c cs fs, forallb noret b || retok c = true ->
  match nlist cf b (fc_depth c) (fc_locals c) (fc_ups c) (map lev_of cs) fs with
  | Some (code, L', U', E', fs') => comp_list cf b (stk c cs fs) =
       stk (with_clu c (fc_code c ++ code) L' U') (put_levs cs E') fs'
  | None => errd (comp_list cf b (stk c cs fs))
  end.
Proof.
  intros cf b H. induction H as [|a r Ha Hr IH]; intros Hb c cs fs Hn.
  - cbn. rewrite app_nil_r, put_levs_id. destruct c; reflexivity.
  - cbn in Hb. apply andb_prop in Hb as [Hb1 Hb2]. cbn [nlist]. rewrite comp_list_cons.
    assert (Hn12 : noret a || retok c = true /\ forallb noret r || retok c = true).
    { cbn [forallb] in Hn. destruct (noret a), (forallb noret r), (retok c); cbn in Hn |- *; try discriminate; split; reflexivity. }
    destruct Hn12 as [Hn1 Hn2]. specialize (Ha c cs fs Hn1).
    destruct (nstmt cf a (fc_locals c) (fc_depth c) (fc_ups c) (map lev_of cs) fs) as [[[[[ca L1] U1] E1] fs1]|] eqn:Ea.
    + rewrite Ha. pose proof (nstmt_len cf a Hb1 _ _ _ _ _ _ _ _ _ _ Ea) as Hl1. rewrite map_length in Hl1.
      specialize (IH Hb2 (with_clu c (fc_code c ++ ca) L1 U1) (put_levs cs E1) fs1 Hn2).
      cbn [fc_locals fc_depth fc_ups fc_code with_clu] in IH. rewrite (map_lev_of_put_levs cs E1 Hl1) in IH.
      destruct (nlist cf r (fc_depth c) L1 U1 E1 fs1) as [[[[[cr L2] U2] E2] fs2]|] eqn:Er.
      * rewrite IH. pose proof (nlist_len cf r Hb2 _ _ _ _ _ _ _ _ _ _ Er) as Hl2.
        rewrite put_levs_put_levs by lia. cbn. now rewrite <- app_assoc.
      * exact IH.
    + apply (errd_comp_list5w cf r Hb2). exact Ha.
Qed.

(* function() / lambda(): open_function, the body, finalise_function *)
Lemma comp_func_N_aux : forall cf ps b, Forall (stmt_goalN cf) b -> forallb stmt5w b = true -> forall c cs fs,
  match nfunc cf ps b (fc_locals c) (fc_ups c) (map lev_of cs) fs with
  | Some (ci, L', U', E', fs') =>
      finalise_function (comp_list cf b (open_function cf ps (stk c cs fs))) =
      stk (with_clu c (fc_code c ++ [ci]) L' U') (put_levs cs E') fs'
  | None => errd (finalise_function (comp_list cf b (open_function cf ps (stk c cs fs))))
  end.
Proof.
  intros cf ps b IH Hb c cs fs. unfold nfunc.
  pose proof (open_function_stk cf ps c cs fs) as Ho.
  destruct (bparams cf ps [mkLocal None (Some 0) false]) as [Lb0|].
  - rewrite Ho.
    pose proof (comp_list_N_aux cf b IH Hb (fbody (List.length ps) Lb0) (c :: cs) fs (orb_true_r _)) as Hl.
    cbn [fc_depth fc_locals fc_ups fc_code fbody map] in Hl.
    change (lev_of c) with (mkLev (fc_locals c) (fc_ups c)) in Hl.
    destruct (nlist cf b 1 Lb0 [] (mkLev (fc_locals c) (fc_ups c) :: map lev_of cs) fs) as [[[[[cb Lb'] Ub] Eb] fs1]|] eqn:El.
    + pose proof (nlist_len cf b Hb _ _ _ _ _ _ _ _ _ _ El) as Hlen. cbn [List.length] in Hlen.
      destruct Eb as [|lv E1]; [discriminate|]. cbn [nclose]. rewrite Hl. cbn [put_levs].
      rewrite finalise_function_stk. reflexivity.
    + cbn [nclose]. now apply errd_finalise_function.
  - apply errd_finalise_function. apply errd_comp_list5w; [exact Hb|exact Ho].
Qed.

Lemma comp_stmt_N : forall cf s, stmt5w s = true -> forall c cs fs,
  noret s || retok c = true ->
  match nstmt cf s (fc_locals c) (fc_depth c) (fc_ups c) (map lev_of cs) fs with
  | Some (code, L', U', E', fs') => comp_stmt cf s (stk c cs fs) =
       stk (with_clu c (fc_code c ++ code) L' U') (put_levs cs E') fs'
  | None => errd (comp_stmt cf s (stk c cs fs))
  end.
Proof.
  intros cf s Hs. change (stmt_goalN cf s). pattern s. revert s Hs. apply stmt5w_ind.
  - (* SDecl *)
    intros x e He c cs fs _. cbn [nstmt comp_stmt]. unfold declare_variable. rewrite top_of_stk.
    destruct (fc_depth c =? 0) eqn:Ed.
    + pose proof (comp_expr_N cf e He c cs fs) as Hc.
      destruct (nexpr cf (fc_locals c) e (fc_ups c) (map lev_of cs)) as [[[ce U'] E']|].
      * rewrite Hc. unfold define_variable, at_top_level. rewrite top_of_stk. cbn [fc_depth set_ups set_code]. rewrite Ed.
        rewrite emit_stk. cbn. now rewrite <- app_assoc.
      * now apply errd_define_variable.
    + destruct (dup_in_scope (fc_locals c) x (fc_depth c)) eqn:Edup.
      * apply errd_define_variable. apply errd_comp_expr2; [exact He|].
        unfold add_local. destruct (_ =? c_locals_max cf); [apply errd_fail|apply errd_on_top, errd_fail].
      * unfold add_local. rewrite top_of_stk.
        destruct (List.length (fc_locals c) =? c_locals_max cf) eqn:Emax.
        -- apply errd_define_variable. apply errd_comp_expr2; [exact He|apply errd_fail].
        -- pose proof (comp_expr_N cf e He (set_locals c (mkLocal (Some x) None false :: fc_locals c)) cs fs) as Hc.
           cbn [fc_locals fc_ups fc_code set_locals] in Hc.
           change (on_top (fun c0 : fcomp => set_locals c0 (mkLocal (Some x) None false :: fc_locals c0)) (stk c cs fs))
             with (stk (set_locals c (mkLocal (Some x) None false :: fc_locals c)) cs fs).
           destruct (nexpr cf (mkLocal (Some x) None false :: fc_locals c) e (fc_ups c) (map lev_of cs)) as [[[ce U'] E']|].
           ++ rewrite Hc. unfold define_variable, at_top_level. rewrite top_of_stk.
              cbn [fc_depth set_ups set_code set_locals]. rewrite Ed.
              unfold mark_initialised, on_top, stk. cbn. rewrite Ed. reflexivity.
           ++ now apply errd_define_variable.
  - (* SAssign *)
    intros x e He c cs fs _. cbn [nstmt comp_stmt].
    pose proof (resolve_variable_stk cf x c cs fs) as Hr.
    destruct (rvn cf (fc_locals c) (fc_ups c) (map lev_of cs) x) as [[[r U0] E0]|] eqn:Er.
    + rewrite Hr. pose proof (ninv_length _ _ _ _ (rvn_inv _ _ _ _ _ _ _ _ Er)) as Hl0. rewrite map_length in Hl0.
      pose proof (comp_expr_N cf e He (set_ups c U0) (put_levs cs E0) fs) as Hc.
      cbn [fc_locals fc_ups fc_code set_ups] in Hc. rewrite (map_lev_of_put_levs cs E0 Hl0) in Hc.
      destruct (nexpr cf (fc_locals c) e U0 E0) as [[[ce U'] E']|] eqn:Ee.
      * rewrite Hc, !emit_stk. pose proof (nexpr_len cf e He _ _ _ _ _ _ Ee) as Hl1.
        rewrite put_levs_put_levs by lia. cbn. now rewrite <- !app_assoc.
      * now apply errd_emit, errd_emit.
    + destruct (resolve_variable cf x (stk c cs fs)) as [st1 r]. apply errd_emit, errd_emit.
      apply errd_comp_expr2; [exact He|exact Hr].
  - (* SPrint *)
    intros e He c cs fs _. cbn [nstmt comp_stmt]. rewrite emit_stk.
    pose proof (comp_expr_N cf e He (set_code c (fc_code c ++ [IGetGlobal GPrint])) cs fs) as Hc.
    cbn [fc_locals fc_ups fc_code set_code] in Hc.
    destruct (nexpr cf (fc_locals c) e (fc_ups c) (map lev_of cs)) as [[[ce U'] E']|].
    + rewrite Hc, !emit_stk. cbn. rewrite <- !app_assoc. reflexivity.
    + now apply errd_emit, errd_emit.
  - (* SExpr *)
    intros e He c cs fs _. cbn [nstmt comp_stmt].
    pose proof (comp_expr_N cf e He c cs fs) as Hc.
    destruct (nexpr cf (fc_locals c) e (fc_ups c) (map lev_of cs)) as [[[ce U'] E']|].
    + rewrite Hc, !emit_stk. cbn. rewrite <- !app_assoc. reflexivity.
    + now apply errd_emit.
  - (* SReturn *)
    intros e He c cs fs Hn. cbn [noret orb] in Hn. unfold retok in Hn. apply andb_prop in Hn as [Hsc Ht].
    apply negb_true_iff in Hsc. apply negb_true_iff in Ht.
    cbn [nstmt comp_stmt]. cbv zeta. rewrite top_of_stk, Hsc.
    pose proof (comp_expr_N cf e He c cs fs) as Hc.
    destruct (nexpr cf (fc_locals c) e (fc_ups c) (map lev_of cs)) as [[[ce U'] E']|].
    + rewrite Hc, top_of_stk. cbn [fc_intry set_ups set_code]. rewrite Ht.
      rewrite emit_stk. cbn. rewrite <- !app_assoc. reflexivity.
    + destruct (fc_intry (top_of _)); [apply errd_fail|now apply errd_emit].
  - (* SBlock *)
    intros b Hb IH c cs fs Hn. rewrite nstmt_block, comp_stmt_block.
    change (begin_scope (stk c cs fs)) with (stk (set_depth c (S (fc_depth c))) cs fs).
    pose proof (comp_list_N_aux cf b IH Hb (set_depth c (S (fc_depth c))) cs fs Hn) as Hl.
    cbn [fc_locals fc_depth fc_ups fc_code set_depth] in Hl.
    destruct (nlist cf b (S (fc_depth c)) (fc_locals c) (fc_ups c) (map lev_of cs) fs) as [[[[[cb L'] U'] E'] fs']|].
    + rewrite Hl. unfold end_scope, on_top, stk. cbn [cs_comps cs_funs cs_err]. unfold top_of. cbn [cs_comps].
      cbn [fc_depth set_depth with_clu]. replace (S (fc_depth c) - 1) with (fc_depth c) by lia.
      unfold emit_scope_end, top_of. cbn [cs_comps fc_locals set_depth with_clu].
      pose proof (emits_stk (scope_end_ops L' (fc_depth c))
                   (set_depth (with_clu (set_depth c (S (fc_depth c))) (fc_code c ++ cb) L' U') (fc_depth c))
                   (put_levs cs E') fs') as Hem.
      unfold stk in Hem. cbn [fc_depth set_depth with_clu fc_code fc_locals] in Hem |- *.
      rewrite Hem. unfold on_top. cbn. now rewrite <- app_assoc.
    + now apply errd_end_scope.
  - (* SFun *)
    intros f ps b Hb IH c cs fs _. rewrite comp_stmt_fun, nstmt_fun. unfold declare_variable. rewrite top_of_stk.
    destruct (fc_depth c =? 0) eqn:Ed.
    + assert (Em : mark_initialised (stk c cs fs) = stk c cs fs).
      { unfold mark_initialised, on_top, stk. cbn [cs_comps cs_funs cs_err]. now rewrite Ed. }
      rewrite Em. pose proof (comp_func_N_aux cf ps b IH Hb c cs fs) as Hf.
      destruct (nfunc cf ps b (fc_locals c) (fc_ups c) (map lev_of cs) fs) as [[[[[ci L'] U'] E'] fs']|].
      * rewrite Hf. unfold define_variable, at_top_level. rewrite top_of_stk. cbn [fc_depth with_clu]. rewrite Ed.
        rewrite emit_stk. cbn. now rewrite <- app_assoc.
      * now apply errd_define_variable.
    + destruct (dup_in_scope (fc_locals c) f (fc_depth c)) eqn:Edup.
      * apply errd_define_variable, errd_finalise_function. apply errd_comp_list5w; [exact Hb|].
        apply errd_open_function, errd_mark_initialised.
        unfold add_local. destruct (_ =? c_locals_max cf); [apply errd_fail|apply errd_on_top, errd_fail].
      * unfold add_local. rewrite top_of_stk.
        destruct (List.length (fc_locals c) =? c_locals_max cf) eqn:Emax.
        -- apply errd_define_variable, errd_finalise_function. apply errd_comp_list5w; [exact Hb|].
           apply errd_open_function, errd_mark_initialised, errd_fail.
        -- assert (Em : mark_initialised (on_top (fun c0 : fcomp => set_locals c0 (mkLocal (Some f) None false :: fc_locals c0)) (stk c cs fs))
                        = stk (set_locals c (mkLocal (Some f) (Some (fc_depth c)) false :: fc_locals c)) cs fs).
           { unfold mark_initialised, on_top, stk. cbn. now rewrite Ed. }
           rewrite Em.
           pose proof (comp_func_N_aux cf ps b IH Hb (set_locals c (mkLocal (Some f) (Some (fc_depth c)) false :: fc_locals c)) cs fs) as Hf.
           cbn [fc_locals fc_ups fc_code set_locals] in Hf.
           destruct (nfunc cf ps b (mkLocal (Some f) (Some (fc_depth c)) false :: fc_locals c) (fc_ups c) (map lev_of cs) fs)
             as [[[[[ci L'] U'] E'] fs']|] eqn:Ef.
           ++ destruct (nfunc_inv cf ps b Hb _ _ _ _ _ _ _ _ _ Ef) as [_ F].
              inversion F as [|? l0 ? L0 (En & Edp & _) F']; subst. cbn [l_name l_depth] in En, Edp.
              rewrite Hf.
              unfold define_variable, at_top_level. rewrite top_of_stk. cbn [fc_depth with_clu set_locals]. rewrite Ed.
              unfold mark_initialised, on_top, stk. cbn. rewrite Ed.
              destruct l0 as [n0 d0 c0]. cbn in En, Edp |- *. subst n0 d0. reflexivity.
           ++ now apply errd_define_variable.
  - (* SLam *)
    intros x ps b Hb IH c cs fs _. rewrite comp_stmt_lam, nstmt_lam. unfold declare_variable. rewrite top_of_stk.
    destruct (fc_depth c =? 0) eqn:Ed.
    + pose proof (comp_func_N_aux cf ps b IH Hb c cs fs) as Hf.
      destruct (nfunc cf ps b (fc_locals c) (fc_ups c) (map lev_of cs) fs) as [[[[[ci L'] U'] E'] fs']|].
      * rewrite Hf. unfold define_variable, at_top_level. rewrite top_of_stk. cbn [fc_depth with_clu]. rewrite Ed.
        rewrite emit_stk. cbn. now rewrite <- app_assoc.
      * now apply errd_define_variable.
    + destruct (dup_in_scope (fc_locals c) x (fc_depth c)) eqn:Edup.
      * apply errd_define_variable, errd_finalise_function. apply errd_comp_list5w; [exact Hb|].
        apply errd_open_function.
        unfold add_local. destruct (_ =? c_locals_max cf); [apply errd_fail|apply errd_on_top, errd_fail].
      * unfold add_local. rewrite top_of_stk.
        destruct (List.length (fc_locals c) =? c_locals_max cf) eqn:Emax.
        -- apply errd_define_variable, errd_finalise_function. apply errd_comp_list5w; [exact Hb|].
           apply errd_open_function, errd_fail.
        -- change (on_top (fun c0 : fcomp => set_locals c0 (mkLocal (Some x) None false :: fc_locals c0)) (stk c cs fs))
             with (stk (set_locals c (mkLocal (Some x) None false :: fc_locals c)) cs fs).
           pose proof (comp_func_N_aux cf ps b IH Hb (set_locals c (mkLocal (Some x) None false :: fc_locals c)) cs fs) as Hf.
           cbn [fc_locals fc_ups fc_code set_locals] in Hf.
           destruct (nfunc cf ps b (mkLocal (Some x) None false :: fc_locals c) (fc_ups c) (map lev_of cs) fs)
             as [[[[[ci L'] U'] E'] fs']|] eqn:Ef.
           ++ destruct (nfunc_inv cf ps b Hb _ _ _ _ _ _ _ _ _ Ef) as [_ F].
              inversion F as [|? l0 ? L0 (En & _ & _) F']; subst. cbn [l_name] in En.
              rewrite Hf.
              unfold define_variable, at_top_level. rewrite top_of_stk. cbn [fc_depth with_clu set_locals]. rewrite Ed.
              unfold mark_initialised, on_top, stk. cbn. rewrite Ed, <- En. reflexivity.
           ++ now apply errd_define_variable.
Qed.

Lemma stmt5w_all_goalN : forall cf b, forallb stmt5w b = true -> Forall (stmt_goalN cf) b.
Proof.
  intros cf b Hb. induction b as [|a r IH]; constructor.
  - cbn in Hb. apply andb_prop in Hb as [Ha _]. intros c cs fs. now apply comp_stmt_N.
  - cbn in Hb. apply andb_prop in Hb as [_ Hr]. now apply IH.
Qed.

Lemma comp_list_N : forall cf b, forallb stmt5w b = true -> forall c cs fs,
  forallb noret b || retok c = true ->
  match nlist cf b (fc_depth c) (fc_locals c) (fc_ups c) (map lev_of cs) fs with
  | Some (code, L', U', E', fs') => comp_list cf b (stk c cs fs) =
       stk (with_clu c (fc_code c ++ code) L' U') (put_levs cs E') fs'
  | None => errd (comp_list cf b (stk c cs fs))
  end.
Proof. intros cf b Hb. apply comp_list_N_aux; [now apply stmt5w_all_goalN|exact Hb]. Qed.

Lemma comp_func_N : forall cf ps b, forallb stmt5w b = true -> forall c cs fs,
  match nfunc cf ps b (fc_locals c) (fc_ups c) (map lev_of cs) fs with
  | Some (ci, L', U', E', fs') =>
      finalise_function (comp_list cf b (open_function cf ps (stk c cs fs))) =
      stk (with_clu c (fc_code c ++ [ci]) L' U') (put_levs cs E') fs'
  | None => errd (finalise_function (comp_list cf b (open_function cf ps (stk c cs fs))))
  end.
Proof. intros cf ps b Hb. apply comp_func_N_aux; [now apply stmt5w_all_goalN|exact Hb]. Qed.

(* a `return` outside a function body (or inside a try) is a compile error: the side condition of comp_stmt_N
   cannot be dropped, and where it fails the stateful compiler reports an error *)
Definition ret_err_goal (cf : cfg) (s : stmt) : Prop := forall c cs fs,
  noret s = false -> retok c = false -> errd (comp_stmt cf s (stk c cs fs)).

Lemma ret_err_list_aux : forall cf b, Forall (ret_err_goal cf) b -> forallb stmt5w b = true ->
  forall c cs fs, forallb noret b = false -> retok c = false -> errd (comp_list cf b (stk c cs fs)).
Proof.
  intros cf b H. induction H as [|a r Ha Hr IH]; intros Hb c cs fs Hn Hk; [discriminate|].
  cbn in Hb. apply andb_prop in Hb as [Hb1 Hb2]. rewrite comp_list_cons. cbn [forallb] in Hn.
  destruct (noret a) eqn:Hna.
  - cbn [andb] in Hn.
    pose proof (comp_stmt_N cf a Hb1 c cs fs) as Hc. rewrite Hna in Hc. specialize (Hc eq_refl).
    destruct (nstmt cf a (fc_locals c) (fc_depth c) (fc_ups c) (map lev_of cs) fs) as [[[[[ca L1] U1] E1] fs1]|].
    + rewrite Hc. apply IH; [exact Hb2|exact Hn|exact Hk].
    + apply (errd_comp_list5w cf r Hb2). exact Hc.
  - apply (errd_comp_list5w cf r Hb2). apply Ha; [exact Hna|exact Hk].
Qed.

Lemma comp_stmt_ret_err : forall cf s, stmt5w s = true -> forall c cs fs,
  noret s = false -> retok c = false -> errd (comp_stmt cf s (stk c cs fs)).
Proof.
  intros cf s Hs. change (ret_err_goal cf s). pattern s. revert s Hs. apply stmt5w_ind;
    try (intros; intros c cs fs Hn; discriminate Hn).
  - (* SReturn *)
    intros e He c cs fs _ Hk. cbn [comp_stmt]. cbv zeta. rewrite top_of_stk.
    destruct (fc_script c) eqn:Hsc.
    + pose proof (errd_comp_expr2 cf e He _ (errd_fail (stk c cs fs) "Cannot return from top-level code.")) as H1.
      destruct (fc_intry _); [apply errd_fail|now apply errd_emit].
    + unfold retok in Hk. rewrite Hsc in Hk. cbn [negb andb] in Hk. apply negb_false_iff in Hk.
      pose proof (comp_expr_N cf e He c cs fs) as Hc.
      destruct (nexpr cf (fc_locals c) e (fc_ups c) (map lev_of cs)) as [[[ce U'] E']|].
      * rewrite Hc, top_of_stk. cbn [fc_intry set_ups set_code]. rewrite Hk. apply errd_fail.
      * destruct (fc_intry (top_of _)); [apply errd_fail|now apply errd_emit].
  - (* SBlock *)
    intros b Hb IH c cs fs Hn Hk. rewrite comp_stmt_block. apply errd_end_scope.
    change (begin_scope (stk c cs fs)) with (stk (set_depth c (S (fc_depth c))) cs fs).
    apply ret_err_list_aux; [exact IH|exact Hb|exact Hn|exact Hk].
Qed.

Lemma comp_list_ret_err : forall cf b, forallb stmt5w b = true -> forall c cs fs,
  forallb noret b = false -> retok c = false -> errd (comp_list cf b (stk c cs fs)).
Proof.
  intros cf b Hb. apply ret_err_list_aux; [|exact Hb].
  induction b as [|a r IH]; constructor.
  - cbn in Hb. apply andb_prop in Hb as [Ha _]. intros c cs fs. now apply comp_stmt_ret_err.
  - cbn in Hb. apply andb_prop in Hb as [_ Hr]. now apply IH.
Qed.

(* ------------------------------------------------------------------------------------------ *)
(* Part 6: the whole program: the functions in finalise order, then the script function = the pure code followed
   by Nil; Return.  The script has no enclosing level: its upvalue list stays empty. *)
Theorem compile_scope_stage2_shape : forall cf p funs, forallb stmt5w p = true -> compile_scope cf p = Some funs ->
  exists code L' fs', nlist cf p 0 [mkLocal None (Some 0) false] [] [] [] = Some (code, L', [], [], fs') /\
                      funs = (fs' ++ [mkFunc (code ++ [INil; IReturn]) 0 0])%list.
Proof.
  intros cf p funs Hp Hc. unfold compile_scope, comp_prog in Hc.
  change (fold_left (fun s a => comp_stmt cf a s) p (mkCst [new_fcomp true] [] None))
    with (comp_list cf p (stk (new_fcomp true) [] [])) in Hc.
  destruct (forallb noret p) eqn:Hn.
  - pose proof (comp_list_N cf p Hp (new_fcomp true) [] []) as H. rewrite Hn in H. specialize (H eq_refl).
    cbn [fc_locals fc_depth fc_ups new_fcomp map] in H.
    destruct (nlist cf p 0 [mkLocal None (Some 0) false] [] [] []) as [[[[[code L'] U'] E'] fs']|] eqn:El.
    + destruct (nlist_nil cf p Hp _ _ _ _ _ _ _ _ _ El) as [-> ->].
      rewrite H in Hc. rewrite emits_stk in Hc. cbn in Hc. inversion Hc. exists code, L', fs'. split; reflexivity.
    + exfalso. apply (errd_emits [INil; IReturn]) in H. unfold errd in H. destruct (cs_err _); [discriminate|congruence].
  - exfalso. pose proof (comp_list_ret_err cf p Hp (new_fcomp true) [] [] Hn eq_refl) as H.
    apply (errd_emits [INil; IReturn]) in H. unfold errd in H. destruct (cs_err _); [discriminate|congruence].
Qed.

(* the same for the fragment of ScopeDefsN.v *)
Corollary compile_scope_stage2_shape5 : forall cf p funs, forallb (stmt5 false true) p = true ->
  compile_scope cf p = Some funs ->
  exists code L' fs', nlist cf p 0 [mkLocal None (Some 0) false] [] [] [] = Some (code, L', [], [], fs') /\
                      funs = (fs' ++ [mkFunc (code ++ [INil; IReturn]) 0 0])%list.
Proof.
  intros cf p funs Hp. apply compile_scope_stage2_shape.
  induction p as [|a r IH]; [reflexivity|]. cbn in Hp |- *. apply andb_prop in Hp as [Ha Hr].
  apply andb_true_intro. split; [eapply stmt5_stmt5w; eauto|auto].
Qed.

(* and conversely: when the pure compiler succeeds on a program without a script-level return, so does compile_scope *)
Theorem compile_scope_stage2_complete : forall cf p code L' U' E' fs',
  forallb stmt5w p = true -> forallb noret p = true ->
  nlist cf p 0 [mkLocal None (Some 0) false] [] [] [] = Some (code, L', U', E', fs') ->
  compile_scope cf p = Some (fs' ++ [mkFunc (code ++ [INil; IReturn]) 0 0])%list.
Proof.
  intros cf p code L' U' E' fs' Hp Hn El. unfold compile_scope, comp_prog.
  change (fold_left (fun s a => comp_stmt cf a s) p (mkCst [new_fcomp true] [] None))
    with (comp_list cf p (stk (new_fcomp true) [] [])).
  pose proof (comp_list_N cf p Hp (new_fcomp true) [] []) as H. rewrite Hn in H. specialize (H eq_refl).
  cbn [fc_locals fc_depth fc_ups new_fcomp map] in H. rewrite El in H.
  rewrite H, emits_stk. reflexivity.
Qed.

(* The side condition of comp_stmt_N cannot be dropped: the pure compiler nstmt compiles a `return` wherever it
   stands, the stateful one reports "Cannot return from top-level code." in the script compiler. *)
Lemma comp_stmt_N_side_condition_needed :
  exists cf s c cs fs, stmt5w s = true /\
    nstmt cf s (fc_locals c) (fc_depth c) (fc_ups c) (map lev_of cs) fs <> None /\
    errd (comp_stmt cf s (stk c cs fs)).
Proof.
  exists ex_cf, (SReturn (ELit 0)), (new_fcomp true), [], [].
  split; [reflexivity|]. split; [discriminate|]. unfold errd. cbn. discriminate.
Qed.

(* a three-level example: the hypotheses are satisfiable by a program that captures through an enclosing function
     { var x1 = 10; fn x2(x3) { fn x5() { x1 = x1 + x3; var x6 = |x7| { return x1 + x7; }; return x6; } return x5; } }  *)
Example ex_stage2_shape :
  let p := [SBlock [SDecl 1 (ELit 10);
                    SFun 2 [3] [SFun 5 [] [SAssign 1 (EAdd (EVar 1) (EVar 3));
                                           SLam 6 [7] [SReturn (EAdd (EVar 1) (EVar 7))];
                                           SReturn (EVar 6)];
                                SReturn (EVar 5)]]] in
  forallb stmt5w p = true /\ forallb noret p = true /\
  exists funs, compile_scope ex_cf p = Some funs /\ map f_nups funs = [1; 2; 1; 0].
Proof. cbv zeta. split; [reflexivity|]. split; [reflexivity|]. eexists. split; [vm_compute; reflexivity|reflexivity]. Qed.

Print Assumptions resolve_variable_stk.
Print Assumptions comp_expr_N.
Print Assumptions comp_stmt_N.
Print Assumptions comp_list_N.
Print Assumptions nstmt_len.
Print Assumptions comp_stmt_ret_err.
Print Assumptions compile_scope_stage2_shape.
Print Assumptions compile_scope_stage2_complete.
