(* C06 - stage 1 of compile_scope_correct (blocks + closures over block locals, one function level):
   shared DEFINITIONS: the fragment, the compiler of the fragment written as pure functions, and the view of
   the machine over the cell-store backend bk_c as (cells of the live slots, captured cells, cell values). *)
From Coq Require Import List Arith Bool String ZArith NArith Lia.
From YV Require Import Show Upvalues Cells ScopeLang ScopeComp ScopeSim.
Import ListNotations.
Import Gen.
Open Scope nat_scope.

(* ------------------------------------------------------------------------------------------ *)
(* the fragment *)

Fixpoint expr2 (e : expr) : bool :=
  match e with
  | ELit _ | EVar _ => true
  | EAdd a b => expr2 a && expr2 b
  | ECall _ args => forallb expr2 args
  | _ => false
  end.

(* statements of a closure body: no function definitions inside (one function level) *)
Fixpoint bstmt2 (s : stmt) : bool :=
  match s with
  | SDecl _ e | SAssign _ e | SPrint e | SExpr e | SReturn e => expr2 e
  | SBlock b => forallb bstmt2 b
  | _ => false
  end.

Fixpoint e_mentions (x : name) (e : expr) : bool :=
  match e with
  | ELit _ | EVecNew => false
  | EVar y => y =? x
  | EAdd a b => e_mentions x a || e_mentions x b
  | ECall f args => (f =? x) || existsb (e_mentions x) args
  | ECallIdx v _ args => (v =? x) || existsb (e_mentions x) args
  end.

Fixpoint s_mentions (x : name) (s : stmt) : bool :=
  match s with
  | SDecl y e | SAssign y e => (y =? x) || e_mentions x e
  | SPrint e | SExpr e | SReturn e | SThrow e => e_mentions x e
  | SBlock b | SFiber b => existsb (s_mentions x) b
  | _ => true
  end.

(* script-level statements.  `var x = |ps| { b };` must not mention x in b: inside its own initialiser the
   real resolver skips the (uninitialised) x of the enclosing function and falls through to the global x,
   which is not what eval_cells does when an outer x exists (notes/C06.md, "Observation") *)
Fixpoint stmt2 (s : stmt) : bool :=
  match s with
  | SDecl _ e | SAssign _ e | SPrint e | SExpr e => expr2 e
  | SBlock b => forallb stmt2 b
  | SLam x ps b => forallb bstmt2 b && negb (existsb (s_mentions x) b)
  | SFun _ ps b => forallb bstmt2 b
  | _ => false
  end.

(* ------------------------------------------------------------------------------------------ *)
(* the compiler of the fragment, pure.
   Script level: state = (locals L of the script, depth d, function table fs).
   Body level:   state = (locals Lb of the body, depth d >= 1, upvalue list U of the function being compiled,
                          locals Ls of the script - only their is_captured flags change). *)

Section Pure.
Variable cf : cfg.

(* expressions at script level: no enclosing function *)
Fixpoint cexpr2 (L : list local) (e : expr) : option (list instr) :=
  match e with
  | ELit n => Some [IConst n]
  | EVar x => match rv L x with Some r => Some [get_op r x] | None => None end
  | EAdd a b => match cexpr2 L a, cexpr2 L b with
                | Some ca, Some cb => Some (ca ++ cb ++ [IAdd])%list
                | _, _ => None
                end
  | ECall f args =>
      match rv L f with
      | Some r =>
          match (fix go (l : list expr) : option (list instr) :=
                   match l with
                   | [] => Some []
                   | a :: t => match cexpr2 L a, go t with
                               | Some ca, Some ct => Some (ca ++ ct)%list
                               | _, _ => None
                               end
                   end) args with
          | Some cargs => Some (get_op r f :: cargs ++ [ICall (List.length args)])%list
          | None => None
          end
      | None => None
      end
  | _ => None
  end.

(* Parser::resolve_variable with compilers [body; script] *)
Definition rvb (Lb Ls : list local) (U : ups_t) (x : name) : option (vref * ups_t * list local) :=
  match resolve_local Lb x with
  | Some (s, true) => Some (VLocal s, U, Ls)
  | Some (_, false) => None
  | None =>
      match resolve_local Ls x with
      | Some (slot, true) =>
          let '(U', k, ovf) := add_upvalue (c_upvalues_max cf) U slot true in
          if ovf then None else Some (VUp k, U', mark_captured Ls slot)
      | _ => Some (VGlobal, U, Ls)
      end
  end.

Fixpoint bexpr (Lb : list local) (e : expr) (U : ups_t) (Ls : list local) : option (list instr * ups_t * list local) :=
  match e with
  | ELit n => Some ([IConst n], U, Ls)
  | EVar x => match rvb Lb Ls U x with Some (r, U', Ls') => Some ([get_op r x], U', Ls') | None => None end
  | EAdd a b =>
      match bexpr Lb a U Ls with
      | Some (ca, U1, Ls1) =>
          match bexpr Lb b U1 Ls1 with
          | Some (cb, U2, Ls2) => Some ((ca ++ cb ++ [IAdd])%list, U2, Ls2)
          | None => None
          end
      | None => None
      end
  | ECall f args =>
      match rvb Lb Ls U f with
      | Some (r, U0, Ls0) =>
          match (fix go (l : list expr) (U : ups_t) (Ls : list local) : option (list instr * ups_t * list local) :=
                   match l with
                   | [] => Some ([], U, Ls)
                   | a :: t => match bexpr Lb a U Ls with
                               | Some (ca, U1, Ls1) =>
                                   match go t U1 Ls1 with
                                   | Some (ct, U2, Ls2) => Some ((ca ++ ct)%list, U2, Ls2)
                                   | None => None
                                   end
                               | None => None
                               end
                   end) args U0 Ls0 with
          | Some (cargs, U3, Ls3) => Some ((get_op r f :: cargs ++ [ICall (List.length args)])%list, U3, Ls3)
          | None => None
          end
      | None => None
      end
  | _ => None
  end.

(* statements of a closure body (depth d >= 1: every declaration is a local) *)
Fixpoint bstmt (s : stmt) (Lb : list local) (d : nat) (U : ups_t) (Ls : list local) {struct s}
  : option (list instr * list local * ups_t * list local) :=
  match s with
  | SDecl x e =>
      if dup_in_scope Lb x d then None
      else if List.length Lb =? c_locals_max cf then None
      else match bexpr (mkLocal (Some x) None false :: Lb) e U Ls with
           | Some (ce, U', Ls') => Some (ce, mkLocal (Some x) (Some d) false :: Lb, U', Ls')
           | None => None
           end
  | SAssign x e =>
      match rvb Lb Ls U x with
      | Some (r, U0, Ls0) =>
          match bexpr Lb e U0 Ls0 with
          | Some (ce, U', Ls') => Some ((ce ++ [set_op r x; IPop])%list, Lb, U', Ls')
          | None => None
          end
      | None => None
      end
  | SPrint e =>
      match bexpr Lb e U Ls with
      | Some (ce, U', Ls') => Some ((IGetGlobal GPrint :: ce ++ [ICall 1; IPop])%list, Lb, U', Ls')
      | None => None
      end
  | SExpr e =>
      match bexpr Lb e U Ls with
      | Some (ce, U', Ls') => Some ((ce ++ [IPop])%list, Lb, U', Ls')
      | None => None
      end
  | SReturn e =>
      match bexpr Lb e U Ls with
      | Some (ce, U', Ls') => Some ((ce ++ [IReturn])%list, Lb, U', Ls')
      | None => None
      end
  | SBlock b =>
      match (fix go (l : list stmt) (Lb : list local) (U : ups_t) (Ls : list local)
               : option (list instr * list local * ups_t * list local) :=
               match l with
               | [] => Some ([], Lb, U, Ls)
               | a :: r => match bstmt a Lb (S d) U Ls with
                           | Some (ca, Lb1, U1, Ls1) =>
                               match go r Lb1 U1 Ls1 with
                               | Some (cr, Lb2, U2, Ls2) => Some ((ca ++ cr)%list, Lb2, U2, Ls2)
                               | None => None
                               end
                           | None => None
                           end
               end) b Lb U Ls with
      | Some (cb, Lb', U', Ls') =>
          let ops := scope_end_ops Lb' d in Some ((cb ++ ops)%list, skipn (List.length ops) Lb', U', Ls')
      | None => None
      end
  | _ => None
  end.

Fixpoint blist (l : list stmt) (Lb : list local) (d : nat) (U : ups_t) (Ls : list local)
  : option (list instr * list local * ups_t * list local) :=
  match l with
  | [] => Some ([], Lb, U, Ls)
  | a :: r => match bstmt a Lb d U Ls with
              | Some (ca, Lb1, U1, Ls1) =>
                  match blist r Lb1 d U1 Ls1 with
                  | Some (cr, Lb2, U2, Ls2) => Some ((ca ++ cr)%list, Lb2, U2, Ls2)
                  | None => None
                  end
              | None => None
              end
  end.

(* open_function: the parameters become locals 1.. of depth 1 *)
Fixpoint bparams (ps : list name) (Lb : list local) : option (list local) :=
  match ps with
  | [] => Some Lb
  | p :: r =>
      if dup_in_scope Lb p 1 then None
      else if List.length Lb =? c_locals_max cf then None
      else bparams r (mkLocal (Some p) (Some 1) false :: Lb)
  end.

(* function() / lambda(): body code (with the final Nil; Return), upvalue list, script locals with new flags *)
Definition cbody (ps : list name) (b : list stmt) (Ls : list local) : option (list instr * ups_t * list local) :=
  match bparams ps [mkLocal None (Some 0) false] with
  | Some Lb0 =>
      match blist b Lb0 1 [] Ls with
      | Some (code, _, U, Ls') => Some ((code ++ [INil; IReturn])%list, U, Ls')
      | None => None
      end
  | None => None
  end.

Definition clo_instr (ix : nat) (U : ups_t) : instr := IClosure ix (map (fun u : nat * bool => (snd u, fst u)) U).

(* statements at script level *)
Fixpoint cstmt2 (s : stmt) (L : list local) (d : nat) (fs : list func) {struct s}
  : option (list instr * list local * list func) :=
  match s with
  | SDecl x e =>
      if d =? 0 then match cexpr2 L e with Some ce => Some ((ce ++ [IDefineGlobal x])%list, L, fs) | None => None end
      else if dup_in_scope L x d then None
      else if List.length L =? c_locals_max cf then None
      else match cexpr2 (mkLocal (Some x) None false :: L) e with
           | Some ce => Some (ce, mkLocal (Some x) (Some d) false :: L, fs)
           | None => None
           end
  | SAssign x e =>
      match rv L x, cexpr2 L e with
      | Some r, Some ce => Some ((ce ++ [set_op r x; IPop])%list, L, fs)
      | _, _ => None
      end
  | SPrint e =>
      match cexpr2 L e with
      | Some ce => Some ((IGetGlobal GPrint :: ce ++ [ICall 1; IPop])%list, L, fs)
      | None => None
      end
  | SExpr e =>
      match cexpr2 L e with
      | Some ce => Some ((ce ++ [IPop])%list, L, fs)
      | None => None
      end
  | SLam x ps b =>
      if d =? 0 then
        match cbody ps b L with
        | Some (cb, U, L') =>
            Some ([clo_instr (List.length fs) U; IDefineGlobal x], L', (fs ++ [mkFunc cb (List.length ps) (List.length U)])%list)
        | None => None
        end
      else if dup_in_scope L x d then None
      else if List.length L =? c_locals_max cf then None
      else
        match cbody ps b (mkLocal (Some x) None false :: L) with
        | Some (cb, U, l0 :: L') =>
            Some ([clo_instr (List.length fs) U], mkLocal (Some x) (Some d) (l_capt l0) :: L',
                  (fs ++ [mkFunc cb (List.length ps) (List.length U)])%list)
        | _ => None
        end
  | SFun f ps b =>
      if d =? 0 then
        match cbody ps b L with
        | Some (cb, U, L') =>
            Some ([clo_instr (List.length fs) U; IDefineGlobal f], L', (fs ++ [mkFunc cb (List.length ps) (List.length U)])%list)
        | None => None
        end
      else if dup_in_scope L f d then None
      else if List.length L =? c_locals_max cf then None
      else
        match cbody ps b (mkLocal (Some f) (Some d) false :: L) with
        | Some (cb, U, L') =>
            Some ([clo_instr (List.length fs) U], L', (fs ++ [mkFunc cb (List.length ps) (List.length U)])%list)
        | None => None
        end
  | SBlock b =>
      match (fix go (l : list stmt) (L : list local) (fs : list func) : option (list instr * list local * list func) :=
               match l with
               | [] => Some ([], L, fs)
               | a :: r => match cstmt2 a L (S d) fs with
                           | Some (ca, L1, fs1) =>
                               match go r L1 fs1 with
                               | Some (cr, L2, fs2) => Some ((ca ++ cr)%list, L2, fs2)
                               | None => None
                               end
                           | None => None
                           end
               end) b L fs with
      | Some (cb, L', fs') =>
          let ops := scope_end_ops L' d in Some ((cb ++ ops)%list, skipn (List.length ops) L', fs')
      | None => None
      end
  | _ => None
  end.

Fixpoint clist2 (l : list stmt) (L : list local) (d : nat) (fs : list func) : option (list instr * list local * list func) :=
  match l with
  | [] => Some ([], L, fs)
  | a :: r => match cstmt2 a L d fs with
              | Some (ca, L1, fs1) =>
                  match clist2 r L1 d fs1 with
                  | Some (cr, L2, fs2) => Some ((ca ++ cr)%list, L2, fs2)
                  | None => None
                  end
              | None => None
              end
  end.

End Pure.

(* two compilers on the stack: the body (innermost) and the script *)
Definition two (cb cs : fcomp) (fs : list func) : cst := mkCst [cb; cs] fs None.

(* same names and depths, is_captured only goes from false to true *)
Definition flags_up (L L' : list local) : Prop :=
  Forall2 (fun l l' => l_name l = l_name l' /\ l_depth l = l_depth l' /\ (l_capt l = true -> l_capt l' = true)) L L'.

(* ------------------------------------------------------------------------------------------ *)
(* the machine over bk_c seen as: cells of the live slots, captured cells (handles), cell values *)

Definition CLof (u : cstore) : list nat := map (scells (csfib u)) (seq 0 (slen_of u)).
Definition HLof (u : cstore) : list nat := map (handles u) (seq 0 (hnext u)).

Record SOK2 (m : cmach) (CL HL : list nat) : Prop := mkSOK2 {
  s2_cl : CLof (st_of m) = CL;
  s2_hl : HLof (st_of m) = HL;
  s2_cur : scur (st_of m) = 0;
  s2_flag : fl_of m = false;
  s2_cl_lt : forall c, In c CL -> c < cnext (st_of m);
  s2_cl_nd : NoDup CL;
  s2_hl_lt : forall c, In c HL -> c < cnext (st_of m);
  s2_hl_nd : NoDup HL
}.

Definition cv (m : cmach) : nat -> mval := cellv (st_of m).
Definition cn (m : cmach) : nat := cnext (st_of m).

Record MS2 (m : cmach) (fn : nat) (ups : list nat) (pc base : nat) (frs : list frame)
           (CL HL : list nat) (G : list (name * mval)) (O : list string) : Prop := mkMS2 {
  m2_s : SOK2 m CL HL;
  m2_f : FOK m fn ups pc base frs;
  m2_g : m_globals m = G;
  m2_o : m_out m = O
}.

(* closure_impl over the cell store: capturing the cells `cs` (in descriptor order) against the handle list *)
Fixpoint index_of (c : nat) (l : list nat) : option nat :=
  match l with
  | [] => None
  | a :: r => if a =? c then Some 0 else match index_of c r with Some k => Some (S k) | None => None end
  end.

Fixpoint capture_cells (HL : list nat) (cs : list nat) : list nat * list nat :=
  match cs with
  | [] => (HL, [])
  | c :: r =>
      match index_of c HL with
      | Some h => let (HL', ix) := capture_cells HL r in (HL', h :: ix)
      | None => let (HL', ix) := capture_cells (HL ++ [c])%list r in (HL', List.length HL :: ix)
      end
  end.

(* closure_impl over the cell store with descriptors of both kinds: (true, i) captures the cell of slot base + i,
   (false, i) copies the handle parent[i] *)
Fixpoint capture_g (HL : list nat) (parent : list nat) (cells : list nat) (base : nat) (descs : list (bool * nat))
  : list nat * list nat :=
  match descs with
  | [] => (HL, [])
  | (true, i) :: r =>
      let c := nth (base + i) cells 0 in
      match index_of c HL with
      | Some h => let (HL', ix) := capture_g HL parent cells base r in (HL', h :: ix)
      | None => let (HL', ix) := capture_g (HL ++ [c])%list parent cells base r in (HL', List.length HL :: ix)
      end
  | (false, i) :: r => let (HL', ix) := capture_g HL parent cells base r in (HL', nth i parent 0 :: ix)
  end.

(* ---- the fragment of stage 1 as proved: no parameters, closure bodies without locals ---- *)
Fixpoint expr3 (e : expr) : bool :=
  match e with
  | ELit _ | EVar _ => true
  | EAdd a b => expr3 a && expr3 b
  | ECall _ [] => true
  | _ => false
  end.

Definition bstmt3 (s : stmt) : bool :=
  match s with
  | SAssign _ e | SPrint e | SExpr e | SReturn e => expr3 e
  | _ => false
  end.

Fixpoint stmt3 (s : stmt) : bool :=
  match s with
  | SDecl _ e | SAssign _ e | SPrint e | SExpr e => expr3 e
  | SBlock b => forallb stmt3 b
  | SLam x [] b => forallb bstmt3 b && negb (existsb (s_mentions x) b)
  | _ => false
  end.


(* ---- the fragment of stage 1 in its general form (one function level): parameters and arguments, declarations and
        blocks inside closure bodies, local functions that call / capture themselves; `top` = at depth 0, where
        `var x = |..| {.. x ..}` is fine because x is then a global looked up when the body runs ---- *)
Fixpoint stmt4 (top : bool) (s : stmt) : bool :=
  match s with
  | SDecl _ e | SAssign _ e | SPrint e | SExpr e => expr2 e
  | SBlock b => forallb (stmt4 false) b
  | SLam x ps b => forallb bstmt2 b && (top || negb (existsb (s_mentions x) b))
  | SFun _ ps b => forallb bstmt2 b
  | _ => false
  end.

(* stmt2 without the self-mention restriction (compile correspondence holds on it) *)
Fixpoint stmt2w (s : stmt) : bool :=
  match s with
  | SDecl _ e | SAssign _ e | SPrint e | SExpr e => expr2 e
  | SBlock b => forallb stmt2w b
  | SLam x ps b => forallb bstmt2 b
  | SFun _ ps b => forallb bstmt2 b
  | _ => false
  end.

