(* C06 - stage 5 of compile_scope_correct (stage 4 + `throw e` + `try { .. } catch x { .. }`): definitions.
   The fragment stmt7 and the PURE compiler of the fragment: the compiler of ScopeDefsN.v (same resolver rup / rvn,
   same expression compiler nexpr, same loop contexts) extended by SThrow and STry.  Files that import this one AFTER
   ScopeDefsN see these nstmt / nlist / nblk / nfunc.  Definitions only. *)
From Coq Require Import List Arith Bool String ZArith NArith Lia.
From YV Require Import Show Upvalues Cells ScopeLang ScopeComp ScopeSim ScopeDefs2 ScopeDefsN.
Import ListNotations.
Open Scope nat_scope.

(* ------------------------------------------------------------------------------------------ *)
(* the fragment *)

(* x occurs in s (function bodies included; binders that shadow x are ignored: an over-approximation) *)
Fixpoint s_mentions7 (x : name) (s : stmt) : bool :=
  match s with
  | SDecl y e | SAssign y e => (y =? x) || e_mentions x e
  | SPrint e | SExpr e | SReturn e | SThrow e => e_mentions x e
  | SBlock b | SFiber b => existsb (s_mentions7 x) b
  | SFun f ps b | SLam f ps b => (f =? x) || existsb (s_mentions7 x) b
  | SLoop i _ b => (i =? x) || existsb (s_mentions7 x) b
  | SIf a c t e => e_mentions x a || e_mentions x c || existsb (s_mentions7 x) t || existsb (s_mentions7 x) e
  | SBreak | SContinue => false
  | STry b y h => (y =? x) || existsb (s_mentions7 x) b || existsb (s_mentions7 x) h
  | _ => true
  end.

(* stage 4 (stmt6 of ScopeDefsN.v) + throw + try / catch.
   `infun`: a `return` is allowed here; `top`: depth 0 of the script; `inloop`: break / continue allowed here.
   Inside a try BLOCK neither `return` (compile_scope rejects it: it would need JumpFinally, which is outside the
   mini-language) nor a break / continue that leaves the block (it would leave the handler pushed: the real compiler
   emits PopExcHandler for it, compile_scope does not model that) are part of the fragment; both are allowed again
   inside functions / loops nested in the block, and in the catch clause. *)
Fixpoint stmt7 (jumps infun top inloop : bool) (s : stmt) : bool :=
  match s with
  | SDecl _ e | SAssign _ e | SPrint e | SExpr e | SThrow e => expr2 e
  | SReturn e => infun && expr2 e
  | SBlock b => forallb (stmt7 jumps infun false inloop) b
  | SLam x ps b => forallb (stmt7 jumps true false false) b && (top || negb (existsb (s_mentions7 x) b))
  | SFun _ ps b => forallb (stmt7 jumps true false false) b
  | SLoop _ _ b => forallb (stmt7 jumps infun false true) b
  | SIf a c t e => expr2 a && expr2 c && forallb (stmt7 jumps infun false inloop) t && forallb (stmt7 jumps infun false inloop) e
  | SBreak | SContinue => jumps && inloop
  | STry b _ h => forallb (stmt7 jumps false false false) b && forallb (stmt7 jumps infun false inloop) h
  | _ => false
  end.

(* ------------------------------------------------------------------------------------------ *)
(* the compiler of the fragment, pure (see ScopeDefsN.v for the conventions: L / d / U = locals, scope depth, upvalue
   list of the function being compiled, E = the enclosing levels, fs = the finished functions, pos = byte offset of
   the statement in its function, lc = the innermost enclosing loop) *)

Section Pure5.
Variable cf : cfg.

(* pos = byte offset, in the code of the function being compiled, at which the statement's code starts *)
Fixpoint nstmt (s : stmt) (L : list local) (d : nat) (U : ups_t) (E : list lev) (fs : list func)
               (pos : nat) (lc : option lctx) {struct s} : option nres :=
  let nl := fix go (l : list stmt) (dd : nat) (L : list local) (U : ups_t) (E : list lev) (fs : list func)
                   (pos : nat) (lc : option lctx) : option nres :=
    match l with
    | [] => Some ([], L, U, E, fs)
    | a :: r => match nstmt a L dd U E fs pos lc with
                | Some (ca, L1, U1, E1, fs1) =>
                    match go r dd L1 U1 E1 fs1 (pos + code_size ca) lc with
                    | Some (cr, L2, U2, E2, fs2) => Some ((ca ++ cr)%list, L2, U2, E2, fs2)
                    | None => None
                    end
                | None => None
                end
    end in
  (* { b } at depth dd (the statements inside are at depth S dd) *)
  let nblock := fun (b : list stmt) (dd : nat) (L : list local) (U : ups_t) (E : list lev) (fs : list func)
                    (pos : nat) (lc : option lctx) =>
    match nl b (S dd) L U E fs pos lc with
    | Some (cb, L', U', E', fs') =>
        let ops := scope_end_ops L' dd in Some ((cb ++ ops)%list, skipn (List.length ops) L', U', E', fs')
    | None => None
    end in
  (* the body of a function whose enclosing function has locals L1 *)
  let nfun := fun (ps : list name) (b : list stmt) (L1 : list local) =>
    match bparams cf ps [mkLocal None (Some 0) false] with
    | Some Lp => nclose ps (nl b 1 Lp [] (mkLev L1 U :: E) fs 0 None)
    | None => None
    end in
  match s with
  | SDecl x e =>
      if d =? 0 then
        match nexpr cf L e U E with Some (ce, U', E') => Some ((ce ++ [IDefineGlobal x])%list, L, U', E', fs) | None => None end
      else if dup_in_scope L x d then None
      else if List.length L =? c_locals_max cf then None
      else match nexpr cf (mkLocal (Some x) None false :: L) e U E with
           | Some (ce, U', E') => Some (ce, mkLocal (Some x) (Some d) false :: L, U', E', fs)
           | None => None
           end
  | SAssign x e =>
      match rvn cf L U E x with
      | Some (r, U0, E0) =>
          match nexpr cf L e U0 E0 with
          | Some (ce, U', E') => Some ((ce ++ [set_op r x; IPop])%list, L, U', E', fs)
          | None => None
          end
      | None => None
      end
  | SPrint e =>
      match nexpr cf L e U E with
      | Some (ce, U', E') => Some ((IGetGlobal GPrint :: ce ++ [ICall 1; IPop])%list, L, U', E', fs)
      | None => None
      end
  | SExpr e =>
      match nexpr cf L e U E with
      | Some (ce, U', E') => Some ((ce ++ [IPop])%list, L, U', E', fs)
      | None => None
      end
  | SReturn e =>
      match nexpr cf L e U E with
      | Some (ce, U', E') => Some ((ce ++ [IReturn])%list, L, U', E', fs)
      | None => None
      end
  | SBlock b => nblock b d L U E fs pos lc
  | SFun f ps b =>
      if d =? 0 then
        match nfun ps b L with
        | Some (ci, L', U', E', fs') => Some ([ci; IDefineGlobal f], L', U', E', fs')
        | None => None
        end
      else if dup_in_scope L f d then None
      else if List.length L =? c_locals_max cf then None
      else
        match nfun ps b (mkLocal (Some f) (Some d) false :: L) with
        | Some (ci, L', U', E', fs') => Some ([ci], L', U', E', fs')
        | None => None
        end
  | SLam x ps b =>
      if d =? 0 then
        match nfun ps b L with
        | Some (ci, L', U', E', fs') => Some ([ci; IDefineGlobal x], L', U', E', fs')
        | None => None
        end
      else if dup_in_scope L x d then None
      else if List.length L =? c_locals_max cf then None
      else
        match nfun ps b (mkLocal (Some x) None false :: L) with
        | Some (ci, l0 :: L', U', E', fs') => Some ([ci], mkLocal (Some x) (Some d) (l_capt l0) :: L', U', E', fs')
        | _ => None
        end
  | SLoop i n b =>
      if dup_in_scope L i (S d) then None
      else if List.length L =? c_locals_max cf then None
      else if S (List.length L) =? c_locals_max cf then None
      else
        let lv := List.length L in
        let Lh := mkLocal None (Some (S d)) false :: mkLocal (Some i) (Some (S d)) false :: L in
        let start := pos + code_size (loop_pre n) in
        let posb := start + code_size (loop_head lv 0) in
        (* first pass: the size of the body block (jump operands do not matter for sizes) *)
        match nblock b (S d) Lh U E fs posb (Some (mkLctx start (S d) 0)) with
        | Some (c0, _, _, _, _) =>
            let szb := code_size c0 in
            match nblock b (S d) Lh U E fs posb (Some (mkLctx start (S d) (posb + szb + 3 + 1))) with
            | Some (cblock, L1, U', E', fs') =>
                let ops := scope_end_ops L1 d in
                Some ((loop_pre n ++ loop_head lv (1 + szb + 3) ++ cblock
                       ++ [ILoop (code_size (loop_head lv 0) + szb + 3); IPop] ++ ops)%list,
                      skipn (List.length ops) L1, U', E', fs')
            | None => None
            end
        | None => None
        end
  | SIf a c t e =>
      match nexpr cf L a U E with
      | Some (ca, U1, E1) =>
          match nexpr cf L c U1 E1 with
          | Some (cc, U2, E2) =>
              let post := pos + code_size ca + code_size cc + code_size [ILess; IJumpIfFalse 0; IPop] in
              match nblock t d L U2 E2 fs post lc with
              | Some (ct, L1, U3, E3, fs1) =>
                  let pose := post + code_size ct + code_size [IJump 0; IPop] in
                  match nblock e d L1 U3 E3 fs1 pose lc with
                  | Some (cel, L2, U4, E4, fs2) =>
                      Some ((ca ++ cc ++ [ILess; IJumpIfFalse (1 + code_size ct + 3); IPop] ++ ct
                             ++ [IJump (1 + code_size cel); IPop] ++ cel)%list, L2, U4, E4, fs2)
                  | None => None
                  end
              | None => None
              end
          | None => None
          end
      | None => None
      end
  | SBreak =>
      match lc with
      | Some l =>
          let ops := scope_end_ops L (lc_depth l) in
          Some ((ops ++ [IJump (lc_exit l - (pos + code_size ops + 3))])%list, L, U, E, fs)
      | None => None
      end
  | SContinue =>
      match lc with
      | Some l =>
          let ops := scope_end_ops L (lc_depth l) in
          Some ((ops ++ [ILoop (pos + code_size ops + 3 - lc_start l)])%list, L, U, E, fs)
      | None => None
      end
  | SThrow e =>
      match nexpr cf L e U E with
      | Some (ce, U', E') => Some ((ce ++ [IThrow])%list, L, U', E', fs)
      | None => None
      end
  | STry b x h =>
      (* PushExcHandler (5 bytes); { b }; PopExcHandler; Jump over the catch clause; the catch clause = a scope
         whose first local is x (it sits in the slot at the handler's stack height: unwind_stack pushes the
         exception there); scope end; operands: try_size = bytes from the PushExcHandler to the catch clause,
         catch_size = bytes of the catch clause, jump = bytes of the catch clause *)
      match nblock b d L U E fs (pos + 5) lc with
      | Some (cb, L1, U1, E1, fs1) =>
          if dup_in_scope L1 x (S d) then None
          else if List.length L1 =? c_locals_max cf then None
          else
            let cp := if c_catch_pops cf then [IPopExc] else [] in
            let posh := pos + 5 + code_size cb + 4 + code_size cp in
            match nl h (S d) (mkLocal (Some x) (Some (S d)) false :: L1) U1 E1 fs1 posh lc with
            | Some (ch, L2, U2, E2, fs2) =>
                let ops := scope_end_ops L2 d in
                let chh := (cp ++ ch ++ ops)%list in
                Some ((IPushExc (code_size cb + 4) (code_size chh) :: cb ++ [IPopExc; IJump (code_size chh)] ++ chh)%list,
                      skipn (List.length ops) L2, U2, E2, fs2)
            | None => None
            end
      | None => None
      end
  | _ => None
  end.

Fixpoint nlist (l : list stmt) (d : nat) (L : list local) (U : ups_t) (E : list lev) (fs : list func)
               (pos : nat) (lc : option lctx) : option nres :=
  match l with
  | [] => Some ([], L, U, E, fs)
  | a :: r => match nstmt a L d U E fs pos lc with
              | Some (ca, L1, U1, E1, fs1) =>
                  match nlist r d L1 U1 E1 fs1 (pos + code_size ca) lc with
                  | Some (cr, L2, U2, E2, fs2) => Some ((ca ++ cr)%list, L2, U2, E2, fs2)
                  | None => None
                  end
              | None => None
              end
  end.

(* { b } at depth d, named *)
Definition nblk (b : list stmt) (d : nat) (L : list local) (U : ups_t) (E : list lev) (fs : list func)
                (pos : nat) (lc : option lctx) : option nres :=
  match nlist b (S d) L U E fs pos lc with
  | Some (cb, L', U', E', fs') =>
      let ops := scope_end_ops L' d in Some ((cb ++ ops)%list, skipn (List.length ops) L', U', E', fs')
  | None => None
  end.

(* function() / lambda(), named: parameters ps, body b, in a function with locals L1, upvalues U, enclosing levels E *)
Definition nfunc (ps : list name) (b : list stmt) (L1 : list local) (U : ups_t) (E : list lev) (fs : list func)
  : option (instr * list local * ups_t * list lev * list func) :=
  match bparams cf ps [mkLocal None (Some 0) false] with
  | Some Lp => nclose ps (nlist b 1 Lp [] (mkLev L1 U :: E) fs 0 None)
  | None => None
  end.
End Pure5.
