(* C06 - stage 2 of compile_scope_correct (any number of nested function levels): definitions.
   The fragment stmt5 (function definitions inside function bodies, to any depth) and the compiler of the fragment as a
   PURE function over the stack of enclosing function levels.  Definitions only. *)
From Coq Require Import List Arith Bool String ZArith NArith Lia.
From YV Require Import Show Upvalues Cells ScopeLang ScopeComp ScopeSim ScopeDefs2.
Import ListNotations.
Open Scope nat_scope.

(* ------------------------------------------------------------------------------------------ *)
(* the fragment *)

(* x occurs in s (function bodies included; parameters that shadow x are ignored: an over-approximation) *)
Fixpoint s_mentionsN (x : name) (s : stmt) : bool :=
  match s with
  | SDecl y e | SAssign y e => (y =? x) || e_mentions x e
  | SPrint e | SExpr e | SReturn e | SThrow e => e_mentions x e
  | SBlock b | SFiber b => existsb (s_mentionsN x) b
  | SFun f ps b | SLam f ps b => (f =? x) || existsb (s_mentionsN x) b
  | SLoop i _ b => (i =? x) || existsb (s_mentionsN x) b
  | SIf a c t e => e_mentions x a || e_mentions x c || existsb (s_mentionsN x) t || existsb (s_mentionsN x) e
  | SBreak | SContinue => false
  | _ => true
  end.

(* `infun`: inside a function body (return allowed); `top`: at depth 0 of the script (declarations are globals).
   `var x = |..| { b }` below the top level must not mention x in b (notes/C06.md, "Observation"). *)
Fixpoint stmt5 (infun top : bool) (s : stmt) : bool :=
  match s with
  | SDecl _ e | SAssign _ e | SPrint e | SExpr e => expr2 e
  | SReturn e => infun && expr2 e
  | SBlock b => forallb (stmt5 infun false) b
  | SLam x ps b => forallb (stmt5 true false) b && (top || negb (existsb (s_mentionsN x) b))
  | SFun _ ps b => forallb (stmt5 true false) b
  | _ => false
  end.

(* stages 3 and 4: `for` loops (SLoop), `if a < c {..} else {..}`, and - when `jumps` - break / continue inside loops.
   `inloop`: inside a loop body of the current function *)
Fixpoint stmt6 (jumps infun top inloop : bool) (s : stmt) : bool :=
  match s with
  | SDecl _ e | SAssign _ e | SPrint e | SExpr e => expr2 e
  | SReturn e => infun && expr2 e
  | SBlock b => forallb (stmt6 jumps infun false inloop) b
  | SLam x ps b => forallb (stmt6 jumps true false false) b && (top || negb (existsb (s_mentionsN x) b))
  | SFun _ ps b => forallb (stmt6 jumps true false false) b
  | SLoop _ _ b => forallb (stmt6 jumps infun false true) b
  | SIf a c t e => expr2 a && expr2 c && forallb (stmt6 jumps infun false inloop) t && forallb (stmt6 jumps infun false inloop) e
  | SBreak | SContinue => jumps && inloop
  | _ => false
  end.

(* ------------------------------------------------------------------------------------------ *)
(* the compiler of the fragment, pure.
   A function being compiled = (its locals L, scope depth d, its upvalue list U); the functions enclosing it,
   innermost first, = a list of levels (locals, upvalue list): compiling inside only raises is_captured flags of their
   locals and appends to their upvalue lists.  fs = the table of finished functions. *)

Record lev := mkLev { lv_locals : list local; lv_ups : ups_t }.

Section PureN.
Variable cf : cfg.

(* Parser::resolve_upvalue, recursive as in the source: x as an upvalue of a function with upvalue list U whose
   enclosing levels are E.  None = compile error (too many upvalues); Some (None, ..) = not found (a global). *)
Fixpoint rup (x : name) (U : ups_t) (E : list lev) : option (option nat * ups_t * list lev) :=
  match E with
  | [] => Some (None, U, [])
  | l :: E' =>
      match resolve_local (lv_locals l) x with
      | Some (slot, true) =>
          let '(U1, k, ovf) := add_upvalue (c_upvalues_max cf) U slot true in
          if ovf then None else Some (Some k, U1, mkLev (mark_captured (lv_locals l) slot) (lv_ups l) :: E')
      | _ =>
          match rup x (lv_ups l) E' with
          | None => None
          | Some (None, _, _) => Some (None, U, E)
          | Some (Some k1, Ul, E1) =>
              let '(U1, k, ovf) := add_upvalue (c_upvalues_max cf) U k1 false in
              if ovf then None else Some (Some k, U1, mkLev (lv_locals l) Ul :: E1)
          end
      end
  end.

(* Parser::resolve_variable *)
Definition rvn (L : list local) (U : ups_t) (E : list lev) (x : name) : option (vref * ups_t * list lev) :=
  match resolve_local L x with
  | Some (s, true) => Some (VLocal s, U, E)
  | Some (_, false) => None
  | None =>
      match rup x U E with
      | None => None
      | Some (None, _, _) => Some (VGlobal, U, E)
      | Some (Some k, U', E') => Some (VUp k, U', E')
      end
  end.

Fixpoint nexpr (L : list local) (e : expr) (U : ups_t) (E : list lev) : option (list instr * ups_t * list lev) :=
  match e with
  | ELit n => Some ([IConst n], U, E)
  | EVar x => match rvn L U E x with Some (r, U', E') => Some ([get_op r x], U', E') | None => None end
  | EAdd a b =>
      match nexpr L a U E with
      | Some (ca, U1, E1) =>
          match nexpr L b U1 E1 with
          | Some (cb, U2, E2) => Some ((ca ++ cb ++ [IAdd])%list, U2, E2)
          | None => None
          end
      | None => None
      end
  | ECall f args =>
      match rvn L U E f with
      | Some (r, U0, E0) =>
          match (fix go (l : list expr) (U : ups_t) (E : list lev) : option (list instr * ups_t * list lev) :=
                   match l with
                   | [] => Some ([], U, E)
                   | a :: t => match nexpr L a U E with
                               | Some (ca, U1, E1) =>
                                   match go t U1 E1 with
                                   | Some (ct, U2, E2) => Some ((ca ++ ct)%list, U2, E2)
                                   | None => None
                                   end
                               | None => None
                               end
                   end) args U0 E0 with
          | Some (cargs, U3, E3) => Some ((get_op r f :: cargs ++ [ICall (List.length args)])%list, U3, E3)
          | None => None
          end
      | None => None
      end
  | _ => None
  end.

(* the argument list of a call, named *)
Fixpoint nargs (L : list local) (l : list expr) (U : ups_t) (E : list lev) : option (list instr * ups_t * list lev) :=
  match l with
  | [] => Some ([], U, E)
  | a :: t => match nexpr L a U E with
              | Some (ca, U1, E1) =>
                  match nargs L t U1 E1 with
                  | Some (ct, U2, E2) => Some ((ca ++ ct)%list, U2, E2)
                  | None => None
                  end
              | None => None
              end
  end.

Definition nres : Type := list instr * list local * ups_t * list lev * list func.

(* function() / lambda() once the body list has been compiled inside the new level: the finished function, the
   Closure instruction, the enclosing function's locals / upvalues as the body's compilation left them *)
Definition nclose (ps : list name) (r : option nres) : option (instr * list local * ups_t * list lev * list func) :=
  match r with
  | Some (cb, _, Ub, lv :: E', fs1) =>
      Some (clo_instr (List.length fs1) Ub, lv_locals lv, lv_ups lv, E',
            (fs1 ++ [mkFunc (cb ++ [INil; IReturn]) (List.length ps) (List.length Ub)])%list)
  | _ => None
  end.

(* the innermost enclosing loop of the function being compiled: byte offset of its start (the IterNext), the scope
   depth of the loop (locals deeper than that are popped by break / continue), byte offset where `break` lands *)
Record lctx := mkLctx { lc_start : nat; lc_depth : nat; lc_exit : nat }.

Definition loop_pre (n : nat) : list instr := [INil; IConst 0; IConst (N.of_nat n); IBuildRange; IInvoke MIter 0].
Definition loop_head (lv x : nat) : list instr := [IIterNext; ISetLocal lv; IJumpIfStopIter x; IPop].

(* pos = byte offset, in the code of the function being compiled, at which the statement's code starts *)
Fixpoint nstmt (s : stmt) (L : list local) (d : nat) (U : ups_t) (E : list lev) (fs : list func)
               (pos : nat) (lc : option lctx) {struct s} : option nres :=
  let nl := fix go (l : list stmt) (dd : nat) (L : list local) (U : ups_t) (E : list lev) (fs : list func)
                   (pos : nat) (lc : option lctx) : option nres :=
    match l with
    | [] => Some ([], L, U, E, fs)
    | a :: r => match nstmt a L dd U E fs pos lc with
                | Some (ca, L1, U1, E1, fs1) =>
                    match go r dd L1 U1 E1 fs1 (pos + code_size ca) lc with
                    | Some (cr, L2, U2, E2, fs2) => Some ((ca ++ cr)%list, L2, U2, E2, fs2)
                    | None => None
                    end
                | None => None
                end
    end in
  (* { b } at depth dd (the statements inside are at depth S dd) *)
  let nblock := fun (b : list stmt) (dd : nat) (L : list local) (U : ups_t) (E : list lev) (fs : list func)
                    (pos : nat) (lc : option lctx) =>
    match nl b (S dd) L U E fs pos lc with
    | Some (cb, L', U', E', fs') =>
        let ops := scope_end_ops L' dd in Some ((cb ++ ops)%list, skipn (List.length ops) L', U', E', fs')
    | None => None
    end in
  (* the body of a function whose enclosing function has locals L1 *)
  let nfun := fun (ps : list name) (b : list stmt) (L1 : list local) =>
    match bparams cf ps [mkLocal None (Some 0) false] with
    | Some Lp => nclose ps (nl b 1 Lp [] (mkLev L1 U :: E) fs 0 None)
    | None => None
    end in
  match s with
  | SDecl x e =>
      if d =? 0 then
        match nexpr L e U E with Some (ce, U', E') => Some ((ce ++ [IDefineGlobal x])%list, L, U', E', fs) | None => None end
      else if dup_in_scope L x d then None
      else if List.length L =? c_locals_max cf then None
      else match nexpr (mkLocal (Some x) None false :: L) e U E with
           | Some (ce, U', E') => Some (ce, mkLocal (Some x) (Some d) false :: L, U', E', fs)
           | None => None
           end
  | SAssign x e =>
      match rvn L U E x with
      | Some (r, U0, E0) =>
          match nexpr L e U0 E0 with
          | Some (ce, U', E') => Some ((ce ++ [set_op r x; IPop])%list, L, U', E', fs)
          | None => None
          end
      | None => None
      end
  | SPrint e =>
      match nexpr L e U E with
      | Some (ce, U', E') => Some ((IGetGlobal GPrint :: ce ++ [ICall 1; IPop])%list, L, U', E', fs)
      | None => None
      end
  | SExpr e =>
      match nexpr L e U E with
      | Some (ce, U', E') => Some ((ce ++ [IPop])%list, L, U', E', fs)
      | None => None
      end
  | SReturn e =>
      match nexpr L e U E with
      | Some (ce, U', E') => Some ((ce ++ [IReturn])%list, L, U', E', fs)
      | None => None
      end
  | SBlock b => nblock b d L U E fs pos lc
  | SFun f ps b =>
      if d =? 0 then
        match nfun ps b L with
        | Some (ci, L', U', E', fs') => Some ([ci; IDefineGlobal f], L', U', E', fs')
        | None => None
        end
      else if dup_in_scope L f d then None
      else if List.length L =? c_locals_max cf then None
      else
        match nfun ps b (mkLocal (Some f) (Some d) false :: L) with
        | Some (ci, L', U', E', fs') => Some ([ci], L', U', E', fs')
        | None => None
        end
  | SLam x ps b =>
      if d =? 0 then
        match nfun ps b L with
        | Some (ci, L', U', E', fs') => Some ([ci; IDefineGlobal x], L', U', E', fs')
        | None => None
        end
      else if dup_in_scope L x d then None
      else if List.length L =? c_locals_max cf then None
      else
        match nfun ps b (mkLocal (Some x) None false :: L) with
        | Some (ci, l0 :: L', U', E', fs') => Some ([ci], mkLocal (Some x) (Some d) (l_capt l0) :: L', U', E', fs')
        | _ => None
        end
  | SLoop i n b =>
      if dup_in_scope L i (S d) then None
      else if List.length L =? c_locals_max cf then None
      else if S (List.length L) =? c_locals_max cf then None
      else
        let lv := List.length L in
        let Lh := mkLocal None (Some (S d)) false :: mkLocal (Some i) (Some (S d)) false :: L in
        let start := pos + code_size (loop_pre n) in
        let posb := start + code_size (loop_head lv 0) in
        (* first pass: the size of the body block (jump operands do not matter for sizes) *)
        match nblock b (S d) Lh U E fs posb (Some (mkLctx start (S d) 0)) with
        | Some (c0, _, _, _, _) =>
            let szb := code_size c0 in
            match nblock b (S d) Lh U E fs posb (Some (mkLctx start (S d) (posb + szb + 3 + 1))) with
            | Some (cblock, L1, U', E', fs') =>
                let ops := scope_end_ops L1 d in
                Some ((loop_pre n ++ loop_head lv (1 + szb + 3) ++ cblock
                       ++ [ILoop (code_size (loop_head lv 0) + szb + 3); IPop] ++ ops)%list,
                      skipn (List.length ops) L1, U', E', fs')
            | None => None
            end
        | None => None
        end
  | SIf a c t e =>
      match nexpr L a U E with
      | Some (ca, U1, E1) =>
          match nexpr L c U1 E1 with
          | Some (cc, U2, E2) =>
              let post := pos + code_size ca + code_size cc + code_size [ILess; IJumpIfFalse 0; IPop] in
              match nblock t d L U2 E2 fs post lc with
              | Some (ct, L1, U3, E3, fs1) =>
                  let pose := post + code_size ct + code_size [IJump 0; IPop] in
                  match nblock e d L1 U3 E3 fs1 pose lc with
                  | Some (cel, L2, U4, E4, fs2) =>
                      Some ((ca ++ cc ++ [ILess; IJumpIfFalse (1 + code_size ct + 3); IPop] ++ ct
                             ++ [IJump (1 + code_size cel); IPop] ++ cel)%list, L2, U4, E4, fs2)
                  | None => None
                  end
              | None => None
              end
          | None => None
          end
      | None => None
      end
  | SBreak =>
      match lc with
      | Some l =>
          let ops := scope_end_ops L (lc_depth l) in
          Some ((ops ++ [IJump (lc_exit l - (pos + code_size ops + 3))])%list, L, U, E, fs)
      | None => None
      end
  | SContinue =>
      match lc with
      | Some l =>
          let ops := scope_end_ops L (lc_depth l) in
          Some ((ops ++ [ILoop (pos + code_size ops + 3 - lc_start l)])%list, L, U, E, fs)
      | None => None
      end
  | _ => None
  end.

Fixpoint nlist (l : list stmt) (d : nat) (L : list local) (U : ups_t) (E : list lev) (fs : list func)
               (pos : nat) (lc : option lctx) : option nres :=
  match l with
  | [] => Some ([], L, U, E, fs)
  | a :: r => match nstmt a L d U E fs pos lc with
              | Some (ca, L1, U1, E1, fs1) =>
                  match nlist r d L1 U1 E1 fs1 (pos + code_size ca) lc with
                  | Some (cr, L2, U2, E2, fs2) => Some ((ca ++ cr)%list, L2, U2, E2, fs2)
                  | None => None
                  end
              | None => None
              end
  end.

(* { b } at depth d, named *)
Definition nblk (b : list stmt) (d : nat) (L : list local) (U : ups_t) (E : list lev) (fs : list func)
                (pos : nat) (lc : option lctx) : option nres :=
  match nlist b (S d) L U E fs pos lc with
  | Some (cb, L', U', E', fs') =>
      let ops := scope_end_ops L' d in Some ((cb ++ ops)%list, skipn (List.length ops) L', U', E', fs')
  | None => None
  end.

(* function() / lambda(), named: parameters ps, body b, in a function with locals L1, upvalues U, enclosing levels E *)
Definition nfunc (ps : list name) (b : list stmt) (L1 : list local) (U : ups_t) (E : list lev) (fs : list func)
  : option (instr * list local * ups_t * list lev * list func) :=
  match bparams cf ps [mkLocal None (Some 0) false] with
  | Some Lp => nclose ps (nlist b 1 Lp [] (mkLev L1 U :: E) fs 0 None)
  | None => None
  end.

End PureN.

(* the compiler stack: c the innermost function, cs the enclosing ones *)
Definition stk (c : fcomp) (cs : list fcomp) (fs : list func) : cst := mkCst (c :: cs) fs None.
Definition lev_of (c : fcomp) : lev := mkLev (fc_locals c) (fc_ups c).
Definition put_lev (c : fcomp) (l : lev) : fcomp := set_ups (set_locals c (lv_locals l)) (lv_ups l).
Fixpoint put_levs (cs : list fcomp) (E : list lev) : list fcomp :=
  match cs, E with
  | c :: cr, l :: lr => put_lev c l :: put_levs cr lr
  | _, _ => cs
  end.
