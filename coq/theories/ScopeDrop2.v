(* C06 - stage 1: a local of the enclosing function that the body never mentions does not influence the
   compilation of the body (used for `var x = |..| {..}` whose x is uninitialised while the body is compiled,
   and to bound the captured slots). *)
From Coq Require Import List Arith Bool String ZArith NArith Lia.
From YV Require Import Show Upvalues Cells ScopeLang ScopeComp ScopeSim ScopeDefs2.
Import ListNotations.
Import Gen.
Open Scope nat_scope.

Section Drop.
Variable cf : cfg.

Lemma resolve_local_lt : forall L x s b, resolve_local L x = Some (s, b) -> s < List.length L.
Proof.
  induction L as [|l r IH]; intros x s b H; cbn in H; [discriminate|].
  destruct (name_is l x); [inversion H; subst; cbn; lia|]. apply IH in H. cbn. lia.
Qed.

Lemma mark_captured_cons : forall l0 L slot, slot < List.length L -> mark_captured (l0 :: L) slot = l0 :: mark_captured L slot.
Proof. intros l0 L slot H. cbn. destruct (Nat.eqb_spec (List.length L) slot); [lia|reflexivity]. Qed.

Definition lift3 {A B} (l0 : local) (r : option (A * B * list local)) : option (A * B * list local) :=
  match r with Some (a, b, L') => Some (a, b, l0 :: L') | None => None end.

Lemma rvb_drop : forall Lb U l0 L x y, l_name l0 = Some x -> y <> x ->
  rvb cf Lb (l0 :: L) U y = lift3 l0 (rvb cf Lb L U y).
Proof.
  intros Lb U l0 L x y Hn Hne. unfold rvb.
  destruct (resolve_local Lb y) as [[s [|]]|]; try reflexivity.
  cbn [resolve_local]. unfold name_is. rewrite Hn.
  destruct (Nat.eqb_spec x y) as [E|_]; [congruence|].
  destruct (resolve_local L y) as [[slot [|]]|] eqn:E; try reflexivity.
  destruct (add_upvalue (c_upvalues_max cf) U slot true) as [[U' k] ovf]. destruct ovf; [reflexivity|].
  cbn [lift3]. rewrite mark_captured_cons by (eapply resolve_local_lt; eauto). reflexivity.
Qed.

Lemma bexpr_drop : forall e, expr2 e = true -> forall Lb U l0 L x, l_name l0 = Some x -> e_mentions x e = false ->
  bexpr cf Lb e U (l0 :: L) = lift3 l0 (bexpr cf Lb e U L).
Proof.
  fix IH 1. intros e He Lb U l0 L x Hn Hm. destruct e as [n|y|a b|f args| |vv k args]; cbn in He; try discriminate.
  - reflexivity.
  - cbn [bexpr]. cbn in Hm. rewrite (rvb_drop Lb U l0 L x y Hn) by (intro; subst; now rewrite Nat.eqb_refl in Hm).
    destruct (rvb cf Lb L U y) as [[[r U'] L']|]; reflexivity.
  - apply andb_prop in He as [Ha Hb]. cbn in Hm. apply orb_false_elim in Hm as [Hma Hmb]. cbn [bexpr].
    rewrite (IH a Ha Lb U l0 L x Hn Hma). destruct (bexpr cf Lb a U L) as [[[ca U1] L1]|]; [|reflexivity]. cbn [lift3].
    rewrite (IH b Hb Lb U1 l0 L1 x Hn Hmb). destruct (bexpr cf Lb b U1 L1) as [[[cb U2] L2]|]; reflexivity.
  - cbn in Hm. apply orb_false_elim in Hm as [Hmf Hma]. cbn [bexpr].
    rewrite (rvb_drop Lb U l0 L x f Hn) by (intro; subst; now rewrite Nat.eqb_refl in Hmf).
    destruct (rvb cf Lb L U f) as [[[r U0] L0]|]; [|reflexivity]. cbn [lift3].
    assert (G : forall args0, forallb expr2 args0 = true -> existsb (e_mentions x) args0 = false -> forall U1 L1,
      (fix go (l : list expr) (U : ups_t) (Ls : list local) : option (list instr * ups_t * list local) :=
         match l with
         | [] => Some ([], U, Ls)
         | a :: t => match bexpr cf Lb a U Ls with
                     | Some (ca, U1, Ls1) => match go t U1 Ls1 with
                                             | Some (ct, U2, Ls2) => Some ((ca ++ ct)%list, U2, Ls2)
                                             | None => None
                                             end
                     | None => None
                     end
         end) args0 U1 (l0 :: L1) =
      lift3 l0 ((fix go (l : list expr) (U : ups_t) (Ls : list local) : option (list instr * ups_t * list local) :=
         match l with
         | [] => Some ([], U, Ls)
         | a :: t => match bexpr cf Lb a U Ls with
                     | Some (ca, U1, Ls1) => match go t U1 Ls1 with
                                             | Some (ct, U2, Ls2) => Some ((ca ++ ct)%list, U2, Ls2)
                                             | None => None
                                             end
                     | None => None
                     end
         end) args0 U1 L1)).
    { induction args0 as [|a t IHt]; intros Hf0 Hm0 U1 L1; [reflexivity|].
      cbn in Hf0. apply andb_prop in Hf0 as [Hfa Hft]. cbn in Hm0. apply orb_false_elim in Hm0 as [Hm1 Hm2].
      rewrite (IH a Hfa Lb U1 l0 L1 x Hn Hm1). destruct (bexpr cf Lb a U1 L1) as [[[ca U2] L2]|]; [|reflexivity]. cbn [lift3].
      rewrite (IHt Hft Hm2 U2 L2).
      destruct ((fix go (l : list expr) (U : ups_t) (Ls : list local) : option (list instr * ups_t * list local) :=
         match l with
         | [] => Some ([], U, Ls)
         | a :: t => match bexpr cf Lb a U Ls with
                     | Some (ca, U1, Ls1) => match go t U1 Ls1 with
                                             | Some (ct, U2, Ls2) => Some ((ca ++ ct)%list, U2, Ls2)
                                             | None => None
                                             end
                     | None => None
                     end
         end) t U2 L2) as [[[ct U3] L3]|]; reflexivity. }
    rewrite (G args He Hma U0 L0).
    destruct ((fix go (l : list expr) (U : ups_t) (Ls : list local) : option (list instr * ups_t * list local) :=
         match l with
         | [] => Some ([], U, Ls)
         | a :: t => match bexpr cf Lb a U Ls with
                     | Some (ca, U1, Ls1) => match go t U1 Ls1 with
                                             | Some (ct, U2, Ls2) => Some ((ca ++ ct)%list, U2, Ls2)
                                             | None => None
                                             end
                     | None => None
                     end
         end) args U0 L0) as [[[cargs U3] L3]|]; reflexivity.
Qed.

Definition lift4 {A B C} (l0 : local) (r : option (A * B * C * list local)) : option (A * B * C * list local) :=
  match r with Some (a, b, c, L') => Some (a, b, c, l0 :: L') | None => None end.

Lemma bstmt_drop : forall s, bstmt2 s = true -> forall Lb d U l0 L x, l_name l0 = Some x -> s_mentions x s = false ->
  bstmt cf s Lb d U (l0 :: L) = lift4 l0 (bstmt cf s Lb d U L).
Proof.
  fix IH 1. intros s Hs Lb d U l0 L x Hn Hm. destruct s; cbn in Hs; try discriminate.
  - (* SDecl *) cbn in Hm. apply orb_false_elim in Hm as [_ Hme]. cbn [bstmt].
    destruct (dup_in_scope Lb x0 d); [reflexivity|]. destruct (List.length Lb =? c_locals_max cf); [reflexivity|].
    rewrite (bexpr_drop e Hs _ U l0 L x Hn Hme). destruct (bexpr cf _ e U L) as [[[ce U'] L']|]; reflexivity.
  - (* SAssign *) cbn in Hm. apply orb_false_elim in Hm as [Hmx Hme]. cbn [bstmt].
    rewrite (rvb_drop Lb U l0 L x x0 Hn) by (intro; subst; now rewrite Nat.eqb_refl in Hmx).
    destruct (rvb cf Lb L U x0) as [[[r U0] L0]|]; [|reflexivity]. cbn [lift3].
    rewrite (bexpr_drop e Hs _ U0 l0 L0 x Hn Hme). destruct (bexpr cf Lb e U0 L0) as [[[ce U'] L']|]; reflexivity.
  - (* SPrint *) cbn in Hm. cbn [bstmt]. rewrite (bexpr_drop e Hs _ U l0 L x Hn Hm).
    destruct (bexpr cf Lb e U L) as [[[ce U'] L']|]; reflexivity.
  - (* SExpr *) cbn in Hm. cbn [bstmt]. rewrite (bexpr_drop e Hs _ U l0 L x Hn Hm).
    destruct (bexpr cf Lb e U L) as [[[ce U'] L']|]; reflexivity.
  - (* SBlock *) cbn in Hm. cbn [bstmt].
    assert (G : forall b0, forallb bstmt2 b0 = true -> existsb (s_mentions x) b0 = false -> forall Lb1 U1 L1,
      (fix go (l : list stmt) (Lb : list local) (U : ups_t) (Ls : list local)
           : option (list instr * list local * ups_t * list local) :=
           match l with
           | [] => Some ([], Lb, U, Ls)
           | a :: r => match bstmt cf a Lb (S d) U Ls with
                       | Some (ca, Lb1, U1, Ls1) => match go r Lb1 U1 Ls1 with
                                                    | Some (cr, Lb2, U2, Ls2) => Some ((ca ++ cr)%list, Lb2, U2, Ls2)
                                                    | None => None
                                                    end
                       | None => None
                       end
           end) b0 Lb1 U1 (l0 :: L1) =
      lift4 l0 ((fix go (l : list stmt) (Lb : list local) (U : ups_t) (Ls : list local)
           : option (list instr * list local * ups_t * list local) :=
           match l with
           | [] => Some ([], Lb, U, Ls)
           | a :: r => match bstmt cf a Lb (S d) U Ls with
                       | Some (ca, Lb1, U1, Ls1) => match go r Lb1 U1 Ls1 with
                                                    | Some (cr, Lb2, U2, Ls2) => Some ((ca ++ cr)%list, Lb2, U2, Ls2)
                                                    | None => None
                                                    end
                       | None => None
                       end
           end) b0 Lb1 U1 L1)).
    { induction b0 as [|a r IHr]; intros Hf0 Hm0 Lb1 U1 L1; [reflexivity|].
      cbn in Hf0. apply andb_prop in Hf0 as [Hfa Hfr]. cbn in Hm0. apply orb_false_elim in Hm0 as [Hm1 Hm2].
      rewrite (IH a Hfa Lb1 (S d) U1 l0 L1 x Hn Hm1). destruct (bstmt cf a Lb1 (S d) U1 L1) as [[[[ca Lb2] U2] L2]|]; [|reflexivity].
      cbn [lift4]. rewrite (IHr Hfr Hm2 Lb2 U2 L2).
      match goal with |- context [lift4 l0 ?t] => destruct t as [[[[cr Lb3] U3] L3]|] end; reflexivity. }
    rewrite (G b Hs Hm Lb U L).
    match goal with |- context [lift4 l0 ?t] => destruct t as [[[[cb Lb'] U'] L']|] end; reflexivity.
  - (* SReturn *) cbn in Hm. cbn [bstmt]. rewrite (bexpr_drop e Hs _ U l0 L x Hn Hm).
    destruct (bexpr cf Lb e U L) as [[[ce U'] L']|]; reflexivity.
Qed.

Lemma blist_drop : forall b, forallb bstmt2 b = true -> forall Lb d U l0 L x, l_name l0 = Some x ->
  existsb (s_mentions x) b = false -> blist cf b Lb d U (l0 :: L) = lift4 l0 (blist cf b Lb d U L).
Proof.
  induction b as [|a r IH]; intros Hb Lb d U l0 L x Hn Hm; [reflexivity|].
  cbn in Hb. apply andb_prop in Hb as [Ha Hr]. cbn in Hm. apply orb_false_elim in Hm as [Hm1 Hm2]. cbn [blist].
  rewrite (bstmt_drop a Ha Lb d U l0 L x Hn Hm1). destruct (bstmt cf a Lb d U L) as [[[[ca Lb1] U1] L1]|]; [|reflexivity].
  cbn [lift4]. rewrite (IH Hr Lb1 d U1 l0 L1 x Hn Hm2). destruct (blist cf r Lb1 d U1 L1) as [[[[cr Lb2] U2] L2]|]; reflexivity.
Qed.

Lemma cbody_drop : forall ps b l0 L x, forallb bstmt2 b = true -> l_name l0 = Some x -> existsb (s_mentions x) b = false ->
  cbody cf ps b (l0 :: L) = lift3 l0 (cbody cf ps b L).
Proof.
  intros ps b l0 L x Hb Hn Hm. unfold cbody. destruct (bparams cf ps _) as [Lb0|]; [|reflexivity].
  rewrite (blist_drop b Hb Lb0 1 [] l0 L x Hn Hm). destruct (blist cf b Lb0 1 [] L) as [[[[code Lb'] U] L']|]; reflexivity.
Qed.

End Drop.
