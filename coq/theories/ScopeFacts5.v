(* C06 - stage 5 (stage 4 + throw + try / catch): structural facts about the pure compiler of ScopeDefs5.v.
   The lemmas of ScopeFactsN.v that mention nstmt / nlist / nblk / nfunc / stmt6u, re-proved for the compiler of
   ScopeDefs5.v on the weak fragment stmt7u (same names: they shadow the imported ones).  PROOFS ONLY (plus the
   proposition-level definitions needed to state them). *)
From Coq Require Import List Arith Bool String ZArith NArith Lia.
From YV Require Import Show Upvalues Cells ScopeLang ScopeComp ScopeLangProofs ScopeSim ScopeDefs2 ScopeComp2 ScopeDrop2 ScopeAux2 ScopeDefsN ScopeFactsN ScopeDefs5.
Import ListNotations.
Open Scope nat_scope.

(* ------------------------------------------------------------------------------------------ *)
(* unfolding *)

Definition nl_fix (cf : cfg) :=
  fix go (l : list stmt) (dd : nat) (L : list local) (U : ups_t) (E : list lev) (fs : list func)
         (pos : nat) (lc : option lctx) {struct l} : option nres :=
    match l with
    | [] => Some ([], L, U, E, fs)
    | a :: r => match nstmt cf a L dd U E fs pos lc with
                | Some (ca, L1, U1, E1, fs1) =>
                    match go r dd L1 U1 E1 fs1 (pos + code_size ca) lc with
                    | Some (cr, L2, U2, E2, fs2) => Some ((ca ++ cr)%list, L2, U2, E2, fs2)
                    | None => None
                    end
                | None => None
                end
    end.

Lemma nl_eq : forall cf l dd L U E fs pos lc, nl_fix cf l dd L U E fs pos lc = nlist cf l dd L U E fs pos lc.
Proof.
  intros cf. induction l as [|a r IH]; intros dd L U E fs pos lc; [reflexivity|]. cbn [nl_fix nlist].
  destruct (nstmt cf a L dd U E fs pos lc) as [[[[[ca L2] U2] E2] fs2]|]; [|reflexivity]. fold (nl_fix cf). now rewrite IH.
Qed.

Lemma nstmt_block : forall cf b L d U E fs pos lc,
  nstmt cf (SBlock b) L d U E fs pos lc = nblk cf b d L U E fs pos lc.
Proof. intros. cbn [nstmt]. fold (nl_fix cf). unfold nblk. now rewrite nl_eq. Qed.

Lemma nstmt_fun : forall cf f ps b L d U E fs pos lc,
  nstmt cf (SFun f ps b) L d U E fs pos lc =
  if d =? 0 then
    match nfunc cf ps b L U E fs with
    | Some (ci, L', U', E', fs') => Some ([ci; IDefineGlobal f], L', U', E', fs')
    | None => None
    end
  else if dup_in_scope L f d then None
  else if List.length L =? c_locals_max cf then None
  else
    match nfunc cf ps b (mkLocal (Some f) (Some d) false :: L) U E fs with
    | Some (ci, L', U', E', fs') => Some ([ci], L', U', E', fs')
    | None => None
    end.
Proof.
  intros. cbn [nstmt]. fold (nl_fix cf). unfold nfunc. destruct (d =? 0).
  - destruct (bparams cf ps _); [|reflexivity]. now rewrite nl_eq.
  - destruct (dup_in_scope L f d); [reflexivity|]. destruct (List.length L =? c_locals_max cf); [reflexivity|].
    destruct (bparams cf ps _); [|reflexivity]. now rewrite nl_eq.
Qed.

Lemma nstmt_lam : forall cf x ps b L d U E fs pos lc,
  nstmt cf (SLam x ps b) L d U E fs pos lc =
  if d =? 0 then
    match nfunc cf ps b L U E fs with
    | Some (ci, L', U', E', fs') => Some ([ci; IDefineGlobal x], L', U', E', fs')
    | None => None
    end
  else if dup_in_scope L x d then None
  else if List.length L =? c_locals_max cf then None
  else
    match nfunc cf ps b (mkLocal (Some x) None false :: L) U E fs with
    | Some (ci, l0 :: L', U', E', fs') => Some ([ci], mkLocal (Some x) (Some d) (l_capt l0) :: L', U', E', fs')
    | _ => None
    end.
Proof.
  intros. cbn [nstmt]. fold (nl_fix cf). unfold nfunc. destruct (d =? 0).
  - destruct (bparams cf ps _); [|reflexivity]. now rewrite nl_eq.
  - destruct (dup_in_scope L x d); [reflexivity|]. destruct (List.length L =? c_locals_max cf); [reflexivity|].
    destruct (bparams cf ps _); [|reflexivity]. now rewrite nl_eq.
Qed.

Lemma nstmt_loop : forall cf i n b L d U E fs pos lc,
  nstmt cf (SLoop i n b) L d U E fs pos lc =
  if dup_in_scope L i (S d) then None
  else if List.length L =? c_locals_max cf then None
  else if S (List.length L) =? c_locals_max cf then None
  else
    let lv := List.length L in
    let Lh := mkLocal None (Some (S d)) false :: mkLocal (Some i) (Some (S d)) false :: L in
    let start := pos + code_size (loop_pre n) in
    let posb := start + code_size (loop_head lv 0) in
    match nblk cf b (S d) Lh U E fs posb (Some (mkLctx start (S d) 0)) with
    | Some (c0, _, _, _, _) =>
        let szb := code_size c0 in
        match nblk cf b (S d) Lh U E fs posb (Some (mkLctx start (S d) (posb + szb + 3 + 1))) with
        | Some (cblock, L1, U', E', fs') =>
            let ops := scope_end_ops L1 d in
            Some ((loop_pre n ++ loop_head lv (1 + szb + 3) ++ cblock
                   ++ [ILoop (code_size (loop_head lv 0) + szb + 3); IPop] ++ ops)%list,
                  skipn (List.length ops) L1, U', E', fs')
        | None => None
        end
    | None => None
    end.
Proof.
  intros. cbn [nstmt]. fold (nl_fix cf). unfold nblk.
  destruct (dup_in_scope L i (S d)); [reflexivity|]. destruct (List.length L =? c_locals_max cf); [reflexivity|].
  destruct (S (List.length L) =? c_locals_max cf); [reflexivity|]. cbv zeta. now rewrite !nl_eq.
Qed.

Lemma nstmt_if : forall cf a c t e L d U E fs pos lc,
  nstmt cf (SIf a c t e) L d U E fs pos lc =
  match nexpr cf L a U E with
  | Some (ca, U1, E1) =>
      match nexpr cf L c U1 E1 with
      | Some (cc, U2, E2) =>
          let post := pos + code_size ca + code_size cc + code_size [ILess; IJumpIfFalse 0; IPop] in
          match nblk cf t d L U2 E2 fs post lc with
          | Some (ct, L1, U3, E3, fs1) =>
              let pose := post + code_size ct + code_size [IJump 0; IPop] in
              match nblk cf e d L1 U3 E3 fs1 pose lc with
              | Some (cel, L2, U4, E4, fs2) =>
                  Some ((ca ++ cc ++ [ILess; IJumpIfFalse (1 + code_size ct + 3); IPop] ++ ct
                         ++ [IJump (1 + code_size cel); IPop] ++ cel)%list, L2, U4, E4, fs2)
              | None => None
              end
          | None => None
          end
      | None => None
      end
  | None => None
  end.
Proof.
  intros. cbn [nstmt]. fold (nl_fix cf). unfold nblk.
  destruct (nexpr cf L a U E) as [[[ca U1] E1]|]; [|reflexivity].
  destruct (nexpr cf L c U1 E1) as [[[cc U2] E2]|]; [|reflexivity]. cbv zeta. now rewrite !nl_eq.
Qed.

Lemma nstmt_throw : forall cf e L d U E fs pos lc,
  nstmt cf (SThrow e) L d U E fs pos lc =
  match nexpr cf L e U E with
  | Some (ce, U', E') => Some ((ce ++ [IThrow])%list, L, U', E', fs)
  | None => None
  end.
Proof. reflexivity. Qed.

Lemma nstmt_try : forall cf b x h L d U E fs pos lc,
  nstmt cf (STry b x h) L d U E fs pos lc =
  match nblk cf b d L U E fs (pos + 5) lc with
  | Some (cb, L1, U1, E1, fs1) =>
      if dup_in_scope L1 x (S d) then None
      else if List.length L1 =? c_locals_max cf then None
      else
        let cp := if c_catch_pops cf then [IPopExc] else [] in
        match nlist cf h (S d) (mkLocal (Some x) (Some (S d)) false :: L1) U1 E1 fs1
                    (pos + 5 + code_size cb + 4 + code_size cp) lc with
        | Some (ch, L2, U2, E2, fs2) =>
            let ops := scope_end_ops L2 d in
            let chh := (cp ++ ch ++ ops)%list in
            Some ((IPushExc (code_size cb + 4) (code_size chh) :: cb ++ [IPopExc; IJump (code_size chh)] ++ chh)%list,
                  skipn (List.length ops) L2, U2, E2, fs2)
        | None => None
        end
  | None => None
  end.
Proof.
  intros. cbn [nstmt]. fold (nl_fix cf). unfold nblk. rewrite (nl_eq cf b (S d) L U E fs (pos + 5) lc).
  destruct (nlist cf b (S d) L U E fs (pos + 5) lc) as [[[[[cb L1] U1] E1] fs1]|]; [|reflexivity]. cbv beta iota zeta.
  destruct (dup_in_scope _ x (S d)); [reflexivity|]. destruct (List.length _ =? c_locals_max cf); [reflexivity|].
  now rewrite nl_eq.
Qed.

(* ------------------------------------------------------------------------------------------ *)
(* the fragment without side conditions, and its nested induction principle *)

Fixpoint stmt7u (s : stmt) : bool :=
  match s with
  | SDecl _ e | SAssign _ e | SPrint e | SExpr e | SReturn e | SThrow e => expr2 e
  | SBlock b => forallb stmt7u b
  | SFun _ _ b | SLam _ _ b => forallb stmt7u b
  | SLoop _ _ b => forallb stmt7u b
  | SIf a c t e => expr2 a && expr2 c && forallb stmt7u t && forallb stmt7u e
  | SBreak | SContinue => true
  | STry b _ h => forallb stmt7u b && forallb stmt7u h
  | _ => false
  end.

Lemma stmt7u_ind : forall P : stmt -> Prop,
  (forall x e, expr2 e = true -> P (SDecl x e)) -> (forall x e, expr2 e = true -> P (SAssign x e)) ->
  (forall e, expr2 e = true -> P (SPrint e)) -> (forall e, expr2 e = true -> P (SExpr e)) ->
  (forall e, expr2 e = true -> P (SReturn e)) ->
  (forall b, forallb stmt7u b = true -> Forall P b -> P (SBlock b)) ->
  (forall f ps b, forallb stmt7u b = true -> Forall P b -> P (SFun f ps b)) ->
  (forall x ps b, forallb stmt7u b = true -> Forall P b -> P (SLam x ps b)) ->
  (forall i n b, forallb stmt7u b = true -> Forall P b -> P (SLoop i n b)) ->
  (forall a c t e, expr2 a = true -> expr2 c = true -> forallb stmt7u t = true -> forallb stmt7u e = true ->
                   Forall P t -> Forall P e -> P (SIf a c t e)) ->
  P SBreak -> P SContinue ->
  (forall e, expr2 e = true -> P (SThrow e)) ->
  (forall b x h, forallb stmt7u b = true -> forallb stmt7u h = true -> Forall P b -> Forall P h -> P (STry b x h)) ->
  forall s, stmt7u s = true -> P s.
Proof.
  intros P Hd Ha Hp He Hr Hb Hf Hl Hlo Hi Hbr Hco Hth Htr. fix IH 1. intros s H.
  assert (G : forall l, forallb stmt7u l = true -> Forall P l).
  { fix go 1. intros l H0. destruct l as [|a r]; [constructor|]. cbn in H0. apply andb_prop in H0. destruct H0 as [H1 H2].
    constructor; [apply IH; exact H1|apply go; exact H2]. }
  destruct s; cbn in H; try discriminate.
  - apply Hd; exact H.
  - apply Ha; exact H.
  - apply Hp; exact H.
  - apply He; exact H.
  - apply Hb; [exact H|apply G; exact H].
  - apply Hf; [exact H|apply G; exact H].
  - apply Hl; [exact H|apply G; exact H].
  - apply Hlo; [exact H|apply G; exact H].
  - apply andb_prop in H. destruct H as [H H4]. apply andb_prop in H. destruct H as [H H3]. apply andb_prop in H. destruct H as [H1 H2].
    apply Hi; auto.
  - exact Hbr.
  - exact Hco.
  - apply Hr; exact H.
  - apply Hth; exact H.
  - apply andb_prop in H. destruct H as [H1 H2]. apply Htr; auto.
Qed.

Lemma stmt7_stmt7u : forall s j i t l, stmt7 j i t l s = true -> stmt7u s = true.
Proof.
  fix IH 1. intros s j i t l H.
  assert (G : forall ls j0 i0 t0 l0, forallb (stmt7 j0 i0 t0 l0) ls = true -> forallb stmt7u ls = true).
  { fix go 1. intros ls j0 i0 t0 l0 H0. destruct ls as [|a r]; [reflexivity|]. cbn in H0 |- *. apply andb_prop in H0. destruct H0 as [H1 H2].
    rewrite (IH _ _ _ _ _ H1). exact (go _ _ _ _ _ H2). }
  destruct s; cbn in H |- *; try discriminate; try exact H; try reflexivity.
  - exact (G _ _ _ _ _ H).
  - exact (G _ _ _ _ _ H).
  - apply andb_prop in H. destruct H as [H1 _]. exact (G _ _ _ _ _ H1).
  - exact (G _ _ _ _ _ H).
  - apply andb_prop in H. destruct H as [H H4]. apply andb_prop in H. destruct H as [H H3]. apply andb_prop in H. destruct H as [H1 H2].
    rewrite H1, H2, (G _ _ _ _ _ H3), (G _ _ _ _ _ H4). reflexivity.
  - apply andb_prop in H. destruct H as [_ H2]. exact H2.
  - apply andb_prop in H. destruct H as [H1 H2]. rewrite (G _ _ _ _ _ H1), (G _ _ _ _ _ H2). reflexivity.
Qed.

Lemma forallb_stmt7_stmt7u : forall ls j i t l, forallb (stmt7 j i t l) ls = true -> forallb stmt7u ls = true.
Proof.
  induction ls as [|a r IH]; intros j i t l H; [reflexivity|]. cbn in H |- *. apply andb_prop in H. destruct H as [H1 H2].
  now rewrite (stmt7_stmt7u _ _ _ _ _ H1), (IH _ _ _ _ H2).
Qed.

(* ------------------------------------------------------------------------------------------ *)
(* statements: the function's own locals gain entries of the current depth, older ones keep names / depths *)

Definition nstmt_okP (cf : cfg) (s : stmt) : Prop := forall L d U E fs pos lc code L' U' E' fs',
  nstmt cf s L d U E fs pos lc = Some (code, L', U', E', fs') -> depth_le d L ->
  step_ok U E U' E' /\ fgrow fs fs' /\ lext d L L'.

Definition nlist_okP (cf : cfg) (b : list stmt) : Prop := forall L d U E fs pos lc code L' U' E' fs',
  nlist cf b d L U E fs pos lc = Some (code, L', U', E', fs') -> depth_le d L ->
  step_ok U E U' E' /\ fgrow fs fs' /\ lext d L L'.

Lemma nlist_ok_aux : forall cf b, Forall (nstmt_okP cf) b -> nlist_okP cf b.
Proof.
  intros cf b H. induction H as [|a r Ha Hr IH]; intros L d U E fs pos lc code L' U' E' fs' Hc Hd; cbn [nlist] in Hc.
  - inversion Hc; subst. split; [apply step_ok_refl|]. split; [apply fgrow_refl|apply lext_refl].
  - destruct (nstmt cf a L d U E fs pos lc) as [[[[[ca L1] U1] E1] fs1]|] eqn:E1'; [|discriminate].
    destruct (nlist cf r d L1 U1 E1 fs1 (pos + code_size ca) lc) as [[[[[cr L2] U2] E2] fs2]|] eqn:E2'; [|discriminate]. inversion Hc; subst.
    destruct (Ha _ _ _ _ _ _ _ _ _ _ _ _ E1' Hd) as (A1 & A2 & A3).
    destruct (IH _ _ _ _ _ _ _ _ _ _ _ _ E2' (lext_depth_le _ _ _ Hd A3)) as (B1 & B2 & B3).
    split; [eapply step_ok_trans; eauto|]. split; [eapply fgrow_trans; eauto|eapply lext_trans; eauto].
Qed.

(* function() / lambda() *)
Lemma nfunc_ok_aux : forall cf ps b, nlist_okP cf b -> forall L1 U E fs ci L1' U' E' fs',
  nfunc cf ps b L1 U E fs = Some (ci, L1', U', E', fs') ->
  step_ok U E U' E' /\ fgrow fs fs' /\ flags_up L1 L1'.
Proof.
  intros cf ps b Hb L1 U E fs ci L1' U' E' fs' H. unfold nfunc in H.
  destruct (bparams cf ps _) as [Lp|] eqn:Ep; [|discriminate].
  destruct (nlist cf b 1 Lp [] (mkLev L1 U :: E) fs 0 None) as [[[[[cb Lb'] Ub] Eo] fs1]|] eqn:El; [|discriminate].
  cbn [nclose] in H. destruct Eo as [|lv E0]; [discriminate|]. inversion H; subst.
  destruct (Hb _ _ _ _ _ _ _ _ _ _ _ _ El (proj1 (bparams_depth _ _ _ Ep))) as ((_ & F) & G & _).
  inversion F as [|? ? ? ? [F1 [ext F2]] F3]; subst. cbn in F1, F2.
  split; [split; [eauto|exact F3]|]. split; [|exact F1].
  destruct G as [e ->]. exists (e ++ [mkFunc (cb ++ [INil; IReturn]) (List.length ps) (List.length Ub)])%list. now rewrite app_assoc.
Qed.

(* { b } : the locals come back with (possibly) raised flags *)
Lemma nblk_ok_aux : forall cf b, nlist_okP cf b -> forall L d U E fs pos lc code L' U' E' fs',
  nblk cf b d L U E fs pos lc = Some (code, L', U', E', fs') -> depth_le d L ->
  step_ok U E U' E' /\ fgrow fs fs' /\ flags_up L L'.
Proof.
  intros cf b Hb L d U E fs pos lc code L' U' E' fs' Hc Hd. unfold nblk in Hc.
  destruct (nlist cf b (S d) L U E fs pos lc) as [[[[[cb L1] U1] E1] fs1]|] eqn:El; [|discriminate]. cbv zeta in Hc. inversion Hc; subst.
  destruct (Hb _ _ _ _ _ _ _ _ _ _ _ _ El (depth_le_S _ _ Hd)) as (A1 & A2 & (N & L0 & -> & F & D)).
  split; [exact A1|]. split; [exact A2|].
  rewrite (scope_end_len N L0 d (flags_up_depth_le _ _ _ F Hd) D), skipn_app_len. exact F.
Qed.

(* the catch variable (and whatever the catch clause declared) is popped by the clause's scope end *)
Lemma catch_scope_end : forall d x L1 L2, depth_le d L1 ->
  lext (S d) (mkLocal (Some x) (Some (S d)) false :: L1) L2 ->
  flags_up L1 (skipn (List.length (scope_end_ops L2 d)) L2).
Proof.
  intros d x L1 L2 Hd (N & L0 & -> & F & D). inversion F as [|? xl ? L1' (A1 & A2 & _) F1]; subst. cbn in A2.
  replace (N ++ xl :: L1')%list with ((N ++ [xl]) ++ L1')%list by (rewrite <- app_assoc; reflexivity).
  rewrite (scope_end_len (N ++ [xl]) L1' d), skipn_app_len.
  - exact F1.
  - eapply flags_up_depth_le; eauto.
  - apply Forall_app. split; [exact D|constructor; [now rewrite <- A2|constructor]].
Qed.

Lemma nstmt_ok : forall cf s, stmt7u s = true -> nstmt_okP cf s.
Proof.
  intros cf s Hs. pattern s. revert s Hs. apply stmt7u_ind.
  - (* SDecl *)
    intros x e He L d U E fs pos lc code L' U' E' fs' Hc Hd. cbn [nstmt] in Hc. destruct (d =? 0).
    + destruct (nexpr cf L e U E) as [[[ce U1] E1]|] eqn:Ee; [|discriminate]. inversion Hc; subst.
      split; [eapply nexpr_ok; eauto|]. split; [apply fgrow_refl|apply lext_refl].
    + destruct (dup_in_scope L x d); [discriminate|]. destruct (List.length L =? c_locals_max cf); [discriminate|].
      destruct (nexpr cf _ e U E) as [[[ce U1] E1]|] eqn:Ee; [|discriminate]. inversion Hc; subst.
      split; [eapply nexpr_ok; eauto|]. split; [apply fgrow_refl|].
      exists [mkLocal (Some x) (Some d) false], L. repeat split; [apply flags_up_refl|constructor; [reflexivity|constructor]].
  - (* SAssign *)
    intros x e He L d U E fs pos lc code L' U' E' fs' Hc Hd. cbn [nstmt] in Hc.
    destruct (rvn cf L U E x) as [[[r U0] E0]|] eqn:Er; [|discriminate].
    destruct (nexpr cf L e U0 E0) as [[[ce U1] E1]|] eqn:Ee; [|discriminate]. inversion Hc; subst.
    split; [eapply step_ok_trans; [eapply rvn_ok; eauto|eapply nexpr_ok; eauto]|]. split; [apply fgrow_refl|apply lext_refl].
  - intros e He L d U E fs pos lc code L' U' E' fs' Hc Hd. cbn [nstmt] in Hc.
    destruct (nexpr cf L e U E) as [[[ce U1] E1]|] eqn:Ee; [|discriminate]. inversion Hc; subst.
    split; [eapply nexpr_ok; eauto|]. split; [apply fgrow_refl|apply lext_refl].
  - intros e He L d U E fs pos lc code L' U' E' fs' Hc Hd. cbn [nstmt] in Hc.
    destruct (nexpr cf L e U E) as [[[ce U1] E1]|] eqn:Ee; [|discriminate]. inversion Hc; subst.
    split; [eapply nexpr_ok; eauto|]. split; [apply fgrow_refl|apply lext_refl].
  - intros e He L d U E fs pos lc code L' U' E' fs' Hc Hd. cbn [nstmt] in Hc.
    destruct (nexpr cf L e U E) as [[[ce U1] E1]|] eqn:Ee; [|discriminate]. inversion Hc; subst.
    split; [eapply nexpr_ok; eauto|]. split; [apply fgrow_refl|apply lext_refl].
  - (* SBlock *)
    intros b Hb IH L d U E fs pos lc code L' U' E' fs' Hc Hd. rewrite nstmt_block in Hc.
    unfold nblk in Hc. destruct (nlist cf b (S d) L U E fs pos lc) as [[[[[cb L1] U1] E1] fs1]|] eqn:El; [|discriminate]. cbv zeta in Hc. inversion Hc; subst.
    destruct (nlist_ok_aux cf b IH _ _ _ _ _ _ _ _ _ _ _ _ El (depth_le_S _ _ Hd)) as (A1 & A2 & (N & L0 & -> & F & D)).
    split; [exact A1|]. split; [exact A2|].
    rewrite (scope_end_len N L0 d (flags_up_depth_le _ _ _ F Hd) D), skipn_app_len. now apply lext_flags.
  - (* SFun *)
    intros f ps b Hb IH L d U E fs pos lc code L' U' E' fs' Hc Hd. rewrite nstmt_fun in Hc. destruct (d =? 0).
    + destruct (nfunc cf ps b L U E fs) as [[[[[ci L1] U1] E1] fs1]|] eqn:Ef; [|discriminate]. inversion Hc; subst.
      destruct (nfunc_ok_aux cf ps b (nlist_ok_aux cf b IH) _ _ _ _ _ _ _ _ _ Ef) as (A1 & A2 & A3).
      split; [exact A1|]. split; [exact A2|now apply lext_flags].
    + destruct (dup_in_scope L f d); [discriminate|]. destruct (List.length L =? c_locals_max cf); [discriminate|].
      destruct (nfunc cf ps b _ U E fs) as [[[[[ci L1] U1] E1] fs1]|] eqn:Ef; [|discriminate]. inversion Hc; subst.
      destruct (nfunc_ok_aux cf ps b (nlist_ok_aux cf b IH) _ _ _ _ _ _ _ _ _ Ef) as (A1 & A2 & A3).
      split; [exact A1|]. split; [exact A2|].
      inversion A3 as [|l0 l0' ? L0 (E1' & E2' & _) F']; subst. cbn in E1', E2'.
      exists [l0'], L0. repeat split; [exact F'|constructor; [now rewrite <- E2'|constructor]].
  - (* SLam *)
    intros x ps b Hb IH L d U E fs pos lc code L' U' E' fs' Hc Hd. rewrite nstmt_lam in Hc. destruct (d =? 0).
    + destruct (nfunc cf ps b L U E fs) as [[[[[ci L1] U1] E1] fs1]|] eqn:Ef; [|discriminate]. inversion Hc; subst.
      destruct (nfunc_ok_aux cf ps b (nlist_ok_aux cf b IH) _ _ _ _ _ _ _ _ _ Ef) as (A1 & A2 & A3).
      split; [exact A1|]. split; [exact A2|now apply lext_flags].
    + destruct (dup_in_scope L x d); [discriminate|]. destruct (List.length L =? c_locals_max cf); [discriminate|].
      destruct (nfunc cf ps b _ U E fs) as [[[[[ci L1] U1] E1] fs1]|] eqn:Ef; [|discriminate].
      destruct L1 as [|l0 L1]; [discriminate|]. inversion Hc; subst.
      destruct (nfunc_ok_aux cf ps b (nlist_ok_aux cf b IH) _ _ _ _ _ _ _ _ _ Ef) as (A1 & A2 & A3).
      split; [exact A1|]. split; [exact A2|].
      inversion A3 as [|? ? ? ? _ F']; subst.
      exists [mkLocal (Some x) (Some d) (l_capt l0)], L1. repeat split; [exact F'|constructor; [reflexivity|constructor]].
  - (* SLoop *)
    intros i n b Hb IH L d U E fs pos lc code L' U' E' fs' Hc Hd. rewrite nstmt_loop in Hc.
    destruct (dup_in_scope L i (S d)); [discriminate|]. destruct (List.length L =? c_locals_max cf); [discriminate|].
    destruct (S (List.length L) =? c_locals_max cf); [discriminate|]. cbv zeta in Hc.
    destruct (nblk cf b (S d) _ U E fs _ (Some (mkLctx _ _ 0))) as [[[[[c0 L00] U00] E00] fs00]|]; [|discriminate].
    destruct (nblk cf b (S d) _ U E fs _ (Some (mkLctx _ _ (_ + code_size c0 + 3 + 1)))) as [[[[[cblock L1] U1] E1] fs1]|] eqn:Eb; [|discriminate].
    inversion Hc; subst.
    destruct (nblk_ok_aux cf b (nlist_ok_aux cf b IH) _ _ _ _ _ _ _ _ _ _ _ _ Eb (loop_locals_depth d i L Hd)) as (A1 & A2 & A3).
    destruct (loop_scope_end d i L L1 Hd A3) as (lh & li & L0 & -> & F0 & _ & _ & _ & _ & _ & Hsk).
    split; [exact A1|]. split; [exact A2|]. rewrite Hsk. now apply lext_flags.
  - (* SIf *)
    intros a c t e Ha Hcx Ht He IHt IHe L d U E fs pos lc code L' U' E' fs' Hc Hd. rewrite nstmt_if in Hc.
    destruct (nexpr cf L a U E) as [[[ca U1] E1]|] eqn:Ea; [|discriminate].
    destruct (nexpr cf L c U1 E1) as [[[cc U2] E2]|] eqn:Ec; [|discriminate]. cbv zeta in Hc.
    destruct (nblk cf t d L U2 E2 fs _ lc) as [[[[[ct L1] U3] E3] fs1]|] eqn:Et; [|discriminate].
    destruct (nblk cf e d L1 U3 E3 fs1 _ lc) as [[[[[cel L2] U4] E4] fs2]|] eqn:Ee; [|discriminate]. inversion Hc; subst.
    destruct (nblk_ok_aux cf t (nlist_ok_aux cf t IHt) _ _ _ _ _ _ _ _ _ _ _ _ Et Hd) as (A1 & A2 & A3).
    destruct (nblk_ok_aux cf e (nlist_ok_aux cf e IHe) _ _ _ _ _ _ _ _ _ _ _ _ Ee (flags_up_depth_le _ _ _ A3 Hd)) as (B1 & B2 & B3).
    split; [|split; [eapply fgrow_trans; eauto|apply lext_flags; eapply flags_up_trans; eauto]].
    eapply step_ok_trans; [exact (nexpr_ok cf a Ha _ _ _ _ _ _ Ea)|]. eapply step_ok_trans; [exact (nexpr_ok cf c Hcx _ _ _ _ _ _ Ec)|]. eapply step_ok_trans; eauto.
  - (* SBreak *)
    intros L d U E fs pos lc code L' U' E' fs' Hc Hd. cbn [nstmt] in Hc. destruct lc; [|discriminate]. inversion Hc; subst.
    split; [apply step_ok_refl|]. split; [apply fgrow_refl|apply lext_refl].
  - (* SContinue *)
    intros L d U E fs pos lc code L' U' E' fs' Hc Hd. cbn [nstmt] in Hc. destruct lc; [|discriminate]. inversion Hc; subst.
    split; [apply step_ok_refl|]. split; [apply fgrow_refl|apply lext_refl].
  - (* SThrow *)
    intros e He L d U E fs pos lc code L' U' E' fs' Hc Hd. cbn [nstmt] in Hc.
    destruct (nexpr cf L e U E) as [[[ce U1] E1]|] eqn:Ee; [|discriminate]. inversion Hc; subst.
    split; [eapply nexpr_ok; eauto|]. split; [apply fgrow_refl|apply lext_refl].
  - (* STry *)
    intros b x h Hb Hh IHb IHh L d U E fs pos lc code L' U' E' fs' Hc Hd. rewrite nstmt_try in Hc.
    destruct (nblk cf b d L U E fs (pos + 5) lc) as [[[[[cb L1] U1] E1] fs1]|] eqn:Eb; [|discriminate].
    destruct (dup_in_scope L1 x (S d)); [discriminate|]. destruct (List.length L1 =? c_locals_max cf); [discriminate|]. cbv zeta in Hc.
    destruct (nlist cf h (S d) _ U1 E1 fs1 _ lc) as [[[[[ch L2] U2] E2] fs2]|] eqn:Eh; [|discriminate]. inversion Hc; subst.
    destruct (nblk_ok_aux cf b (nlist_ok_aux cf b IHb) _ _ _ _ _ _ _ _ _ _ _ _ Eb Hd) as (A1 & A2 & A3).
    assert (Hd1 : depth_le d L1) by (eapply flags_up_depth_le; eauto).
    assert (Hdx : depth_le (S d) (mkLocal (Some x) (Some (S d)) false :: L1)) by (constructor; [cbn; lia|now apply depth_le_S]).
    destruct (nlist_ok_aux cf h IHh _ _ _ _ _ _ _ _ _ _ _ _ Eh Hdx) as (B1 & B2 & B3).
    split; [eapply step_ok_trans; eauto|]. split; [eapply fgrow_trans; eauto|]. apply lext_flags.
    eapply flags_up_trans; [exact A3|]. eapply catch_scope_end; eauto.
Qed.

Lemma nblk_ok : forall cf b, forallb stmt7u b = true -> forall L d U E fs pos lc code L' U' E' fs',
  nblk cf b d L U E fs pos lc = Some (code, L', U', E', fs') -> depth_le d L ->
  step_ok U E U' E' /\ fgrow fs fs' /\ flags_up L L'.
Proof.
  intros cf b Hb. apply nblk_ok_aux. apply nlist_ok_aux. induction b as [|a r IH]; constructor.
  - cbn in Hb. apply andb_prop in Hb as [Ha _]. now apply nstmt_ok.
  - cbn in Hb. apply andb_prop in Hb as [_ Hr]. auto.
Qed.

Lemma nlist_ok : forall cf b, forallb stmt7u b = true -> nlist_okP cf b.
Proof.
  intros cf b Hb. apply nlist_ok_aux. induction b as [|a r IH]; constructor.
  - cbn in Hb. apply andb_prop in Hb as [Ha _]. now apply nstmt_ok.
  - cbn in Hb. apply andb_prop in Hb as [_ Hr]. auto.
Qed.

Lemma nfunc_ok : forall cf ps b, forallb stmt7u b = true -> forall L1 U E fs ci L1' U' E' fs',
  nfunc cf ps b L1 U E fs = Some (ci, L1', U', E', fs') ->
  step_ok U E U' E' /\ fgrow fs fs' /\ flags_up L1 L1'.
Proof. intros cf ps b Hb. apply nfunc_ok_aux. now apply nlist_ok. Qed.

(* ------------------------------------------------------------------------------------------ *)
(* upvalue entries stay valid (stack_ok of ScopeFactsN.v) *)

Definition nstmt_sokP (cf : cfg) (s : stmt) : Prop := forall L d U E fs pos lc code L' U' E' fs',
  nstmt cf s L d U E fs pos lc = Some (code, L', U', E', fs') -> stack_ok U E -> stack_ok U' E'.
Definition nlist_sokP (cf : cfg) (b : list stmt) : Prop := forall L d U E fs pos lc code L' U' E' fs',
  nlist cf b d L U E fs pos lc = Some (code, L', U', E', fs') -> stack_ok U E -> stack_ok U' E'.

Lemma nlist_sok_aux : forall cf b, Forall (nstmt_sokP cf) b -> nlist_sokP cf b.
Proof.
  intros cf b H. induction H as [|a r Ha Hr IH]; intros L d U E fs pos lc code L' U' E' fs' Hc Hs; cbn [nlist] in Hc.
  - inversion Hc; subst. exact Hs.
  - destruct (nstmt cf a L d U E fs pos lc) as [[[[[ca L1] U1] E1] fs1]|] eqn:E1'; [|discriminate].
    destruct (nlist cf r d L1 U1 E1 fs1 (pos + code_size ca) lc) as [[[[[cr L2] U2] E2] fs2]|] eqn:E2'; [|discriminate]. inversion Hc; subst.
    eapply IH; eauto.
Qed.

Lemma nfunc_sok_aux : forall cf ps b, nlist_sokP cf b -> forall L1 U E fs ci L1' U' E' fs',
  nfunc cf ps b L1 U E fs = Some (ci, L1', U', E', fs') -> stack_ok U E -> stack_ok U' E'.
Proof.
  intros cf ps b Hb L1 U E fs ci L1' U' E' fs' H Hs. unfold nfunc in H.
  destruct (bparams cf ps _) as [Lp|] eqn:Ep; [|discriminate].
  destruct (nlist cf b 1 Lp [] (mkLev L1 U :: E) fs 0 None) as [[[[[cb Lb'] Ub] Eo] fs1]|] eqn:El; [|discriminate].
  cbn [nclose] in H. destruct Eo as [|lv E0]; [discriminate|]. inversion H; subst.
  assert (H0 : stack_ok [] (mkLev L1 U :: E)) by (split; [constructor|exact Hs]).
  destruct (Hb _ _ _ _ _ _ _ _ _ _ _ _ El H0) as [_ A]. exact A.
Qed.

Lemma nblk_sok_aux : forall cf b, nlist_sokP cf b -> forall L d U E fs pos lc code L' U' E' fs',
  nblk cf b d L U E fs pos lc = Some (code, L', U', E', fs') -> stack_ok U E -> stack_ok U' E'.
Proof.
  intros cf b Hb L d U E fs pos lc code L' U' E' fs' Hc. unfold nblk in Hc.
  destruct (nlist cf b (S d) L U E fs pos lc) as [[[[[cb L1] U1] E1] fs1]|] eqn:El; [|discriminate]. cbv zeta in Hc. inversion Hc; subst.
  eapply Hb; eauto.
Qed.

Lemma nstmt_stack_ok : forall cf s, stmt7u s = true -> nstmt_sokP cf s.
Proof.
  intros cf s Hs. pattern s. revert s Hs. apply stmt7u_ind.
  - intros x e He L d U E fs pos lc code L' U' E' fs' Hc. cbn [nstmt] in Hc. destruct (d =? 0).
    + destruct (nexpr cf L e U E) as [[[ce U1] E1]|] eqn:Ee; [|discriminate]. inversion Hc; subst. eapply nexpr_stack_ok; eauto.
    + destruct (dup_in_scope L x d); [discriminate|]. destruct (List.length L =? c_locals_max cf); [discriminate|].
      destruct (nexpr cf _ e U E) as [[[ce U1] E1]|] eqn:Ee; [|discriminate]. inversion Hc; subst. eapply nexpr_stack_ok; eauto.
  - intros x e He L d U E fs pos lc code L' U' E' fs' Hc. cbn [nstmt] in Hc.
    destruct (rvn cf L U E x) as [[[r U0] E0]|] eqn:Er; [|discriminate].
    destruct (nexpr cf L e U0 E0) as [[[ce U1] E1]|] eqn:Ee; [|discriminate]. inversion Hc; subst.
    intros H. eapply nexpr_stack_ok; eauto. eapply rvn_stack_ok; eauto.
  - intros e He L d U E fs pos lc code L' U' E' fs' Hc. cbn [nstmt] in Hc.
    destruct (nexpr cf L e U E) as [[[ce U1] E1]|] eqn:Ee; [|discriminate]. inversion Hc; subst. eapply nexpr_stack_ok; eauto.
  - intros e He L d U E fs pos lc code L' U' E' fs' Hc. cbn [nstmt] in Hc.
    destruct (nexpr cf L e U E) as [[[ce U1] E1]|] eqn:Ee; [|discriminate]. inversion Hc; subst. eapply nexpr_stack_ok; eauto.
  - intros e He L d U E fs pos lc code L' U' E' fs' Hc. cbn [nstmt] in Hc.
    destruct (nexpr cf L e U E) as [[[ce U1] E1]|] eqn:Ee; [|discriminate]. inversion Hc; subst. eapply nexpr_stack_ok; eauto.
  - intros b Hb IH L d U E fs pos lc code L' U' E' fs' Hc. rewrite nstmt_block in Hc.
    unfold nblk in Hc. destruct (nlist cf b (S d) L U E fs pos lc) as [[[[[cb L1] U1] E1] fs1]|] eqn:El; [|discriminate]. cbv zeta in Hc. inversion Hc; subst.
    eapply (nlist_sok_aux cf b IH); eauto.
  - intros f ps b Hb IH L d U E fs pos lc code L' U' E' fs' Hc. rewrite nstmt_fun in Hc. destruct (d =? 0).
    + destruct (nfunc cf ps b L U E fs) as [[[[[ci L1] U1] E1] fs1]|] eqn:Ef; [|discriminate]. inversion Hc; subst.
      eapply (nfunc_sok_aux cf ps b (nlist_sok_aux cf b IH)); eauto.
    + destruct (dup_in_scope L f d); [discriminate|]. destruct (List.length L =? c_locals_max cf); [discriminate|].
      destruct (nfunc cf ps b _ U E fs) as [[[[[ci L1] U1] E1] fs1]|] eqn:Ef; [|discriminate]. inversion Hc; subst.
      eapply (nfunc_sok_aux cf ps b (nlist_sok_aux cf b IH)); eauto.
  - intros x ps b Hb IH L d U E fs pos lc code L' U' E' fs' Hc. rewrite nstmt_lam in Hc. destruct (d =? 0).
    + destruct (nfunc cf ps b L U E fs) as [[[[[ci L1] U1] E1] fs1]|] eqn:Ef; [|discriminate]. inversion Hc; subst.
      eapply (nfunc_sok_aux cf ps b (nlist_sok_aux cf b IH)); eauto.
    + destruct (dup_in_scope L x d); [discriminate|]. destruct (List.length L =? c_locals_max cf); [discriminate|].
      destruct (nfunc cf ps b _ U E fs) as [[[[[ci L1] U1] E1] fs1]|] eqn:Ef; [|discriminate].
      destruct L1 as [|l0 L1]; [discriminate|]. inversion Hc; subst.
      eapply (nfunc_sok_aux cf ps b (nlist_sok_aux cf b IH)); eauto.
  - (* SLoop *)
    intros i n b Hb IH L d U E fs pos lc code L' U' E' fs' Hc. rewrite nstmt_loop in Hc.
    destruct (dup_in_scope L i (S d)); [discriminate|]. destruct (List.length L =? c_locals_max cf); [discriminate|].
    destruct (S (List.length L) =? c_locals_max cf); [discriminate|]. cbv zeta in Hc.
    destruct (nblk cf b (S d) _ U E fs _ (Some (mkLctx _ _ 0))) as [[[[[c0 L00] U00] E00] fs00]|]; [|discriminate].
    destruct (nblk cf b (S d) _ U E fs _ (Some (mkLctx _ _ (_ + code_size c0 + 3 + 1)))) as [[[[[cblock L1] U1] E1] fs1]|] eqn:Eb; [|discriminate].
    inversion Hc; subst. eapply (nblk_sok_aux cf b (nlist_sok_aux cf b IH)); eauto.
  - (* SIf *)
    intros a c t e Ha Hcx Ht He IHt IHe L d U E fs pos lc code L' U' E' fs' Hc. rewrite nstmt_if in Hc.
    destruct (nexpr cf L a U E) as [[[ca U1] E1]|] eqn:Ea; [|discriminate].
    destruct (nexpr cf L c U1 E1) as [[[cc U2] E2]|] eqn:Ec; [|discriminate]. cbv zeta in Hc.
    destruct (nblk cf t d L U2 E2 fs _ lc) as [[[[[ct L1] U3] E3] fs1]|] eqn:Et; [|discriminate].
    destruct (nblk cf e d L1 U3 E3 fs1 _ lc) as [[[[[cel L2] U4] E4] fs2]|] eqn:Ee; [|discriminate]. inversion Hc; subst.
    intros H. apply (nexpr_stack_ok cf a Ha _ _ _ _ _ _ Ea) in H. apply (nexpr_stack_ok cf c Hcx _ _ _ _ _ _ Ec) in H.
    apply (nblk_sok_aux cf t (nlist_sok_aux cf t IHt) _ _ _ _ _ _ _ _ _ _ _ _ Et) in H.
    exact (nblk_sok_aux cf e (nlist_sok_aux cf e IHe) _ _ _ _ _ _ _ _ _ _ _ _ Ee H).
  - intros L d U E fs pos lc code L' U' E' fs' Hc. cbn [nstmt] in Hc. destruct lc; [|discriminate]. inversion Hc; subst. auto.
  - intros L d U E fs pos lc code L' U' E' fs' Hc. cbn [nstmt] in Hc. destruct lc; [|discriminate]. inversion Hc; subst. auto.
  - (* SThrow *)
    intros e He L d U E fs pos lc code L' U' E' fs' Hc. cbn [nstmt] in Hc.
    destruct (nexpr cf L e U E) as [[[ce U1] E1]|] eqn:Ee; [|discriminate]. inversion Hc; subst. eapply nexpr_stack_ok; eauto.
  - (* STry *)
    intros b x h Hb Hh IHb IHh L d U E fs pos lc code L' U' E' fs' Hc. rewrite nstmt_try in Hc.
    destruct (nblk cf b d L U E fs (pos + 5) lc) as [[[[[cb L1] U1] E1] fs1]|] eqn:Eb; [|discriminate].
    destruct (dup_in_scope L1 x (S d)); [discriminate|]. destruct (List.length L1 =? c_locals_max cf); [discriminate|]. cbv zeta in Hc.
    destruct (nlist cf h (S d) _ U1 E1 fs1 _ lc) as [[[[[ch L2] U2] E2] fs2]|] eqn:Eh; [|discriminate]. inversion Hc; subst.
    intros H. apply (nblk_sok_aux cf b (nlist_sok_aux cf b IHb) _ _ _ _ _ _ _ _ _ _ _ _ Eb) in H.
    exact (nlist_sok_aux cf h IHh _ _ _ _ _ _ _ _ _ _ _ _ Eh H).
Qed.

Lemma nlist_stack_ok : forall cf b, forallb stmt7u b = true -> nlist_sokP cf b.
Proof.
  intros cf b Hb. apply nlist_sok_aux. induction b as [|a r IH]; constructor.
  - cbn in Hb. apply andb_prop in Hb as [Ha _]. now apply nstmt_stack_ok.
  - cbn in Hb. apply andb_prop in Hb as [_ Hr]. auto.
Qed.

(* ------------------------------------------------------------------------------------------ *)
(* the newest local of an enclosing level (level k) that the code never mentions does not influence compilation *)

Definition nstmt_dropP (cf : cfg) (x : name) (l0 : local) (s : stmt) : Prop :=
  s_mentions7 x s = false -> forall L d E k U fs pos lc code L' U' E' fs', topk k E = Some l0 ->
  nstmt cf s L d U E fs pos lc = Some (code, L', U', E', fs') ->
  nstmt cf s L d U (dropk k E) fs pos lc = Some (code, L', U', dropk k E', fs') /\ topk k E' = Some l0.

Definition nlist_dropP (cf : cfg) (x : name) (l0 : local) (b : list stmt) : Prop :=
  existsb (s_mentions7 x) b = false -> forall L d E k U fs pos lc code L' U' E' fs', topk k E = Some l0 ->
  nlist cf b d L U E fs pos lc = Some (code, L', U', E', fs') ->
  nlist cf b d L U (dropk k E) fs pos lc = Some (code, L', U', dropk k E', fs') /\ topk k E' = Some l0.

Lemma nlist_drop_aux : forall cf x l0 b, Forall (nstmt_dropP cf x l0) b -> nlist_dropP cf x l0 b.
Proof.
  intros cf x l0 b H. induction H as [|a r Ha Hr IH]; intros Hm L d E k U fs pos lc code L' U' E' fs' Ht Hc; cbn [nlist] in *.
  - inversion Hc; subst. auto.
  - cbn [existsb] in Hm. apply orb_false_elim in Hm as [Hm1 Hm2].
    destruct (nstmt cf a L d U E fs pos lc) as [[[[[ca L1] U1] E1] fs1]|] eqn:E1'; [|discriminate].
    destruct (Ha Hm1 _ _ _ _ _ _ _ _ _ _ _ _ _ Ht E1') as [A1 B1]. rewrite A1.
    destruct (nlist cf r d L1 U1 E1 fs1 (pos + code_size ca) lc) as [[[[[cr L2] U2] E2] fs2]|] eqn:E2'; [|discriminate].
    destruct (IH Hm2 _ _ _ _ _ _ _ _ _ _ _ _ _ B1 E2') as [A2 B2]. rewrite A2. inversion Hc; subst. auto.
Qed.

Lemma nblk_drop_aux : forall cf x l0 b, nlist_dropP cf x l0 b -> existsb (s_mentions7 x) b = false ->
  forall L d E k U fs pos lc code L' U' E' fs', topk k E = Some l0 ->
  nblk cf b d L U E fs pos lc = Some (code, L', U', E', fs') ->
  nblk cf b d L U (dropk k E) fs pos lc = Some (code, L', U', dropk k E', fs') /\ topk k E' = Some l0.
Proof.
  intros cf x l0 b Hb Hm L d E k U fs pos lc code L' U' E' fs' Ht Hc. unfold nblk in *.
  destruct (nlist cf b (S d) L U E fs pos lc) as [[[[[cb L1] U1] E1] fs1]|] eqn:El; [|discriminate].
  destruct (Hb Hm _ _ _ _ _ _ _ _ _ _ _ _ _ Ht El) as [A B]. rewrite A. cbv zeta in *. inversion Hc; subst. auto.
Qed.

Lemma nfunc_drop_aux : forall cf x l0 ps b, nlist_dropP cf x l0 b -> existsb (s_mentions7 x) b = false ->
  forall L1 E k U fs ci L1' U' E' fs', topk k E = Some l0 ->
  nfunc cf ps b L1 U E fs = Some (ci, L1', U', E', fs') ->
  nfunc cf ps b L1 U (dropk k E) fs = Some (ci, L1', U', dropk k E', fs') /\ topk k E' = Some l0.
Proof.
  intros cf x l0 ps b Hb Hm L1 E k U fs ci L1' U' E' fs' Ht H. unfold nfunc in *.
  destruct (bparams cf ps _) as [Lp|]; [|discriminate].
  destruct (nlist cf b 1 Lp [] (mkLev L1 U :: E) fs 0 None) as [[[[[cb Lb'] Ub] Eo] fs1]|] eqn:El; [|discriminate].
  assert (Ht' : topk (S k) (mkLev L1 U :: E) = Some l0) by exact Ht.
  destruct (Hb Hm _ _ _ (S k) _ _ _ _ _ _ _ _ _ Ht' El) as [A B]. cbn [dropk] in A. rewrite A.
  cbn [nclose] in *. destruct Eo as [|lv E0]; [discriminate|]. cbn [dropk]. inversion H; subst. split; [reflexivity|exact B].
Qed.

Lemma nstmt_drop : forall cf x l0, l_name l0 = Some x -> forall s, stmt7u s = true -> nstmt_dropP cf x l0 s.
Proof.
  intros cf x l0 Hn s Hs. pattern s. revert s Hs. apply stmt7u_ind.
  - (* SDecl *)
    intros y e He Hm L d E k U fs pos lc code L' U' E' fs' Ht Hc. cbn [nstmt s_mentions7] in *. apply orb_false_elim in Hm as [_ Hm].
    destruct (d =? 0).
    + destruct (nexpr cf L e U E) as [[[ce U1] E1]|] eqn:Ee; [|discriminate].
      destruct (nexpr_drop cf x l0 Hn e He Hm _ _ _ _ _ _ _ Ht Ee) as [A B]. rewrite A. inversion Hc; subst. auto.
    + destruct (dup_in_scope L y d); [discriminate|]. destruct (List.length L =? c_locals_max cf); [discriminate|].
      destruct (nexpr cf _ e U E) as [[[ce U1] E1]|] eqn:Ee; [|discriminate].
      destruct (nexpr_drop cf x l0 Hn e He Hm _ _ _ _ _ _ _ Ht Ee) as [A B]. rewrite A. inversion Hc; subst. auto.
  - (* SAssign *)
    intros y e He Hm L d E k U fs pos lc code L' U' E' fs' Ht Hc. cbn [nstmt s_mentions7] in *. apply orb_false_elim in Hm as [Hmy Hm].
    apply Nat.eqb_neq in Hmy.
    destruct (rvn cf L U E y) as [[[r U0] E0]|] eqn:Er; [|discriminate].
    destruct (rvn_drop cf x y l0 Hn Hmy _ _ _ _ _ _ _ Ht Er) as [A0 B0]. rewrite A0.
    destruct (nexpr cf L e U0 E0) as [[[ce U1] E1]|] eqn:Ee; [|discriminate].
    destruct (nexpr_drop cf x l0 Hn e He Hm _ _ _ _ _ _ _ B0 Ee) as [A B]. rewrite A. inversion Hc; subst. auto.
  - intros e He Hm L d E k U fs pos lc code L' U' E' fs' Ht Hc. cbn [nstmt s_mentions7] in *.
    destruct (nexpr cf L e U E) as [[[ce U1] E1]|] eqn:Ee; [|discriminate].
    destruct (nexpr_drop cf x l0 Hn e He Hm _ _ _ _ _ _ _ Ht Ee) as [A B]. rewrite A. inversion Hc; subst. auto.
  - intros e He Hm L d E k U fs pos lc code L' U' E' fs' Ht Hc. cbn [nstmt s_mentions7] in *.
    destruct (nexpr cf L e U E) as [[[ce U1] E1]|] eqn:Ee; [|discriminate].
    destruct (nexpr_drop cf x l0 Hn e He Hm _ _ _ _ _ _ _ Ht Ee) as [A B]. rewrite A. inversion Hc; subst. auto.
  - intros e He Hm L d E k U fs pos lc code L' U' E' fs' Ht Hc. cbn [nstmt s_mentions7] in *.
    destruct (nexpr cf L e U E) as [[[ce U1] E1]|] eqn:Ee; [|discriminate].
    destruct (nexpr_drop cf x l0 Hn e He Hm _ _ _ _ _ _ _ Ht Ee) as [A B]. rewrite A. inversion Hc; subst. auto.
  - (* SBlock *)
    intros b Hb IH Hm L d E k U fs pos lc code L' U' E' fs' Ht Hc. rewrite !nstmt_block in *. cbn [s_mentions7] in Hm.
    exact (nblk_drop_aux cf x l0 b (nlist_drop_aux cf x l0 b IH) Hm _ _ _ _ _ _ _ _ _ _ _ _ _ Ht Hc).
  - (* SFun *)
    intros f ps b Hb IH Hm L d E k U fs pos lc code L' U' E' fs' Ht Hc. rewrite !nstmt_fun in *. cbn [s_mentions7] in Hm.
    apply orb_false_elim in Hm as [_ Hm]. destruct (d =? 0).
    + destruct (nfunc cf ps b L U E fs) as [[[[[ci L1] U1] E1] fs1]|] eqn:Ef; [|discriminate].
      destruct (nfunc_drop_aux cf x l0 ps b (nlist_drop_aux cf x l0 b IH) Hm _ _ _ _ _ _ _ _ _ _ Ht Ef) as [A B]. rewrite A.
      inversion Hc; subst. auto.
    + destruct (dup_in_scope L f d); [discriminate|]. destruct (List.length L =? c_locals_max cf); [discriminate|].
      destruct (nfunc cf ps b _ U E fs) as [[[[[ci L1] U1] E1] fs1]|] eqn:Ef; [|discriminate].
      destruct (nfunc_drop_aux cf x l0 ps b (nlist_drop_aux cf x l0 b IH) Hm _ _ _ _ _ _ _ _ _ _ Ht Ef) as [A B]. rewrite A.
      inversion Hc; subst. auto.
  - (* SLam *)
    intros y ps b Hb IH Hm L d E k U fs pos lc code L' U' E' fs' Ht Hc. rewrite !nstmt_lam in *. cbn [s_mentions7] in Hm.
    apply orb_false_elim in Hm as [_ Hm]. destruct (d =? 0).
    + destruct (nfunc cf ps b L U E fs) as [[[[[ci L1] U1] E1] fs1]|] eqn:Ef; [|discriminate].
      destruct (nfunc_drop_aux cf x l0 ps b (nlist_drop_aux cf x l0 b IH) Hm _ _ _ _ _ _ _ _ _ _ Ht Ef) as [A B]. rewrite A.
      inversion Hc; subst. auto.
    + destruct (dup_in_scope L y d); [discriminate|]. destruct (List.length L =? c_locals_max cf); [discriminate|].
      destruct (nfunc cf ps b _ U E fs) as [[[[[ci L1] U1] E1] fs1]|] eqn:Ef; [|discriminate].
      destruct (nfunc_drop_aux cf x l0 ps b (nlist_drop_aux cf x l0 b IH) Hm _ _ _ _ _ _ _ _ _ _ Ht Ef) as [A B]. rewrite A.
      destruct L1 as [|l1 L1]; [discriminate|]. inversion Hc; subst. auto.
  - (* SLoop *)
    intros i n b Hb IH Hm L d E k U fs pos lc code L' U' E' fs' Ht Hc. rewrite !nstmt_loop in *. cbn [s_mentions7] in Hm.
    apply orb_false_elim in Hm as [_ Hm].
    destruct (dup_in_scope L i (S d)); [discriminate|]. destruct (List.length L =? c_locals_max cf); [discriminate|].
    destruct (S (List.length L) =? c_locals_max cf); [discriminate|]. cbv zeta in *.
    destruct (nblk cf b (S d) _ U E fs _ (Some (mkLctx _ _ 0))) as [[[[[c0 L00] U00] E00] fs00]|] eqn:Eb0; [|discriminate].
    destruct (nblk_drop_aux cf x l0 b (nlist_drop_aux cf x l0 b IH) Hm _ _ _ _ _ _ _ _ _ _ _ _ _ Ht Eb0) as [A0 _]. rewrite A0.
    destruct (nblk cf b (S d) _ U E fs _ (Some (mkLctx _ _ (_ + code_size c0 + 3 + 1)))) as [[[[[cblock L1] U1] E1] fs1]|] eqn:Eb; [|discriminate].
    destruct (nblk_drop_aux cf x l0 b (nlist_drop_aux cf x l0 b IH) Hm _ _ _ _ _ _ _ _ _ _ _ _ _ Ht Eb) as [A1 B1]. rewrite A1.
    inversion Hc; subst. auto.
  - (* SIf *)
    intros a c t e Ha Hcx Hft Hfe IHt IHe Hm L d E k U fs pos lc code L' U' E' fs' Ht Hc. rewrite !nstmt_if in *. cbn [s_mentions7] in Hm.
    apply orb_false_elim in Hm as [Hm Hme]. apply orb_false_elim in Hm as [Hm Hmt]. apply orb_false_elim in Hm as [Hma Hmc].
    destruct (nexpr cf L a U E) as [[[ca U1] E1]|] eqn:Ea; [|discriminate].
    destruct (nexpr_drop cf x l0 Hn a Ha Hma _ _ _ _ _ _ _ Ht Ea) as [A1 B1]. rewrite A1.
    destruct (nexpr cf L c U1 E1) as [[[cc U2] E2]|] eqn:Ec; [|discriminate].
    destruct (nexpr_drop cf x l0 Hn c Hcx Hmc _ _ _ _ _ _ _ B1 Ec) as [A2 B2]. rewrite A2. cbv zeta in *.
    destruct (nblk cf t d L U2 E2 fs _ lc) as [[[[[ct L1] U3] E3] fs1]|] eqn:Et; [|discriminate].
    destruct (nblk_drop_aux cf x l0 t (nlist_drop_aux cf x l0 t IHt) Hmt _ _ _ _ _ _ _ _ _ _ _ _ _ B2 Et) as [A3 B3]. rewrite A3.
    destruct (nblk cf e d L1 U3 E3 fs1 _ lc) as [[[[[cel L2] U4] E4] fs2]|] eqn:Ee; [|discriminate].
    destruct (nblk_drop_aux cf x l0 e (nlist_drop_aux cf x l0 e IHe) Hme _ _ _ _ _ _ _ _ _ _ _ _ _ B3 Ee) as [A4 B4]. rewrite A4.
    inversion Hc; subst. auto.
  - intros _ L d E k U fs pos lc code L' U' E' fs' Ht Hc. cbn [nstmt] in *. destruct lc; [|discriminate]. inversion Hc; subst. auto.
  - intros _ L d E k U fs pos lc code L' U' E' fs' Ht Hc. cbn [nstmt] in *. destruct lc; [|discriminate]. inversion Hc; subst. auto.
  - (* SThrow *)
    intros e He Hm L d E k U fs pos lc code L' U' E' fs' Ht Hc. cbn [nstmt s_mentions7] in *.
    destruct (nexpr cf L e U E) as [[[ce U1] E1]|] eqn:Ee; [|discriminate].
    destruct (nexpr_drop cf x l0 Hn e He Hm _ _ _ _ _ _ _ Ht Ee) as [A B]. rewrite A. inversion Hc; subst. auto.
  - (* STry *)
    intros b y h Hb Hh IHb IHh Hm L d E k U fs pos lc code L' U' E' fs' Ht Hc. rewrite !nstmt_try in *. cbn [s_mentions7] in Hm.
    apply orb_false_elim in Hm as [Hm Hmh]. apply orb_false_elim in Hm as [_ Hmb].
    destruct (nblk cf b d L U E fs (pos + 5) lc) as [[[[[cb L1] U1] E1] fs1]|] eqn:Eb; [|discriminate].
    destruct (nblk_drop_aux cf x l0 b (nlist_drop_aux cf x l0 b IHb) Hmb _ _ _ _ _ _ _ _ _ _ _ _ _ Ht Eb) as [A1 B1]. rewrite A1.
    destruct (dup_in_scope L1 y (S d)); [discriminate|]. destruct (List.length L1 =? c_locals_max cf); [discriminate|]. cbv zeta in *.
    destruct (nlist cf h (S d) _ U1 E1 fs1 _ lc) as [[[[[ch L2] U2] E2] fs2]|] eqn:Eh; [|discriminate].
    destruct (nlist_drop_aux cf x l0 h IHh Hmh _ _ _ _ _ _ _ _ _ _ _ _ _ B1 Eh) as [A2 B2]. rewrite A2. inversion Hc; subst. auto.
Qed.

Lemma nlist_drop : forall cf x l0, l_name l0 = Some x -> forall b, forallb stmt7u b = true -> nlist_dropP cf x l0 b.
Proof.
  intros cf x l0 Hn b Hb. apply nlist_drop_aux. induction b as [|a r IH]; constructor.
  - cbn in Hb. apply andb_prop in Hb as [Ha _]. now apply nstmt_drop.
  - cbn in Hb. apply andb_prop in Hb as [_ Hr]. auto.
Qed.

(* the form used for `var x = |ps| { b };` below the top level *)
Lemma nfunc_drop0 : forall cf x ps b L U E fs ci L1' U' E' fs', forallb stmt7u b = true -> existsb (s_mentions7 x) b = false ->
  nfunc cf ps b (mkLocal (Some x) None false :: L) U E fs = Some (ci, L1', U', E', fs') ->
  exists L', L1' = mkLocal (Some x) None false :: L' /\ nfunc cf ps b L U E fs = Some (ci, L', U', E', fs').
Proof.
  intros cf x ps b L U E fs ci L1' U' E' fs' Hb Hm H. unfold nfunc in *.
  destruct (bparams cf ps _) as [Lp|]; [|discriminate].
  destruct (nlist cf b 1 Lp [] (mkLev (mkLocal (Some x) None false :: L) U :: E) fs 0 None) as [[[[[cb Lb'] Ub] Eo] fs1]|] eqn:El; [|discriminate].
  assert (Ht : topk 0 (mkLev (mkLocal (Some x) None false :: L) U :: E) = Some (mkLocal (Some x) None false)) by reflexivity.
  destruct (nlist_drop cf x (mkLocal (Some x) None false) eq_refl b Hb Hm _ _ _ 0 _ _ _ _ _ _ _ _ _ Ht El) as [A B].
  cbn [dropk lv_locals lv_ups tl] in A. rewrite A.
  cbn [nclose] in *. destruct Eo as [|[Lv Uv] E0]; [discriminate|]. unfold topk in B. cbn in B.
  destruct Lv as [|l1 Lv]; [discriminate|]. cbn in B. inversion B; subst l1. cbn [dropk lv_locals lv_ups tl]. inversion H; subst.
  exists Lv. split; reflexivity.
Qed.

(* ------------------------------------------------------------------------------------------ *)
(* the loop context only influences jump operands: sizes and all other results do not depend on it *)

Definition nstmt_szP (cf : cfg) (s : stmt) : Prop := forall L d U E fs pos l1 l2, lc_depth l1 = lc_depth l2 ->
  nres_sz (nstmt cf s L d U E fs pos (Some l1)) (nstmt cf s L d U E fs pos (Some l2)).
Definition nlist_szP (cf : cfg) (b : list stmt) : Prop := forall L d U E fs pos l1 l2, lc_depth l1 = lc_depth l2 ->
  nres_sz (nlist cf b d L U E fs pos (Some l1)) (nlist cf b d L U E fs pos (Some l2)).

Lemma nlist_sz_aux : forall cf b, Forall (nstmt_szP cf) b -> nlist_szP cf b.
Proof.
  intros cf b H. induction H as [|a r Ha Hr IH]; intros L d U E fs pos l1 l2 Hd; cbn [nlist]; [cbn; auto|].
  specialize (Ha L d U E fs pos l1 l2 Hd). unfold nres_sz in Ha.
  destruct (nstmt cf a L d U E fs pos (Some l1)) as [[[[[c1 L1] U1] E1] f1]|];
    destruct (nstmt cf a L d U E fs pos (Some l2)) as [[[[[c2 L2] U2] E2] f2]|]; try contradiction; [|exact I].
  destruct Ha as (Hs & -> & -> & -> & ->). rewrite Hs.
  specialize (IH L2 d U2 E2 f2 (pos + code_size c2) l1 l2 Hd). unfold nres_sz in IH.
  destruct (nlist cf r d L2 U2 E2 f2 (pos + code_size c2) (Some l1)) as [[[[[c3 L3] U3] E3] f3]|];
    destruct (nlist cf r d L2 U2 E2 f2 (pos + code_size c2) (Some l2)) as [[[[[c4 L4] U4] E4] f4]|]; try contradiction; [|exact I].
  destruct IH as (Hs2 & -> & -> & -> & ->). cbn. rewrite !code_size_app. auto.
Qed.

Lemma nblk_sz_aux : forall cf b, nlist_szP cf b -> forall L d U E fs pos l1 l2, lc_depth l1 = lc_depth l2 ->
  nres_sz (nblk cf b d L U E fs pos (Some l1)) (nblk cf b d L U E fs pos (Some l2)).
Proof.
  intros cf b Hb L d U E fs pos l1 l2 Hd. unfold nblk. specialize (Hb L (S d) U E fs pos l1 l2 Hd). unfold nres_sz in Hb.
  destruct (nlist cf b (S d) L U E fs pos (Some l1)) as [[[[[c1 L1] U1] E1] f1]|];
    destruct (nlist cf b (S d) L U E fs pos (Some l2)) as [[[[[c2 L2] U2] E2] f2]|]; try contradiction; [|exact I].
  destruct Hb as (Hs & -> & -> & -> & ->). cbn. rewrite !code_size_app. auto.
Qed.

Lemma nstmt_lc_sz : forall cf s, stmt7u s = true -> nstmt_szP cf s.
Proof.
  intros cf s Hs. pattern s. revert s Hs. apply stmt7u_ind.
  - intros x e He L d U E fs pos l1 l2 Hd. cbn [nstmt]. apply nres_sz_refl.
  - intros x e He L d U E fs pos l1 l2 Hd. cbn [nstmt]. apply nres_sz_refl.
  - intros e He L d U E fs pos l1 l2 Hd. cbn [nstmt]. apply nres_sz_refl.
  - intros e He L d U E fs pos l1 l2 Hd. cbn [nstmt]. apply nres_sz_refl.
  - intros e He L d U E fs pos l1 l2 Hd. cbn [nstmt]. apply nres_sz_refl.
  - intros b Hb IH L d U E fs pos l1 l2 Hd. rewrite !nstmt_block. apply nblk_sz_aux; [now apply nlist_sz_aux|exact Hd].
  - intros f ps b Hb IH L d U E fs pos l1 l2 Hd. rewrite !nstmt_fun. apply nres_sz_refl.
  - intros x ps b Hb IH L d U E fs pos l1 l2 Hd. rewrite !nstmt_lam. apply nres_sz_refl.
  - intros i n b Hb IH L d U E fs pos l1 l2 Hd. rewrite !nstmt_loop. apply nres_sz_refl.
  - intros a c t e Ha Hc Ht He IHt IHe L d U E fs pos l1 l2 Hd. rewrite !nstmt_if.
    destruct (nexpr cf L a U E) as [[[ca U1] E1]|]; [|exact I].
    destruct (nexpr cf L c U1 E1) as [[[cc U2] E2]|]; [|exact I]. cbv zeta.
    pose proof (nblk_sz_aux cf t (nlist_sz_aux cf t IHt) L d U2 E2 fs (pos + code_size ca + code_size cc + code_size [ILess; IJumpIfFalse 0; IPop]) l1 l2 Hd) as H1.
    unfold nres_sz in H1.
    destruct (nblk cf t d L U2 E2 fs _ (Some l1)) as [[[[[c1 L1] U3] E3] f1]|];
      destruct (nblk cf t d L U2 E2 fs _ (Some l2)) as [[[[[c2 L2] U4] E4] f2]|]; try contradiction; [|exact I].
    destruct H1 as (Hs1 & -> & -> & -> & ->). rewrite Hs1.
    pose proof (nblk_sz_aux cf e (nlist_sz_aux cf e IHe) L2 d U4 E4 f2
                  (pos + code_size ca + code_size cc + code_size [ILess; IJumpIfFalse 0; IPop] + code_size c2 + code_size [IJump 0; IPop]) l1 l2 Hd) as H2.
    unfold nres_sz in H2.
    destruct (nblk cf e d L2 U4 E4 f2 _ (Some l1)) as [[[[[c3 L3] U5] E5] f3]|];
      destruct (nblk cf e d L2 U4 E4 f2 _ (Some l2)) as [[[[[c4 L4] U6] E6] f4]|]; try contradiction; [|exact I].
    destruct H2 as (Hs2 & -> & -> & -> & ->). cbn [nres_sz]. rewrite !code_size_app. cbn [code_size isize]. rewrite ?code_size_app. cbn [code_size isize].
    repeat split; auto. lia.
  - intros L d U E fs pos l1 l2 Hd. cbn [nstmt]. cbv zeta. rewrite Hd. cbn [nres_sz]. rewrite !code_size_app. cbn. auto.
  - intros L d U E fs pos l1 l2 Hd. cbn [nstmt]. cbv zeta. rewrite Hd. cbn [nres_sz]. rewrite !code_size_app. cbn. auto.
  - (* SThrow *)
    intros e He L d U E fs pos l1 l2 Hd. cbn [nstmt]. apply nres_sz_refl.
  - (* STry *)
    intros b x h Hb Hh IHb IHh L d U E fs pos l1 l2 Hd. rewrite !nstmt_try.
    pose proof (nblk_sz_aux cf b (nlist_sz_aux cf b IHb) L d U E fs (pos + 5) l1 l2 Hd) as H1. unfold nres_sz in H1.
    destruct (nblk cf b d L U E fs (pos + 5) (Some l1)) as [[[[[c1 L1] U1] E1] f1]|];
      destruct (nblk cf b d L U E fs (pos + 5) (Some l2)) as [[[[[c2 L2] U2] E2] f2]|]; try contradiction; [|exact I].
    destruct H1 as (Hs1 & -> & -> & -> & ->). rewrite Hs1.
    destruct (dup_in_scope L2 x (S d)); [exact I|]. destruct (List.length L2 =? c_locals_max cf); [exact I|]. cbv zeta.
    pose proof (nlist_sz_aux cf h IHh (mkLocal (Some x) (Some (S d)) false :: L2) (S d) U2 E2 f2
                  (pos + 5 + code_size c2 + 4 + code_size (if c_catch_pops cf then [IPopExc] else [])) l1 l2 Hd) as H2.
    unfold nres_sz in H2.
    destruct (nlist cf h (S d) _ U2 E2 f2 _ (Some l1)) as [[[[[c3 L3] U3] E3] f3]|];
      destruct (nlist cf h (S d) _ U2 E2 f2 _ (Some l2)) as [[[[[c4 L4] U4] E4] f4]|]; try contradiction; [|exact I].
    destruct H2 as (Hs2 & -> & -> & -> & ->). cbn [nres_sz]. repeat split; auto.
    cbn [code_size isize]. rewrite !code_size_app. cbn [code_size isize]. rewrite ?code_size_app. lia.
Qed.

Lemma nblk_lc_sz : forall cf b, forallb stmt7u b = true -> forall L d U E fs pos l1 l2, lc_depth l1 = lc_depth l2 ->
  nres_sz (nblk cf b d L U E fs pos (Some l1)) (nblk cf b d L U E fs pos (Some l2)).
Proof.
  intros cf b Hb. apply nblk_sz_aux. apply nlist_sz_aux. induction b as [|a r IH]; constructor.
  - cbn in Hb. apply andb_prop in Hb as [Ha _]. now apply nstmt_lc_sz.
  - cbn in Hb. apply andb_prop in Hb as [_ Hr]. auto.
Qed.

Print Assumptions nstmt_ok.
Print Assumptions nstmt_stack_ok.
Print Assumptions nstmt_drop.
Print Assumptions nstmt_lc_sz.
