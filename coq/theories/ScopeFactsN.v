(* C06 - stage 2 (nested function levels): structural facts about the pure n-level compiler of ScopeDefsN.v.
   PROOFS ONLY (plus the proposition-level definitions needed to state them). *)
From Coq Require Import List Arith Bool String ZArith NArith Lia.
From YV Require Import Show Upvalues Cells ScopeLang ScopeComp ScopeLangProofs ScopeSim ScopeDefs2 ScopeComp2 ScopeDrop2 ScopeAux2 ScopeDefsN.
Import ListNotations.
Open Scope nat_scope.

(* ------------------------------------------------------------------------------------------ *)
(* unfolding *)

Lemma nexpr_call : forall cf L f args U E,
  nexpr cf L (ECall f args) U E =
  match rvn cf L U E f with
  | Some (r, U0, E0) =>
      match nargs cf L args U0 E0 with
      | Some (cargs, U3, E3) => Some ((get_op r f :: cargs ++ [ICall (List.length args)])%list, U3, E3)
      | None => None
      end
  | None => None
  end.
Proof.
  intros cf L f args U E. cbn [nexpr].
  destruct (rvn cf L U E f) as [[[r U0] E0]|]; [|reflexivity].
  match goal with |- match ?g args U0 E0 with _ => _ end = _ =>
    assert (X : forall l U1 E1, g l U1 E1 = nargs cf L l U1 E1) end.
  { induction l as [|a t IH]; intros U1 E1; [reflexivity|]. cbn [nargs].
    destruct (nexpr cf L a U1 E1) as [[[ca U2] E2]|]; [|reflexivity]. now rewrite IH. }
  now rewrite X.
Qed.

Definition nl_fix (cf : cfg) :=
  fix go (l : list stmt) (dd : nat) (L : list local) (U : ups_t) (E : list lev) (fs : list func)
         (pos : nat) (lc : option lctx) {struct l} : option nres :=
    match l with
    | [] => Some ([], L, U, E, fs)
    | a :: r => match nstmt cf a L dd U E fs pos lc with
                | Some (ca, L1, U1, E1, fs1) =>
                    match go r dd L1 U1 E1 fs1 (pos + code_size ca) lc with
                    | Some (cr, L2, U2, E2, fs2) => Some ((ca ++ cr)%list, L2, U2, E2, fs2)
                    | None => None
                    end
                | None => None
                end
    end.

Lemma nl_eq : forall cf l dd L U E fs pos lc, nl_fix cf l dd L U E fs pos lc = nlist cf l dd L U E fs pos lc.
Proof.
  intros cf. induction l as [|a r IH]; intros dd L U E fs pos lc; [reflexivity|]. cbn [nl_fix nlist].
  destruct (nstmt cf a L dd U E fs pos lc) as [[[[[ca L2] U2] E2] fs2]|]; [|reflexivity]. fold (nl_fix cf). now rewrite IH.
Qed.

Lemma nstmt_block : forall cf b L d U E fs pos lc,
  nstmt cf (SBlock b) L d U E fs pos lc = nblk cf b d L U E fs pos lc.
Proof. intros. cbn [nstmt]. fold (nl_fix cf). unfold nblk. now rewrite nl_eq. Qed.

Lemma nstmt_fun : forall cf f ps b L d U E fs pos lc,
  nstmt cf (SFun f ps b) L d U E fs pos lc =
  if d =? 0 then
    match nfunc cf ps b L U E fs with
    | Some (ci, L', U', E', fs') => Some ([ci; IDefineGlobal f], L', U', E', fs')
    | None => None
    end
  else if dup_in_scope L f d then None
  else if List.length L =? c_locals_max cf then None
  else
    match nfunc cf ps b (mkLocal (Some f) (Some d) false :: L) U E fs with
    | Some (ci, L', U', E', fs') => Some ([ci], L', U', E', fs')
    | None => None
    end.
Proof.
  intros. cbn [nstmt]. fold (nl_fix cf). unfold nfunc. destruct (d =? 0).
  - destruct (bparams cf ps _); [|reflexivity]. now rewrite nl_eq.
  - destruct (dup_in_scope L f d); [reflexivity|]. destruct (List.length L =? c_locals_max cf); [reflexivity|].
    destruct (bparams cf ps _); [|reflexivity]. now rewrite nl_eq.
Qed.

Lemma nstmt_lam : forall cf x ps b L d U E fs pos lc,
  nstmt cf (SLam x ps b) L d U E fs pos lc =
  if d =? 0 then
    match nfunc cf ps b L U E fs with
    | Some (ci, L', U', E', fs') => Some ([ci; IDefineGlobal x], L', U', E', fs')
    | None => None
    end
  else if dup_in_scope L x d then None
  else if List.length L =? c_locals_max cf then None
  else
    match nfunc cf ps b (mkLocal (Some x) None false :: L) U E fs with
    | Some (ci, l0 :: L', U', E', fs') => Some ([ci], mkLocal (Some x) (Some d) (l_capt l0) :: L', U', E', fs')
    | _ => None
    end.
Proof.
  intros. cbn [nstmt]. fold (nl_fix cf). unfold nfunc. destruct (d =? 0).
  - destruct (bparams cf ps _); [|reflexivity]. now rewrite nl_eq.
  - destruct (dup_in_scope L x d); [reflexivity|]. destruct (List.length L =? c_locals_max cf); [reflexivity|].
    destruct (bparams cf ps _); [|reflexivity]. now rewrite nl_eq.
Qed.

Lemma nstmt_loop : forall cf i n b L d U E fs pos lc,
  nstmt cf (SLoop i n b) L d U E fs pos lc =
  if dup_in_scope L i (S d) then None
  else if List.length L =? c_locals_max cf then None
  else if S (List.length L) =? c_locals_max cf then None
  else
    let lv := List.length L in
    let Lh := mkLocal None (Some (S d)) false :: mkLocal (Some i) (Some (S d)) false :: L in
    let start := pos + code_size (loop_pre n) in
    let posb := start + code_size (loop_head lv 0) in
    match nblk cf b (S d) Lh U E fs posb (Some (mkLctx start (S d) 0)) with
    | Some (c0, _, _, _, _) =>
        let szb := code_size c0 in
        match nblk cf b (S d) Lh U E fs posb (Some (mkLctx start (S d) (posb + szb + 3 + 1))) with
        | Some (cblock, L1, U', E', fs') =>
            let ops := scope_end_ops L1 d in
            Some ((loop_pre n ++ loop_head lv (1 + szb + 3) ++ cblock
                   ++ [ILoop (code_size (loop_head lv 0) + szb + 3); IPop] ++ ops)%list,
                  skipn (List.length ops) L1, U', E', fs')
        | None => None
        end
    | None => None
    end.
Proof.
  intros. cbn [nstmt]. fold (nl_fix cf). unfold nblk.
  destruct (dup_in_scope L i (S d)); [reflexivity|]. destruct (List.length L =? c_locals_max cf); [reflexivity|].
  destruct (S (List.length L) =? c_locals_max cf); [reflexivity|]. cbv zeta. now rewrite !nl_eq.
Qed.

Lemma nstmt_if : forall cf a c t e L d U E fs pos lc,
  nstmt cf (SIf a c t e) L d U E fs pos lc =
  match nexpr cf L a U E with
  | Some (ca, U1, E1) =>
      match nexpr cf L c U1 E1 with
      | Some (cc, U2, E2) =>
          let post := pos + code_size ca + code_size cc + code_size [ILess; IJumpIfFalse 0; IPop] in
          match nblk cf t d L U2 E2 fs post lc with
          | Some (ct, L1, U3, E3, fs1) =>
              let pose := post + code_size ct + code_size [IJump 0; IPop] in
              match nblk cf e d L1 U3 E3 fs1 pose lc with
              | Some (cel, L2, U4, E4, fs2) =>
                  Some ((ca ++ cc ++ [ILess; IJumpIfFalse (1 + code_size ct + 3); IPop] ++ ct
                         ++ [IJump (1 + code_size cel); IPop] ++ cel)%list, L2, U4, E4, fs2)
              | None => None
              end
          | None => None
          end
      | None => None
      end
  | None => None
  end.
Proof.
  intros. cbn [nstmt]. fold (nl_fix cf). unfold nblk.
  destruct (nexpr cf L a U E) as [[[ca U1] E1]|]; [|reflexivity].
  destruct (nexpr cf L c U1 E1) as [[[cc U2] E2]|]; [|reflexivity]. cbv zeta. now rewrite !nl_eq.
Qed.

(* ------------------------------------------------------------------------------------------ *)
(* the fragment without side conditions, and its nested induction principle *)

Fixpoint stmt6u (s : stmt) : bool :=
  match s with
  | SDecl _ e | SAssign _ e | SPrint e | SExpr e | SReturn e => expr2 e
  | SBlock b => forallb stmt6u b
  | SFun _ _ b | SLam _ _ b => forallb stmt6u b
  | SLoop _ _ b => forallb stmt6u b
  | SIf a c t e => expr2 a && expr2 c && forallb stmt6u t && forallb stmt6u e
  | SBreak | SContinue => true
  | _ => false
  end.

Lemma stmt6u_ind : forall P : stmt -> Prop,
  (forall x e, expr2 e = true -> P (SDecl x e)) -> (forall x e, expr2 e = true -> P (SAssign x e)) ->
  (forall e, expr2 e = true -> P (SPrint e)) -> (forall e, expr2 e = true -> P (SExpr e)) ->
  (forall e, expr2 e = true -> P (SReturn e)) ->
  (forall b, forallb stmt6u b = true -> Forall P b -> P (SBlock b)) ->
  (forall f ps b, forallb stmt6u b = true -> Forall P b -> P (SFun f ps b)) ->
  (forall x ps b, forallb stmt6u b = true -> Forall P b -> P (SLam x ps b)) ->
  (forall i n b, forallb stmt6u b = true -> Forall P b -> P (SLoop i n b)) ->
  (forall a c t e, expr2 a = true -> expr2 c = true -> forallb stmt6u t = true -> forallb stmt6u e = true ->
                   Forall P t -> Forall P e -> P (SIf a c t e)) ->
  P SBreak -> P SContinue ->
  forall s, stmt6u s = true -> P s.
Proof.
  intros P Hd Ha Hp He Hr Hb Hf Hl Hlo Hi Hbr Hco. fix IH 1. intros s H.
  assert (G : forall l, forallb stmt6u l = true -> Forall P l).
  { fix go 1. intros l H0. destruct l as [|a r]; [constructor|]. cbn in H0. apply andb_prop in H0. destruct H0 as [H1 H2].
    constructor; [apply IH; exact H1|apply go; exact H2]. }
  destruct s; cbn in H; try discriminate.
  - apply Hd; exact H.
  - apply Ha; exact H.
  - apply Hp; exact H.
  - apply He; exact H.
  - apply Hb; [exact H|apply G; exact H].
  - apply Hf; [exact H|apply G; exact H].
  - apply Hl; [exact H|apply G; exact H].
  - apply Hlo; [exact H|apply G; exact H].
  - apply andb_prop in H. destruct H as [H H4]. apply andb_prop in H. destruct H as [H H3]. apply andb_prop in H. destruct H as [H1 H2].
    apply Hi; auto.
  - exact Hbr.
  - exact Hco.
  - apply Hr; exact H.
Qed.

Lemma stmt6_stmt6u : forall s j i t l, stmt6 j i t l s = true -> stmt6u s = true.
Proof.
  fix IH 1. intros s j i t l H.
  assert (G : forall ls j0 i0 t0 l0, forallb (stmt6 j0 i0 t0 l0) ls = true -> forallb stmt6u ls = true).
  { fix go 1. intros ls j0 i0 t0 l0 H0. destruct ls as [|a r]; [reflexivity|]. cbn in H0 |- *. apply andb_prop in H0. destruct H0 as [H1 H2].
    rewrite (IH _ _ _ _ _ H1). exact (go _ _ _ _ _ H2). }
  destruct s; cbn in H |- *; try discriminate; try exact H; try reflexivity.
  - exact (G _ _ _ _ _ H).
  - exact (G _ _ _ _ _ H).
  - apply andb_prop in H. destruct H as [H1 _]. exact (G _ _ _ _ _ H1).
  - exact (G _ _ _ _ _ H).
  - apply andb_prop in H. destruct H as [H H4]. apply andb_prop in H. destruct H as [H H3]. apply andb_prop in H. destruct H as [H1 H2].
    rewrite H1, H2, (G _ _ _ _ _ H3), (G _ _ _ _ _ H4). reflexivity.
  - apply andb_prop in H. destruct H as [_ H2]. exact H2.
Qed.

Lemma forallb_stmt6_stmt6u : forall ls j i t l, forallb (stmt6 j i t l) ls = true -> forallb stmt6u ls = true.
Proof.
  induction ls as [|a r IH]; intros j i t l H; [reflexivity|]. cbn in H |- *. apply andb_prop in H. destruct H as [H1 H2].
  now rewrite (stmt6_stmt6u _ _ _ _ _ H1), (IH _ _ _ _ H2).
Qed.

Lemma stmt5_stmt6 : forall s j i t l, stmt5 i t s = true -> stmt6 j i t l s = true.
Proof.
  fix IH 1. intros s j i t l H.
  assert (G : forall ls j0 i0 t0 l0, forallb (stmt5 i0 t0) ls = true -> forallb (stmt6 j0 i0 t0 l0) ls = true).
  { fix go 1. intros ls j0 i0 t0 l0 H0. destruct ls as [|a r]; [reflexivity|]. cbn in H0 |- *. apply andb_prop in H0. destruct H0 as [H1 H2].
    rewrite (IH _ _ _ _ _ H1). exact (go _ _ _ _ _ H2). }
  destruct s; cbn in H |- *; try discriminate; try exact H.
  - exact (G _ _ _ _ _ H).
  - exact (G _ _ _ _ _ H).
  - apply andb_prop in H. destruct H as [H1 H2]. rewrite (G _ _ _ _ _ H1). exact H2.
Qed.

Lemma forallb_stmt5_stmt6 : forall ls j i t l, forallb (stmt5 i t) ls = true -> forallb (stmt6 j i t l) ls = true.
Proof.
  induction ls as [|a r IH]; intros j i t l H; [reflexivity|]. cbn in H |- *. apply andb_prop in H. destruct H as [H1 H2].
  now rewrite (stmt5_stmt6 _ j _ _ l H1), (IH _ _ _ _ H2).
Qed.

(* ------------------------------------------------------------------------------------------ *)
(* enclosing levels only grow: flags rise, upvalue lists are extended *)

Definition lev_up (l l' : lev) : Prop :=
  flags_up (lv_locals l) (lv_locals l') /\ exists ext, lv_ups l' = (lv_ups l ++ ext)%list.
Definition levs_up (E E' : list lev) : Prop := Forall2 lev_up E E'.

Lemma lev_up_refl : forall l, lev_up l l.
Proof. intros l. split; [apply flags_up_refl|exists []; now rewrite app_nil_r]. Qed.

Lemma lev_up_trans : forall a b c, lev_up a b -> lev_up b c -> lev_up a c.
Proof.
  intros a b c [F1 [e1 E1]] [F2 [e2 E2]]. split; [eapply flags_up_trans; eauto|].
  exists (e1 ++ e2)%list. rewrite E2, E1. now rewrite app_assoc.
Qed.

Lemma levs_up_refl : forall E, levs_up E E.
Proof. induction E; constructor; auto using lev_up_refl. Qed.

Lemma levs_up_trans : forall A B C, levs_up A B -> levs_up B C -> levs_up A C.
Proof.
  intros A B C H. revert C. induction H as [|a b A B Hab H IH]; intros C HC; inversion HC; subst; constructor.
  - eapply lev_up_trans; eauto.
  - now apply IH.
Qed.

Lemma levs_up_length : forall E E', levs_up E E' -> List.length E' = List.length E.
Proof. intros E E' H. induction H; cbn; auto. Qed.

Definition step_ok (U : ups_t) (E : list lev) (U' : ups_t) (E' : list lev) : Prop :=
  (exists ext, U' = (U ++ ext)%list) /\ levs_up E E'.

Lemma step_ok_refl : forall U E, step_ok U E U E.
Proof. intros U E. split; [exists []; now rewrite app_nil_r|apply levs_up_refl]. Qed.

Lemma step_ok_trans : forall U E U1 E1 U2 E2, step_ok U E U1 E1 -> step_ok U1 E1 U2 E2 -> step_ok U E U2 E2.
Proof.
  intros U E U1 E1 U2 E2 [[e1 ->] F1] [[e2 ->] F2]. split; [exists (e1 ++ e2)%list; now rewrite app_assoc|].
  eapply levs_up_trans; eauto.
Qed.

Lemma rup_ok : forall cf x E U r U' E', rup cf x U E = Some (r, U', E') -> step_ok U E U' E'.
Proof.
  intros cf x. induction E as [|l E IH]; intros U r U' E' H; cbn [rup] in H.
  - inversion H; subst. apply step_ok_refl.
  - assert (Hrec : match rup cf x (lv_ups l) E with
                   | None => None
                   | Some (None, _, _) => Some (None, U, l :: E)
                   | Some (Some k1, Ul, E1) =>
                       let '(U1, k, ovf) := add_upvalue (c_upvalues_max cf) U k1 false in
                       if ovf then None else Some (Some k, U1, mkLev (lv_locals l) Ul :: E1)
                   end = Some (r, U', E') -> step_ok U (l :: E) U' E').
    { clear H. destruct (rup cf x (lv_ups l) E) as [[[[k1|] Ul] E1]|] eqn:Er; try discriminate.
      - destruct (add_upvalue (c_upvalues_max cf) U k1 false) as [[U1 k] ovf] eqn:Ea. destruct ovf; [discriminate|].
        intros [= <- <- <-]. destruct (IH _ _ _ _ Er) as [[ext Eu] F]. destruct (add_upvalue_spec _ _ _ _ _ _ Ea) as [_ [e2 ->]].
        split; [eauto|]. constructor; [|exact F]. split; [apply flags_up_refl|]. cbn. eauto.
      - intros [= <- <- <-]. apply step_ok_refl. }
    destruct (resolve_local (lv_locals l) x) as [[slot [|]]|]; try (exact (Hrec H)).
    destruct (add_upvalue (c_upvalues_max cf) U slot true) as [[U1 k] ovf] eqn:Ea. destruct ovf; [discriminate|].
    inversion H; subst. destruct (add_upvalue_spec _ _ _ _ _ _ Ea) as [_ [e2 ->]].
    split; [eauto|]. constructor; [|apply levs_up_refl]. split; [apply flags_up_mark_captured|]. cbn. exists []. now rewrite app_nil_r.
Qed.

Lemma rvn_ok : forall cf L U E x r U' E', rvn cf L U E x = Some (r, U', E') -> step_ok U E U' E'.
Proof.
  intros cf L U E x r U' E'. unfold rvn. destruct (resolve_local L x) as [[s [|]]|].
  - intros [= <- <- <-]. apply step_ok_refl.
  - discriminate.
  - destruct (rup cf x U E) as [[[[k|] U1] E1]|] eqn:Er; try discriminate.
    + intros [= <- <- <-]. eapply rup_ok; eauto.
    + intros [= <- <- <-]. apply step_ok_refl.
Qed.

Lemma nexpr_ok : forall cf e, expr2 e = true -> forall L U E ce U' E', nexpr cf L e U E = Some (ce, U', E') -> step_ok U E U' E'.
Proof.
  intros cf e He. pattern e. revert e He. apply expr2_ind.
  - intros n L U E ce U' E'. cbn [nexpr]. intros [= <- <- <-]. apply step_ok_refl.
  - intros x L U E ce U' E'. cbn [nexpr]. destruct (rvn cf L U E x) as [[[r U1] E1]|] eqn:Er; [|discriminate].
    intros [= <- <- <-]. eapply rvn_ok; eauto.
  - intros a b _ _ IHa IHb L U E ce U' E'. cbn [nexpr].
    destruct (nexpr cf L a U E) as [[[ca U1] E1]|] eqn:Ea; [|discriminate].
    destruct (nexpr cf L b U1 E1) as [[[cb U2] E2]|] eqn:Eb; [|discriminate].
    intros [= <- <- <-]. eapply step_ok_trans; [eapply IHa|eapply IHb]; eauto.
  - intros f args _ IH L U E ce U' E'. rewrite nexpr_call.
    destruct (rvn cf L U E f) as [[[r U0] E0]|] eqn:Er; [|discriminate].
    destruct (nargs cf L args U0 E0) as [[[cargs U3] E3]|] eqn:Ea; [|discriminate].
    intros [= <- <- <-]. eapply step_ok_trans; [eapply rvn_ok; eauto|].
    clear Er. revert U0 E0 cargs U3 E3 Ea. induction IH as [|a r1 Ha Hr IHr]; intros U0 E0 cargs U3 E3 Ea; cbn [nargs] in Ea.
    + inversion Ea; subst. apply step_ok_refl.
    + destruct (nexpr cf L a U0 E0) as [[[ca U1] E1]|] eqn:E1'; [|discriminate].
      destruct (nargs cf L r1 U1 E1) as [[[ct U2] E2]|] eqn:E2'; [|discriminate]. inversion Ea; subst.
      eapply step_ok_trans; [eapply Ha; eauto|eapply IHr; eauto].
Qed.

Lemma nargs_ok : forall cf args, forallb expr2 args = true -> forall L U E ca U' E',
  nargs cf L args U E = Some (ca, U', E') -> step_ok U E U' E'.
Proof.
  intros cf args. induction args as [|a r IH]; intros Hf L U E ca U' E' H; cbn [nargs] in H.
  - inversion H; subst. apply step_ok_refl.
  - cbn in Hf. apply andb_prop in Hf as [Ha Hr].
    destruct (nexpr cf L a U E) as [[[c1 U1] E1]|] eqn:E1'; [|discriminate].
    destruct (nargs cf L r U1 E1) as [[[ct U2] E2]|] eqn:E2'; [|discriminate]. inversion H; subst.
    eapply step_ok_trans; [eapply nexpr_ok; eauto|eapply IH; eauto].
Qed.

(* ------------------------------------------------------------------------------------------ *)
(* statements: the function's own locals gain entries of the current depth, older ones keep names / depths *)

Definition lext (d : nat) (L L' : list local) : Prop :=
  exists N L0, L' = (N ++ L0)%list /\ flags_up L L0 /\ Forall (fun l => l_depth l = Some d) N.

Lemma lext_refl : forall d L, lext d L L.
Proof. intros d L. exists [], L. repeat split; [apply flags_up_refl|constructor]. Qed.

Lemma lext_flags : forall d L L0, flags_up L L0 -> lext d L L0.
Proof. intros d L L0 H. exists [], L0. repeat split; [exact H|constructor]. Qed.

Lemma lext_trans : forall d L L1 L2, lext d L L1 -> lext d L1 L2 -> lext d L L2.
Proof.
  intros d L L1 L2 (N1 & L01 & -> & F1 & D1) (N2 & L02 & -> & F2 & D2).
  destruct (flags_up_app_inv _ _ _ F2) as (N1' & L01' & -> & FN & FL).
  exists (N2 ++ N1')%list, L01'. rewrite app_assoc. split; [reflexivity|]. split; [eapply flags_up_trans; eauto|].
  apply Forall_app. split; [exact D2|]. eapply flags_up_depths; eauto.
Qed.

Lemma lext_depth_le : forall d L L', depth_le d L -> lext d L L' -> depth_le d L'.
Proof.
  intros d L L' H (N & L0 & -> & F & D). apply depth_le_app_new; [eapply flags_up_depth_le; eauto|exact D].
Qed.

Lemma lext_nonempty : forall d L L', L <> [] -> lext d L L' -> L' <> [].
Proof.
  intros d L L' H (N & L0 & -> & F & D) E. apply app_eq_nil in E as [_ ->]. pose proof (flags_up_length _ _ F) as Hl.
  destruct L; [congruence|discriminate].
Qed.

Definition fgrow (fs fs' : list func) : Prop := exists ext, fs' = (fs ++ ext)%list.
Lemma fgrow_refl : forall fs, fgrow fs fs. Proof. intros fs. exists []. now rewrite app_nil_r. Qed.
Lemma fgrow_trans : forall a b c, fgrow a b -> fgrow b c -> fgrow a c.
Proof. intros a b c [e1 ->] [e2 ->]. exists (e1 ++ e2)%list. now rewrite app_assoc. Qed.

Definition nstmt_okP (cf : cfg) (s : stmt) : Prop := forall L d U E fs pos lc code L' U' E' fs',
  nstmt cf s L d U E fs pos lc = Some (code, L', U', E', fs') -> depth_le d L ->
  step_ok U E U' E' /\ fgrow fs fs' /\ lext d L L'.

Definition nlist_okP (cf : cfg) (b : list stmt) : Prop := forall L d U E fs pos lc code L' U' E' fs',
  nlist cf b d L U E fs pos lc = Some (code, L', U', E', fs') -> depth_le d L ->
  step_ok U E U' E' /\ fgrow fs fs' /\ lext d L L'.

Lemma nlist_ok_aux : forall cf b, Forall (nstmt_okP cf) b -> nlist_okP cf b.
Proof.
  intros cf b H. induction H as [|a r Ha Hr IH]; intros L d U E fs pos lc code L' U' E' fs' Hc Hd; cbn [nlist] in Hc.
  - inversion Hc; subst. split; [apply step_ok_refl|]. split; [apply fgrow_refl|apply lext_refl].
  - destruct (nstmt cf a L d U E fs pos lc) as [[[[[ca L1] U1] E1] fs1]|] eqn:E1'; [|discriminate].
    destruct (nlist cf r d L1 U1 E1 fs1 (pos + code_size ca) lc) as [[[[[cr L2] U2] E2] fs2]|] eqn:E2'; [|discriminate]. inversion Hc; subst.
    destruct (Ha _ _ _ _ _ _ _ _ _ _ _ _ E1' Hd) as (A1 & A2 & A3).
    destruct (IH _ _ _ _ _ _ _ _ _ _ _ _ E2' (lext_depth_le _ _ _ Hd A3)) as (B1 & B2 & B3).
    split; [eapply step_ok_trans; eauto|]. split; [eapply fgrow_trans; eauto|eapply lext_trans; eauto].
Qed.

Lemma bparams_depth : forall cf ps Lp, bparams cf ps [mkLocal None (Some 0) false] = Some Lp -> depth_le 1 Lp /\ Lp <> [].
Proof.
  intros cf ps Lp H. destruct (bparams_locals cf ps _ _ H) as (N & -> & HN & _). split.
  - apply Forall_app. split; [revert HN; apply Forall_impl; intros l [E _]; now rewrite E|constructor; [cbn; lia|constructor]].
  - intro E. apply app_eq_nil in E as [_ E]. discriminate.
Qed.

(* function() / lambda() *)
Lemma nfunc_ok_aux : forall cf ps b, nlist_okP cf b -> forall L1 U E fs ci L1' U' E' fs',
  nfunc cf ps b L1 U E fs = Some (ci, L1', U', E', fs') ->
  step_ok U E U' E' /\ fgrow fs fs' /\ flags_up L1 L1'.
Proof.
  intros cf ps b Hb L1 U E fs ci L1' U' E' fs' H. unfold nfunc in H.
  destruct (bparams cf ps _) as [Lp|] eqn:Ep; [|discriminate].
  destruct (nlist cf b 1 Lp [] (mkLev L1 U :: E) fs 0 None) as [[[[[cb Lb'] Ub] Eo] fs1]|] eqn:El; [|discriminate].
  cbn [nclose] in H. destruct Eo as [|lv E0]; [discriminate|]. inversion H; subst.
  destruct (Hb _ _ _ _ _ _ _ _ _ _ _ _ El (proj1 (bparams_depth _ _ _ Ep))) as ((_ & F) & G & _).
  inversion F as [|? ? ? ? [F1 [ext F2]] F3]; subst. cbn in F1, F2.
  split; [split; [eauto|exact F3]|]. split; [|exact F1].
  destruct G as [e ->]. exists (e ++ [mkFunc (cb ++ [INil; IReturn]) (List.length ps) (List.length Ub)])%list. now rewrite app_assoc.
Qed.

(* { b } : the locals come back with (possibly) raised flags *)
Lemma nblk_ok_aux : forall cf b, nlist_okP cf b -> forall L d U E fs pos lc code L' U' E' fs',
  nblk cf b d L U E fs pos lc = Some (code, L', U', E', fs') -> depth_le d L ->
  step_ok U E U' E' /\ fgrow fs fs' /\ flags_up L L'.
Proof.
  intros cf b Hb L d U E fs pos lc code L' U' E' fs' Hc Hd. unfold nblk in Hc.
  destruct (nlist cf b (S d) L U E fs pos lc) as [[[[[cb L1] U1] E1] fs1]|] eqn:El; [|discriminate]. cbv zeta in Hc. inversion Hc; subst.
  destruct (Hb _ _ _ _ _ _ _ _ _ _ _ _ El (depth_le_S _ _ Hd)) as (A1 & A2 & (N & L0 & -> & F & D)).
  split; [exact A1|]. split; [exact A2|].
  rewrite (scope_end_len N L0 d (flags_up_depth_le _ _ _ F Hd) D), skipn_app_len. exact F.
Qed.

Lemma loop_locals_depth : forall d i L, depth_le d L ->
  depth_le (S d) (mkLocal None (Some (S d)) false :: mkLocal (Some i) (Some (S d)) false :: L).
Proof. intros d i L H. constructor; [cbn; lia|]. constructor; [cbn; lia|]. now apply depth_le_S. Qed.

(* the two locals of a loop (variable, hidden iterator) are popped by its scope end *)
Lemma loop_scope_end : forall d i L L1, depth_le d L ->
  flags_up (mkLocal None (Some (S d)) false :: mkLocal (Some i) (Some (S d)) false :: L) L1 ->
  exists lh li L0, L1 = lh :: li :: L0 /\ flags_up L L0 /\ l_name lh = None /\ l_depth lh = Some (S d) /\
                   l_name li = Some i /\ l_depth li = Some (S d) /\
                   scope_end_ops L1 d = [if l_capt lh then ICloseUpvalue else IPop; if l_capt li then ICloseUpvalue else IPop] /\
                   skipn (List.length (scope_end_ops L1 d)) L1 = L0.
Proof.
  intros d i L L1 Hd HF. inversion HF as [|? lh ? L1' (A1 & A2 & _) HF1]; subst. inversion HF1 as [|? li ? L0 (B1 & B2 & _) HF0]; subst.
  cbn in A1, A2, B1, B2. exists lh, li, L0.
  assert (Hops : scope_end_ops (lh :: li :: L0) d = [if l_capt lh then ICloseUpvalue else IPop; if l_capt li then ICloseUpvalue else IPop]).
  { cbn [scope_end_ops]. rewrite <- A2, <- B2. destruct (d <? S d) eqn:El; [|apply Nat.ltb_ge in El; lia].
    pose proof (flags_up_depth_le _ _ _ HF0 Hd) as Hd0. destruct L0 as [|l0 L0']; [reflexivity|]. cbn [scope_end_ops].
    inversion Hd0 as [|? ? Hl0 _]; subst. destruct (l_depth l0) as [d0|]; [|reflexivity].
    destruct (d <? d0) eqn:E0; [apply Nat.ltb_lt in E0; lia|reflexivity]. }
  repeat split; auto. rewrite Hops. reflexivity.
Qed.

Lemma nstmt_ok : forall cf s, stmt6u s = true -> nstmt_okP cf s.
Proof.
  intros cf s Hs. pattern s. revert s Hs. apply stmt6u_ind.
  - (* SDecl *)
    intros x e He L d U E fs pos lc code L' U' E' fs' Hc Hd. cbn [nstmt] in Hc. destruct (d =? 0).
    + destruct (nexpr cf L e U E) as [[[ce U1] E1]|] eqn:Ee; [|discriminate]. inversion Hc; subst.
      split; [eapply nexpr_ok; eauto|]. split; [apply fgrow_refl|apply lext_refl].
    + destruct (dup_in_scope L x d); [discriminate|]. destruct (List.length L =? c_locals_max cf); [discriminate|].
      destruct (nexpr cf _ e U E) as [[[ce U1] E1]|] eqn:Ee; [|discriminate]. inversion Hc; subst.
      split; [eapply nexpr_ok; eauto|]. split; [apply fgrow_refl|].
      exists [mkLocal (Some x) (Some d) false], L. repeat split; [apply flags_up_refl|constructor; [reflexivity|constructor]].
  - (* SAssign *)
    intros x e He L d U E fs pos lc code L' U' E' fs' Hc Hd. cbn [nstmt] in Hc.
    destruct (rvn cf L U E x) as [[[r U0] E0]|] eqn:Er; [|discriminate].
    destruct (nexpr cf L e U0 E0) as [[[ce U1] E1]|] eqn:Ee; [|discriminate]. inversion Hc; subst.
    split; [eapply step_ok_trans; [eapply rvn_ok; eauto|eapply nexpr_ok; eauto]|]. split; [apply fgrow_refl|apply lext_refl].
  - intros e He L d U E fs pos lc code L' U' E' fs' Hc Hd. cbn [nstmt] in Hc.
    destruct (nexpr cf L e U E) as [[[ce U1] E1]|] eqn:Ee; [|discriminate]. inversion Hc; subst.
    split; [eapply nexpr_ok; eauto|]. split; [apply fgrow_refl|apply lext_refl].
  - intros e He L d U E fs pos lc code L' U' E' fs' Hc Hd. cbn [nstmt] in Hc.
    destruct (nexpr cf L e U E) as [[[ce U1] E1]|] eqn:Ee; [|discriminate]. inversion Hc; subst.
    split; [eapply nexpr_ok; eauto|]. split; [apply fgrow_refl|apply lext_refl].
  - intros e He L d U E fs pos lc code L' U' E' fs' Hc Hd. cbn [nstmt] in Hc.
    destruct (nexpr cf L e U E) as [[[ce U1] E1]|] eqn:Ee; [|discriminate]. inversion Hc; subst.
    split; [eapply nexpr_ok; eauto|]. split; [apply fgrow_refl|apply lext_refl].
  - (* SBlock *)
    intros b Hb IH L d U E fs pos lc code L' U' E' fs' Hc Hd. rewrite nstmt_block in Hc.
    unfold nblk in Hc. destruct (nlist cf b (S d) L U E fs pos lc) as [[[[[cb L1] U1] E1] fs1]|] eqn:El; [|discriminate]. cbv zeta in Hc. inversion Hc; subst.
    destruct (nlist_ok_aux cf b IH _ _ _ _ _ _ _ _ _ _ _ _ El (depth_le_S _ _ Hd)) as (A1 & A2 & (N & L0 & -> & F & D)).
    split; [exact A1|]. split; [exact A2|].
    rewrite (scope_end_len N L0 d (flags_up_depth_le _ _ _ F Hd) D), skipn_app_len. now apply lext_flags.
  - (* SFun *)
    intros f ps b Hb IH L d U E fs pos lc code L' U' E' fs' Hc Hd. rewrite nstmt_fun in Hc. destruct (d =? 0).
    + destruct (nfunc cf ps b L U E fs) as [[[[[ci L1] U1] E1] fs1]|] eqn:Ef; [|discriminate]. inversion Hc; subst.
      destruct (nfunc_ok_aux cf ps b (nlist_ok_aux cf b IH) _ _ _ _ _ _ _ _ _ Ef) as (A1 & A2 & A3).
      split; [exact A1|]. split; [exact A2|now apply lext_flags].
    + destruct (dup_in_scope L f d); [discriminate|]. destruct (List.length L =? c_locals_max cf); [discriminate|].
      destruct (nfunc cf ps b _ U E fs) as [[[[[ci L1] U1] E1] fs1]|] eqn:Ef; [|discriminate]. inversion Hc; subst.
      destruct (nfunc_ok_aux cf ps b (nlist_ok_aux cf b IH) _ _ _ _ _ _ _ _ _ Ef) as (A1 & A2 & A3).
      split; [exact A1|]. split; [exact A2|].
      inversion A3 as [|l0 l0' ? L0 (E1' & E2' & _) F']; subst. cbn in E1', E2'.
      exists [l0'], L0. repeat split; [exact F'|constructor; [now rewrite <- E2'|constructor]].
  - (* SLam *)
    intros x ps b Hb IH L d U E fs pos lc code L' U' E' fs' Hc Hd. rewrite nstmt_lam in Hc. destruct (d =? 0).
    + destruct (nfunc cf ps b L U E fs) as [[[[[ci L1] U1] E1] fs1]|] eqn:Ef; [|discriminate]. inversion Hc; subst.
      destruct (nfunc_ok_aux cf ps b (nlist_ok_aux cf b IH) _ _ _ _ _ _ _ _ _ Ef) as (A1 & A2 & A3).
      split; [exact A1|]. split; [exact A2|now apply lext_flags].
    + destruct (dup_in_scope L x d); [discriminate|]. destruct (List.length L =? c_locals_max cf); [discriminate|].
      destruct (nfunc cf ps b _ U E fs) as [[[[[ci L1] U1] E1] fs1]|] eqn:Ef; [|discriminate].
      destruct L1 as [|l0 L1]; [discriminate|]. inversion Hc; subst.
      destruct (nfunc_ok_aux cf ps b (nlist_ok_aux cf b IH) _ _ _ _ _ _ _ _ _ Ef) as (A1 & A2 & A3).
      split; [exact A1|]. split; [exact A2|].
      inversion A3 as [|? ? ? ? _ F']; subst.
      exists [mkLocal (Some x) (Some d) (l_capt l0)], L1. repeat split; [exact F'|constructor; [reflexivity|constructor]].
  - (* SLoop *)
    intros i n b Hb IH L d U E fs pos lc code L' U' E' fs' Hc Hd. rewrite nstmt_loop in Hc.
    destruct (dup_in_scope L i (S d)); [discriminate|]. destruct (List.length L =? c_locals_max cf); [discriminate|].
    destruct (S (List.length L) =? c_locals_max cf); [discriminate|]. cbv zeta in Hc.
    destruct (nblk cf b (S d) _ U E fs _ (Some (mkLctx _ _ 0))) as [[[[[c0 L00] U00] E00] fs00]|]; [|discriminate].
    destruct (nblk cf b (S d) _ U E fs _ (Some (mkLctx _ _ (_ + code_size c0 + 3 + 1)))) as [[[[[cblock L1] U1] E1] fs1]|] eqn:Eb; [|discriminate].
    inversion Hc; subst.
    destruct (nblk_ok_aux cf b (nlist_ok_aux cf b IH) _ _ _ _ _ _ _ _ _ _ _ _ Eb (loop_locals_depth d i L Hd)) as (A1 & A2 & A3).
    destruct (loop_scope_end d i L L1 Hd A3) as (lh & li & L0 & -> & F0 & _ & _ & _ & _ & _ & Hsk).
    split; [exact A1|]. split; [exact A2|]. rewrite Hsk. now apply lext_flags.
  - (* SIf *)
    intros a c t e Ha Hcx Ht He IHt IHe L d U E fs pos lc code L' U' E' fs' Hc Hd. rewrite nstmt_if in Hc.
    destruct (nexpr cf L a U E) as [[[ca U1] E1]|] eqn:Ea; [|discriminate].
    destruct (nexpr cf L c U1 E1) as [[[cc U2] E2]|] eqn:Ec; [|discriminate]. cbv zeta in Hc.
    destruct (nblk cf t d L U2 E2 fs _ lc) as [[[[[ct L1] U3] E3] fs1]|] eqn:Et; [|discriminate].
    destruct (nblk cf e d L1 U3 E3 fs1 _ lc) as [[[[[cel L2] U4] E4] fs2]|] eqn:Ee; [|discriminate]. inversion Hc; subst.
    destruct (nblk_ok_aux cf t (nlist_ok_aux cf t IHt) _ _ _ _ _ _ _ _ _ _ _ _ Et Hd) as (A1 & A2 & A3).
    destruct (nblk_ok_aux cf e (nlist_ok_aux cf e IHe) _ _ _ _ _ _ _ _ _ _ _ _ Ee (flags_up_depth_le _ _ _ A3 Hd)) as (B1 & B2 & B3).
    split; [|split; [eapply fgrow_trans; eauto|apply lext_flags; eapply flags_up_trans; eauto]].
    eapply step_ok_trans; [exact (nexpr_ok cf a Ha _ _ _ _ _ _ Ea)|]. eapply step_ok_trans; [exact (nexpr_ok cf c Hcx _ _ _ _ _ _ Ec)|]. eapply step_ok_trans; eauto.
  - (* SBreak *)
    intros L d U E fs pos lc code L' U' E' fs' Hc Hd. cbn [nstmt] in Hc. destruct lc; [|discriminate]. inversion Hc; subst.
    split; [apply step_ok_refl|]. split; [apply fgrow_refl|apply lext_refl].
  - (* SContinue *)
    intros L d U E fs pos lc code L' U' E' fs' Hc Hd. cbn [nstmt] in Hc. destruct lc; [|discriminate]. inversion Hc; subst.
    split; [apply step_ok_refl|]. split; [apply fgrow_refl|apply lext_refl].
Qed.

Lemma nblk_ok : forall cf b, forallb stmt6u b = true -> forall L d U E fs pos lc code L' U' E' fs',
  nblk cf b d L U E fs pos lc = Some (code, L', U', E', fs') -> depth_le d L ->
  step_ok U E U' E' /\ fgrow fs fs' /\ flags_up L L'.
Proof.
  intros cf b Hb. apply nblk_ok_aux. apply nlist_ok_aux. induction b as [|a r IH]; constructor.
  - cbn in Hb. apply andb_prop in Hb as [Ha _]. now apply nstmt_ok.
  - cbn in Hb. apply andb_prop in Hb as [_ Hr]. auto.
Qed.

Lemma nlist_ok : forall cf b, forallb stmt6u b = true -> nlist_okP cf b.
Proof.
  intros cf b Hb. apply nlist_ok_aux. induction b as [|a r IH]; constructor.
  - cbn in Hb. apply andb_prop in Hb as [Ha _]. now apply nstmt_ok.
  - cbn in Hb. apply andb_prop in Hb as [_ Hr]. auto.
Qed.

Lemma nfunc_ok : forall cf ps b, forallb stmt6u b = true -> forall L1 U E fs ci L1' U' E' fs',
  nfunc cf ps b L1 U E fs = Some (ci, L1', U', E', fs') ->
  step_ok U E U' E' /\ fgrow fs fs' /\ flags_up L1 L1'.
Proof. intros cf ps b Hb. apply nfunc_ok_aux. now apply nlist_ok. Qed.

(* ------------------------------------------------------------------------------------------ *)
(* upvalue entries are valid: (slot, true) names a captured, initialised, named local of the next enclosing level,
   (i, false) an entry of that level's upvalue list *)

Definition up_ok (l : lev) (u : nat * bool) : Prop :=
  if snd u then exists lc, nth_error (rev (lv_locals l)) (fst u) = Some lc /\ l_capt lc = true /\ l_depth lc <> None /\ l_name lc <> None
  else fst u < List.length (lv_ups l).

Definition ups_okN (U : ups_t) (E : list lev) : Prop :=
  match E with [] => True | l :: _ => Forall (up_ok l) U end.

Fixpoint levs_ok (E : list lev) : Prop :=
  match E with [] => True | l :: E' => ups_okN (lv_ups l) E' /\ levs_ok E' end.

Definition stack_ok (U : ups_t) (E : list lev) : Prop := ups_okN U E /\ levs_ok E.

Lemma up_ok_lev_up : forall l l' u, lev_up l l' -> up_ok l u -> up_ok l' u.
Proof.
  intros l l' [i b] [F [ext Ex]]. unfold up_ok. cbn [fst snd]. destruct b.
  - intros (lc & Hn & Hc & Hd & Hm).
    destruct (Forall2_nth_error_loc _ _ _ _ _ _ _ (Forall2_rev_loc _ _ _ _ _ F) Hn) as (lc' & Hn' & (E1 & E2 & E3)).
    exists lc'. repeat split; auto; congruence.
  - rewrite Ex, app_length. lia.
Qed.

Lemma ups_okN_levs_up : forall U E E', levs_up E E' -> ups_okN U E -> ups_okN U E'.
Proof.
  intros U E E' H. destruct H as [|l l' E E' Hl H]; cbn; [auto|]. apply Forall_impl. intros u. now apply up_ok_lev_up.
Qed.

Lemma add_upvalue_cases : forall maxu U idx b U' k, add_upvalue maxu U idx b = (U', k, false) ->
  (U' = U \/ U' = (U ++ [(idx, b)])%list) /\ k < List.length U'.
Proof.
  intros maxu U idx b U' k H. pose proof (add_upvalue_spec _ _ _ _ _ _ H) as [Hn _].
  split; [|apply nth_error_Some; congruence]. unfold add_upvalue in H.
  destruct (find_up U idx b 0); [inversion H; now left|]. destruct (List.length U =? maxu); [discriminate|]. inversion H. now right.
Qed.

Lemma rup_index : forall cf x E U k U' E', rup cf x U E = Some (Some k, U', E') -> k < List.length U'.
Proof.
  intros cf x E U k U' E' H. destruct E as [|l E]; cbn [rup] in H; [discriminate|].
  assert (Hrec : match rup cf x (lv_ups l) E with
                 | None => None
                 | Some (None, _, _) => Some (None, U, l :: E)
                 | Some (Some k1, Ul, E1) =>
                     let '(U1, k, ovf) := add_upvalue (c_upvalues_max cf) U k1 false in
                     if ovf then None else Some (Some k, U1, mkLev (lv_locals l) Ul :: E1)
                 end = Some (Some k, U', E') -> k < List.length U').
  { destruct (rup cf x (lv_ups l) E) as [[[[k1|] Ul] E1]|]; try discriminate.
    destruct (add_upvalue (c_upvalues_max cf) U k1 false) as [[U1 k0] ovf] eqn:Ea. destruct ovf; [discriminate|].
    intros [= <- <- <-]. exact (proj2 (add_upvalue_cases _ _ _ _ _ _ Ea)). }
  destruct (resolve_local (lv_locals l) x) as [[slot [|]]|]; try (exact (Hrec H)).
  destruct (add_upvalue (c_upvalues_max cf) U slot true) as [[U1 k0] ovf] eqn:Ea. destruct ovf; [discriminate|].
  inversion H; subst. exact (proj2 (add_upvalue_cases _ _ _ _ _ _ Ea)).
Qed.

Lemma rup_stack_ok : forall cf x E U r U' E', rup cf x U E = Some (r, U', E') -> stack_ok U E -> stack_ok U' E'.
Proof.
  intros cf x. induction E as [|l E IH]; intros U r U' E' H [HU HE]; cbn [rup] in H.
  - inversion H; subst. split; exact I.
  - cbn in HU, HE. destruct HE as [HE1 HE2].
    assert (Hrec : match rup cf x (lv_ups l) E with
                   | None => None
                   | Some (None, _, _) => Some (None, U, l :: E)
                   | Some (Some k1, Ul, E1) =>
                       let '(U1, k, ovf) := add_upvalue (c_upvalues_max cf) U k1 false in
                       if ovf then None else Some (Some k, U1, mkLev (lv_locals l) Ul :: E1)
                   end = Some (r, U', E') -> stack_ok U' E').
    { clear H. destruct (rup cf x (lv_ups l) E) as [[[[k1|] Ul] E1]|] eqn:Er; try discriminate.
      - destruct (add_upvalue (c_upvalues_max cf) U k1 false) as [[U1 k] ovf] eqn:Ea. destruct ovf; [discriminate|].
        intros [= <- <- <-]. destruct (IH _ _ _ _ Er (conj HE1 HE2)) as [A1 A2].
        destruct (rup_ok _ _ _ _ _ _ _ Er) as [[ext Eu] _]. pose proof (rup_index _ _ _ _ _ _ _ Er) as Hk1.
        assert (Hl : lev_up l (mkLev (lv_locals l) Ul)) by (split; [apply flags_up_refl|cbn; eauto]).
        assert (Hold : Forall (up_ok (mkLev (lv_locals l) Ul)) U) by (revert HU; apply Forall_impl; intros u; now apply up_ok_lev_up).
        split; [|split; assumption]. cbn.
        destruct (proj1 (add_upvalue_cases _ _ _ _ _ _ Ea)) as [->| ->]; [exact Hold|].
        apply Forall_app. split; [exact Hold|]. constructor; [|constructor]. unfold up_ok. cbn. exact Hk1.
      - intros [= <- <- <-]. split; [exact HU|split; assumption]. }
    destruct (resolve_local (lv_locals l) x) as [[slot [|]]|] eqn:Erl; try (exact (Hrec H)).
    destruct (add_upvalue (c_upvalues_max cf) U slot true) as [[U1 k] ovf] eqn:Ea. destruct ovf; [discriminate|].
    inversion H; subst.
    assert (Hl : lev_up l (mkLev (mark_captured (lv_locals l) slot) (lv_ups l))).
    { split; [apply flags_up_mark_captured|cbn; exists []; now rewrite app_nil_r]. }
    assert (Hold : Forall (up_ok (mkLev (mark_captured (lv_locals l) slot) (lv_ups l))) U) by (revert HU; apply Forall_impl; intros u; now apply up_ok_lev_up).
    split; [|split; assumption]. cbn.
    destruct (proj1 (add_upvalue_cases _ _ _ _ _ _ Ea)) as [->| ->]; [exact Hold|].
    apply Forall_app. split; [exact Hold|]. constructor; [|constructor]. unfold up_ok. cbn [fst snd lv_locals].
    destruct (resolve_local_capture _ _ _ Erl) as (lc & Hn & Hc & Hd). exists lc. repeat split; auto.
    destruct (resolve_local_named _ _ _ _ Erl) as (l1 & Hn1 & Hm1).
    destruct (flags_up_rev_name _ _ _ _ (flags_up_mark_captured (lv_locals l) slot) Hn1) as (l2 & Hn2 & Hm2).
    rewrite Hn in Hn2. inversion Hn2; subst. congruence.
Qed.

Lemma rvn_stack_ok : forall cf L U E x r U' E', rvn cf L U E x = Some (r, U', E') -> stack_ok U E -> stack_ok U' E'.
Proof.
  intros cf L U E x r U' E'. unfold rvn. destruct (resolve_local L x) as [[s [|]]|].
  - intros [= <- <- <-]. auto.
  - discriminate.
  - destruct (rup cf x U E) as [[[[k|] U1] E1]|] eqn:Er; try discriminate.
    + intros [= <- <- <-]. eapply rup_stack_ok; eauto.
    + intros [= <- <- <-]. auto.
Qed.

Lemma nexpr_stack_ok : forall cf e, expr2 e = true -> forall L U E ce U' E', nexpr cf L e U E = Some (ce, U', E') ->
  stack_ok U E -> stack_ok U' E'.
Proof.
  intros cf e He. pattern e. revert e He. apply expr2_ind.
  - intros n L U E ce U' E'. cbn [nexpr]. intros [= <- <- <-]. auto.
  - intros x L U E ce U' E'. cbn [nexpr]. destruct (rvn cf L U E x) as [[[r U1] E1]|] eqn:Er; [|discriminate].
    intros [= <- <- <-]. eapply rvn_stack_ok; eauto.
  - intros a b _ _ IHa IHb L U E ce U' E'. cbn [nexpr].
    destruct (nexpr cf L a U E) as [[[ca U1] E1]|] eqn:Ea; [|discriminate].
    destruct (nexpr cf L b U1 E1) as [[[cb U2] E2]|] eqn:Eb; [|discriminate].
    intros [= <- <- <-] H. eapply IHb; eauto.
  - intros f args _ IH L U E ce U' E'. rewrite nexpr_call.
    destruct (rvn cf L U E f) as [[[r U0] E0]|] eqn:Er; [|discriminate].
    destruct (nargs cf L args U0 E0) as [[[cargs U3] E3]|] eqn:Ea; [|discriminate].
    intros [= <- <- <-] H. apply (rvn_stack_ok _ _ _ _ _ _ _ _ Er) in H.
    clear Er. revert U0 E0 cargs U3 E3 Ea H. induction IH as [|a r1 Ha Hr IHr]; intros U0 E0 cargs U3 E3 Ea H; cbn [nargs] in Ea.
    + inversion Ea; subst. exact H.
    + destruct (nexpr cf L a U0 E0) as [[[ca U1] E1]|] eqn:E1'; [|discriminate].
      destruct (nargs cf L r1 U1 E1) as [[[ct U2] E2]|] eqn:E2'; [|discriminate]. inversion Ea; subst.
      eapply IHr; eauto.
Qed.

Definition nstmt_sokP (cf : cfg) (s : stmt) : Prop := forall L d U E fs pos lc code L' U' E' fs',
  nstmt cf s L d U E fs pos lc = Some (code, L', U', E', fs') -> stack_ok U E -> stack_ok U' E'.
Definition nlist_sokP (cf : cfg) (b : list stmt) : Prop := forall L d U E fs pos lc code L' U' E' fs',
  nlist cf b d L U E fs pos lc = Some (code, L', U', E', fs') -> stack_ok U E -> stack_ok U' E'.

Lemma nlist_sok_aux : forall cf b, Forall (nstmt_sokP cf) b -> nlist_sokP cf b.
Proof.
  intros cf b H. induction H as [|a r Ha Hr IH]; intros L d U E fs pos lc code L' U' E' fs' Hc Hs; cbn [nlist] in Hc.
  - inversion Hc; subst. exact Hs.
  - destruct (nstmt cf a L d U E fs pos lc) as [[[[[ca L1] U1] E1] fs1]|] eqn:E1'; [|discriminate].
    destruct (nlist cf r d L1 U1 E1 fs1 (pos + code_size ca) lc) as [[[[[cr L2] U2] E2] fs2]|] eqn:E2'; [|discriminate]. inversion Hc; subst.
    eapply IH; eauto.
Qed.

Lemma nfunc_sok_aux : forall cf ps b, nlist_sokP cf b -> forall L1 U E fs ci L1' U' E' fs',
  nfunc cf ps b L1 U E fs = Some (ci, L1', U', E', fs') -> stack_ok U E -> stack_ok U' E'.
Proof.
  intros cf ps b Hb L1 U E fs ci L1' U' E' fs' H Hs. unfold nfunc in H.
  destruct (bparams cf ps _) as [Lp|] eqn:Ep; [|discriminate].
  destruct (nlist cf b 1 Lp [] (mkLev L1 U :: E) fs 0 None) as [[[[[cb Lb'] Ub] Eo] fs1]|] eqn:El; [|discriminate].
  cbn [nclose] in H. destruct Eo as [|lv E0]; [discriminate|]. inversion H; subst.
  assert (H0 : stack_ok [] (mkLev L1 U :: E)) by (split; [constructor|exact Hs]).
  destruct (Hb _ _ _ _ _ _ _ _ _ _ _ _ El H0) as [_ A]. exact A.
Qed.

Lemma nblk_sok_aux : forall cf b, nlist_sokP cf b -> forall L d U E fs pos lc code L' U' E' fs',
  nblk cf b d L U E fs pos lc = Some (code, L', U', E', fs') -> stack_ok U E -> stack_ok U' E'.
Proof.
  intros cf b Hb L d U E fs pos lc code L' U' E' fs' Hc. unfold nblk in Hc.
  destruct (nlist cf b (S d) L U E fs pos lc) as [[[[[cb L1] U1] E1] fs1]|] eqn:El; [|discriminate]. cbv zeta in Hc. inversion Hc; subst.
  eapply Hb; eauto.
Qed.

Lemma nstmt_stack_ok : forall cf s, stmt6u s = true -> nstmt_sokP cf s.
Proof.
  intros cf s Hs. pattern s. revert s Hs. apply stmt6u_ind.
  - intros x e He L d U E fs pos lc code L' U' E' fs' Hc. cbn [nstmt] in Hc. destruct (d =? 0).
    + destruct (nexpr cf L e U E) as [[[ce U1] E1]|] eqn:Ee; [|discriminate]. inversion Hc; subst. eapply nexpr_stack_ok; eauto.
    + destruct (dup_in_scope L x d); [discriminate|]. destruct (List.length L =? c_locals_max cf); [discriminate|].
      destruct (nexpr cf _ e U E) as [[[ce U1] E1]|] eqn:Ee; [|discriminate]. inversion Hc; subst. eapply nexpr_stack_ok; eauto.
  - intros x e He L d U E fs pos lc code L' U' E' fs' Hc. cbn [nstmt] in Hc.
    destruct (rvn cf L U E x) as [[[r U0] E0]|] eqn:Er; [|discriminate].
    destruct (nexpr cf L e U0 E0) as [[[ce U1] E1]|] eqn:Ee; [|discriminate]. inversion Hc; subst.
    intros H. eapply nexpr_stack_ok; eauto. eapply rvn_stack_ok; eauto.
  - intros e He L d U E fs pos lc code L' U' E' fs' Hc. cbn [nstmt] in Hc.
    destruct (nexpr cf L e U E) as [[[ce U1] E1]|] eqn:Ee; [|discriminate]. inversion Hc; subst. eapply nexpr_stack_ok; eauto.
  - intros e He L d U E fs pos lc code L' U' E' fs' Hc. cbn [nstmt] in Hc.
    destruct (nexpr cf L e U E) as [[[ce U1] E1]|] eqn:Ee; [|discriminate]. inversion Hc; subst. eapply nexpr_stack_ok; eauto.
  - intros e He L d U E fs pos lc code L' U' E' fs' Hc. cbn [nstmt] in Hc.
    destruct (nexpr cf L e U E) as [[[ce U1] E1]|] eqn:Ee; [|discriminate]. inversion Hc; subst. eapply nexpr_stack_ok; eauto.
  - intros b Hb IH L d U E fs pos lc code L' U' E' fs' Hc. rewrite nstmt_block in Hc.
    unfold nblk in Hc. destruct (nlist cf b (S d) L U E fs pos lc) as [[[[[cb L1] U1] E1] fs1]|] eqn:El; [|discriminate]. cbv zeta in Hc. inversion Hc; subst.
    eapply (nlist_sok_aux cf b IH); eauto.
  - intros f ps b Hb IH L d U E fs pos lc code L' U' E' fs' Hc. rewrite nstmt_fun in Hc. destruct (d =? 0).
    + destruct (nfunc cf ps b L U E fs) as [[[[[ci L1] U1] E1] fs1]|] eqn:Ef; [|discriminate]. inversion Hc; subst.
      eapply (nfunc_sok_aux cf ps b (nlist_sok_aux cf b IH)); eauto.
    + destruct (dup_in_scope L f d); [discriminate|]. destruct (List.length L =? c_locals_max cf); [discriminate|].
      destruct (nfunc cf ps b _ U E fs) as [[[[[ci L1] U1] E1] fs1]|] eqn:Ef; [|discriminate]. inversion Hc; subst.
      eapply (nfunc_sok_aux cf ps b (nlist_sok_aux cf b IH)); eauto.
  - intros x ps b Hb IH L d U E fs pos lc code L' U' E' fs' Hc. rewrite nstmt_lam in Hc. destruct (d =? 0).
    + destruct (nfunc cf ps b L U E fs) as [[[[[ci L1] U1] E1] fs1]|] eqn:Ef; [|discriminate]. inversion Hc; subst.
      eapply (nfunc_sok_aux cf ps b (nlist_sok_aux cf b IH)); eauto.
    + destruct (dup_in_scope L x d); [discriminate|]. destruct (List.length L =? c_locals_max cf); [discriminate|].
      destruct (nfunc cf ps b _ U E fs) as [[[[[ci L1] U1] E1] fs1]|] eqn:Ef; [|discriminate].
      destruct L1 as [|l0 L1]; [discriminate|]. inversion Hc; subst.
      eapply (nfunc_sok_aux cf ps b (nlist_sok_aux cf b IH)); eauto.
  - (* SLoop *)
    intros i n b Hb IH L d U E fs pos lc code L' U' E' fs' Hc. rewrite nstmt_loop in Hc.
    destruct (dup_in_scope L i (S d)); [discriminate|]. destruct (List.length L =? c_locals_max cf); [discriminate|].
    destruct (S (List.length L) =? c_locals_max cf); [discriminate|]. cbv zeta in Hc.
    destruct (nblk cf b (S d) _ U E fs _ (Some (mkLctx _ _ 0))) as [[[[[c0 L00] U00] E00] fs00]|]; [|discriminate].
    destruct (nblk cf b (S d) _ U E fs _ (Some (mkLctx _ _ (_ + code_size c0 + 3 + 1)))) as [[[[[cblock L1] U1] E1] fs1]|] eqn:Eb; [|discriminate].
    inversion Hc; subst. eapply (nblk_sok_aux cf b (nlist_sok_aux cf b IH)); eauto.
  - (* SIf *)
    intros a c t e Ha Hcx Ht He IHt IHe L d U E fs pos lc code L' U' E' fs' Hc. rewrite nstmt_if in Hc.
    destruct (nexpr cf L a U E) as [[[ca U1] E1]|] eqn:Ea; [|discriminate].
    destruct (nexpr cf L c U1 E1) as [[[cc U2] E2]|] eqn:Ec; [|discriminate]. cbv zeta in Hc.
    destruct (nblk cf t d L U2 E2 fs _ lc) as [[[[[ct L1] U3] E3] fs1]|] eqn:Et; [|discriminate].
    destruct (nblk cf e d L1 U3 E3 fs1 _ lc) as [[[[[cel L2] U4] E4] fs2]|] eqn:Ee; [|discriminate]. inversion Hc; subst.
    intros H. apply (nexpr_stack_ok cf a Ha _ _ _ _ _ _ Ea) in H. apply (nexpr_stack_ok cf c Hcx _ _ _ _ _ _ Ec) in H.
    apply (nblk_sok_aux cf t (nlist_sok_aux cf t IHt) _ _ _ _ _ _ _ _ _ _ _ _ Et) in H.
    exact (nblk_sok_aux cf e (nlist_sok_aux cf e IHe) _ _ _ _ _ _ _ _ _ _ _ _ Ee H).
  - intros L d U E fs pos lc code L' U' E' fs' Hc. cbn [nstmt] in Hc. destruct lc; [|discriminate]. inversion Hc; subst. auto.
  - intros L d U E fs pos lc code L' U' E' fs' Hc. cbn [nstmt] in Hc. destruct lc; [|discriminate]. inversion Hc; subst. auto.
Qed.

Lemma nlist_stack_ok : forall cf b, forallb stmt6u b = true -> nlist_sokP cf b.
Proof.
  intros cf b Hb. apply nlist_sok_aux. induction b as [|a r IH]; constructor.
  - cbn in Hb. apply andb_prop in Hb as [Ha _]. now apply nstmt_stack_ok.
  - cbn in Hb. apply andb_prop in Hb as [_ Hr]. auto.
Qed.

(* ------------------------------------------------------------------------------------------ *)
(* an uninitialised local in front (the variable being declared) is invisible to its initialiser *)

Lemma rvn_uninit : forall cf x L U E y r, rvn cf (mkLocal (Some x) None false :: L) U E y = Some r -> rvn cf L U E y = Some r.
Proof.
  intros cf x L U E y r H. unfold rvn in *. cbn [resolve_local] in H. unfold name_is in H. cbn [l_name l_depth] in H.
  destruct (x =? y); [discriminate|]. exact H.
Qed.

Lemma nexpr_uninit : forall cf x e, expr2 e = true -> forall L U E r,
  nexpr cf (mkLocal (Some x) None false :: L) e U E = Some r -> nexpr cf L e U E = Some r.
Proof.
  intros cf x e He. pattern e. revert e He. apply expr2_ind.
  - intros n L U E r H. exact H.
  - intros y L U E r H. cbn [nexpr] in *.
    destruct (rvn cf (mkLocal (Some x) None false :: L) U E y) as [[[r0 U1] E1]|] eqn:Er; [|discriminate].
    rewrite (rvn_uninit _ _ _ _ _ _ _ Er). exact H.
  - intros a b _ _ IHa IHb L U E r H. cbn [nexpr] in *.
    destruct (nexpr cf (mkLocal (Some x) None false :: L) a U E) as [[[ca U1] E1]|] eqn:Ea; [|discriminate].
    rewrite (IHa _ _ _ _ Ea).
    destruct (nexpr cf (mkLocal (Some x) None false :: L) b U1 E1) as [[[cb U2] E2]|] eqn:Eb; [|discriminate].
    rewrite (IHb _ _ _ _ Eb). exact H.
  - intros f args _ IH L U E r H. rewrite nexpr_call in *.
    destruct (rvn cf (mkLocal (Some x) None false :: L) U E f) as [[[r0 U0] E0]|] eqn:Er; [|discriminate].
    rewrite (rvn_uninit _ _ _ _ _ _ _ Er).
    assert (G : forall U1 E1 q, nargs cf (mkLocal (Some x) None false :: L) args U1 E1 = Some q -> nargs cf L args U1 E1 = Some q).
    { clear H Er. induction IH as [|a r1 Ha Hr IHr]; intros U1 E1 q Hq; [exact Hq|]. cbn [nargs] in *.
      destruct (nexpr cf (mkLocal (Some x) None false :: L) a U1 E1) as [[[ca U2] E2]|] eqn:Ea; [|discriminate].
      rewrite (Ha _ _ _ _ Ea).
      destruct (nargs cf (mkLocal (Some x) None false :: L) r1 U2 E2) as [[[ct U3] E3]|] eqn:Et; [|discriminate].
      rewrite (IHr _ _ _ Et). exact Hq. }
    destruct (nargs cf (mkLocal (Some x) None false :: L) args U0 E0) as [[[cargs U3] E3]|] eqn:Eb; [|discriminate].
    rewrite (G _ _ _ Eb). exact H.
Qed.

(* ------------------------------------------------------------------------------------------ *)
(* the newest local of an enclosing level (level k) that the code never mentions does not influence compilation *)

Fixpoint dropk (k : nat) (E : list lev) : list lev :=
  match E, k with
  | [], _ => []
  | l :: r, 0 => mkLev (tl (lv_locals l)) (lv_ups l) :: r
  | l :: r, S k' => l :: dropk k' r
  end.

Definition topk (k : nat) (E : list lev) : option local :=
  match nth_error E k with Some l => hd_error (lv_locals l) | None => None end.

Lemma rup_drop : forall cf x y l0, l_name l0 = Some x -> y <> x ->
  forall E k U r U' E', topk k E = Some l0 -> rup cf y U E = Some (r, U', E') ->
  rup cf y U (dropk k E) = Some (r, U', dropk k E') /\ topk k E' = Some l0.
Proof.
  intros cf x y l0 Hn Hne. induction E as [|l E IH]; intros k U r U' E' Ht H.
  - destruct k; discriminate.
  - destruct k as [|k].
    + (* the level itself *)
      unfold topk in Ht. cbn in Ht. destruct l as [[|l1 Lk] Uk]; cbn in Ht; [discriminate|]. inversion Ht; subst l1.
      cbn [rup dropk lv_locals lv_ups tl] in *.
      assert (Er : resolve_local (l0 :: Lk) y = resolve_local Lk y).
      { cbn [resolve_local]. unfold name_is. rewrite Hn. destruct (Nat.eqb_spec x y); [congruence|reflexivity]. }
      rewrite Er in H.
      destruct (resolve_local Lk y) as [[slot [|]]|] eqn:Erl.
      * destruct (add_upvalue (c_upvalues_max cf) U slot true) as [[U1 k] ovf]. destruct ovf; [discriminate|]. inversion H; subst.
        unfold topk. cbn [dropk lv_locals lv_ups nth_error]. pose proof (resolve_local_lt _ _ _ _ Erl) as Hlt.
        destruct (Nat.eqb_spec (List.length Lk) slot) as [E0|_]; [lia|]. split; reflexivity.
      * destruct (rup cf y Uk E) as [[[[k1|] Ul] E1]|]; try discriminate.
        -- destruct (add_upvalue (c_upvalues_max cf) U k1 false) as [[U1 k] ovf]. destruct ovf; [discriminate|]. inversion H; subst. split; reflexivity.
        -- inversion H; subst. split; reflexivity.
      * destruct (rup cf y Uk E) as [[[[k1|] Ul] E1]|]; try discriminate.
        -- destruct (add_upvalue (c_upvalues_max cf) U k1 false) as [[U1 k] ovf]. destruct ovf; [discriminate|]. inversion H; subst. split; reflexivity.
        -- inversion H; subst. split; reflexivity.
    + (* a deeper level *)
      assert (Ht' : topk k E = Some l0) by exact Ht.
      cbn [rup dropk] in *.
      assert (Hrec : match rup cf y (lv_ups l) E with
                     | None => None
                     | Some (None, _, _) => Some (None, U, l :: E)
                     | Some (Some k1, Ul, E1) =>
                         let '(U1, k, ovf) := add_upvalue (c_upvalues_max cf) U k1 false in
                         if ovf then None else Some (Some k, U1, mkLev (lv_locals l) Ul :: E1)
                     end = Some (r, U', E') ->
                     match rup cf y (lv_ups l) (dropk k E) with
                     | None => None
                     | Some (None, _, _) => Some (None, U, l :: dropk k E)
                     | Some (Some k1, Ul, E1) =>
                         let '(U1, k, ovf) := add_upvalue (c_upvalues_max cf) U k1 false in
                         if ovf then None else Some (Some k, U1, mkLev (lv_locals l) Ul :: E1)
                     end = Some (r, U', dropk (S k) E') /\ topk (S k) E' = Some l0).
      { clear H. destruct (rup cf y (lv_ups l) E) as [[[[k1|] Ul] E1]|] eqn:Er; try discriminate.
        - destruct (IH k _ _ _ _ Ht' Er) as [A B]. rewrite A.
          destruct (add_upvalue (c_upvalues_max cf) U k1 false) as [[U1 k0] ovf]. destruct ovf; [discriminate|].
          intros [= <- <- <-]. split; [reflexivity|exact B].
        - destruct (IH k _ _ _ _ Ht' Er) as [A B]. rewrite A. intros [= <- <- <-]. split; [reflexivity|exact Ht]. }
      destruct (resolve_local (lv_locals l) y) as [[slot [|]]|]; try (exact (Hrec H)).
      destruct (add_upvalue (c_upvalues_max cf) U slot true) as [[U1 k0] ovf]. destruct ovf; [discriminate|]. inversion H; subst.
      split; [reflexivity|exact Ht].
Qed.

Lemma rvn_drop : forall cf x y l0, l_name l0 = Some x -> y <> x ->
  forall L E k U r U' E', topk k E = Some l0 -> rvn cf L U E y = Some (r, U', E') ->
  rvn cf L U (dropk k E) y = Some (r, U', dropk k E') /\ topk k E' = Some l0.
Proof.
  intros cf x y l0 Hn Hne L E k U r U' E' Ht. unfold rvn. destruct (resolve_local L y) as [[s [|]]|].
  - intros [= <- <- <-]. auto.
  - discriminate.
  - destruct (rup cf y U E) as [[[[k1|] U1] E1]|] eqn:Er; try discriminate.
    + destruct (rup_drop cf x y l0 Hn Hne _ _ _ _ _ _ Ht Er) as [A B]. rewrite A. intros [= <- <- <-]. auto.
    + destruct (rup_drop cf x y l0 Hn Hne _ _ _ _ _ _ Ht Er) as [A B]. rewrite A. intros [= <- <- <-]. auto.
Qed.

Lemma nexpr_drop : forall cf x l0, l_name l0 = Some x -> forall e, expr2 e = true -> e_mentions x e = false ->
  forall L E k U ce U' E', topk k E = Some l0 -> nexpr cf L e U E = Some (ce, U', E') ->
  nexpr cf L e U (dropk k E) = Some (ce, U', dropk k E') /\ topk k E' = Some l0.
Proof.
  intros cf x l0 Hn e He. pattern e. revert e He. apply expr2_ind.
  - intros n _ L E k U ce U' E' Ht. cbn [nexpr]. intros [= <- <- <-]. auto.
  - intros y Hm L E k U ce U' E' Ht. cbn [nexpr e_mentions] in *. apply Nat.eqb_neq in Hm.
    destruct (rvn cf L U E y) as [[[r U1] E1]|] eqn:Er; [|discriminate].
    destruct (rvn_drop cf x y l0 Hn Hm _ _ _ _ _ _ _ Ht Er) as [A B]. rewrite A. intros [= <- <- <-]. auto.
  - intros a b _ _ IHa IHb Hm L E k U ce U' E' Ht. cbn [nexpr e_mentions] in *. apply orb_false_elim in Hm as [Hma Hmb].
    destruct (nexpr cf L a U E) as [[[ca U1] E1]|] eqn:Ea; [|discriminate].
    destruct (IHa Hma _ _ _ _ _ _ _ Ht Ea) as [A1 B1]. rewrite A1.
    destruct (nexpr cf L b U1 E1) as [[[cb U2] E2]|] eqn:Eb; [|discriminate].
    destruct (IHb Hmb _ _ _ _ _ _ _ B1 Eb) as [A2 B2]. rewrite A2. intros [= <- <- <-]. auto.
  - intros f args _ IH Hm L E k U ce U' E' Ht. rewrite !nexpr_call. cbn [e_mentions] in Hm. apply orb_false_elim in Hm as [Hmf Hma].
    apply Nat.eqb_neq in Hmf.
    destruct (rvn cf L U E f) as [[[r U0] E0]|] eqn:Er; [|discriminate].
    destruct (rvn_drop cf x f l0 Hn Hmf _ _ _ _ _ _ _ Ht Er) as [A0 B0]. rewrite A0.
    assert (G : forall U1 E1 ca U2 E2, topk k E1 = Some l0 -> nargs cf L args U1 E1 = Some (ca, U2, E2) ->
                nargs cf L args U1 (dropk k E1) = Some (ca, U2, dropk k E2) /\ topk k E2 = Some l0).
    { clear Er A0 B0 Ht. induction IH as [|a r1 Ha Hr IHr]; intros U1 E1 ca U2 E2 Ht1 Hq; cbn [nargs] in *.
      - inversion Hq; subst. auto.
      - cbn [existsb] in Hma. apply orb_false_elim in Hma as [Hm1 Hm2].
        destruct (nexpr cf L a U1 E1) as [[[c1 U3] E3]|] eqn:Ea; [|discriminate].
        destruct (Ha Hm1 _ _ _ _ _ _ _ Ht1 Ea) as [A1 B1]. rewrite A1.
        destruct (nargs cf L r1 U3 E3) as [[[ct U4] E4]|] eqn:Et; [|discriminate].
        destruct (IHr Hm2 _ _ _ _ _ B1 Et) as [A2 B2]. rewrite A2. inversion Hq; subst. auto. }
    destruct (nargs cf L args U0 E0) as [[[cargs U3] E3]|] eqn:Eb; [|discriminate].
    destruct (G _ _ _ _ _ B0 Eb) as [A1 B1]. rewrite A1. intros [= <- <- <-]. auto.
Qed.

Definition nstmt_dropP (cf : cfg) (x : name) (l0 : local) (s : stmt) : Prop :=
  s_mentionsN x s = false -> forall L d E k U fs pos lc code L' U' E' fs', topk k E = Some l0 ->
  nstmt cf s L d U E fs pos lc = Some (code, L', U', E', fs') ->
  nstmt cf s L d U (dropk k E) fs pos lc = Some (code, L', U', dropk k E', fs') /\ topk k E' = Some l0.

Definition nlist_dropP (cf : cfg) (x : name) (l0 : local) (b : list stmt) : Prop :=
  existsb (s_mentionsN x) b = false -> forall L d E k U fs pos lc code L' U' E' fs', topk k E = Some l0 ->
  nlist cf b d L U E fs pos lc = Some (code, L', U', E', fs') ->
  nlist cf b d L U (dropk k E) fs pos lc = Some (code, L', U', dropk k E', fs') /\ topk k E' = Some l0.

Lemma nlist_drop_aux : forall cf x l0 b, Forall (nstmt_dropP cf x l0) b -> nlist_dropP cf x l0 b.
Proof.
  intros cf x l0 b H. induction H as [|a r Ha Hr IH]; intros Hm L d E k U fs pos lc code L' U' E' fs' Ht Hc; cbn [nlist] in *.
  - inversion Hc; subst. auto.
  - cbn [existsb] in Hm. apply orb_false_elim in Hm as [Hm1 Hm2].
    destruct (nstmt cf a L d U E fs pos lc) as [[[[[ca L1] U1] E1] fs1]|] eqn:E1'; [|discriminate].
    destruct (Ha Hm1 _ _ _ _ _ _ _ _ _ _ _ _ _ Ht E1') as [A1 B1]. rewrite A1.
    destruct (nlist cf r d L1 U1 E1 fs1 (pos + code_size ca) lc) as [[[[[cr L2] U2] E2] fs2]|] eqn:E2'; [|discriminate].
    destruct (IH Hm2 _ _ _ _ _ _ _ _ _ _ _ _ _ B1 E2') as [A2 B2]. rewrite A2. inversion Hc; subst. auto.
Qed.

Lemma nblk_drop_aux : forall cf x l0 b, nlist_dropP cf x l0 b -> existsb (s_mentionsN x) b = false ->
  forall L d E k U fs pos lc code L' U' E' fs', topk k E = Some l0 ->
  nblk cf b d L U E fs pos lc = Some (code, L', U', E', fs') ->
  nblk cf b d L U (dropk k E) fs pos lc = Some (code, L', U', dropk k E', fs') /\ topk k E' = Some l0.
Proof.
  intros cf x l0 b Hb Hm L d E k U fs pos lc code L' U' E' fs' Ht Hc. unfold nblk in *.
  destruct (nlist cf b (S d) L U E fs pos lc) as [[[[[cb L1] U1] E1] fs1]|] eqn:El; [|discriminate].
  destruct (Hb Hm _ _ _ _ _ _ _ _ _ _ _ _ _ Ht El) as [A B]. rewrite A. cbv zeta in *. inversion Hc; subst. auto.
Qed.

Lemma nfunc_drop_aux : forall cf x l0 ps b, nlist_dropP cf x l0 b -> existsb (s_mentionsN x) b = false ->
  forall L1 E k U fs ci L1' U' E' fs', topk k E = Some l0 ->
  nfunc cf ps b L1 U E fs = Some (ci, L1', U', E', fs') ->
  nfunc cf ps b L1 U (dropk k E) fs = Some (ci, L1', U', dropk k E', fs') /\ topk k E' = Some l0.
Proof.
  intros cf x l0 ps b Hb Hm L1 E k U fs ci L1' U' E' fs' Ht H. unfold nfunc in *.
  destruct (bparams cf ps _) as [Lp|]; [|discriminate].
  destruct (nlist cf b 1 Lp [] (mkLev L1 U :: E) fs 0 None) as [[[[[cb Lb'] Ub] Eo] fs1]|] eqn:El; [|discriminate].
  assert (Ht' : topk (S k) (mkLev L1 U :: E) = Some l0) by exact Ht.
  destruct (Hb Hm _ _ _ (S k) _ _ _ _ _ _ _ _ _ Ht' El) as [A B]. cbn [dropk] in A. rewrite A.
  cbn [nclose] in *. destruct Eo as [|lv E0]; [discriminate|]. cbn [dropk]. inversion H; subst. split; [reflexivity|exact B].
Qed.

Lemma nstmt_drop : forall cf x l0, l_name l0 = Some x -> forall s, stmt6u s = true -> nstmt_dropP cf x l0 s.
Proof.
  intros cf x l0 Hn s Hs. pattern s. revert s Hs. apply stmt6u_ind.
  - (* SDecl *)
    intros y e He Hm L d E k U fs pos lc code L' U' E' fs' Ht Hc. cbn [nstmt s_mentionsN] in *. apply orb_false_elim in Hm as [_ Hm].
    destruct (d =? 0).
    + destruct (nexpr cf L e U E) as [[[ce U1] E1]|] eqn:Ee; [|discriminate].
      destruct (nexpr_drop cf x l0 Hn e He Hm _ _ _ _ _ _ _ Ht Ee) as [A B]. rewrite A. inversion Hc; subst. auto.
    + destruct (dup_in_scope L y d); [discriminate|]. destruct (List.length L =? c_locals_max cf); [discriminate|].
      destruct (nexpr cf _ e U E) as [[[ce U1] E1]|] eqn:Ee; [|discriminate].
      destruct (nexpr_drop cf x l0 Hn e He Hm _ _ _ _ _ _ _ Ht Ee) as [A B]. rewrite A. inversion Hc; subst. auto.
  - (* SAssign *)
    intros y e He Hm L d E k U fs pos lc code L' U' E' fs' Ht Hc. cbn [nstmt s_mentionsN] in *. apply orb_false_elim in Hm as [Hmy Hm].
    apply Nat.eqb_neq in Hmy.
    destruct (rvn cf L U E y) as [[[r U0] E0]|] eqn:Er; [|discriminate].
    destruct (rvn_drop cf x y l0 Hn Hmy _ _ _ _ _ _ _ Ht Er) as [A0 B0]. rewrite A0.
    destruct (nexpr cf L e U0 E0) as [[[ce U1] E1]|] eqn:Ee; [|discriminate].
    destruct (nexpr_drop cf x l0 Hn e He Hm _ _ _ _ _ _ _ B0 Ee) as [A B]. rewrite A. inversion Hc; subst. auto.
  - intros e He Hm L d E k U fs pos lc code L' U' E' fs' Ht Hc. cbn [nstmt s_mentionsN] in *.
    destruct (nexpr cf L e U E) as [[[ce U1] E1]|] eqn:Ee; [|discriminate].
    destruct (nexpr_drop cf x l0 Hn e He Hm _ _ _ _ _ _ _ Ht Ee) as [A B]. rewrite A. inversion Hc; subst. auto.
  - intros e He Hm L d E k U fs pos lc code L' U' E' fs' Ht Hc. cbn [nstmt s_mentionsN] in *.
    destruct (nexpr cf L e U E) as [[[ce U1] E1]|] eqn:Ee; [|discriminate].
    destruct (nexpr_drop cf x l0 Hn e He Hm _ _ _ _ _ _ _ Ht Ee) as [A B]. rewrite A. inversion Hc; subst. auto.
  - intros e He Hm L d E k U fs pos lc code L' U' E' fs' Ht Hc. cbn [nstmt s_mentionsN] in *.
    destruct (nexpr cf L e U E) as [[[ce U1] E1]|] eqn:Ee; [|discriminate].
    destruct (nexpr_drop cf x l0 Hn e He Hm _ _ _ _ _ _ _ Ht Ee) as [A B]. rewrite A. inversion Hc; subst. auto.
  - (* SBlock *)
    intros b Hb IH Hm L d E k U fs pos lc code L' U' E' fs' Ht Hc. rewrite !nstmt_block in *. cbn [s_mentionsN] in Hm.
    exact (nblk_drop_aux cf x l0 b (nlist_drop_aux cf x l0 b IH) Hm _ _ _ _ _ _ _ _ _ _ _ _ _ Ht Hc).
  - (* SFun *)
    intros f ps b Hb IH Hm L d E k U fs pos lc code L' U' E' fs' Ht Hc. rewrite !nstmt_fun in *. cbn [s_mentionsN] in Hm.
    apply orb_false_elim in Hm as [_ Hm]. destruct (d =? 0).
    + destruct (nfunc cf ps b L U E fs) as [[[[[ci L1] U1] E1] fs1]|] eqn:Ef; [|discriminate].
      destruct (nfunc_drop_aux cf x l0 ps b (nlist_drop_aux cf x l0 b IH) Hm _ _ _ _ _ _ _ _ _ _ Ht Ef) as [A B]. rewrite A.
      inversion Hc; subst. auto.
    + destruct (dup_in_scope L f d); [discriminate|]. destruct (List.length L =? c_locals_max cf); [discriminate|].
      destruct (nfunc cf ps b _ U E fs) as [[[[[ci L1] U1] E1] fs1]|] eqn:Ef; [|discriminate].
      destruct (nfunc_drop_aux cf x l0 ps b (nlist_drop_aux cf x l0 b IH) Hm _ _ _ _ _ _ _ _ _ _ Ht Ef) as [A B]. rewrite A.
      inversion Hc; subst. auto.
  - (* SLam *)
    intros y ps b Hb IH Hm L d E k U fs pos lc code L' U' E' fs' Ht Hc. rewrite !nstmt_lam in *. cbn [s_mentionsN] in Hm.
    apply orb_false_elim in Hm as [_ Hm]. destruct (d =? 0).
    + destruct (nfunc cf ps b L U E fs) as [[[[[ci L1] U1] E1] fs1]|] eqn:Ef; [|discriminate].
      destruct (nfunc_drop_aux cf x l0 ps b (nlist_drop_aux cf x l0 b IH) Hm _ _ _ _ _ _ _ _ _ _ Ht Ef) as [A B]. rewrite A.
      inversion Hc; subst. auto.
    + destruct (dup_in_scope L y d); [discriminate|]. destruct (List.length L =? c_locals_max cf); [discriminate|].
      destruct (nfunc cf ps b _ U E fs) as [[[[[ci L1] U1] E1] fs1]|] eqn:Ef; [|discriminate].
      destruct (nfunc_drop_aux cf x l0 ps b (nlist_drop_aux cf x l0 b IH) Hm _ _ _ _ _ _ _ _ _ _ Ht Ef) as [A B]. rewrite A.
      destruct L1 as [|l1 L1]; [discriminate|]. inversion Hc; subst. auto.
  - (* SLoop *)
    intros i n b Hb IH Hm L d E k U fs pos lc code L' U' E' fs' Ht Hc. rewrite !nstmt_loop in *. cbn [s_mentionsN] in Hm.
    apply orb_false_elim in Hm as [_ Hm].
    destruct (dup_in_scope L i (S d)); [discriminate|]. destruct (List.length L =? c_locals_max cf); [discriminate|].
    destruct (S (List.length L) =? c_locals_max cf); [discriminate|]. cbv zeta in *.
    destruct (nblk cf b (S d) _ U E fs _ (Some (mkLctx _ _ 0))) as [[[[[c0 L00] U00] E00] fs00]|] eqn:Eb0; [|discriminate].
    destruct (nblk_drop_aux cf x l0 b (nlist_drop_aux cf x l0 b IH) Hm _ _ _ _ _ _ _ _ _ _ _ _ _ Ht Eb0) as [A0 _]. rewrite A0.
    destruct (nblk cf b (S d) _ U E fs _ (Some (mkLctx _ _ (_ + code_size c0 + 3 + 1)))) as [[[[[cblock L1] U1] E1] fs1]|] eqn:Eb; [|discriminate].
    destruct (nblk_drop_aux cf x l0 b (nlist_drop_aux cf x l0 b IH) Hm _ _ _ _ _ _ _ _ _ _ _ _ _ Ht Eb) as [A1 B1]. rewrite A1.
    inversion Hc; subst. auto.
  - (* SIf *)
    intros a c t e Ha Hcx Hft Hfe IHt IHe Hm L d E k U fs pos lc code L' U' E' fs' Ht Hc. rewrite !nstmt_if in *. cbn [s_mentionsN] in Hm.
    apply orb_false_elim in Hm as [Hm Hme]. apply orb_false_elim in Hm as [Hm Hmt]. apply orb_false_elim in Hm as [Hma Hmc].
    destruct (nexpr cf L a U E) as [[[ca U1] E1]|] eqn:Ea; [|discriminate].
    destruct (nexpr_drop cf x l0 Hn a Ha Hma _ _ _ _ _ _ _ Ht Ea) as [A1 B1]. rewrite A1.
    destruct (nexpr cf L c U1 E1) as [[[cc U2] E2]|] eqn:Ec; [|discriminate].
    destruct (nexpr_drop cf x l0 Hn c Hcx Hmc _ _ _ _ _ _ _ B1 Ec) as [A2 B2]. rewrite A2. cbv zeta in *.
    destruct (nblk cf t d L U2 E2 fs _ lc) as [[[[[ct L1] U3] E3] fs1]|] eqn:Et; [|discriminate].
    destruct (nblk_drop_aux cf x l0 t (nlist_drop_aux cf x l0 t IHt) Hmt _ _ _ _ _ _ _ _ _ _ _ _ _ B2 Et) as [A3 B3]. rewrite A3.
    destruct (nblk cf e d L1 U3 E3 fs1 _ lc) as [[[[[cel L2] U4] E4] fs2]|] eqn:Ee; [|discriminate].
    destruct (nblk_drop_aux cf x l0 e (nlist_drop_aux cf x l0 e IHe) Hme _ _ _ _ _ _ _ _ _ _ _ _ _ B3 Ee) as [A4 B4]. rewrite A4.
    inversion Hc; subst. auto.
  - intros _ L d E k U fs pos lc code L' U' E' fs' Ht Hc. cbn [nstmt] in *. destruct lc; [|discriminate]. inversion Hc; subst. auto.
  - intros _ L d E k U fs pos lc code L' U' E' fs' Ht Hc. cbn [nstmt] in *. destruct lc; [|discriminate]. inversion Hc; subst. auto.
Qed.

Lemma nlist_drop : forall cf x l0, l_name l0 = Some x -> forall b, forallb stmt6u b = true -> nlist_dropP cf x l0 b.
Proof.
  intros cf x l0 Hn b Hb. apply nlist_drop_aux. induction b as [|a r IH]; constructor.
  - cbn in Hb. apply andb_prop in Hb as [Ha _]. now apply nstmt_drop.
  - cbn in Hb. apply andb_prop in Hb as [_ Hr]. auto.
Qed.

(* the form used for `var x = |ps| { b };` below the top level *)
Lemma nfunc_drop0 : forall cf x ps b L U E fs ci L1' U' E' fs', forallb stmt6u b = true -> existsb (s_mentionsN x) b = false ->
  nfunc cf ps b (mkLocal (Some x) None false :: L) U E fs = Some (ci, L1', U', E', fs') ->
  exists L', L1' = mkLocal (Some x) None false :: L' /\ nfunc cf ps b L U E fs = Some (ci, L', U', E', fs').
Proof.
  intros cf x ps b L U E fs ci L1' U' E' fs' Hb Hm H. unfold nfunc in *.
  destruct (bparams cf ps _) as [Lp|]; [|discriminate].
  destruct (nlist cf b 1 Lp [] (mkLev (mkLocal (Some x) None false :: L) U :: E) fs 0 None) as [[[[[cb Lb'] Ub] Eo] fs1]|] eqn:El; [|discriminate].
  assert (Ht : topk 0 (mkLev (mkLocal (Some x) None false :: L) U :: E) = Some (mkLocal (Some x) None false)) by reflexivity.
  destruct (nlist_drop cf x (mkLocal (Some x) None false) eq_refl b Hb Hm _ _ _ 0 _ _ _ _ _ _ _ _ _ Ht El) as [A B].
  cbn [dropk lv_locals lv_ups tl] in A. rewrite A.
  cbn [nclose] in *. destruct Eo as [|[Lv Uv] E0]; [discriminate|]. unfold topk in B. cbn in B.
  destruct Lv as [|l1 Lv]; [discriminate|]. cbn in B. inversion B; subst l1. cbn [dropk lv_locals lv_ups tl]. inversion H; subst.
  exists Lv. split; reflexivity.
Qed.


(* ------------------------------------------------------------------------------------------ *)
(* the loop context only influences jump operands: sizes and all other results do not depend on it *)

Definition nres_sz (r1 r2 : option nres) : Prop :=
  match r1, r2 with
  | Some (c1, L1, U1, E1, f1), Some (c2, L2, U2, E2, f2) => code_size c1 = code_size c2 /\ L1 = L2 /\ U1 = U2 /\ E1 = E2 /\ f1 = f2
  | None, None => True
  | _, _ => False
  end.

Lemma nres_sz_refl : forall r, nres_sz r r.
Proof. intros [[[[[c L] U] E] f]|]; cbn; auto. Qed.

Definition nstmt_szP (cf : cfg) (s : stmt) : Prop := forall L d U E fs pos l1 l2, lc_depth l1 = lc_depth l2 ->
  nres_sz (nstmt cf s L d U E fs pos (Some l1)) (nstmt cf s L d U E fs pos (Some l2)).
Definition nlist_szP (cf : cfg) (b : list stmt) : Prop := forall L d U E fs pos l1 l2, lc_depth l1 = lc_depth l2 ->
  nres_sz (nlist cf b d L U E fs pos (Some l1)) (nlist cf b d L U E fs pos (Some l2)).

Lemma nlist_sz_aux : forall cf b, Forall (nstmt_szP cf) b -> nlist_szP cf b.
Proof.
  intros cf b H. induction H as [|a r Ha Hr IH]; intros L d U E fs pos l1 l2 Hd; cbn [nlist]; [cbn; auto|].
  specialize (Ha L d U E fs pos l1 l2 Hd). unfold nres_sz in Ha.
  destruct (nstmt cf a L d U E fs pos (Some l1)) as [[[[[c1 L1] U1] E1] f1]|];
    destruct (nstmt cf a L d U E fs pos (Some l2)) as [[[[[c2 L2] U2] E2] f2]|]; try contradiction; [|exact I].
  destruct Ha as (Hs & -> & -> & -> & ->). rewrite Hs.
  specialize (IH L2 d U2 E2 f2 (pos + code_size c2) l1 l2 Hd). unfold nres_sz in IH.
  destruct (nlist cf r d L2 U2 E2 f2 (pos + code_size c2) (Some l1)) as [[[[[c3 L3] U3] E3] f3]|];
    destruct (nlist cf r d L2 U2 E2 f2 (pos + code_size c2) (Some l2)) as [[[[[c4 L4] U4] E4] f4]|]; try contradiction; [|exact I].
  destruct IH as (Hs2 & -> & -> & -> & ->). cbn. rewrite !code_size_app. auto.
Qed.

Lemma nblk_sz_aux : forall cf b, nlist_szP cf b -> forall L d U E fs pos l1 l2, lc_depth l1 = lc_depth l2 ->
  nres_sz (nblk cf b d L U E fs pos (Some l1)) (nblk cf b d L U E fs pos (Some l2)).
Proof.
  intros cf b Hb L d U E fs pos l1 l2 Hd. unfold nblk. specialize (Hb L (S d) U E fs pos l1 l2 Hd). unfold nres_sz in Hb.
  destruct (nlist cf b (S d) L U E fs pos (Some l1)) as [[[[[c1 L1] U1] E1] f1]|];
    destruct (nlist cf b (S d) L U E fs pos (Some l2)) as [[[[[c2 L2] U2] E2] f2]|]; try contradiction; [|exact I].
  destruct Hb as (Hs & -> & -> & -> & ->). cbn. rewrite !code_size_app. auto.
Qed.

Lemma nstmt_lc_sz : forall cf s, stmt6u s = true -> nstmt_szP cf s.
Proof.
  intros cf s Hs. pattern s. revert s Hs. apply stmt6u_ind.
  - intros x e He L d U E fs pos l1 l2 Hd. cbn [nstmt]. apply nres_sz_refl.
  - intros x e He L d U E fs pos l1 l2 Hd. cbn [nstmt]. apply nres_sz_refl.
  - intros e He L d U E fs pos l1 l2 Hd. cbn [nstmt]. apply nres_sz_refl.
  - intros e He L d U E fs pos l1 l2 Hd. cbn [nstmt]. apply nres_sz_refl.
  - intros e He L d U E fs pos l1 l2 Hd. cbn [nstmt]. apply nres_sz_refl.
  - intros b Hb IH L d U E fs pos l1 l2 Hd. rewrite !nstmt_block. apply nblk_sz_aux; [now apply nlist_sz_aux|exact Hd].
  - intros f ps b Hb IH L d U E fs pos l1 l2 Hd. rewrite !nstmt_fun. apply nres_sz_refl.
  - intros x ps b Hb IH L d U E fs pos l1 l2 Hd. rewrite !nstmt_lam. apply nres_sz_refl.
  - intros i n b Hb IH L d U E fs pos l1 l2 Hd. rewrite !nstmt_loop. apply nres_sz_refl.
  - intros a c t e Ha Hc Ht He IHt IHe L d U E fs pos l1 l2 Hd. rewrite !nstmt_if.
    destruct (nexpr cf L a U E) as [[[ca U1] E1]|]; [|exact I].
    destruct (nexpr cf L c U1 E1) as [[[cc U2] E2]|]; [|exact I]. cbv zeta.
    pose proof (nblk_sz_aux cf t (nlist_sz_aux cf t IHt) L d U2 E2 fs (pos + code_size ca + code_size cc + code_size [ILess; IJumpIfFalse 0; IPop]) l1 l2 Hd) as H1.
    unfold nres_sz in H1.
    destruct (nblk cf t d L U2 E2 fs _ (Some l1)) as [[[[[c1 L1] U3] E3] f1]|];
      destruct (nblk cf t d L U2 E2 fs _ (Some l2)) as [[[[[c2 L2] U4] E4] f2]|]; try contradiction; [|exact I].
    destruct H1 as (Hs1 & -> & -> & -> & ->). rewrite Hs1.
    pose proof (nblk_sz_aux cf e (nlist_sz_aux cf e IHe) L2 d U4 E4 f2
                  (pos + code_size ca + code_size cc + code_size [ILess; IJumpIfFalse 0; IPop] + code_size c2 + code_size [IJump 0; IPop]) l1 l2 Hd) as H2.
    unfold nres_sz in H2.
    destruct (nblk cf e d L2 U4 E4 f2 _ (Some l1)) as [[[[[c3 L3] U5] E5] f3]|];
      destruct (nblk cf e d L2 U4 E4 f2 _ (Some l2)) as [[[[[c4 L4] U6] E6] f4]|]; try contradiction; [|exact I].
    destruct H2 as (Hs2 & -> & -> & -> & ->). cbn [nres_sz]. rewrite !code_size_app. cbn [code_size isize]. rewrite ?code_size_app. cbn [code_size isize].
    repeat split; auto. lia.
  - intros L d U E fs pos l1 l2 Hd. cbn [nstmt]. cbv zeta. rewrite Hd. cbn [nres_sz]. rewrite !code_size_app. cbn. auto.
  - intros L d U E fs pos l1 l2 Hd. cbn [nstmt]. cbv zeta. rewrite Hd. cbn [nres_sz]. rewrite !code_size_app. cbn. auto.
Qed.

Lemma nblk_lc_sz : forall cf b, forallb stmt6u b = true -> forall L d U E fs pos l1 l2, lc_depth l1 = lc_depth l2 ->
  nres_sz (nblk cf b d L U E fs pos (Some l1)) (nblk cf b d L U E fs pos (Some l2)).
Proof.
  intros cf b Hb. apply nblk_sz_aux. apply nlist_sz_aux. induction b as [|a r IH]; constructor.
  - cbn in Hb. apply andb_prop in Hb as [Ha _]. now apply nstmt_lc_sz.
  - cbn in Hb. apply andb_prop in Hb as [_ Hr]. auto.
Qed.
