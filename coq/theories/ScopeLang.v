(* C06 - a mini-language of nested blocks / functions / lambdas / loops tying Spec and Mechanism:
     eval_cells     : reference evaluator (Spec S: environments of CELLS, a fresh cell per executed
                      declaration, closures hold the cells of their defining environment)
     render         : the same program as yarel source text (runs on the real implementation)
     decode_prog    : wire format (numbers) -> AST, so Python generators can hand programs to Coq
   The compiler `compile_scope` and the machine `run_m` over Upvalues.v are in ScopeComp.v.
   DEFINITIONS ONLY. *)
From Coq Require Import List Arith Bool String Ascii ZArith NArith.
From YV Require Import Show.
Import ListNotations.
Open Scope string_scope.
Open Scope nat_scope.

Definition name := nat.

Inductive expr :=
| ELit (n : N)                                  (* integer literal *)
| EVar (x : name)
| EAdd (a b : expr)                             (* a + b *)
| ECall (f : name) (args : list expr)           (* f(args), f a variable *)
| EVecNew                                       (* [] *)
| ECallIdx (v : name) (k : nat) (args : list expr).  (* v[k](args) *)

Inductive stmt :=
| SDecl (x : name) (e : expr)                   (* var x = e; *)
| SAssign (x : name) (e : expr)                 (* x = e; *)
| SPrint (e : expr)                             (* print(e); *)
| SExpr (e : expr)                              (* e; *)
| SBlock (b : list stmt)                        (* { b } *)
| SFun (f : name) (ps : list name) (b : list stmt)   (* fn f(ps) { b } *)
| SLam (x : name) (ps : list name) (b : list stmt)   (* var x = |ps| { b }; *)
| SLoop (i : name) (n : nat) (b : list stmt)    (* for i in 0..n { b } *)
| SIf (a c : expr) (t e : list stmt)            (* if a < c { t } else { e } *)
| SBreak
| SContinue
| SReturn (e : expr)
| SThrow (e : expr)
| STry (b : list stmt) (x : name) (h : list stmt)    (* try { b } catch x { h } *)
| SFiber (b : list stmt)                        (* Fiber.new(|| { b }).call(); *)
| SVPush (v : name) (e : expr).                 (* v.push(e); *)

Definition prog := list stmt.

(* ------------------------------------------------------------------------------------------ *)
(* wire format: prefix code over N *)

Section Decode.
Definition dres (A : Type) := option (A * list N).

Fixpoint dec_names (k : nat) (l : list N) : dres (list name) :=
  match k with
  | 0 => Some ([], l)
  | S k' => match l with
            | x :: r => match dec_names k' r with
                        | Some (xs, r') => Some (N.to_nat x :: xs, r')
                        | None => None
                        end
            | [] => None
            end
  end.

Fixpoint dec_expr (fuel : nat) (l : list N) : dres expr :=
  match fuel with
  | 0 => None
  | S fu =>
    let dec_list := fix go (k : nat) (l : list N) : dres (list expr) :=
      match k with
      | 0 => Some ([], l)
      | S k' => match dec_expr fu l with
                | Some (e, r) => match go k' r with
                                 | Some (es, r') => Some (e :: es, r')
                                 | None => None
                                 end
                | None => None
                end
      end in
    match l with
    | 0%N :: n :: r => Some (ELit n, r)
    | 1%N :: x :: r => Some (EVar (N.to_nat x), r)
    | 2%N :: r => match dec_expr fu r with
                  | Some (a, r1) => match dec_expr fu r1 with
                                    | Some (b, r2) => Some (EAdd a b, r2)
                                    | None => None
                                    end
                  | None => None
                  end
    | 3%N :: f :: k :: r => match dec_list (N.to_nat k) r with
                            | Some (es, r') => Some (ECall (N.to_nat f) es, r')
                            | None => None
                            end
    | 4%N :: r => Some (EVecNew, r)
    | 5%N :: v :: i :: k :: r => match dec_list (N.to_nat k) r with
                                 | Some (es, r') => Some (ECallIdx (N.to_nat v) (N.to_nat i) es, r')
                                 | None => None
                                 end
    | _ => None
    end
  end.

Fixpoint dec_stmt (fuel : nat) (l : list N) : dres stmt :=
  match fuel with
  | 0 => None
  | S fu =>
    let dec_list := fix go (k : nat) (l : list N) : dres (list stmt) :=
      match k with
      | 0 => Some ([], l)
      | S k' => match dec_stmt fu l with
                | Some (s, r) => match go k' r with
                                 | Some (ss, r') => Some (s :: ss, r')
                                 | None => None
                                 end
                | None => None
                end
      end in
    let dec_block := fun (l : list N) =>
      match l with
      | k :: r => dec_list (N.to_nat k) r
      | [] => None
      end in
    let with_e := fun (l : list N) (mk : expr -> stmt) =>
      match dec_expr fuel l with Some (e, r) => Some (mk e, r) | None => None end in
    match l with
    | 10%N :: x :: r => with_e r (SDecl (N.to_nat x))
    | 11%N :: x :: r => with_e r (SAssign (N.to_nat x))
    | 12%N :: r => with_e r SPrint
    | 13%N :: r => with_e r SExpr
    | 14%N :: r => match dec_block r with Some (b, r') => Some (SBlock b, r') | None => None end
    | 15%N :: f :: np :: r =>
        match dec_names (N.to_nat np) r with
        | Some (ps, r1) => match dec_block r1 with
                           | Some (b, r2) => Some (SFun (N.to_nat f) ps b, r2)
                           | None => None
                           end
        | None => None
        end
    | 16%N :: x :: np :: r =>
        match dec_names (N.to_nat np) r with
        | Some (ps, r1) => match dec_block r1 with
                           | Some (b, r2) => Some (SLam (N.to_nat x) ps b, r2)
                           | None => None
                           end
        | None => None
        end
    | 17%N :: i :: n :: r =>
        match dec_block r with Some (b, r') => Some (SLoop (N.to_nat i) (N.to_nat n) b, r') | None => None end
    | 18%N :: r =>
        match dec_expr fuel r with
        | Some (a, r1) =>
          match dec_expr fuel r1 with
          | Some (c, r2) =>
            match dec_block r2 with
            | Some (t, r3) => match dec_block r3 with
                              | Some (e, r4) => Some (SIf a c t e, r4)
                              | None => None
                              end
            | None => None
            end
          | None => None
          end
        | None => None
        end
    | 19%N :: r => Some (SBreak, r)
    | 20%N :: r => Some (SContinue, r)
    | 21%N :: r => with_e r SReturn
    | 22%N :: r => with_e r SThrow
    | 23%N :: r =>
        match dec_block r with
        | Some (b, x :: r1) => match dec_block r1 with
                               | Some (h, r2) => Some (STry b (N.to_nat x) h, r2)
                               | None => None
                               end
        | _ => None
        end
    | 24%N :: r => match dec_block r with Some (b, r') => Some (SFiber b, r') | None => None end
    | 25%N :: v :: r => with_e r (SVPush (N.to_nat v))
    | _ => None
    end
  end.

(* a program: count, then the statements *)
Definition decode_prog (l : list N) : option prog :=
  match dec_stmt (S (List.length l)) (14%N :: l) with
  | Some (SBlock b, []) => Some b
  | _ => None
  end.
End Decode.

(* ------------------------------------------------------------------------------------------ *)
(* yarel source text (one line; statements are delimited by ; and braces) *)

Definition vname (x : name) : string := "v" ++ show_nat x.

Fixpoint render_expr (e : expr) : string :=
  match e with
  | ELit n => show_N n
  | EVar x => vname x
  | EAdd a b => "(" ++ render_expr a ++ " + " ++ render_expr b ++ ")"
  | ECall f args => vname f ++ "(" ++ concat ", " (map render_expr args) ++ ")"
  | EVecNew => "[]"
  | ECallIdx v k args => vname v ++ "[" ++ show_nat k ++ "](" ++ concat ", " (map render_expr args) ++ ")"
  end.

Fixpoint render_stmt (s : stmt) : string :=
  let blk := fun b => "{ " ++ concat "" (map render_stmt b) ++ "}" in
  match s with
  | SDecl x e => "var " ++ vname x ++ " = " ++ render_expr e ++ "; "
  | SAssign x e => vname x ++ " = " ++ render_expr e ++ "; "
  | SPrint e => "print(" ++ render_expr e ++ "); "
  | SExpr e => render_expr e ++ "; "
  | SBlock b => blk b ++ " "
  | SFun f ps b => "fn " ++ vname f ++ "(" ++ show_sep ", " vname ps ++ ") " ++ blk b ++ " "
  | SLam x ps b => "var " ++ vname x ++ " = |" ++ show_sep ", " vname ps ++ "| " ++ blk b ++ "; "
  | SLoop i n b => "for " ++ vname i ++ " in 0.." ++ show_nat n ++ " " ++ blk b ++ " "
  | SIf a c t e => "if " ++ render_expr a ++ " < " ++ render_expr c ++ " " ++ blk t ++ " else " ++ blk e ++ " "
  | SBreak => "break; "
  | SContinue => "continue; "
  | SReturn e => "return " ++ render_expr e ++ "; "
  | SThrow e => "throw " ++ render_expr e ++ "; "
  | STry b x h => "try " ++ blk b ++ " catch " ++ vname x ++ " " ++ blk h ++ " "
  | SFiber b => "Fiber.new(|| " ++ blk b ++ ").call(); "
  | SVPush v e => vname v ++ ".push(" ++ render_expr e ++ "); "
  end.

Definition render (p : prog) : string := concat "" (map render_stmt p).

(* ------------------------------------------------------------------------------------------ *)
(* Spec S: the reference evaluator.  Environments map names to CELLS. *)

Definition env := list (name * nat).

Inductive sval :=
| SVInt (z : Z) | SVNil | SVStop | SVBool (b : bool)
| SVClo (ps : list name) (body : list stmt) (cenv : env)
| SVVec (id : nat).

Record sst := mkSst {
  s_cells : list sval;                 (* the heap of variables *)
  s_globals : list (name * sval);      (* module attributes, looked up when the use executes *)
  s_vecs : list (list sval);
  s_out : list string                  (* printed lines, newest first *)
}.

Inductive eres (A : Type) :=
| ROk (a : A)
| RThrow (v : sval)      (* an exception in flight *)
| RAbort (v : sval)      (* not catchable any more: left a fiber, or reached the top *)
| RStuck (why : string). (* outside the mini-language's typed fragment, or out of fuel *)
Arguments ROk {A} a.
Arguments RThrow {A} v.
Arguments RAbort {A} v.
Arguments RStuck {A} why.

Inductive ctl := CNorm | CBreak | CCont | CRet (v : sval) | CThrow (v : sval) | CAbort (v : sval) | CStuck (why : string).

Fixpoint assoc {A} (l : list (name * A)) (x : name) : option A :=
  match l with
  | (y, a) :: r => if y =? x then Some a else assoc r x
  | [] => None
  end.

Fixpoint set_assoc {A} (l : list (name * A)) (x : name) (a : A) : list (name * A) :=
  match l with
  | (y, b) :: r => if y =? x then (y, a) :: r else (y, b) :: set_assoc r x a
  | [] => [(x, a)]
  end.

Fixpoint set_nth {A} (l : list A) (k : nat) (a : A) : list A :=
  match l, k with
  | _ :: r, 0 => a :: r
  | b :: r, S k' => b :: set_nth r k' a
  | [], _ => []
  end.

Definition show_sval (v : sval) : string :=
  match v with
  | SVInt z => show_Z z
  | SVNil => "nil"
  | SVStop => "<StopIter instance>"
  | SVBool b => if b then "true" else "false"
  | SVClo _ _ _ => "<fn>"
  | SVVec _ => "<vec>"
  end.

Definition new_cell (st : sst) (v : sval) : sst * nat :=
  (mkSst (s_cells st ++ [v])%list (s_globals st) (s_vecs st) (s_out st), List.length (s_cells st)).

Definition set_cell (st : sst) (c : nat) (v : sval) : sst :=
  mkSst (set_nth (s_cells st) c v) (s_globals st) (s_vecs st) (s_out st).

Definition set_global (st : sst) (x : name) (v : sval) : sst :=
  mkSst (s_cells st) (set_assoc (s_globals st) x v) (s_vecs st) (s_out st).

Definition read_var (st : sst) (en : env) (x : name) : eres sval :=
  match assoc en x with
  | Some c => ROk (nth c (s_cells st) SVNil)
  | None => match assoc (s_globals st) x with
            | Some v => ROk v
            | None => RStuck "undefined global"
            end
  end.

Definition write_var (st : sst) (en : env) (x : name) (v : sval) : option sst :=
  match assoc en x with
  | Some c => Some (set_cell st c v)
  | None => match assoc (s_globals st) x with
            | Some _ => Some (set_global st x v)
            | None => None
            end
  end.

(* bind parameters to fresh cells, left to right *)
Fixpoint bind_params (st : sst) (en : env) (ps : list name) (vs : list sval) : sst * env :=
  match ps, vs with
  | p :: ps', v :: vs' => let (st', c) := new_cell st v in bind_params st' ((p, c) :: en) ps' vs'
  | _, _ => (st, en)
  end.

(* declaration: a fresh cell in a local scope, a module attribute at the top level *)
Definition declare (top : bool) (st : sst) (en : env) (x : name) (v : sval) : sst * env :=
  if top then (set_global st x v, en)
  else let (st', c) := new_cell st v in (st', (x, c) :: en).

Section Eval.

Fixpoint eval_expr (fuel : nat) (e : expr) (en : env) (st : sst) {struct fuel} : sst * eres sval :=
  match fuel with
  | 0 => (st, RStuck "fuel")
  | S fu =>
    let eval_args := fix go (l : list expr) (st : sst) : sst * eres (list sval) :=
      match l with
      | [] => (st, ROk [])
      | a :: r => match eval_expr fu a en st with
                  | (st1, ROk v) => match go r st1 with
                                    | (st2, ROk vs) => (st2, ROk (v :: vs))
                                    | (st2, RThrow x) => (st2, RThrow x)
                                    | (st2, RAbort x) => (st2, RAbort x)
                                    | (st2, RStuck w) => (st2, RStuck w)
                                    end
                  | (st1, RThrow x) => (st1, RThrow x)
                  | (st1, RAbort x) => (st1, RAbort x)
                  | (st1, RStuck w) => (st1, RStuck w)
                  end
      end in
    let call := fun (callee : sval) (args : list expr) (st : sst) =>
      match callee with
      | SVClo ps body cenv =>
          match eval_args args st with
          | (st1, ROk vs) =>
              if List.length ps =? List.length vs then
                let (st2, en') := bind_params st1 cenv ps vs in
                match exec_list fu body en' false st2 with
                | (st3, _, CNorm) => (st3, ROk SVNil)
                | (st3, _, CRet v) => (st3, ROk v)
                | (st3, _, CThrow v) => (st3, RThrow v)
                | (st3, _, CAbort v) => (st3, RAbort v)
                | (st3, _, CStuck w) => (st3, RStuck w)
                | (st3, _, _) => (st3, RStuck "break outside loop")
                end
              else (st1, RStuck "arity")
          | (st1, RThrow x) => (st1, RThrow x)
          | (st1, RAbort x) => (st1, RAbort x)
          | (st1, RStuck w) => (st1, RStuck w)
          end
      | _ => (st, RStuck "call of a non-function")
      end in
    match e with
    | ELit n => (st, ROk (SVInt (Z.of_N n)))
    | EVar x => (st, read_var st en x)
    | EAdd a b =>
        match eval_expr fu a en st with
        | (st1, ROk (SVInt x)) =>
            match eval_expr fu b en st1 with
            | (st2, ROk (SVInt y)) => (st2, ROk (SVInt (x + y)))
            | (st2, ROk _) => (st2, RStuck "add of a non-number")
            | r => r
            end
        | (st1, ROk _) => (st1, RStuck "add of a non-number")
        | r => r
        end
    | ECall f args =>
        match read_var st en f with
        | ROk callee => call callee args st
        | RThrow x => (st, RThrow x)
        | RAbort x => (st, RAbort x)
        | RStuck w => (st, RStuck w)
        end
    | EVecNew => (mkSst (s_cells st) (s_globals st) (s_vecs st ++ [[]])%list (s_out st), ROk (SVVec (List.length (s_vecs st))))
    | ECallIdx v k args =>
        match read_var st en v with
        | ROk (SVVec id) =>
            match nth_error (nth id (s_vecs st) []) k with
            | Some callee => call callee args st
            | None => (st, RStuck "index out of range")
            end
        | ROk _ => (st, RStuck "index of a non-vec")
        | RThrow x => (st, RThrow x)
        | RAbort x => (st, RAbort x)
        | RStuck w => (st, RStuck w)
        end
    end
  end

with exec_stmt (fuel : nat) (s : stmt) (en : env) (top : bool) (st : sst) {struct fuel} : sst * env * ctl :=
  match fuel with
  | 0 => (st, en, CStuck "fuel")
  | S fu =>
    let ev := fun (e : expr) (k : sst -> sval -> sst * env * ctl) =>
      match eval_expr fu e en st with
      | (st1, ROk v) => k st1 v
      | (st1, RThrow x) => (st1, en, CThrow x)
      | (st1, RAbort x) => (st1, en, CAbort x)
      | (st1, RStuck w) => (st1, en, CStuck w)
      end in
    match s with
    | SDecl x e => ev e (fun st1 v => let (st2, en') := declare top st1 en x v in (st2, en', CNorm))
    | SAssign x e => ev e (fun st1 v => match write_var st1 en x v with
                                        | Some st2 => (st2, en, CNorm)
                                        | None => (st1, en, CStuck "assignment to an undefined global")
                                        end)
    | SPrint e => ev e (fun st1 v => (mkSst (s_cells st1) (s_globals st1) (s_vecs st1) (show_sval v :: s_out st1), en, CNorm))
    | SExpr e => ev e (fun st1 _ => (st1, en, CNorm))
    | SBlock b => let '(st1, _, c) := exec_list fu b en false st in (st1, en, c)
    | SFun f ps b =>
        if top then (set_global st f (SVClo ps b []), en, CNorm)
        else let (st1, c) := new_cell st SVNil in
             let en' := (f, c) :: en in
             (set_cell st1 c (SVClo ps b en'), en', CNorm)
    | SLam x ps b =>
        let (st1, en') := declare top st en x (SVClo ps b en) in (st1, en', CNorm)
    | SLoop i n b =>
        (* ONE variable for the whole loop (for_statement declares it in the loop's outer scope);
           the body's variables are fresh in every iteration; after exhaustion the loop variable
           holds the StopIter value that ended the loop (it is assigned before it is tested) *)
        let (st1, c) := new_cell st SVNil in
        let en' := (i, c) :: en in
        let iter := fix go (todo : nat) (k : nat) (st : sst) : sst * ctl :=
          match todo with
          | 0 => (set_cell st c SVStop, CNorm)
          | S todo' =>
              match exec_list fu b en' false (set_cell st c (SVInt (Z.of_nat k))) with
              | (st2, _, CNorm) => go todo' (S k) st2
              | (st2, _, CCont) => go todo' (S k) st2
              | (st2, _, CBreak) => (st2, CNorm)
              | (st2, _, c') => (st2, c')
              end
          end in
        let (st3, c') := iter n 0 st1 in (st3, en, c')
    | SIf a c t e =>
        ev a (fun st1 va =>
          match eval_expr fu c en st1 with
          | (st2, ROk vc) =>
              match va, vc with
              | SVInt x, SVInt y =>
                  let '(st3, _, c') := exec_list fu (if Z.ltb x y then t else e) en false st2 in (st3, en, c')
              | _, _ => (st2, en, CStuck "comparison of a non-number")
              end
          | (st2, RThrow x) => (st2, en, CThrow x)
          | (st2, RAbort x) => (st2, en, CAbort x)
          | (st2, RStuck w) => (st2, en, CStuck w)
          end)
    | SBreak => (st, en, CBreak)
    | SContinue => (st, en, CCont)
    | SReturn e => ev e (fun st1 v => (st1, en, CRet v))
    | SThrow e => ev e (fun st1 v => (st1, en, CThrow v))
    | STry b x h =>
        match exec_list fu b en false st with
        | (st1, _, CThrow v) =>
            let (st2, c) := new_cell st1 v in
            let '(st3, _, c') := exec_list fu h ((x, c) :: en) false st2 in (st3, en, c')
        | (st1, _, c') => (st1, en, c')
        end
    | SFiber b =>
        match exec_list fu b en false st with
        | (st1, _, CNorm) => (st1, en, CNorm)
        | (st1, _, CRet _) => (st1, en, CNorm)
        | (st1, _, CThrow v) => (st1, en, CAbort v)   (* handlers are per fiber *)
        | (st1, _, CAbort v) => (st1, en, CAbort v)
        | (st1, _, CStuck w) => (st1, en, CStuck w)
        | (st1, _, _) => (st1, en, CStuck "break outside loop")
        end
    | SVPush v e =>
        match read_var st en v with
        | ROk (SVVec id) =>
            ev e (fun st1 x =>
              (mkSst (s_cells st1) (s_globals st1)
                     (set_nth (s_vecs st1) id (nth id (s_vecs st1) [] ++ [x])%list) (s_out st1), en, CNorm))
        | ROk _ => (st, en, CStuck "push on a non-vec")
        | RThrow x => (st, en, CThrow x)
        | RAbort x => (st, en, CAbort x)
        | RStuck w => (st, en, CStuck w)
        end
    end
  end

with exec_list (fuel : nat) (ss : list stmt) (en : env) (top : bool) (st : sst) {struct fuel} : sst * env * ctl :=
  match fuel with
  | 0 => (st, en, CStuck "fuel")
  | S fu =>
    match ss with
    | [] => (st, en, CNorm)
    | s :: r =>
        match exec_stmt fu s en top st with
        | (st1, en1, CNorm) => exec_list fu r en1 top st1
        | other => other
        end
    end
  end.

End Eval.

Definition s_empty : sst := mkSst [] [] [] [].

(* outcome as text: printed lines joined by '|', then '#', then ok / err / stuck:<why> *)
Definition show_outcome (out : list string) (status : string) : string :=
  show_sep "|" (fun s => s) (rev out) ++ "#" ++ status.

Definition eval_cells_fuel (fuel : nat) (p : prog) : string :=
  match exec_list fuel p [] true s_empty with
  | (st, _, CNorm) => show_outcome (s_out st) "ok"
  | (st, _, CThrow _) => show_outcome (s_out st) "err"
  | (st, _, CAbort _) => show_outcome (s_out st) "err"
  | (st, _, CStuck w) => show_outcome (s_out st) ("stuck:" ++ w)
  | (st, _, _) => show_outcome (s_out st) "stuck:control"
  end.

Definition default_fuel : nat := 4000.
Definition eval_cells (p : prog) : string := eval_cells_fuel default_fuel p.
