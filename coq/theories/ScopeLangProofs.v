(* C06 - proofs about the static half (ScopeComp.v): which declaration a name resolves to, what the
   upvalue index chain built through n enclosing functions denotes at run time, and the agreement of
   the compiled mini-language with the reference evaluator (bounded-exhaustive + witnesses for the two
   repaired defect classes). *)
From Coq Require Import List Arith Bool String Ascii ZArith NArith Lia.
From YV Require Import Show Upvalues ScopeLang ScopeComp.
Import ListNotations.
Open Scope nat_scope.

(* ------------------------------------------------------------------------------------------ *)
(* 1. resolve_local picks the NEWEST declaration of the name that is still in scope (locals are kept
      newest first and leave the list at scope end), find_enclosing the INNERMOST function that has one *)

Lemma resolve_local_newest : forall ls x slot b,
  resolve_local ls x = Some (slot, b) ->
  exists newer l older,
    ls = (newer ++ l :: older)%list /\ List.length older = slot /\ name_is l x = true /\
    (b = match l_depth l with Some _ => true | None => false end) /\
    forall l', In l' newer -> name_is l' x = false.
Proof.
  induction ls as [|l r IH]; intros x slot b H; cbn in H; [discriminate|].
  destruct (name_is l x) eqn:E.
  - inversion H; subst. exists [], l, r. repeat split; auto. intros l' [].
  - destruct (IH _ _ _ H) as (nw & l0 & od & -> & Hlen & Hn & Hb & Hnew).
    exists (l :: nw), l0, od. repeat split; auto.
    intros l' [<-|Hin]; auto.
Qed.

Lemma resolve_local_none : forall ls x,
  resolve_local ls x = None -> forall l, In l ls -> name_is l x = false.
Proof.
  induction ls as [|l r IH]; intros x H l0 Hin; [destruct Hin|].
  cbn in H. destruct (name_is l x) eqn:E; [discriminate|].
  destruct Hin as [<-|Hin]; auto.
Qed.

Lemma find_enclosing_innermost : forall cs x k slot,
  find_enclosing cs x = Some (k, slot) ->
  resolve_local (fc_locals (nth k cs (new_fcomp true))) x = Some (slot, true) /\
  forall j, j < k -> forall s, resolve_local (fc_locals (nth j cs (new_fcomp true))) x <> Some (s, true).
Proof.
  induction cs as [|c r IH]; intros x k slot H; cbn in H; [discriminate|].
  destruct (resolve_local (fc_locals c) x) as [[s0 [|]]|] eqn:E.
  - inversion H; subst. split; [exact E|]. intros j Hj; lia.
  - destruct (find_enclosing r x) as [[k' s']|] eqn:F; [|discriminate].
    inversion H; subst. destruct (IH _ _ _ F) as [H1 H2]. split; [exact H1|].
    intros [|j] Hj s; cbn.
    + rewrite E. intro Hc; inversion Hc.
    + apply H2. lia.
  - destruct (find_enclosing r x) as [[k' s']|] eqn:F; [|discriminate].
    inversion H; subst. destruct (IH _ _ _ F) as [H1 H2]. split; [exact H1|].
    intros [|j] Hj s; cbn.
    + rewrite E. discriminate.
    + apply H2. lia.
Qed.

(* ------------------------------------------------------------------------------------------ *)
(* 2. the upvalue index chain *)

Section Chain.
Variable A : Type.     (* upvalue objects (run time) *)
Variable d : A.

(* vm.rs closure_impl: the upvalue array of a new closure, built in the frame of the function that
   contains the closure expression: an is_local descriptor captures a slot of that frame, the others
   copy an entry of that frame's own upvalue array *)
Definition build_ups (descs : ups_t) (cap : nat -> A) (parent : list A) : list A :=
  map (fun u : nat * bool => if snd u then cap (fst u) else nth (fst u) parent d) descs.

(* uss = descriptor lists of the functions f0 (innermost) .. f_{n-1}; pcaps[j] = "capture slot" of the
   frame in which the closure of f_j is created (the frame of f_{j+1}; for j = n-1 the frame of the
   declaring function); top = the declaring function's own upvalue array *)
Fixpoint runtime_ups (uss : list ups_t) (pcaps : list (nat -> A)) (top : list A) : list A :=
  match uss, pcaps with
  | u :: rest, c :: crest => build_ups u c (runtime_ups rest crest top)
  | _, _ => top
  end.

Lemma find_up_sound : forall u idx isloc k0 k,
  find_up u idx isloc k0 = Some k -> k0 <= k /\ nth_error u (k - k0) = Some (idx, isloc).
Proof.
  induction u as [|[i l] r IH]; intros idx isloc k0 k H; cbn in H; [discriminate|].
  destruct ((i =? idx) && Bool.eqb l isloc) eqn:E.
  - inversion H; subst. apply andb_prop in E as [E1 E2].
    apply Nat.eqb_eq in E1. apply Bool.eqb_prop in E2. subst.
    rewrite Nat.sub_diag. split; [lia|reflexivity].
  - destruct (IH _ _ _ _ H) as [Hle Hn]. split; [lia|].
    replace (k - k0) with (S (k - S k0)) by lia. exact Hn.
Qed.

Lemma add_upvalue_spec : forall maxu u idx isloc u' k,
  add_upvalue maxu u idx isloc = (u', k, false) ->
  nth_error u' k = Some (idx, isloc) /\ exists ext, u' = (u ++ ext)%list.
Proof.
  intros maxu u idx isloc u' k H. unfold add_upvalue in H.
  destruct (find_up u idx isloc 0) as [k1|] eqn:F.
  - inversion H; subst. destruct (find_up_sound _ _ _ _ _ F) as [_ Hn].
    rewrite Nat.sub_0_r in Hn. split; [exact Hn|]. exists []. now rewrite app_nil_r.
  - destruct (List.length u =? maxu); [discriminate|]. inversion H; subst. split.
    + rewrite nth_error_app2 by lia. now rewrite Nat.sub_diag.
    + now exists [(idx, isloc)].
Qed.

Lemma build_ups_nth : forall descs cap parent k idx isloc,
  nth_error descs k = Some (idx, isloc) ->
  nth k (build_ups descs cap parent) d = if isloc then cap idx else nth idx parent d.
Proof.
  intros descs cap parent. induction descs as [|u r IH]; intros k idx isloc H.
  - destruct k; discriminate.
  - destruct k as [|k]; cbn in H |- *.
    + inversion H; subst. reflexivity.
    + apply IH. exact H.
Qed.

(* THE CHAIN: the index handed to the innermost function denotes, at run time, the upvalue obtained by
   capturing the declaration's slot in the declaring function's frame - through any number n >= 1 of
   functions in between (induction on n). *)
Theorem resolve_index_chain : forall maxu uss slot uss' k pcaps top,
  uss <> [] -> List.length pcaps = List.length uss ->
  chain_ups maxu uss slot = (uss', k, false) ->
  nth k (runtime_ups uss' pcaps top) d = (last pcaps (fun _ => d)) slot.
Proof.
  intros maxu uss. induction uss as [|u rest IH]; intros slot uss' k pcaps top Hne Hlen H; [congruence|].
  destruct pcaps as [|c crest]; [discriminate|]. cbn in Hlen.
  destruct rest as [|u2 rest'].
  - (* n = 1: the function directly inside the declaring one *)
    cbn in H. destruct (add_upvalue maxu u slot true) as [[u' k'] e] eqn:E.
    inversion H; subst. destruct crest; [|discriminate].
    destruct (add_upvalue_spec _ _ _ _ _ _ E) as [Hn _].
    cbn. erewrite build_ups_nth by exact Hn. reflexivity.
  - (* n > 1 *)
    remember (u2 :: rest') as rest eqn:Hr.
    assert (Hc : chain_ups maxu (u :: rest) slot =
                 let '(rest1, k1, e1) := chain_ups maxu rest slot in
                 let '(u1, k0, e) := add_upvalue maxu u k1 false in (u1 :: rest1, k0, e1 || e)).
    { subst rest. reflexivity. }
    rewrite Hc in H. clear Hc.
    destruct (chain_ups maxu rest slot) as [[rest1 k1] e1] eqn:C.
    destruct (add_upvalue maxu u k1 false) as [[u1 k0] e] eqn:E.
    inversion H; subst uss' k. apply orb_false_elim in H3 as [-> ->].
    destruct (add_upvalue_spec _ _ _ _ _ _ E) as [Hn _].
    destruct crest as [|c2 crest']; [subst rest; discriminate|].
    assert (Hrest : rest <> []) by (subst rest; discriminate).
    specialize (IH slot rest1 k1 (c2 :: crest') top Hrest ltac:(cbn in *; lia) C).
    cbn [runtime_ups]. erewrite build_ups_nth by exact Hn.
    rewrite IH. reflexivity.
Qed.

(* indices handed out earlier keep their meaning: chain_ups only appends *)
Lemma chain_ups_extends : forall maxu uss slot uss' k e,
  chain_ups maxu uss slot = (uss', k, e) ->
  Forall2 (fun u u' => exists ext, u' = (u ++ ext)%list) uss uss'.
Proof.
  intros maxu uss. induction uss as [|u rest IH]; intros slot uss' k e H.
  - cbn in H. inversion H. constructor.
  - destruct rest as [|u2 rest'].
    + cbn in H. destruct (add_upvalue maxu u slot true) as [[u' k'] e'] eqn:E. inversion H; subst.
      constructor; [|constructor]. unfold add_upvalue in E.
      destruct (find_up u slot true 0); [inversion E; subst; exists []; now rewrite app_nil_r|].
      destruct (List.length u =? maxu); inversion E; subst; [exists []; now rewrite app_nil_r|now exists [(slot, true)]].
    + remember (u2 :: rest') as rest eqn:Hr.
      assert (Hc : chain_ups maxu (u :: rest) slot =
                   let '(rest1, k1, e1) := chain_ups maxu rest slot in
                   let '(u1, k0, e) := add_upvalue maxu u k1 false in (u1 :: rest1, k0, e1 || e)).
      { subst rest. reflexivity. }
      rewrite Hc in H. clear Hc.
      destruct (chain_ups maxu rest slot) as [[rest1 k1] e1] eqn:C.
      destruct (add_upvalue maxu u k1 false) as [[u1 k0] e0] eqn:E.
      inversion H; subst. constructor; [|eapply IH; eauto].
      unfold add_upvalue in E.
      destruct (find_up u k1 false 0); [inversion E; subst; exists []; now rewrite app_nil_r|].
      destruct (List.length u =? maxu); inversion E; subst; [exists []; now rewrite app_nil_r|now exists [(k1, false)]].
Qed.

End Chain.

Print Assumptions resolve_index_chain.

(* the hypotheses are satisfiable: three functions between use and declaration, the middle one already
   holds another upvalue, the innermost already holds this very chain (dedup) *)
Example resolve_index_chain_ex :
  chain_ups 256 [[(0, false)]; [(7, true)]; []] 3 = ([[(0, false); (1, false)]; [(7, true); (0, false)]; [(3, true)]], 1, false)
  /\ chain_ups 256 [[(0, false); (1, false)]; [(7, true); (0, false)]; [(3, true)]] 3
     = ([[(0, false); (1, false)]; [(7, true); (0, false)]; [(3, true)]], 1, false).
Proof. split; vm_compute; reflexivity. Qed.

(* ------------------------------------------------------------------------------------------ *)
(* 3. compile_scope_correct.
   FULL STATEMENT (not proved):
     forall cf p, c_break_pops_first cf = true -> c_unwind_closes cf = true ->
       compile_scope cf p <> None -> eval_cells p = run_m cf p
     (up to fuel, and outside `var x = || .. x ..` where the real resolver skips the uninitialised x).
   What is missing: a simulation between environments of cells and (frame, slot | upvalue index)
   through the compiler's scope tracking for the nested-inductive AST; Upvalues/Cells give the run-time
   half (upvalues_refine_cells), resolve_index_chain / resolve_local_newest the static half.
   PROVED instead: the statement for EVERY program of two bounded families, by computation, with the
   repaired configuration; and that it FAILS for the two configurations /repo shipped with. *)

Definition cfg_fixed : cfg := mkCfg 256 256 true true false.
Definition cfg_shipped_break : cfg := mkCfg 256 256 false true false.
Definition cfg_shipped_unwind : cfg := mkCfg 256 256 true false false.

Definition agree (cf : cfg) (p : prog) : bool :=
  match compile_scope cf p with
  | Some _ => String.eqb (eval_cells p) (run_m cf p)
  | None => true
  end.

(* family 1: every statement list of at most 3 statements over a small alphabet, each optionally inside
   a block / a function called once / a loop / a fiber *)
Definition x1 := 1. Definition x2 := 2. Definition x3 := 3.
Definition inc1 : list stmt := [SAssign x1 (EAdd (EVar x1) (ELit 1)); SReturn (EVar x1)].
Definition alphabet : list stmt :=
  [ SDecl x1 (ELit 1);
    SDecl x2 (ELit 5);
    SAssign x1 (EAdd (EVar x1) (ELit 2));
    SPrint (EVar x1);
    SLam x2 [] inc1;
    SFun x2 [] [SReturn (EVar x1)];
    SPrint (ECall x2 []);
    SBlock [SDecl x1 (ELit 7); SLam x3 [] inc1; SAssign x2 (EVar x3)];
    SLoop x3 2 [SDecl x1 (EVar x3); SLam x2 [] inc1; SIf (EVar x3) (ELit 1) [] [SBreak]] ].

Fixpoint lists_upto (n : nat) : list (list stmt) :=
  match n with
  | 0 => [[]]
  | S k => [] :: flat_map (fun l => map (fun s => s :: l) alphabet) (lists_upto k)
  end.

Definition wrappers : list (list stmt -> prog) :=
  [ fun b => b;
    fun b => [SBlock b];
    fun b => [SFun 9 [] b; SExpr (ECall 9 [])];
    fun b => [SLoop 9 2 b];
    fun b => [SFiber b] ].

Definition family1 : list prog :=
  flat_map (fun b => map (fun w => w (SLam x2 [] [SReturn (ELit 0)] :: b)) wrappers) (lists_upto 3).

(* family 2: scope x capture shape x what happens after the capture x how the scope is left *)
Definition scopes2 : list (list stmt -> list stmt) :=
  [ fun b => [SBlock b];
    fun b => [SFun 9 [] b; SExpr (ECall 9 [])];
    fun b => [SFun 9 [8] b; SExpr (ECall 9 [ELit 4])];
    fun b => [SLoop 9 2 b];
    fun b => [SLoop 9 3 (b ++ [SIf (EVar 9) (ELit 1) [] [SBreak]])%list];
    fun b => [SLoop 9 3 (SIf (EVar 9) (ELit 1) [SContinue] [] :: b)];
    fun b => [SFiber b];
    fun b => [SFun 9 [] (b ++ [SThrow (ELit 7)])%list; STry [SExpr (ECall 9 [])] 8 [SPrint (EVar 8)]] ].
Definition shapes2 : list (list stmt) :=
  [ [SDecl x1 (ELit 1); SLam x3 [] inc1; SAssign 5 (EVar x3)];
    [SDecl x2 (ELit 9); SDecl x1 (ELit 1); SLam x3 [] inc1; SAssign 5 (EVar x3); SLam 4 [] [SReturn (EAdd (EVar x1) (EVar x2))]; SAssign 6 (EVar 4)];
    [SDecl x1 (ELit 1); SFun x3 [] [SLam 4 [] inc1; SReturn (EVar 4)]; SAssign 5 (ECall x3 [])];
    [SDecl x1 (ELit 1); SFun x3 [] [SFun 4 [] [SLam 7 [] inc1; SReturn (EVar 7)]; SReturn (ECall 4 [])]; SAssign 5 (ECall x3 []); SLam 4 [] [SReturn (EVar x1)]; SAssign 6 (EVar 4)];
    [SDecl x1 (ELit 1); SBlock [SDecl x1 (ELit 50); SLam x3 [] inc1; SAssign 6 (EVar x3)]; SLam x3 [] inc1; SAssign 5 (EVar x3)] ].
Definition afters2 : list (list stmt) :=
  [ []; [SAssign x1 (EAdd (EVar x1) (ELit 10))]; [SPrint (ECall 5 [])]; [SDecl 7 (ELit 3); SPrint (EVar 7)] ].
Definition observe2 : list stmt :=
  [SDecl 7 (ELit 2000); SPrint (ECall 5 []); SPrint (ECall 6 []); SPrint (ECall 5 []); SPrint (EVar 7)].

Definition family2 : list prog :=
  flat_map (fun sc => flat_map (fun sh => map (fun af =>
    [SLam 5 [] [SReturn (ELit 0)]; SLam 6 [] [SReturn (ELit 0)]] ++ sc (sh ++ af) ++ [SBlock observe2])%list
    afters2) shapes2) scopes2.

Theorem compile_scope_correct_partial :
  forall p, In p (family1 ++ family2)%list -> agree cfg_fixed p = true.
Proof.
  assert (H : forallb (agree cfg_fixed) (family1 ++ family2)%list = true) by (vm_compute; reflexivity).
  intros p Hin. exact (proj1 (forallb_forall _ _) H p Hin).
Qed.

Print Assumptions compile_scope_correct_partial.

(* the families are not vacuous: sizes, and how many members compile and are not stuck in the Spec *)
Definition live (p : prog) : bool :=
  match compile_scope cfg_fixed p with
  | Some _ => negb (existsb (fun c => Ascii.eqb c "s"%char) (list_ascii_of_string (eval_cells p)))   (* no "stuck" *)
  | None => false
  end.
Example families_sizes :
  (List.length family1, List.length family2) = (4100, 160).
Proof. vm_compute. reflexivity. Qed.
Definition live_count : nat := List.length (filter live (family1 ++ family2)%list).
Example families_live : live_count = 951.   (* compile and run to completion inside the typed fragment *)
Proof. vm_compute. reflexivity. Qed.

(* ------------------------------------------------------------------------------------------ *)
(* 4. the two defect classes /repo shipped with, at the level of the mini-language (both repaired by
      now; the model keeps the shipped behaviour behind the cfg flags the translator regenerates) *)

Definition witness_break : prog :=
  [SBlock [SDecl 1 (ELit 1);
           SLoop 2 3 [SDecl 3 (ELit 7); SDecl 4 (ELit 8); SIf (EVar 2) (ELit 1) [] [SBreak]];
           SDecl 5 (ELit 4); SPrint (EVar 5); SPrint (EVar 1)]].

Theorem compile_scope_refuted_break_dead_pops :
  exists p, eval_cells p <> run_m cfg_shipped_break p /\ eval_cells p = run_m cfg_fixed p.
Proof.
  exists witness_break. split; [|vm_compute; reflexivity].
  vm_compute. intro H. discriminate H.
Qed.

Definition witness_unwind : prog :=
  [SLam 9 [] [SReturn (ELit 0)];
   SFun 1 [] [SDecl 2 (ELit 5); SLam 3 [] [SAssign 2 (EAdd (EVar 2) (ELit 1)); SReturn (EVar 2)];
              SAssign 9 (EVar 3); SThrow (ELit 7)];
   STry [SExpr (ECall 1 [])] 8 [SPrint (EVar 8)];
   SBlock [SDecl 4 (ELit 2000); SDecl 5 (ELit 3000); SPrint (ECall 9 []); SPrint (EVar 4)]].

Theorem compile_scope_refuted_unwind :
  exists p, eval_cells p <> run_m cfg_shipped_unwind p /\ eval_cells p = run_m cfg_fixed p.
Proof.
  exists witness_unwind. split; [|vm_compute; reflexivity].
  vm_compute. intro H. discriminate H.
Qed.

Print Assumptions compile_scope_refuted_break_dead_pops.
Print Assumptions compile_scope_refuted_unwind.
